#!/bin/sh
# Builds the verification-condition generator from files on disk only (x/tools is vendored).
set -e
cd "$(dirname "$0")/govc"
GO126=/root/go/pkg/mod/golang.org/toolchain@v0.0.1-go1.26.0.linux-amd64/bin/go
[ -x "$GO126" ] || GO126=/opt/veriftools/go1.26.8/bin/go
mkdir -p ../bin
GOFLAGS=-mod=vendor GOPROXY=off GOTOOLCHAIN=local "$GO126" build -o ../bin/govc .
