package config

import (
	"encoding/json"
	"path/filepath"
	"testing"
)

// Bounded stand-in for the trusted contract of setPropsFromMapRecursive (a reflection walk),
// C16 part: an update whose shape does not fit the configuration tree - a section named with a
// value that is not an object, a leaf named with an object, null, nested arrays - is refused or
// ignored, it never panics.  Bound: every section and every leaf of the default tree, each with
// the misfit values listed below.
func TestGovcBoundedMisshapenUpdatesDoNotPanic(t *testing.T) {
	oldPath := configPath
	defer func() { configPath = oldPath }()
	base, _ := json.Marshal(NewDefault())
	var tree map[string]any
	json.Unmarshal(base, &tree)
	misfits := []any{5.0, nil, "x", true, []any{1.0, "a"}, map[string]any{"no_such_key": 1.0}, map[string]any{"file": "x"}, []any{}}
	var paths [][]string
	var walk func(m map[string]any, pre []string)
	walk = func(m map[string]any, pre []string) {
		for k, v := range m {
			p := append(append([]string{}, pre...), k)
			paths = append(paths, p)
			if sub, ok := v.(map[string]any); ok {
				walk(sub, p)
			}
		}
	}
	walk(tree, nil)
	n := 0
	for _, p := range paths {
		for _, mv := range misfits {
			upd := map[string]any{}
			cur := upd
			for i, k := range p {
				if i == len(p)-1 {
					cur[k] = mv
				} else {
					nx := map[string]any{}
					cur[k] = nx
					cur = nx
				}
			}
			cfg := NewDefault()
			configPath.Path = filepath.Join(t.TempDir(), "config.json")
			func() {
				defer func() {
					if r := recover(); r != nil {
						b, _ := json.Marshal(upd)
						t.Errorf("update %s panicked: %v", b, r)
					}
				}()
				UpdatePartialFromConfig(cfg, upd)
			}()
			n++
		}
	}
	if n < 100 {
		t.Fatalf("only %d updates tried", n)
	}
}
