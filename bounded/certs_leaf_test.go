package certs

import (
	"crypto"
	"crypto/ecdsa"
	"crypto/ed25519"
	"crypto/rsa"
	"crypto/elliptic"
	"crypto/rand"
	"crypto/tls"
	"crypto/x509"
	"crypto/x509/pkix"
	"math/big"
	"net"
	"testing"
	"time"

	"reservoir/utils/syncmap"
)

// govcTestCA makes a CA whose signing key is of the given kind: the operator's CA key may be
// ECDSA, RSA or Ed25519 (loadX509KeyPair accepts all three), the leaf keys are always P-256.
func govcTestCA(t *testing.T, kind string) *PrivateCA {
	var key crypto.Signer
	var err error
	switch kind {
	case "rsa":
		key, err = rsa.GenerateKey(rand.Reader, 2048)
	case "ed25519":
		_, key, err = ed25519.GenerateKey(rand.Reader)
	default:
		key, err = ecdsa.GenerateKey(elliptic.P256(), rand.Reader)
	}
	if err != nil {
		t.Fatal(err)
	}
	tmpl := &x509.Certificate{
		SerialNumber:          big.NewInt(1),
		Subject:               pkix.Name{CommonName: "govc test CA"},
		NotBefore:             time.Now().Add(-30 * 24 * time.Hour), // a CA that has been in use for a month
		NotAfter:              time.Now().Add(365 * 24 * time.Hour),
		IsCA:                  true,
		KeyUsage:              x509.KeyUsageCertSign,
		BasicConstraintsValid: true,
	}
	der, err := x509.CreateCertificate(rand.Reader, tmpl, tmpl, key.Public(), key)
	if err != nil {
		t.Fatal(err)
	}
	cert, err := x509.ParseCertificate(der)
	if err != nil {
		t.Fatal(err)
	}
	return &PrivateCA{key: key, cert: cert, certs: syncmap.New[string, *tls.Certificate]()}
}

// Bounded stand-in for the trusted contract of createCert (crypto/x509 template and
// signing are outside the verifier's reach): for each CONNECT target form the leaf
// certificate names exactly that host, is inside its validity period, chains to the CA,
// matches its private key; it is reused while valid and replaced once expired.
// Bound: the host forms listed below (DNS names, IPv4, IPv6 literals, several ports), for a CA
// signing key of each kind the loader accepts (ECDSA P-256, RSA 2048, Ed25519).
func TestGovcBoundedLeafCertificates(t *testing.T) {
	for _, kind := range []string{"ecdsa", "rsa", "ed25519"} {
		t.Run("ca-key-"+kind, func(t *testing.T) { govcBoundedLeafCertificates(t, kind) })
	}
}

func govcBoundedLeafCertificates(t *testing.T, kind string) {
	ca := govcTestCA(t, kind)
	pool := x509.NewCertPool()
	pool.AddCert(ca.cert)
	targets := []string{"example.com:443", "a-b.c.example:8443", "xn--bcher-kva.example:443", "127.0.0.1:443", "10.1.2.3:1", "[::1]:443", "[2001:db8::1]:8443", "localhost:65535"}
	for _, target := range targets {
		host, _, err := net.SplitHostPort(target)
		if err != nil {
			t.Fatal(err)
		}
		c, err := ca.GetCertForHost(target)
		if err != nil {
			t.Errorf("%s: %v", target, err)
			continue
		}
		leaf := c.Leaf
		if leaf == nil {
			t.Errorf("%s: Leaf not populated", target)
			continue
		}
		if err := leaf.VerifyHostname(host); err != nil {
			t.Errorf("%s: certificate does not name the host: %v", target, err)
		}
		if n := len(leaf.DNSNames) + len(leaf.IPAddresses); n != 1 {
			t.Errorf("%s: certificate names %d hosts (DNS %v, IP %v)", target, n, leaf.DNSNames, leaf.IPAddresses)
		}
		now := time.Now()
		if now.Before(leaf.NotBefore) || now.After(leaf.NotAfter) {
			t.Errorf("%s: outside validity period %v..%v", target, leaf.NotBefore, leaf.NotAfter)
		}
		if _, err := leaf.Verify(x509.VerifyOptions{Roots: pool, KeyUsages: []x509.ExtKeyUsage{x509.ExtKeyUsageServerAuth}}); err != nil {
			t.Errorf("%s: does not chain to the CA: %v", target, err)
		}
		priv, ok := c.PrivateKey.(*ecdsa.PrivateKey)
		if !ok || !priv.PublicKey.Equal(leaf.PublicKey) {
			t.Errorf("%s: private key does not match the certificate", target)
		}
		// reused while valid, also for another port of the same host
		again, err := ca.GetCertForHost(host + ":9")
		if host[0] != '[' && net.ParseIP(host) != nil && net.ParseIP(host).To4() == nil {
			again, err = ca.GetCertForHost("[" + host + "]:9")
		}
		if err != nil || again != c {
			t.Errorf("%s: a valid certificate was not reused (%v)", target, err)
		}
		// replaced once expired
		expired := *leaf
		expired.NotAfter = time.Now().Add(-time.Second)
		c.Leaf = &expired
		fresh, err := ca.GetCertForHost(target)
		if err != nil || fresh == c || fresh.Leaf.NotAfter.Before(time.Now()) {
			t.Errorf("%s: an expired certificate was not replaced (%v)", target, err)
		}
	}
	if _, err := ca.GetCertForHost("no-port.example"); err == nil {
		t.Errorf("a target without a port was accepted")
	}
}
