package config

import (
	"encoding/json"
	"os"
	"path/filepath"
	"testing"
)

// Bounded stand-in for the trusted contract of checkIsSetRecursive (a reflection
// walk the verifier does not translate): a configuration file that lacks any ONE
// property of the configuration tree is rejected by load().  Bound: every single
// leaf of the default tree, one at a time; combinations are not enumerated.
func TestGovcBoundedEveryMissingPropRejected(t *testing.T) {
	b, err := json.Marshal(NewDefault())
	if err != nil {
		t.Fatal(err)
	}
	var tree map[string]any
	if err := json.Unmarshal(b, &tree); err != nil {
		t.Fatal(err)
	}
	var paths [][]string
	var walk func(m map[string]any, pre []string)
	walk = func(m map[string]any, pre []string) {
		for k, v := range m {
			p := append(append([]string{}, pre...), k)
			if sub, ok := v.(map[string]any); ok {
				walk(sub, p)
			} else {
				paths = append(paths, p)
			}
		}
	}
	walk(tree, nil)
	if len(paths) < 10 {
		t.Fatalf("only %d leaves found", len(paths))
	}
	dir := t.TempDir()
	// the complete file loads
	full := filepath.Join(dir, "full.json")
	os.WriteFile(full, b, 0o644)
	if _, err := load(full); err != nil {
		t.Fatalf("the complete default configuration does not load: %v", err)
	}
	for _, p := range paths {
		var cp map[string]any
		json.Unmarshal(b, &cp)
		m := cp
		for _, k := range p[:len(p)-1] {
			m = m[k].(map[string]any)
		}
		delete(m, p[len(p)-1])
		out, _ := json.Marshal(cp)
		f := filepath.Join(dir, "c.json")
		os.WriteFile(f, out, 0o644)
		if _, err := load(f); err == nil {
			t.Errorf("a configuration file without %v was accepted", p)
		}
	}
}
