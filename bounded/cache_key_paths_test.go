package cache

import (
	"net/http"
	"net/url"
	"strings"
	"testing"
)

// reference: RFC 3986 dot-segment removal plus squeezing of duplicate slashes, keeping a
// trailing slash (a final "." or ".." segment names a directory).
func govcRefNorm(p string) string {
	segs := strings.Split(p, "/")
	var out []string
	dir := strings.HasSuffix(p, "/")
	for i, s := range segs {
		last := i == len(segs)-1
		switch s {
		case "":
		case ".":
			if last {
				dir = true
			}
		case "..":
			if len(out) > 0 {
				out = out[:len(out)-1]
			}
			if last {
				dir = true
			}
		default:
			out = append(out, s)
		}
	}
	r := "/" + strings.Join(out, "/")
	if dir && r != "/" {
		r += "/"
	}
	return r
}

// Bounded stand-in for the assumed characterisation of path.Clean: two paths get the same
// cache key exactly when they are equal up to dot-segments and duplicate slashes.
// Bound: every rooted path over the alphabet {"/", ".", "a", "b"} up to 7 characters.
func TestGovcBoundedPathNormalisation(t *testing.T) {
	alphabet := []string{"/", ".", "a", "b"}
	var paths []string
	var gen func(prefix string, n int)
	gen = func(prefix string, n int) {
		paths = append(paths, prefix)
		if n == 0 {
			return
		}
		for _, c := range alphabet {
			gen(prefix+c, n-1)
		}
	}
	gen("/", 6)
	byKey := map[string]string{} // key -> reference form of the first path seen
	byRef := map[string]string{} // reference form -> key
	bad := 0
	for _, p := range paths {
		r := &http.Request{Method: "GET", Host: "h", URL: &url.URL{Path: p}}
		k := MakeFromRequest(r).Hex
		ref := govcRefNorm(p)
		if prev, ok := byKey[k]; ok && prev != ref {
			bad++
			if bad < 6 {
				t.Errorf("%q (normal form %q) shares a key with a path whose normal form is %q", p, ref, prev)
			}
		}
		byKey[k] = ref
		if prev, ok := byRef[ref]; ok && prev != k {
			bad++
			if bad < 6 {
				t.Errorf("%q has normal form %q but not the key of the other paths with that normal form", p, ref)
			}
		}
		byRef[ref] = k
	}
	if len(paths) < 5000 {
		t.Fatalf("only %d paths enumerated", len(paths))
	}
}
