package config

import (
	"encoding/json"
	"path/filepath"
	"reflect"
	"testing"
)

// Bounded stand-in for the trusted contract of setPropsFromMapRecursive (a reflection
// walk): an accepted update of ONE property changes exactly that property - in the
// running settings and in the file the next start loads - and an ill-typed value for it
// is refused and changes nothing.  Bound: every leaf of the default configuration tree,
// one valid new value and one ill-typed value each.
func TestGovcBoundedUpdateChangesExactlyTheAddressedSetting(t *testing.T) {
	oldPath := configPath
	defer func() { configPath = oldPath }()
	newValue := func(path string, cur any) any {
		switch v := cur.(type) {
		case bool:
			return !v
		case float64:
			return v + 1
		case string:
			switch path {
			case "proxy.cache_policy.default_max_age", "cache.cleanup_interval":
				return "2h0m0s"
			case "cache.max_cache_size", "logging.max_size":
				return "11G"
			case "cache.type":
				return "file"
			case "logging.level":
				return "DEBUG"
			}
			return v + "x"
		}
		return nil
	}
	illTyped := func(cur any) any {
		switch cur.(type) {
		case bool:
			return "yes"
		case float64:
			return "many"
		case string:
			return 12.5
		}
		return nil
	}
	base, _ := json.Marshal(NewDefault())
	var tree map[string]any
	json.Unmarshal(base, &tree)
	type leaf struct {
		path []string
		val  any
	}
	var leaves []leaf
	var walk func(m map[string]any, pre []string)
	walk = func(m map[string]any, pre []string) {
		for k, v := range m {
			p := append(append([]string{}, pre...), k)
			if sub, ok := v.(map[string]any); ok {
				walk(sub, p)
			} else {
				leaves = append(leaves, leaf{p, v})
			}
		}
	}
	walk(tree, nil)
	if len(leaves) < 15 {
		t.Fatalf("only %d leaves", len(leaves))
	}
	nest := func(path []string, v any) map[string]any {
		out := map[string]any{path[len(path)-1]: v}
		for i := len(path) - 2; i >= 0; i-- {
			out = map[string]any{path[i]: out}
		}
		return out
	}
	get := func(m map[string]any, path []string) any {
		var cur any = m
		for _, k := range path {
			cur = cur.(map[string]any)[k]
		}
		return cur
	}
	set := func(m map[string]any, path []string, v any) {
		cur := m
		for _, k := range path[:len(path)-1] {
			cur = cur[k].(map[string]any)
		}
		cur[path[len(path)-1]] = v
	}
	for _, lf := range leaves {
		dotted := ""
		for i, k := range lf.path {
			if i > 0 {
				dotted += "."
			}
			dotted += k
		}
		nv := newValue(dotted, lf.val)
		if nv == nil {
			continue
		}
		cfg := NewDefault()
		dir := t.TempDir()
		configPath.Path = filepath.Join(dir, "config.json")
		// ill-typed: refused, nothing changes
		before, _ := json.Marshal(cfg)
		if _, err := UpdatePartialFromConfig(cfg, nest(lf.path, illTyped(lf.val))); err == nil {
			t.Errorf("%s: ill-typed value %v accepted", dotted, illTyped(lf.val))
		}
		after, _ := json.Marshal(cfg)
		if string(before) != string(after) {
			t.Errorf("%s: a refused (ill-typed) update changed the settings", dotted)
		}
		// valid: exactly this setting changes
		if _, err := UpdatePartialFromConfig(cfg, nest(lf.path, nv)); err != nil {
			t.Errorf("%s: valid value %v refused: %v", dotted, nv, err)
			continue
		}
		got, _ := json.Marshal(cfg)
		var gotTree map[string]any
		json.Unmarshal(got, &gotTree)
		var want map[string]any
		json.Unmarshal(base, &want)
		set(want, lf.path, get(gotTree, lf.path))
		if !reflect.DeepEqual(gotTree, want) {
			t.Errorf("%s: an update of this setting changed other settings too:\n got  %s\n base %s", dotted, got, base)
		}
		if reflect.DeepEqual(get(gotTree, lf.path), lf.val) {
			t.Errorf("%s: the accepted update did not change the setting (still %v)", dotted, lf.val)
		}
		// and it is what the next start loads
		loaded, err := load(configPath.Path)
		if err != nil {
			t.Errorf("%s: the file written by the accepted update does not load: %v", dotted, err)
			continue
		}
		lb, _ := json.Marshal(loaded)
		if string(lb) != string(got) {
			t.Errorf("%s: the next start would load %s, the running settings are %s", dotted, lb, got)
		}
	}
}
