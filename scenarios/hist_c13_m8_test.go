// place in: cache
package cache

import (
	"bytes"
	"fmt"
	"reservoir/config"
	"testing"
	"time"
)

// The store is filled to EXACTLY its configured limit (at the limit, not over it). The next
// store must evict down to 80% of the limit, least recently used first, before adding its entry.
func TestSeedC13M2_StoreAtExactlyTheLimitEvicts(t *testing.T) {
	ctx := t.Context()
	cfg := config.NewDefault()

	const limit = 1000
	// Periodic cycle effectively disabled: only the triggering store may evict.
	c := NewMemoryCache[TestMeta](cfg, 50, limit, time.Hour, 64, ctx)
	defer c.Destroy()

	keys := make([]CacheKey, 5)
	for i := range keys {
		keys[i] = FromString(fmt.Sprintf("seed-c13-m2-entry-%d", i))
		if _, err := c.Cache(keys[i], bytes.NewReader(make([]byte, 200)), time.Now().Add(time.Hour), TestMeta{}); err != nil {
			t.Fatalf("Cache %d failed: %v", i, err)
		}
		time.Sleep(5 * time.Millisecond) // distinct last-use times
	}
	if got := c.byteSize.Get(); got != limit {
		t.Fatalf("setup: store size %d, want exactly the limit %d", got, limit)
	}

	// A triggering key that shares its lock with none of the stored entries (those would be exempt).
	var trigger CacheKey
	for n := 0; ; n++ {
		trigger = FromString(fmt.Sprintf("seed-c13-m2-trigger-%d", n))
		shared := false
		for _, k := range keys {
			if getLock(c.locks, k) == getLock(c.locks, trigger) {
				shared = true
			}
		}
		if !shared {
			break
		}
	}

	if _, err := c.Cache(trigger, bytes.NewReader(make([]byte, 100)), time.Now().Add(time.Hour), TestMeta{}); err != nil {
		t.Fatalf("triggering store failed: %v", err)
	}

	// 80% of 1000 = 800 -> exactly one 200-byte entry (the least recently used) goes, then +100.
	if got, want := c.byteSize.Get(), int64(800+100); got != want {
		t.Errorf("store size after a store at the limit = %d, want %d (evicted down to 80%% of the limit, then the new entry)", got, want)
	}
	if _, _, err := c.GetMetadata(keys[0]); err != ErrCacheEntryNotFound {
		t.Errorf("least recently used entry still present after a store at the limit (err=%v)", err)
	}
	for i := 1; i < len(keys); i++ {
		if _, _, err := c.GetMetadata(keys[i]); err != nil {
			t.Errorf("entry %d was evicted although the target was reached without it: %v", i, err)
		}
	}
}
