// place in: tests
// A Range request that cannot be satisfied from the stored body must get exactly one
// response on a CONNECT tunnel; the exchange that follows it on the same tunnel must get
// its own response, the same one it gets on a tunnel of its own.
package tests

import (
	"bufio"
	"crypto/tls"
	"fmt"
	"io"
	"net"
	"net/http"
	"net/url"
	"testing"
	"time"
)

type c10m1Tunnel struct {
	conn net.Conn
	br   *bufio.Reader
	host string
}

func c10m1Open(t *testing.T, env *TestEnv) *c10m1Tunnel {
	t.Helper()
	pu, _ := url.Parse(env.ProxyServer.URL)
	uu, _ := url.Parse(env.Upstream.URL)
	c, err := net.Dial("tcp", pu.Host)
	if err != nil {
		t.Fatalf("dial proxy: %v", err)
	}
	c.SetDeadline(time.Now().Add(10 * time.Second))
	fmt.Fprintf(c, "CONNECT %s HTTP/1.1\r\nHost: %s\r\n\r\n", uu.Host, uu.Host)
	resp, err := http.ReadResponse(bufio.NewReader(c), &http.Request{Method: http.MethodConnect})
	if err != nil || resp.StatusCode != http.StatusOK {
		t.Fatalf("CONNECT failed: %v %v", err, resp)
	}
	tc := tls.Client(c, &tls.Config{InsecureSkipVerify: true})
	if err := tc.Handshake(); err != nil {
		t.Fatalf("TLS handshake in tunnel: %v", err)
	}
	t.Cleanup(func() { tc.Close() })
	return &c10m1Tunnel{conn: tc, br: bufio.NewReader(tc), host: uu.Host}
}

type c10m1Answer struct {
	status       int
	body         string
	contentRange string
}

func (s *c10m1Tunnel) get(t *testing.T, path, rng string) c10m1Answer {
	t.Helper()
	msg := fmt.Sprintf("GET %s HTTP/1.1\r\nHost: %s\r\n", path, s.host)
	if rng != "" {
		msg += "Range: " + rng + "\r\n"
	}
	msg += "\r\n"
	s.conn.SetDeadline(time.Now().Add(5 * time.Second))
	if _, err := io.WriteString(s.conn, msg); err != nil {
		t.Fatalf("GET %s (%s): write: %v", path, rng, err)
	}
	resp, err := http.ReadResponse(s.br, &http.Request{Method: http.MethodGet})
	if err != nil {
		t.Fatalf("GET %s (%s): read response: %v", path, rng, err)
	}
	b, err := io.ReadAll(resp.Body)
	if err != nil {
		t.Fatalf("GET %s (%s): read body: %v", path, rng, err)
	}
	return c10m1Answer{status: resp.StatusCode, body: string(b), contentRange: resp.Header.Get("Content-Range")}
}

func TestC10TunnelExchangeAfterUnsatisfiableRange(t *testing.T) {
	env := SetupHttpsTestEnv(t)
	env.Upstream.Config.Handler = http.HandlerFunc(func(w http.ResponseWriter, r *http.Request) {
		w.Header().Set("Cache-Control", "max-age=60")
		switch r.URL.Path {
		case "/a":
			w.Header().Set("Content-Length", "10")
			w.Write([]byte("0123456789"))
		default:
			w.Header().Set("Content-Length", "5")
			w.Write([]byte("other"))
		}
	})
	env.Start()

	type step struct{ path, rng string }
	steps := []step{
		{"/a", ""},            // miss, stored
		{"/a", "bytes=50-60"}, // beyond the stored 10 bytes: 416
		{"/b", ""},            // must be answered with /b, not with what the 416 exchange left behind
		{"/a", "bytes=2-4"},
		{"/a", ""},
	}

	// Reference: every request on a tunnel of its own (after the store has been filled by the first).
	want := make([]c10m1Answer, len(steps))
	for i, s := range steps {
		want[i] = c10m1Open(t, env).get(t, s.path, s.rng)
	}
	if want[1].status != http.StatusRequestedRangeNotSatisfiable {
		t.Fatalf("reference: expected 416 for %v, got %+v", steps[1], want[1])
	}
	if want[2].status != http.StatusOK || want[2].body != "other" {
		t.Fatalf("reference: unexpected answer for /b: %+v", want[2])
	}

	// The same sequence multiplexed over one kept-alive tunnel.
	tun := c10m1Open(t, env)
	for i, s := range steps {
		got := tun.get(t, s.path, s.rng)
		if got != want[i] {
			t.Fatalf("exchange %d (GET %s %q) on the shared tunnel: got %+v, on a tunnel of its own: %+v", i, s.path, s.rng, got, want[i])
		}
	}
}
