package tests

import (
	"io"
	"net/http"
	"testing"
)

// Scenario for C10: two exchanges over one kept-alive CONNECT tunnel.  Nothing
// of the first response (headers, Content-Length) may show up in the second.
func TestGovcScenarioTunnelExchangesIsolated(t *testing.T) {
	env := SetupHttpsTestEnv(t)
	env.Upstream.Config.Handler = http.HandlerFunc(func(w http.ResponseWriter, r *http.Request) {
		w.Header().Set("Cache-Control", "no-store")
		switch r.URL.Path {
		case "/first":
			w.Header().Set("X-First-Only", "1")
			w.Write([]byte("first"))
		default:
			w.Write([]byte("second-body-is-longer"))
		}
	})
	env.Start()
	get := func(path string) (string, http.Header) {
		resp, err := env.Client.Get(env.Upstream.URL + path)
		if err != nil {
			t.Fatalf("GET %s: %v", path, err)
		}
		defer resp.Body.Close()
		b, err := io.ReadAll(resp.Body)
		if err != nil {
			t.Fatalf("GET %s: reading body: %v (got %q)", path, err, b)
		}
		return string(b), resp.Header
	}
	if b, _ := get("/first"); b != "first" {
		t.Fatalf("first body %q", b)
	}
	b, h := get("/second")
	if b != "second-body-is-longer" {
		t.Errorf("second exchange on the tunnel: body %q, want %q", b, "second-body-is-longer")
	}
	if h.Get("X-First-Only") != "" {
		t.Errorf("second exchange carries a header of the first one: X-First-Only=%q", h.Get("X-First-Only"))
	}
}
