// place in: cache
package cache

import (
	"bytes"
	"os"
	"reservoir/config"
	"reservoir/metrics"
	"testing"
	"time"
)

// Deleting a key that is not (or no longer) in the file cache must not move the
// reported entry count.
func TestSeedC12M1_FileCacheDeleteAbsentKeyKeepsEntryCount(t *testing.T) {
	ctx := t.Context()
	cfg := config.NewDefault()

	dir, err := os.MkdirTemp("", "seed-c12-m1-*")
	if err != nil {
		t.Fatal(err)
	}
	defer os.RemoveAll(dir)

	c := NewFileCache[TestMeta](cfg, dir, 1<<30, time.Hour, 4, ctx)
	defer c.Destroy()

	baseEntries := metrics.Global.Cache.CacheEntries.Get()
	baseBytes := metrics.Global.Cache.BytesCached.Get()

	check := func(step string, wantEntries int, wantBytes int64) {
		t.Helper()
		files, err := os.ReadDir(dir)
		if err != nil {
			t.Fatal(err)
		}
		if len(files) != wantEntries {
			t.Errorf("%s: %d files in directory, want %d", step, len(files), wantEntries)
		}
		c.mu.RLock()
		indexLen := len(c.entriesMetadata)
		c.mu.RUnlock()
		if indexLen != wantEntries {
			t.Errorf("%s: %d index entries, want %d", step, indexLen, wantEntries)
		}
		if got := metrics.Global.Cache.CacheEntries.Get() - baseEntries; got != int64(wantEntries) {
			t.Errorf("%s: reported entry count %d, want %d", step, got, wantEntries)
		}
		if got := c.byteSize.Get(); got != wantBytes {
			t.Errorf("%s: byteSize %d, want %d", step, got, wantBytes)
		}
		if got := metrics.Global.Cache.BytesCached.Get() - baseBytes; got != wantBytes {
			t.Errorf("%s: reported bytes %d, want %d", step, got, wantBytes)
		}
	}

	a, b := FromString("a"), FromString("b")
	e, err := c.Cache(a, bytes.NewReader([]byte("aaaa")), time.Now().Add(time.Hour), TestMeta{})
	if err != nil {
		t.Fatal(err)
	}
	e.Data.Close()
	check("after store a", 1, 4)

	// b was never stored
	if err := c.Delete(b); err != nil {
		t.Fatalf("delete of absent key: %v", err)
	}
	check("after delete of never-stored b", 1, 4)

	if err := c.Delete(a); err != nil {
		t.Fatal(err)
	}
	check("after delete a", 0, 0)

	// second delete of the same key
	if err := c.Delete(a); err != nil {
		t.Fatalf("second delete: %v", err)
	}
	check("after second delete a", 0, 0)
}
