// place in: cache
// (no race detector needed; a gated reader and a short sleep force the interleaving)
package cache

import (
	"io"
	"os"
	"reservoir/config"
	"sync"
	"testing"
	"time"
)

// gatedReader announces its first Read and then blocks until released, so that the
// Cache call that consumes it is parked in the middle of its body copy.
type gatedReader struct {
	data    []byte
	started chan struct{}
	release chan struct{}
	once    sync.Once
}

func (g *gatedReader) Read(p []byte) (int, error) {
	g.once.Do(func() { close(g.started) })
	<-g.release
	if len(g.data) == 0 {
		return 0, io.EOF
	}
	n := copy(p, g.data)
	g.data = g.data[n:]
	return n, nil
}

// A reader that arrives while the entry is being overwritten must get a body together with
// the metadata (length, validators) stored with that very body, never v1 metadata with the v2 body.
func TestSeedC01M1_FileCacheGetPairsMetadataWithBody(t *testing.T) {
	ctx := t.Context()
	cfg := config.NewDefault()

	tmpDir, err := os.MkdirTemp("", "reservoir-seed-c01-m1-*")
	if err != nil {
		t.Fatalf("tmp dir: %v", err)
	}
	defer os.RemoveAll(tmpDir)

	c := NewFileCache[TestMeta](cfg, tmpDir, 1024*1024*1024, time.Hour, 16, ctx)
	defer c.Destroy()

	key := FromString("seed-c01-m1")
	expires := time.Now().Add(time.Hour)
	bodies := map[string]string{
		"v1": "version-one",
		"v2": "version-two-which-is-a-good-deal-longer",
	}

	first, err := c.Cache(key, &gatedReader{data: []byte(bodies["v1"]), started: make(chan struct{}), release: closedChan()}, expires, TestMeta{ID: "v1"})
	if err != nil {
		t.Fatalf("storing v1: %v", err)
	}
	first.Data.Close()

	// Overwrite with v2; the writer is parked inside its body copy
	gate := &gatedReader{data: []byte(bodies["v2"]), started: make(chan struct{}), release: make(chan struct{})}
	writerDone := make(chan error, 1)
	go func() {
		e, err := c.Cache(key, gate, expires, TestMeta{ID: "v2"})
		if err == nil {
			e.Data.Close()
		}
		writerDone <- err
	}()

	select {
	case <-gate.started:
	case <-time.After(5 * time.Second):
		t.Fatal("writer never started copying")
	}

	// A reader arrives while the overwrite is in progress
	type getResult struct {
		entry *Entry[TestMeta]
		err   error
	}
	readerDone := make(chan getResult, 1)
	go func() {
		e, err := c.Get(key)
		readerDone <- getResult{e, err}
	}()

	// Give the reader time to get as far as it can, then let the overwrite finish
	time.Sleep(300 * time.Millisecond)
	close(gate.release)

	select {
	case err := <-writerDone:
		if err != nil {
			t.Fatalf("storing v2: %v", err)
		}
	case <-time.After(5 * time.Second):
		t.Fatal("writer did not finish")
	}

	var res getResult
	select {
	case res = <-readerDone:
	case <-time.After(5 * time.Second):
		t.Fatal("reader did not finish")
	}
	if res.err != nil {
		t.Fatalf("Get failed: %v", res.err)
	}
	defer res.entry.Data.Close()

	body, err := io.ReadAll(res.entry.Data)
	if err != nil {
		t.Fatalf("reading body: %v", err)
	}

	version := res.entry.Metadata.Object.ID
	want, known := bodies[version]
	if !known {
		t.Fatalf("unknown version %q in metadata", version)
	}
	if string(body) != want {
		t.Errorf("metadata of %s handed out with another body: got %q, want %q", version, body, want)
	}
	if res.entry.Metadata.Size != int64(len(body)) {
		t.Errorf("metadata announces %d bytes, body has %d bytes", res.entry.Metadata.Size, len(body))
	}
}

func closedChan() chan struct{} {
	ch := make(chan struct{})
	close(ch)
	return ch
}
