// place in: tests
package tests

import (
	"bytes"
	"io"
	"net/http"
	"testing"
)

// A Range header listing several ranges is not served by the proxy: the answer must be a
// 416 stating the size or the full 200, never a 206 with just one of the listed slices.
// Here the first listed range is a suffix range.
func TestC07MultipleRangesStartingWithSuffix(t *testing.T) {
	env := SetupTestEnv(t)

	content := []byte("0123456789abcdefghijklmnopqrstuvwxyz")
	env.Upstream.Config.Handler = http.HandlerFunc(func(w http.ResponseWriter, r *http.Request) {
		w.Header().Set("Cache-Control", "max-age=60")
		w.Header().Set("ETag", "\"c07-multi\"")
		w.WriteHeader(http.StatusOK)
		w.Write(content)
	})
	env.Start()

	targetURL := env.Upstream.URL + "/c07-multi-suffix"

	resp, err := env.Client.Get(targetURL)
	if err != nil {
		t.Fatalf("warmup failed: %v", err)
	}
	io.Copy(io.Discard, resp.Body)
	resp.Body.Close()

	for _, rng := range []string{"bytes=-5,0-3", "bytes=-5,-3", "bytes=-1,10-", "bytes=-36,0-0"} {
		req, _ := http.NewRequest("GET", targetURL, nil)
		req.Header.Set("Range", rng)
		resp, err := env.Client.Do(req)
		if err != nil {
			t.Fatalf("%s: request failed: %v", rng, err)
		}
		body, _ := io.ReadAll(resp.Body)
		resp.Body.Close()

		switch resp.StatusCode {
		case http.StatusOK:
			if !bytes.Equal(body, content) {
				t.Errorf("%s: 200 does not carry the full representation: %q", rng, body)
			}
		case http.StatusRequestedRangeNotSatisfiable:
			if cr := resp.Header.Get("Content-Range"); cr != "bytes */36" {
				t.Errorf("%s: 416 does not state the representation size: Content-Range=%q", rng, cr)
			}
		default:
			t.Errorf("%s: expected 416 or the full 200, got %d Content-Range=%q body=%q",
				rng, resp.StatusCode, resp.Header.Get("Content-Range"), body)
		}
	}
}
