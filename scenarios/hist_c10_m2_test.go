// place in: tests
package tests

import (
	"bufio"
	"crypto/tls"
	"fmt"
	"io"
	"net"
	"net/http"
	"strings"
	"testing"
	"time"
)

// Three requests on one kept-alive CONNECT tunnel. The first two are pipelined (they leave the
// client in one write, before the first response has been read), the third follows after the first
// response arrived. The responses must come back in request order, each one for its own request:
// /a, /b, /c - exactly as with one tunnel per request.
func TestSeedC10M2TunnelPipelinedRequests(t *testing.T) {
	env := SetupHttpsTestEnv(t)
	env.Upstream.Config.Handler = http.HandlerFunc(func(w http.ResponseWriter, r *http.Request) {
		w.Header().Set("Cache-Control", "no-store")
		w.Header().Set("X-Path", r.URL.Path)
		w.WriteHeader(http.StatusOK)
		io.WriteString(w, "body of "+r.URL.Path)
	})
	env.Start()

	target := strings.TrimPrefix(env.Upstream.URL, "https://")
	proxyAddr := strings.TrimPrefix(env.ProxyServer.URL, "http://")

	raw, err := net.DialTimeout("tcp", proxyAddr, 5*time.Second)
	if err != nil {
		t.Fatalf("dial proxy: %v", err)
	}
	defer raw.Close()
	// Nothing here may hang: a missing response ends in a read timeout and fails the test
	raw.SetDeadline(time.Now().Add(8 * time.Second))

	fmt.Fprintf(raw, "CONNECT %s HTTP/1.1\r\nHost: %s\r\n\r\n", target, target)
	connectResp, err := http.ReadResponse(bufio.NewReader(raw), nil)
	if err != nil {
		t.Fatalf("CONNECT: %v", err)
	}
	if connectResp.StatusCode != http.StatusOK {
		t.Fatalf("CONNECT status %d", connectResp.StatusCode)
	}

	conn := tls.Client(raw, &tls.Config{InsecureSkipVerify: true})
	if err := conn.Handshake(); err != nil {
		t.Fatalf("handshake: %v", err)
	}
	br := bufio.NewReader(conn)

	request := func(path string) string {
		return fmt.Sprintf("GET %s HTTP/1.1\r\nHost: %s\r\n\r\n", path, target)
	}
	expect := func(n int, path string) {
		t.Helper()
		resp, err := http.ReadResponse(br, &http.Request{Method: http.MethodGet})
		if err != nil {
			t.Fatalf("response %d (for %s) did not arrive: %v", n, path, err)
		}
		body, err := io.ReadAll(resp.Body)
		resp.Body.Close()
		if err != nil {
			t.Fatalf("response %d (for %s): reading body: %v", n, path, err)
		}
		if resp.StatusCode != http.StatusOK || resp.Header.Get("X-Path") != path || string(body) != "body of "+path {
			t.Fatalf("response %d belongs to another request: want %s, got status %d, X-Path %q, body %q",
				n, path, resp.StatusCode, resp.Header.Get("X-Path"), body)
		}
	}

	// Requests 1 and 2 in a single write (one TLS record)
	if _, err := io.WriteString(conn, request("/a")+request("/b")); err != nil {
		t.Fatalf("write: %v", err)
	}
	expect(1, "/a")

	if _, err := io.WriteString(conn, request("/c")); err != nil {
		t.Fatalf("write: %v", err)
	}
	expect(2, "/b")
	expect(3, "/c")
}
