// place in: webserver/auth
// needs: -race
package auth

import (
	"fmt"
	"sync"
	"testing"
	"time"
)

// A session that is within extendThreshold of its expiry is extended by the first
// request that presents it. Session objects in the store are read without a lock by
// every other request (GetSession, SessionFromRequest) and by the session GC, so the
// extension must publish a new object and never write the stored one.
//
// Several requests present the same almost-expired session id at the same time.
// Run with -race: the unmodified code is race free here, an in-place extension is
// reported as a data race on Session.ExpiresAt.
func TestC15_ConcurrentRequestsOnAlmostExpiredSession(t *testing.T) {
	const rounds = 40
	const clients = 6

	for round := 0; round < rounds; round++ {
		sid := fmt.Sprintf("c15-demo-session-%d", round)
		now := time.Now()
		// Inside the extension window (extendThreshold = 10 min), not yet expired.
		sessionStore.Set(sid, &Session{
			ID:        sid,
			UserID:    int64(round),
			CreatedAt: now.Add(-55 * time.Minute),
			ExpiresAt: now.Add(5 * time.Minute),
		})

		start := make(chan struct{})
		var wg sync.WaitGroup
		for c := 0; c < clients; c++ {
			wg.Add(1)
			go func() {
				defer wg.Done()
				<-start
				sess, ok := GetSession(sid)
				if !ok {
					t.Errorf("round %d: live session refused", round)
					return
				}
				// What every authenticated handler does with the session it was given.
				if !sess.ExpiresAt.After(now) {
					t.Errorf("round %d: session handed out with expiry %v in the past", round, sess.ExpiresAt)
				}
			}()
		}
		close(start)
		wg.Wait()

		if sess, ok := sessionStore.Get(sid); !ok || time.Until(sess.ExpiresAt) <= extendThreshold {
			t.Errorf("round %d: session was not extended", round)
		}
		sessionStore.Delete(sid)
	}
}
