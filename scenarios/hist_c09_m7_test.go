// place in: tests
// (Linux only: the failing write is produced with RLIMIT_FSIZE; do not run in parallel with other tests)
package tests

import (
	"bytes"
	"context"
	"io"
	"net/http"
	"net/http/httptest"
	"net/url"
	"os/signal"
	"reservoir/config"
	"reservoir/proxy"
	"reservoir/utils/bytesize"
	"strconv"
	"sync/atomic"
	"syscall"
	"testing"
	"time"
)

// The origin answers 200 with a 64 KiB body. The write of that body into the cache
// directory (file backend) fails after 16 KiB (file size limit of the process, i.e. the
// same thing a full disk or a quota does). The client must still get the complete answer.
func TestSeedC09M1_WriteFailsAfterPartOfTheBody(t *testing.T) {
	const bodyLen = 64 * 1024
	const fileLimit = 16 * 1024

	body := bytes.Repeat([]byte("0123456789abcdef"), bodyLen/16)

	var originRequests int32
	origin := httptest.NewServer(http.HandlerFunc(func(w http.ResponseWriter, r *http.Request) {
		atomic.AddInt32(&originRequests, 1)
		w.Header().Set("Cache-Control", "max-age=60")
		w.Header().Set("Content-Type", "application/octet-stream")
		w.Header().Set("Content-Length", strconv.Itoa(len(body)))
		w.WriteHeader(http.StatusOK)
		w.Write(body)
	}))
	defer origin.Close()

	cfg := config.NewDefault()
	cfg.Proxy.UpstreamDefaultHttps.Overwrite(false)
	cfg.Cache.Type.Overwrite(config.CacheTypeFile)
	cfg.Cache.File.Dir.Overwrite(t.TempDir())
	cfg.Cache.MaxCacheSize.Overwrite(bytesize.ParseUnchecked("1G"))
	cfg.Cache.LockShards.Overwrite(8)

	ctx, cancel := context.WithCancel(context.Background())
	defer cancel()
	p, err := proxy.NewProxy(cfg, &FakeCA{}, ctx)
	if err != nil {
		t.Fatalf("NewProxy: %v", err)
	}
	defer p.Destroy()
	proxyServer := httptest.NewServer(p)
	defer proxyServer.Close()

	proxyURL, _ := url.Parse(proxyServer.URL)
	client := &http.Client{
		Timeout:   10 * time.Second,
		Transport: &http.Transport{Proxy: http.ProxyURL(proxyURL), DisableKeepAlives: true},
	}

	// From here on no file of this process can grow beyond fileLimit bytes: the write of the
	// cache file fails with EFBIG once 16 KiB of the body are on disk.
	signal.Ignore(syscall.SIGXFSZ)
	defer signal.Reset(syscall.SIGXFSZ)
	var old syscall.Rlimit
	if err := syscall.Getrlimit(syscall.RLIMIT_FSIZE, &old); err != nil {
		t.Skipf("getrlimit: %v", err)
	}
	limited := syscall.Rlimit{Cur: fileLimit, Max: old.Max}
	if err := syscall.Setrlimit(syscall.RLIMIT_FSIZE, &limited); err != nil {
		t.Skipf("setrlimit: %v", err)
	}
	restored := false
	restore := func() {
		if !restored {
			syscall.Setrlimit(syscall.RLIMIT_FSIZE, &old)
			restored = true
		}
	}
	defer restore()

	check := func(round string) {
		resp, err := client.Get(origin.URL + "/big-object")
		if err != nil {
			t.Fatalf("%s: request through the proxy failed: %v", round, err)
		}
		got, err := io.ReadAll(resp.Body)
		resp.Body.Close()
		if resp.StatusCode != http.StatusOK {
			t.Fatalf("%s: status %d, want 200", round, resp.StatusCode)
		}
		if err != nil {
			t.Fatalf("%s: reading the body failed after %d of %d bytes: %v", round, len(got), len(body), err)
		}
		if !bytes.Equal(got, body) {
			t.Fatalf("%s: got %d body bytes, want %d (the origin's answer)", round, len(got), len(body))
		}
	}

	check("first request (cache write fails)")
	restore()
	// Whatever the failed write left behind must not be served either.
	check("second request")

	if n := atomic.LoadInt32(&originRequests); n < 1 {
		t.Fatalf("origin was never contacted (%d)", n)
	}
}
