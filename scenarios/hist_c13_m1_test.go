// place in: cache
package cache

import (
	"bytes"
	"reservoir/config"
	"reservoir/utils/duration"
	"testing"
	"time"
)

// C13: a cleanup interval changed at run time governs the following cycles.
// The cache starts with a very long interval; the interval is then shortened
// at run time, and an expired entry must be removed by one of the following
// (short) cycles.
func TestC13Demo_IntervalChangeGovernsFollowingCycles(t *testing.T) {
	ctx := t.Context()
	cfg := config.NewDefault()

	c := NewMemoryCache[TestMeta](cfg, 1, 1024*1024*1024, time.Hour, 16, ctx)
	defer c.Destroy()

	// Give the janitor goroutine time to start its ticker.
	time.Sleep(50 * time.Millisecond)

	// Run-time change: 1h -> 50ms
	cfg.Cache.CleanupInterval.Overwrite(duration.Duration(50 * time.Millisecond))

	key := FromString("expired-after-interval-change")
	e, err := c.Cache(key, bytes.NewReader([]byte("stale payload")), time.Now().Add(-time.Second), TestMeta{})
	if err != nil {
		t.Fatalf("Cache failed: %v", err)
	}
	e.Data.Close()

	present := func() bool {
		c.mu.RLock()
		defer c.mu.RUnlock()
		_, ok := c.entries[key]
		return ok
	}

	deadline := time.Now().Add(2 * time.Second)
	for time.Now().Before(deadline) {
		if !present() {
			return // removed by a cycle scheduled with the new interval
		}
		time.Sleep(20 * time.Millisecond)
	}
	t.Fatalf("expired entry still present 2s after the cleanup interval was changed to 50ms: the new interval does not govern the following cycles")
}
