// place in: tests
package tests

import (
	"io"
	"net/http"
	"sync"
	"sync/atomic"
	"testing"
	"time"
)

// N clients ask for the same cold, cacheable resource at the same time. The client whose
// request happens to run the shared fetch carries an If-Modified-Since in the obsolete (but
// valid) RFC 850 date format. The shared fetch must be an unconditional one: a single origin
// fetch whose 200 answer is stored and served to everybody.
func TestSeedC05ObsoleteDateValidatorOfOneClientDoesNotBreakTheSharedFetch(t *testing.T) {
	env := SetupTestEnv(t)

	const body = "seed c05 body - shared by everyone"
	lastModified := time.Date(1990, 1, 1, 0, 0, 0, 0, time.UTC)

	var originRequests int32
	firstArrived := make(chan struct{})
	var once sync.Once
	env.Upstream.Config.Handler = http.HandlerFunc(func(w http.ResponseWriter, r *http.Request) {
		atomic.AddInt32(&originRequests, 1)
		once.Do(func() { close(firstArrived) })
		// Let the other clients pile up behind the fetch in flight.
		time.Sleep(500 * time.Millisecond)

		// An origin that understands all three HTTP-date formats, like net/http does.
		if ims, err := http.ParseTime(r.Header.Get("If-Modified-Since")); err == nil && !lastModified.After(ims) {
			w.WriteHeader(http.StatusNotModified)
			return
		}
		w.Header().Set("Cache-Control", "max-age=60")
		w.Header().Set("Last-Modified", lastModified.Format(http.TimeFormat))
		w.WriteHeader(http.StatusOK)
		w.Write([]byte(body))
	})
	env.Start()

	targetURL := env.Upstream.URL + "/seed-c05-rfc850"

	const followers = 4
	var wg sync.WaitGroup
	statuses := make([]int, followers)
	bodies := make([]string, followers)

	// The first client: its fetch is the one in flight.
	wg.Add(1)
	go func() {
		defer wg.Done()
		req, _ := http.NewRequest(http.MethodGet, targetURL, nil)
		req.Header.Set("If-Modified-Since", "Sunday, 06-Nov-94 08:49:37 GMT")
		resp, err := env.Client.Do(req)
		if err != nil {
			t.Errorf("first client: request failed: %v", err)
			return
		}
		io.Copy(io.Discard, resp.Body)
		resp.Body.Close()
	}()

	select {
	case <-firstArrived:
	case <-time.After(5 * time.Second):
		t.Fatal("the first request never reached the origin")
	}

	for i := 0; i < followers; i++ {
		wg.Add(1)
		go func(i int) {
			defer wg.Done()
			resp, err := env.Client.Get(targetURL)
			if err != nil {
				t.Errorf("client %d: request failed: %v", i, err)
				return
			}
			defer resp.Body.Close()
			b, _ := io.ReadAll(resp.Body)
			statuses[i] = resp.StatusCode
			bodies[i] = string(b)
		}(i)
	}
	wg.Wait()

	for i := 0; i < followers; i++ {
		if statuses[i] != http.StatusOK || bodies[i] != body {
			t.Errorf("client %d: got status %d body %q, want 200 %q", i, statuses[i], bodies[i], body)
		}
	}
	if got := atomic.LoadInt32(&originRequests); got != 1 {
		t.Errorf("%d concurrent identical GETs on a cold cacheable key caused %d origin fetches, want 1", followers+1, got)
	}
}
