// place in: tests
// (takes about 12 seconds: the origin delivers its body slowly)
package tests

import (
	"io"
	"net/http"
	"strings"
	"testing"
	"time"
)

// An origin that streams a body slowly (a large download over a slow link, a long-running
// export, ...) must still have that body relayed to the client exactly. The body here is sent
// in two parts, 11 seconds apart, without a Content-Length (chunked).
func TestDemoC08SlowBodyIsRelayedCompletely(t *testing.T) {
	env := SetupTestEnv(t)

	part1 := strings.Repeat("A", 4096)
	part2 := strings.Repeat("B", 4096)

	env.Upstream.Config.Handler = http.HandlerFunc(func(w http.ResponseWriter, r *http.Request) {
		io.Copy(io.Discard, r.Body)
		w.Header().Set("Cache-Control", "no-store")
		w.Header().Set("Content-Type", "application/octet-stream")
		w.WriteHeader(http.StatusOK)
		w.Write([]byte(part1))
		w.(http.Flusher).Flush()
		select {
		case <-time.After(11 * time.Second):
		case <-r.Context().Done():
			return
		}
		w.Write([]byte(part2))
	})
	env.Start()
	env.Client.Timeout = 60 * time.Second

	// POST: relayed directly, a single exchange with the origin
	resp, err := env.Client.Post(env.Upstream.URL+"/slow-export", "text/plain", strings.NewReader("go"))
	if err != nil {
		t.Fatalf("request failed: %v", err)
	}
	defer resp.Body.Close()
	if resp.StatusCode != http.StatusOK {
		t.Fatalf("expected status 200, got %d", resp.StatusCode)
	}

	body, err := io.ReadAll(resp.Body)
	if err != nil {
		// An aborted transfer is at least visible to the client; still not a faithful relay
		t.Fatalf("reading the relayed body failed after %d bytes: %v", len(body), err)
	}
	if string(body) != part1+part2 {
		t.Fatalf("relayed body differs from what the origin sent: got %d bytes (and no error), origin sent %d bytes", len(body), len(part1)+len(part2))
	}
}
