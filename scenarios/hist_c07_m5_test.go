// place in: tests
// An If-Range that is neither a quoted entity-tag nor an IMF-fixdate does not match the
// stored validator, so a Range request carrying it must get the full 200, never a 206.
package tests

import (
	"bytes"
	"io"
	"net/http"
	"testing"
	"time"
)

func TestSeedC07IfRangeUnrecognisedFormGetsFull200(t *testing.T) {
	env := SetupTestEnv(t)

	content := []byte("0123456789abcdefghijklmnopqrstuvwxyz")
	lastModified := time.Now().Add(-time.Hour).UTC().Format(http.TimeFormat)
	env.Upstream.Config.Handler = http.HandlerFunc(func(w http.ResponseWriter, r *http.Request) {
		w.Header().Set("Cache-Control", "max-age=60")
		w.Header().Set("ETag", "\"v2\"")
		w.Header().Set("Last-Modified", lastModified)
		w.WriteHeader(http.StatusOK)
		w.Write(content)
	})
	env.Start()

	targetURL := env.Upstream.URL + "/if-range-forms"

	resp, err := env.Client.Get(targetURL)
	if err != nil {
		t.Fatalf("warmup failed: %v", err)
	}
	io.Copy(io.Discard, resp.Body)
	resp.Body.Close()

	// None of these equals the stored ETag ("v2") or is a date at or after the stored Last-Modified.
	ifRanges := []string{
		"Sunday, 06-Nov-94 08:49:37 GMT", // obsolete RFC 850 date, long before Last-Modified
		"Sun Nov  6 08:49:37 1994",       // asctime date
		"v1",                             // unquoted validator of an older version
	}
	for _, ifRange := range ifRanges {
		req, _ := http.NewRequest("GET", targetURL, nil)
		req.Header.Set("Range", "bytes=0-9")
		req.Header.Set("If-Range", ifRange)
		resp, err := env.Client.Do(req)
		if err != nil {
			t.Fatalf("If-Range %q: request failed: %v", ifRange, err)
		}
		body, _ := io.ReadAll(resp.Body)
		resp.Body.Close()

		if resp.StatusCode != http.StatusOK {
			t.Errorf("If-Range %q does not match the stored validator: want full 200, got %d (Content-Range %q)",
				ifRange, resp.StatusCode, resp.Header.Get("Content-Range"))
		}
		if !bytes.Equal(body, content) {
			t.Errorf("If-Range %q: want the full body %q, got %q", ifRange, content, body)
		}
	}
}
