package syncmap

import (
	"sync"
	"testing"
)

// Scenario for C15 (run with -race): one goroutine walks the map with Items / Keys (the
// session garbage collector does) while another stores and deletes entries (requests do).
func TestGovcScenarioIterateWhileWriting(t *testing.T) {
	m := New[int, *int]()
	for i := 0; i < 64; i++ {
		v := i
		m.Set(i, &v)
	}
	var wg sync.WaitGroup
	wg.Add(2)
	go func() {
		defer wg.Done()
		for r := 0; r < 200; r++ {
			for i := 0; i < 64; i++ {
				v := i
				m.Set(1000+i, &v)
				m.Delete(1000 + i)
			}
		}
	}()
	go func() {
		defer wg.Done()
		for r := 0; r < 200; r++ {
			n := 0
			for v := range m.Items() {
				if v != nil {
					n++
				}
			}
			for k := range m.Keys() {
				_ = k
			}
			// deleting while iterating, as the session garbage collector does
			for k := range m.Keys() {
				if k >= 1000 {
					m.Delete(k)
				}
			}
		}
	}()
	wg.Wait()
}
