// place in: proxy/headers
package headers

import (
	"net/http"
	"testing"
)

// A response marked private / no-store / no-cache must not be storable, whatever the
// position of the directive relative to a positive max-age.
func TestDemoC04NoStoreBeforeMaxAge(t *testing.T) {
	cases := [][]string{
		{"private, max-age=3600"},
		{"no-store, max-age=60"},
		{"No-Cache", "max-age=60"},
		{"max-age=0, max-age=60"},
		{"max-age=60, private"},
	}
	for _, lines := range cases {
		h := http.Header{}
		for _, l := range lines {
			h.Add("Cache-Control", l)
		}
		hd := ParseHeaderDirective(h)
		if hd.ShouldCache(false) {
			t.Errorf("Cache-Control %q: response considered storable although the origin forbids it", lines)
		}
		if !hd.ShouldCache(true) {
			t.Errorf("Cache-Control %q: with directives ignored the response must be storable", lines)
		}
	}
	// sanity: a plain positive max-age is storable
	h := http.Header{}
	h.Set("Cache-Control", "public, max-age=60")
	if !ParseHeaderDirective(h).ShouldCache(false) {
		t.Errorf("public, max-age=60 must be storable")
	}
}
