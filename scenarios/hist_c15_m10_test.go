// place in: config
// needs: -race
package config

import (
	"fmt"
	"reflect"
	"runtime"
	"sync"
	"testing"
	"time"
)

// Two administrators change restart-requiring settings (each on a property of its own) for
// the first time since start-up while a dashboard polls "is a restart required?". The only
// memory the three goroutines share is the process-wide restart flag.
func TestSeedC15RestartFlagFirstChange(t *testing.T) {
	// The flag is process-wide and only ever written while it is still false: put it back to
	// its start-up state (other tests of this package may have raised it already).
	reflect.ValueOf(&restartNeeded).Elem().SetZero()

	const changers = 4
	props := make([]*ConfigProp[string], changers)
	for i := range props {
		p := NewConfigProp("initial")
		p.SetRequiresRestart()
		props[i] = &p
	}

	start := make(chan struct{})
	var wg sync.WaitGroup

	// The dashboard poller
	wg.Add(1)
	go func() {
		defer wg.Done()
		<-start
		deadline := time.Now().Add(5 * time.Second)
		for !IsRestartNeeded() {
			if time.Now().After(deadline) {
				t.Errorf("restart flag never became visible")
				return
			}
			runtime.Gosched()
		}
	}()

	for i := range props {
		wg.Add(1)
		go func(i int) {
			defer wg.Done()
			<-start
			props[i].Stage(fmt.Sprintf("changed-%d", i))
		}(i)
	}

	close(start)
	wg.Wait()

	if !IsRestartNeeded() {
		t.Fatalf("restart flag not set after a restart-requiring change")
	}
}
