// place in: cache
package cache

import (
	"bytes"
	"fmt"
	"reservoir/config"
	"testing"
	"time"
)

// Ten 100-byte entries fill a 1000-byte store exactly. The three entries written FIRST are
// then read again, which makes them the three most recently used. The next store has to
// evict two entries (down to 800 bytes): these must be the least recently used ones
// (k3 and k4), never the re-read k0..k2.
func TestSeedC13M1_EvictionFollowsAccessNotWriteOrder(t *testing.T) {
	ctx := t.Context()
	cfg := config.NewDefault()

	const shards = 16
	c := NewMemoryCache[TestMeta](cfg, 1, 1000, time.Hour, shards, ctx)
	defer c.Destroy()

	// the triggering key; entries sharing its lock would be skipped by the eviction,
	// so the populated keys are chosen from other shards
	trigger := FromString("seed-c13-m1-trigger")
	triggerLock := getLock(c.locks, trigger)

	keys := make([]CacheKey, 0, 10)
	for i := 0; len(keys) < 10; i++ {
		k := FromString(fmt.Sprintf("seed-c13-m1-key-%d", i))
		if getLock(c.locks, k) == triggerLock {
			continue
		}
		keys = append(keys, k)
	}

	data := make([]byte, 100)
	for i, k := range keys {
		e, err := c.Cache(k, bytes.NewReader(data), time.Now().Add(time.Hour), TestMeta{})
		if err != nil {
			t.Fatalf("Cache %d failed: %v", i, err)
		}
		e.Data.Close()
		time.Sleep(5 * time.Millisecond)
	}
	if got := c.byteSize.Get(); got != 1000 {
		t.Fatalf("setup: expected 1000 bytes stored, got %d", got)
	}

	// re-read the three oldest-written entries
	for i := 0; i < 3; i++ {
		e, err := c.Get(keys[i])
		if err != nil {
			t.Fatalf("Get %d failed: %v", i, err)
		}
		e.Data.Close()
		time.Sleep(5 * time.Millisecond)
	}

	// store at the limit -> evicts down to 800 bytes
	e, err := c.Cache(trigger, bytes.NewReader(data), time.Now().Add(time.Hour), TestMeta{})
	if err != nil {
		t.Fatalf("triggering Cache failed: %v", err)
	}
	e.Data.Close()

	if got := c.byteSize.Get(); got != 900 {
		t.Errorf("expected 800 bytes after eviction + 100 stored = 900, got %d", got)
	}

	present := func(k CacheKey) bool {
		c.mu.RLock()
		defer c.mu.RUnlock()
		_, ok := c.entries[k]
		return ok
	}

	for i := 0; i < 3; i++ {
		if !present(keys[i]) {
			t.Errorf("entry k%d was read just before the eviction (most recently used) but was evicted", i)
		}
	}
	for i := 3; i < 5; i++ {
		if present(keys[i]) {
			t.Errorf("entry k%d is among the two least recently used but survived the eviction", i)
		}
	}
	for i := 5; i < 10; i++ {
		if !present(keys[i]) {
			t.Errorf("entry k%d is not among the two least recently used but was evicted", i)
		}
	}
}
