// place in: cache
package cache

import (
	"bufio"
	"net/http"
	"strings"
	"testing"
)

// Origins on the same host name but on different ports are different hosts: the same
// method, path and query sent to them must not share a cache key.
func TestDemoSameNameDifferentPortGetDistinctKeys(t *testing.T) {
	// a proxy request as a client puts it on the wire (absolute-form target)
	read := func(authority string) *http.Request {
		t.Helper()
		raw := "GET http://" + authority + "/api/status?v=1 HTTP/1.1\r\nHost: " + authority + "\r\n\r\n"
		req, err := http.ReadRequest(bufio.NewReader(strings.NewReader(raw)))
		if err != nil {
			t.Fatalf("ReadRequest(%q): %v", authority, err)
		}
		return req
	}

	pairs := [][2]string{
		{"localhost:3000", "localhost:8080"},
		{"app.example.com:8080", "app.example.com"},
		{"10.0.0.5:8443", "10.0.0.5:9443"},
		{"[::1]:3000", "[::1]:8080"},
	}
	for _, p := range pairs {
		if MakeFromRequest(read(p[0])) == MakeFromRequest(read(p[1])) {
			t.Errorf("requests to %s and to %s share a cache key", p[0], p[1])
		}
	}

	// sanity: letter case of the host does not matter, with or without a port
	if MakeFromRequest(read("App.Example.COM:8080")) != MakeFromRequest(read("app.example.com:8080")) {
		t.Errorf("host letter case must not change the key")
	}
}
