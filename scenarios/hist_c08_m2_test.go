// place in: tests
package tests

import (
	"io"
	"net/http"
	"reflect"
	"testing"
)

// An origin that sits behind other intermediaries sends Via lines of its own. They are
// end-to-end: the proxy may append its own entry but must deliver the origin's values,
// in order, on the relayed response and on the response served from the store.
func TestDemoC08OriginViaValuesAreDelivered(t *testing.T) {
	env := SetupTestEnv(t)
	originVia := []string{"1.1 edge-cdn", "1.0 inner-gw (squid)"}
	env.Upstream.Config.Handler = http.HandlerFunc(func(w http.ResponseWriter, r *http.Request) {
		w.Header().Set("Cache-Control", "max-age=60")
		w.Header().Set("ETag", "\"via-etag\"")
		w.Header()["Via"] = append([]string(nil), originVia...)
		w.WriteHeader(http.StatusOK)
		w.Write([]byte("via body"))
	})
	env.Start()

	for _, round := range []string{"relayed (miss)", "from the store (hit)"} {
		resp, err := env.Client.Get(env.Upstream.URL + "/via-test")
		if err != nil {
			t.Fatalf("%s: request failed: %v", round, err)
		}
		body, _ := io.ReadAll(resp.Body)
		resp.Body.Close()
		if string(body) != "via body" {
			t.Errorf("%s: body = %q", round, body)
		}

		got := resp.Header.Values("Via")
		if len(got) < len(originVia) || !reflect.DeepEqual(got[:len(originVia)], originVia) {
			t.Errorf("%s: origin sent Via %q, client received %q", round, originVia, got)
		}
	}
}
