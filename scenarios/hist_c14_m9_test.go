// place in: cache
package cache

import (
	"bytes"
	"fmt"
	"io"
	"reservoir/config"
	"testing"
	"time"
)

// A body whose bytes only arrive after some other cache operation has completed
// (an upstream that answers request A only once request B has been served).
type gatedReaderC14 struct {
	gate <-chan struct{}
	r    io.Reader
}

func (g *gatedReaderC14) Read(p []byte) (int, error) {
	<-g.gate
	return g.r.Read(p)
}

func TestC14_StoreBodyReadDoesNotBlockOtherShards(t *testing.T) {
	cfg := config.NewDefault()
	c := NewMemoryCache[TestMeta](cfg, 50, 1<<30, time.Hour, 16, t.Context())
	defer c.Destroy()

	// two keys on distinct shards
	keyA := FromString("c14-a")
	var keyB CacheKey
	for i := 0; ; i++ {
		keyB = FromString(fmt.Sprintf("c14-b-%d", i))
		if getLock(c.locks, keyB) != getLock(c.locks, keyA) {
			break
		}
	}

	if _, err := c.Cache(keyB, bytes.NewReader([]byte("bbbb")), time.Now().Add(time.Hour), TestMeta{}); err != nil {
		t.Fatalf("store B: %v", err)
	}

	gate := make(chan struct{})
	started := make(chan struct{})
	storeDone := make(chan error, 1)
	go func() {
		close(started)
		_, err := c.Cache(keyA, &gatedReaderC14{gate: gate, r: bytes.NewReader([]byte("aaaa"))}, time.Now().Add(time.Hour), TestMeta{})
		storeDone <- err
	}()
	<-started
	time.Sleep(100 * time.Millisecond) // let the store of A reach its body read

	getDone := make(chan error, 1)
	go func() {
		_, err := c.Get(keyB)
		getDone <- err
		close(gate) // A's body becomes available once B has been served
	}()

	select {
	case err := <-getDone:
		if err != nil {
			t.Fatalf("Get(B): %v", err)
		}
	case <-time.After(3 * time.Second):
		close(gate)
		t.Fatal("deadlock: Get on another shard blocked behind a store that is still reading its body")
	}
	select {
	case err := <-storeDone:
		if err != nil {
			t.Fatalf("store A: %v", err)
		}
	case <-time.After(3 * time.Second):
		t.Fatal("store of A never completed")
	}
}
