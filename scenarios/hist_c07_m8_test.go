// place in: tests
package tests

import (
	"bytes"
	"io"
	"net/http"
	"testing"
)

// A Range the proxy does not serve (several ranges, a number that overflows int64, an
// unknown unit, a malformed spec) must be answered with the full 200 or a 416 - never
// with a 206 carrying some other slice.
func TestSeedC07UnservedRangeIsNeverAnotherSlice(t *testing.T) {
	env := SetupTestEnv(t)

	content := []byte("0123456789abcdefghijklmnopqrstuvwxyz")
	env.Upstream.Config.Handler = http.HandlerFunc(func(w http.ResponseWriter, r *http.Request) {
		w.Header().Set("Cache-Control", "max-age=60")
		w.Header().Set("ETag", "\"seed-etag\"")
		w.WriteHeader(http.StatusOK)
		w.Write(content)
	})
	env.Start()

	targetURL := env.Upstream.URL + "/seed-c07-unserved"

	resp, err := env.Client.Get(targetURL)
	if err != nil {
		t.Fatalf("warmup failed: %v", err)
	}
	io.Copy(io.Discard, resp.Body)
	resp.Body.Close()

	for _, rng := range []string{
		"bytes=5-9,20-24",
		"bytes=-5,0-3",
		"bytes=99999999999999999999-",
		"bytes=3-99999999999999999999",
		"items=3-7",
		"bytes=3",
		"bytes=a-b",
	} {
		req, _ := http.NewRequest("GET", targetURL, nil)
		req.Header.Set("Range", rng)
		resp, err = env.Client.Do(req)
		if err != nil {
			t.Fatalf("%s: request failed: %v", rng, err)
		}
		body, _ := io.ReadAll(resp.Body)
		resp.Body.Close()

		switch resp.StatusCode {
		case http.StatusOK:
			if !bytes.Equal(body, content) {
				t.Errorf("%s: 200 must carry the whole representation, got %q", rng, body)
			}
		case http.StatusRequestedRangeNotSatisfiable:
			// an explicit refusal is fine
		default:
			t.Errorf("%s: expected the full 200 or a 416, got %d with Content-Range %q and body %q",
				rng, resp.StatusCode, resp.Header.Get("Content-Range"), body)
		}
	}
}
