// place in: proxy
// (in-package test; uses the FILE cache backend, no race detector needed)
package proxy

import (
	"bytes"
	"context"
	"io"
	"net/http"
	"net/http/httptest"
	"net/url"
	"reservoir/config"
	"sync"
	"sync/atomic"
	"testing"
	"time"
)

// N identical GETs arrive together on a cold key while the proxy uses the file backend.
// They are coalesced into one origin fetch; every one of them must still receive the
// complete body (each coalesced caller needs an open handle of its own on the stored file).
func TestDemoC05CoalescedCallersFileBackendGetFullBody(t *testing.T) {
	want := bytes.Repeat([]byte("0123456789abcdef"), 16*1024) // 256 KiB

	var hits int32
	origin := httptest.NewServer(http.HandlerFunc(func(w http.ResponseWriter, r *http.Request) {
		atomic.AddInt32(&hits, 1)
		time.Sleep(400 * time.Millisecond) // let all clients pile up on the same fetch
		w.Header().Set("Cache-Control", "max-age=60")
		w.Header().Set("ETag", "\"v1\"")
		w.WriteHeader(http.StatusOK)
		w.Write(want)
	}))
	defer origin.Close()

	cfg := config.NewDefault()
	cfg.Proxy.UpstreamDefaultHttps.Overwrite(false)
	cfg.Cache.Type.Overwrite(config.CacheTypeFile)
	cfg.Cache.File.Dir.Overwrite(t.TempDir())
	cfg.Cache.LockShards.Overwrite(32)

	ctx, cancel := context.WithCancel(context.Background())
	defer cancel()
	p, err := NewProxy(cfg, nil, ctx)
	if err != nil {
		t.Fatalf("NewProxy: %v", err)
	}
	defer p.Destroy()

	front := httptest.NewServer(p)
	defer front.Close()

	proxyURL, _ := url.Parse(front.URL)
	client := &http.Client{
		Timeout:   20 * time.Second,
		Transport: &http.Transport{Proxy: http.ProxyURL(proxyURL), MaxConnsPerHost: 0},
	}
	defer client.CloseIdleConnections()

	const n = 8
	target := origin.URL + "/c05-file-backend"
	start := make(chan struct{})
	var wg sync.WaitGroup
	errs := make(chan string, n)
	for i := 0; i < n; i++ {
		wg.Add(1)
		go func(i int) {
			defer wg.Done()
			<-start
			resp, err := client.Get(target)
			if err != nil {
				errs <- "client " + string(rune('0'+i)) + ": request failed: " + err.Error()
				return
			}
			defer resp.Body.Close()
			body, rerr := io.ReadAll(resp.Body)
			if resp.StatusCode != http.StatusOK {
				errs <- "client " + string(rune('0'+i)) + ": status " + resp.Status
				return
			}
			if rerr != nil {
				errs <- "client " + string(rune('0'+i)) + ": reading body: " + rerr.Error()
				return
			}
			if !bytes.Equal(body, want) {
				errs <- "client " + string(rune('0'+i)) + ": incomplete or wrong body"
			}
		}(i)
	}
	close(start)
	wg.Wait()
	close(errs)

	for e := range errs {
		t.Error(e)
	}
	if h := atomic.LoadInt32(&hits); h != 1 {
		t.Errorf("expected exactly 1 origin fetch for %d coalesced clients, got %d", n, h)
	}
}
