// place in: tests
package tests

import (
	"io"
	"net/http"
	"testing"
)

// Two different resources of one origin whose paths differ only in an escaped separator
// (/files/x%2Fy and /files/x/y) must each be answered with their own body.
func TestSeedC01EscapedSeparatorIsAnotherResource(t *testing.T) {
	env := SetupTestEnv(t)
	env.Upstream.Config.Handler = http.HandlerFunc(func(w http.ResponseWriter, r *http.Request) {
		w.Header().Set("Cache-Control", "max-age=60")
		w.Header().Set("Content-Type", "text/plain")
		w.Header().Set("ETag", "\"v-"+r.URL.EscapedPath()+"\"")
		w.WriteHeader(http.StatusOK)
		w.Write([]byte("body of " + r.URL.EscapedPath()))
	})
	env.Start()

	get := func(path string) (string, string) {
		resp, err := env.Client.Get(env.Upstream.URL + path)
		if err != nil {
			t.Fatalf("GET %s failed: %v", path, err)
		}
		defer resp.Body.Close()
		if resp.StatusCode != http.StatusOK {
			t.Fatalf("GET %s: status %d", path, resp.StatusCode)
		}
		body, err := io.ReadAll(resp.Body)
		if err != nil {
			t.Fatalf("GET %s: reading body: %v", path, err)
		}
		return string(body), resp.Header.Get("ETag")
	}

	for _, path := range []string{"/files/x%2Fy", "/files/x/y", "/files/x%2Fy", "/files/x/y"} {
		body, etag := get(path)
		if want := "body of " + path; body != want {
			t.Errorf("GET %s: got body %q, want %q", path, body, want)
		}
		if want := "\"v-" + path + "\""; etag != want {
			t.Errorf("GET %s: got ETag %q, want %q", path, etag, want)
		}
	}
}
