// place in: cache
// A periodic cleanup cycle runs while a store into the file cache is still receiving its data
// (the store holds its shard lock for the whole transfer). When the transfer ends the store must
// be able to register the entry, and the cleanup cycle must finish as well.
package cache

import (
	"bytes"
	"context"
	"io"
	"reservoir/config"
	"testing"
	"time"
)

// gatedReader delivers its content only after the gate is opened.
type gatedReader struct {
	gate <-chan struct{}
	r    io.Reader
}

func (g *gatedReader) Read(p []byte) (int, error) {
	<-g.gate
	return g.r.Read(p)
}

func TestDemoC14_CleanupCycleDuringSlowFileStore(t *testing.T) {
	for _, shards := range []int{1, 2} {
		ctx, cancel := context.WithCancel(context.Background())
		cfg := config.NewDefault()

		// cleanup cycle every 50ms
		c := NewFileCache[TestMeta](cfg, t.TempDir(), 1024*1024, 50*time.Millisecond, shards, ctx)

		resident := FromString("resident")
		if e, err := c.Cache(resident, bytes.NewReader([]byte("resident data")), time.Now().Add(time.Hour), TestMeta{}); err != nil {
			t.Fatalf("Cache failed: %v", err)
		} else {
			e.Data.Close()
		}

		// An incoming key on the resident entry's shard
		var incoming CacheKey
		for i := 0; ; i++ {
			incoming = FromString("incoming-" + string(rune('a'+i)))
			if getLock(c.locks, incoming) == getLock(c.locks, resident) {
				break
			}
		}

		gate := make(chan struct{})
		stored := make(chan error, 1)
		go func() {
			e, err := c.Cache(incoming, &gatedReader{gate: gate, r: bytes.NewReader([]byte("slow upstream body"))}, time.Now().Add(time.Hour), TestMeta{})
			if err == nil {
				e.Data.Close()
			}
			stored <- err
		}()

		// Several cleanup cycles start while the transfer is stalled
		time.Sleep(300 * time.Millisecond)
		close(gate)

		select {
		case err := <-stored:
			if err != nil {
				t.Fatalf("store failed: %v", err)
			}
		case <-time.After(3 * time.Second):
			cancel()
			t.Fatalf("shards=%d: store never completed after its transfer ended: it waits for the index lock held by a cleanup cycle that waits for the store's shard lock", shards)
		}

		// The cache is still usable afterwards
		got := make(chan error, 1)
		go func() {
			e, err := c.Get(resident)
			if err == nil {
				e.Data.Close()
			}
			got <- err
		}()
		select {
		case err := <-got:
			if err != nil {
				t.Fatalf("Get failed: %v", err)
			}
		case <-time.After(3 * time.Second):
			cancel()
			t.Fatalf("shards=%d: Get did not complete", shards)
		}

		c.Destroy()
		cancel()
	}
}
