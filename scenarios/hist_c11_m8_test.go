// place in: proxy/certs
package certs

import (
	"crypto/ecdsa"
	"crypto/elliptic"
	"crypto/rand"
	"crypto/x509"
	"crypto/x509/pkix"
	"encoding/pem"
	"math/big"
	"os"
	"path/filepath"
	"testing"
	"time"
)

// The configured certificate is an ordinary end-entity certificate that carries
// a basicConstraints extension with CA:FALSE (what openssl emits for leaf
// certificates). Either the CA must be refused at start-up, or every tunnel
// certificate must chain to it - it must never silently hand out certificates
// that no client can verify.
func TestDemoC11NonCAWithBasicConstraints(t *testing.T) {
	priv, err := ecdsa.GenerateKey(elliptic.P256(), rand.Reader)
	if err != nil {
		t.Fatal(err)
	}
	tmpl := x509.Certificate{
		SerialNumber:          big.NewInt(7),
		Subject:               pkix.Name{Organization: []string{"not-a-ca"}},
		NotBefore:             time.Now().Add(-time.Minute),
		NotAfter:              time.Now().Add(24 * time.Hour),
		KeyUsage:              x509.KeyUsageDigitalSignature,
		ExtKeyUsage:           []x509.ExtKeyUsage{x509.ExtKeyUsageServerAuth},
		BasicConstraintsValid: true,
		IsCA:                  false,
	}
	der, err := x509.CreateCertificate(rand.Reader, &tmpl, &tmpl, &priv.PublicKey, priv)
	if err != nil {
		t.Fatal(err)
	}
	dir := t.TempDir()
	certFile := filepath.Join(dir, "ca.crt")
	keyFile := filepath.Join(dir, "ca.key")
	if err := os.WriteFile(certFile, pem.EncodeToMemory(&pem.Block{Type: "CERTIFICATE", Bytes: der}), 0o600); err != nil {
		t.Fatal(err)
	}
	kb, _ := x509.MarshalPKCS8PrivateKey(priv)
	if err := os.WriteFile(keyFile, pem.EncodeToMemory(&pem.Block{Type: "PRIVATE KEY", Bytes: kb}), 0o600); err != nil {
		t.Fatal(err)
	}

	ca, err := NewPrivateCA(certFile, keyFile)
	if err != nil {
		return // refused at start-up: fine
	}

	roots := x509.NewCertPool()
	roots.AddCert(ca.cert)
	for _, target := range []string{"example.com:443", "10.1.2.3:8443", "[2001:db8::1]:443"} {
		c, err := ca.GetCertForHost(target)
		if err != nil {
			t.Fatalf("%s: %v", target, err)
		}
		if _, err := c.Leaf.Verify(x509.VerifyOptions{Roots: roots}); err != nil {
			t.Errorf("%s: accepted CA but tunnel certificate does not chain to it: %v", target, err)
		}
	}
}
