// place in: cache
// needs: -race
package cache

import (
	"io"
	"log/slog"
	"reservoir/config"
	"reservoir/utils/duration"
	"testing"
	"time"
)

// The cleanup interval is changed (twice, back to back) through the configuration
// while the janitor goroutine is running. Change listeners run in their own
// goroutines (event.Fire), so they may only hand the new interval to the janitor
// goroutine through the intervalChanged channel; j.interval itself belongs to the
// janitor goroutine (read when the ticker is created, written/read on every reset).
func TestC15Demo_CleanupIntervalChangeVsJanitor(t *testing.T) {
	old := slog.Default()
	slog.SetDefault(slog.New(slog.NewTextHandler(io.Discard, nil)))
	defer slog.SetDefault(old)

	cfg := config.NewDefault()
	c := NewMemoryCache[TestMeta](cfg, 50, 1<<30, time.Hour, 16, t.Context())

	cfg.Cache.CleanupInterval.Overwrite(duration.Duration(30 * time.Minute))
	cfg.Cache.CleanupInterval.Overwrite(duration.Duration(45 * time.Minute))

	// Let the listener goroutines and the janitor goroutine process both changes.
	time.Sleep(300 * time.Millisecond)

	done := make(chan struct{})
	go func() {
		c.Destroy()
		close(done)
	}()
	select {
	case <-done:
	case <-time.After(5 * time.Second):
		t.Fatal("Destroy did not return")
	}
}
