// place in: webserver/api
package api

import (
	"net/http"
	"net/http/httptest"
	"testing"

	"reservoir/webserver/api/apitypes"
)

// The mux serves HEAD on every "GET ..." pattern, so HEAD is a registered method of
// every GET route and must be refused without a live session just like GET.
func TestC20DemoHeadNeedsSessionToo(t *testing.T) {
	mux := http.NewServeMux()
	if err := New(nil).RegisterHandlers(mux); err != nil {
		t.Fatal(err)
	}

	for _, path := range []string{"/api/version", "/api/config", "/api/auth/me"} {
		for _, method := range []string{"GET", "HEAD"} {
			// no cookie
			rec := httptest.NewRecorder()
			mux.ServeHTTP(rec, httptest.NewRequest(method, path, nil))
			if rec.Code != http.StatusUnauthorized {
				t.Errorf("%s %s without cookie: want 401, got %d (headers %v)", method, path, rec.Code, rec.Header())
			}

			// random cookie naming no session
			rec = httptest.NewRecorder()
			req := httptest.NewRequest(method, path, nil)
			req.AddCookie(&http.Cookie{Name: "reservoir.sid", Value: "NOSUCHSESSIONNOSUCHSESSION"})
			mux.ServeHTTP(rec, req)
			if rec.Code != http.StatusUnauthorized {
				t.Errorf("%s %s with random cookie: want 401, got %d", method, path, rec.Code)
			}
		}
	}

	// And the handler itself must not run for an unauthenticated HEAD.
	calls := 0
	m := apitypes.EndpointMethod{Method: "GET", RequiresAuth: true, Func: func(w http.ResponseWriter, r *http.Request, ctx apitypes.Context) {
		calls++
	}}
	h := WrapHandler(nil, m.Func, func(ctx apitypes.Context) (int, error) { return EnsureAllowed(ctx, m) })
	rec := httptest.NewRecorder()
	h(rec, httptest.NewRequest("HEAD", "/api/anything", nil))
	if rec.Code != http.StatusUnauthorized || calls != 0 {
		t.Errorf("HEAD through WrapHandler: want 401 and 0 handler calls, got %d and %d", rec.Code, calls)
	}
}
