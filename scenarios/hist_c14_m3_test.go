// place in: cache
// C14 demo: with a single lock shard a store into a full memory cache must still complete.
//
// The store holds the only shard lock, so the store-triggered eviction cannot lock any
// victim and frees nothing. The unmodified code then retries exactly once without eviction
// and returns ErrCacheMemoryExceeded. The mutant retries with eviction enabled again, so
// the store recurses (evict, retry, evict, retry, ...) without bound and the process dies
// with "fatal error: stack overflow" while the shard lock is still held.
//
// To fail gracefully instead of crashing the test binary, the test counts the eviction
// passes through the janitor's getCacheLen callback (called once per evict) and, after
// far more passes than a single store may ever need, lifts the size limit so that the
// runaway recursion ends.
package cache

import (
	"bytes"
	"io"
	"log/slog"
	"reservoir/config"
	"sync/atomic"
	"testing"
	"time"
)

func TestC14_StoreIntoFullCacheWithOneShardCompletes(t *testing.T) {
	oldLogger := slog.Default()
	slog.SetDefault(slog.New(slog.NewTextHandler(io.Discard, nil)))
	defer slog.SetDefault(oldLogger)

	cfg := config.NewDefault()
	const limit = 1000

	// one lock shard, 50% memory budget (far above limit), janitor effectively idle
	c := NewMemoryCache[TestMeta](cfg, 50, limit, time.Hour, 1, t.Context())
	defer c.Destroy()

	const maxPasses = 50
	var evictPasses atomic.Int64
	origLen := c.janitor.cacheFns.getCacheLen
	c.janitor.cacheFns.getCacheLen = func() int {
		if evictPasses.Add(1) > maxPasses {
			// safety valve: end a runaway retry loop instead of overflowing the stack
			c.maxCacheSize.Set(1 << 40)
		}
		return origLen()
	}

	// fill the cache exactly up to its limit
	e, err := c.Cache(FromString("key-1"), bytes.NewReader(make([]byte, limit)), time.Now().Add(time.Hour), TestMeta{})
	if err != nil {
		t.Fatalf("first store failed: %v", err)
	}
	e.Data.Close()

	done := make(chan error, 1)
	go func() {
		_, err := c.Cache(FromString("key-2"), bytes.NewReader(make([]byte, 10)), time.Now().Add(time.Hour), TestMeta{})
		done <- err
	}()

	select {
	case err = <-done:
	case <-time.After(20 * time.Second):
		t.Fatalf("store into a full single-shard cache did not complete (eviction passes so far: %d)", evictPasses.Load())
	}

	if n := evictPasses.Load(); n > 1 {
		t.Fatalf("store into a full single-shard cache ran %d eviction passes (stopped artificially); it would never complete on its own", n)
	}
	if err != ErrCacheMemoryExceeded {
		t.Fatalf("expected ErrCacheMemoryExceeded, got %v", err)
	}

	// the shard lock must be free again: another operation on the same shard completes
	got := make(chan error, 1)
	go func() {
		r, err := c.Get(FromString("key-1"))
		if err == nil {
			r.Data.Close()
		}
		got <- err
	}()
	select {
	case err := <-got:
		if err != nil {
			t.Fatalf("Get after rejected store failed: %v", err)
		}
	case <-time.After(5 * time.Second):
		t.Fatal("Get after rejected store blocked")
	}
}
