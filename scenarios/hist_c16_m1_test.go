// place in: tests
package tests

import (
	"bytes"
	"io"
	"net/http"
	"testing"
)

// C16: a Range request that the origin answers with 416, and whose retry
// without Range yields a cacheable 200, must still be answered with a
// well-formed response (the full 200 body) and must not panic the handler.
func TestC16RangeRetryAfterUpstream416IsAnswered(t *testing.T) {
	env := SetupTestEnv(t)

	content := []byte("0123456789abcdefghijklmnopqrstuvwxyz")
	env.Upstream.Config.Handler = http.HandlerFunc(func(w http.ResponseWriter, r *http.Request) {
		if r.Header.Get("Range") != "" {
			// Origin considers every range unsatisfiable
			w.Header().Set("Content-Range", "bytes */36")
			w.WriteHeader(http.StatusRequestedRangeNotSatisfiable)
			return
		}
		w.Header().Set("Cache-Control", "max-age=60")
		w.Header().Set("ETag", "\"c16-etag\"")
		w.WriteHeader(http.StatusOK)
		w.Write(content)
	})
	env.Start()

	req, _ := http.NewRequest("GET", env.Upstream.URL+"/c16-range-416", nil)
	req.Header.Set("Range", "bytes=100-200")
	resp, err := env.Client.Do(req)
	if err != nil {
		t.Fatalf("client got no well-formed response (handler panicked / connection dropped): %v", err)
	}
	defer resp.Body.Close()

	body, err := io.ReadAll(resp.Body)
	if err != nil {
		t.Fatalf("reading body failed: %v", err)
	}
	if resp.StatusCode != http.StatusOK {
		t.Fatalf("expected 200 with the full body after the retry without Range, got %d", resp.StatusCode)
	}
	if !bytes.Equal(body, content) {
		t.Fatalf("expected full body %q, got %q", content, body)
	}
}
