// place in: tests
// A configuration file with cache.lock_shards = 0 must be rejected with an error (the
// loader then falls back to the defaults); it must never be accepted and make request
// handling panic (integer divide by zero when the per-key lock shard is selected).
package tests

import (
	"encoding/json"
	"io"
	"net/http"
	"net/http/httptest"
	"net/url"
	"os"
	"path/filepath"
	"reservoir/config"
	"reservoir/proxy"
	"testing"
	"time"
)

func TestDemoC16ConfigLockShardsZeroFromDisk(t *testing.T) {
	// LoadOrDefault rewrites var/config.json when it rejects a file; do not leave it behind.
	if _, err := os.Stat("var/config.json"); os.IsNotExist(err) {
		t.Cleanup(func() { os.Remove("var/config.json") })
	}

	// A complete, otherwise valid configuration file, as persisted by the program itself.
	raw, err := json.Marshal(config.NewDefault())
	if err != nil {
		t.Fatalf("marshal default config: %v", err)
	}
	var doc map[string]any
	if err := json.Unmarshal(raw, &doc); err != nil {
		t.Fatalf("unmarshal default config: %v", err)
	}
	cacheDoc := doc["cache"].(map[string]any)
	cacheDoc["lock_shards"] = 0
	cacheDoc["type"] = "memory"
	raw, err = json.Marshal(doc)
	if err != nil {
		t.Fatalf("marshal edited config: %v", err)
	}
	path := filepath.Join(t.TempDir(), "config.json")
	if err := os.WriteFile(path, raw, 0644); err != nil {
		t.Fatal(err)
	}

	// Either the value is rejected (defaults are used) or it is accepted; in both cases
	// the proxy built from the resulting configuration has to answer requests.
	cfg, err := config.LoadOrDefault(path)
	if err != nil {
		t.Fatalf("LoadOrDefault: %v", err)
	}
	t.Logf("lock_shards after loading: %d", cfg.Cache.LockShards.Read())
	cfg.Proxy.UpstreamDefaultHttps.Overwrite(false)
	cfg.Cache.File.Dir.Overwrite(t.TempDir())

	upstream := httptest.NewServer(http.HandlerFunc(func(w http.ResponseWriter, r *http.Request) {
		w.Header().Set("Cache-Control", "max-age=60")
		w.Write([]byte("response body"))
	}))
	defer upstream.Close()

	p, err := proxy.NewProxy(cfg, &FakeCA{}, t.Context())
	if err != nil {
		t.Fatalf("NewProxy: %v", err)
	}
	defer p.Destroy()
	proxyServer := httptest.NewServer(p)
	defer proxyServer.Close()

	proxyURL, _ := url.Parse(proxyServer.URL)
	client := &http.Client{
		Timeout:   5 * time.Second,
		Transport: &http.Transport{Proxy: http.ProxyURL(proxyURL)},
	}
	defer client.CloseIdleConnections()

	resp, err := client.Get(upstream.URL + "/lock-shards")
	if err != nil {
		t.Fatalf("request through a proxy configured from disk got no HTTP response: %v", err)
	}
	defer resp.Body.Close()
	body, _ := io.ReadAll(resp.Body)
	if resp.StatusCode != http.StatusOK || string(body) != "response body" {
		t.Fatalf("unexpected response: status %d body %q", resp.StatusCode, body)
	}
}
