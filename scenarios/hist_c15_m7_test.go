// place in: tests
// needs: -race
package tests

import (
	"io"
	"net/http"
	"sync"
	"testing"
)

// The origin answer went through three intermediaries already: it carries three Via
// fields. net/http collects repeated fields with append, so the stored value slice of
// "Via" has len 3 and cap 4. Every response served from the store adds the proxy's own
// Via entry; that must happen on a copy that belongs to the response, never in the spare
// slot of the slice that is part of the stored entry metadata and shared by all clients.
func TestDemoC15StoredHeaderValuesAreNotSharedWithResponses(t *testing.T) {
	env := SetupTestEnv(t)
	env.Upstream.Config.Handler = http.HandlerFunc(func(w http.ResponseWriter, r *http.Request) {
		w.Header().Set("Cache-Control", "max-age=600")
		w.Header().Set("ETag", "\"via-etag\"")
		w.Header().Add("Via", "1.1 edge-a")
		w.Header().Add("Via", "1.1 edge-b")
		w.Header().Add("Via", "1.1 edge-c")
		w.WriteHeader(http.StatusOK)
		w.Write([]byte("response body"))
	})
	env.Start()

	target := env.Upstream.URL + "/via-test"

	get := func() {
		resp, err := env.Client.Get(target)
		if err != nil {
			t.Errorf("request failed: %v", err)
			return
		}
		defer resp.Body.Close()
		io.Copy(io.Discard, resp.Body)
		via := resp.Header.Values("Via")
		if len(via) != 4 || via[0] != "1.1 edge-a" || via[1] != "1.1 edge-b" || via[2] != "1.1 edge-c" || via[3] != "HTTP/1.1 reservoir" {
			t.Errorf("unexpected Via fields: %q", via)
		}
	}

	// Store the entry
	get()

	// Concurrent hits on the stored entry
	for round := 0; round < 5; round++ {
		var wg sync.WaitGroup
		start := make(chan struct{})
		for i := 0; i < 16; i++ {
			wg.Add(1)
			go func() {
				defer wg.Done()
				<-start
				get()
			}()
		}
		close(start)
		wg.Wait()
	}
}
