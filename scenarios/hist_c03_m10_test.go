// place in: tests
package tests

import (
	"net/http"
	"strconv"
	"testing"
	"time"
)

// An origin whose clock runs ahead of the proxy's stamps its responses with a Date in the
// (proxy's) future. The Age of a HIT must still be at least the time the response has been
// resident in the cache.
func TestSeedC03AgeWithOriginClockAhead(t *testing.T) {
	env := SetupTestEnv(t)
	env.Upstream.Config.Handler = http.HandlerFunc(func(w http.ResponseWriter, r *http.Request) {
		w.Header().Set("Date", time.Now().Add(time.Hour).UTC().Format(http.TimeFormat))
		w.Header().Set("Cache-Control", "max-age=600")
		w.WriteHeader(http.StatusOK)
		w.Write([]byte("clock skew body"))
	})
	env.Start()

	url := env.Upstream.URL + "/seed-c03-age-skew"

	resp1, err := env.Client.Get(url)
	if err != nil {
		t.Fatalf("first request failed: %v", err)
	}
	resp1.Body.Close()

	time.Sleep(2200 * time.Millisecond)

	resp2, err := env.Client.Get(url)
	if err != nil {
		t.Fatalf("second request failed: %v", err)
	}
	resp2.Body.Close()

	if xc := resp2.Header.Get("X-Cache"); xc != "HIT" {
		t.Fatalf("expected HIT on second request, got %q", xc)
	}
	age, err := strconv.Atoi(resp2.Header.Get("Age"))
	if err != nil {
		t.Fatalf("Age header missing or not a number: %q", resp2.Header.Get("Age"))
	}
	if age < 2 {
		t.Fatalf("response was stored more than 2s ago, but Age is %d", age)
	}
}
