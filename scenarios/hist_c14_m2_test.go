// place in: cache
// Demonstrates a store into a full memory cache whose store-triggered eviction
// has a victim on another shard: the store (and then the whole cache) must not hang.
package cache

import (
	"bytes"
	"fmt"
	"reservoir/config"
	"testing"
	"time"
)

func TestDemoC14_StoreIntoFullMemoryCacheCompletes(t *testing.T) {
	ctx := t.Context()
	cfg := config.NewDefault()

	const shards = 16
	// limit 1000 bytes, janitor effectively never ticks
	c := NewMemoryCache[TestMeta](cfg, 1, 1000, time.Hour, shards, ctx)
	defer c.Destroy()

	old1 := FromString("old-1")
	old2 := FromString("old-2")

	// The key whose store triggers the eviction lives on a shard different from
	// the shards of the eviction victims (so the eviction can lock and remove them).
	var trigger CacheKey
	for i := 0; ; i++ {
		trigger = FromString(fmt.Sprintf("trigger-%d", i))
		l := getLock(c.locks, trigger)
		if l != getLock(c.locks, old1) && l != getLock(c.locks, old2) {
			break
		}
	}

	store := func(k CacheKey, n int) error {
		e, err := c.Cache(k, bytes.NewReader(make([]byte, n)), time.Now().Add(time.Hour), TestMeta{})
		if err == nil {
			e.Data.Close()
		}
		return err
	}

	if err := store(old1, 600); err != nil {
		t.Fatalf("Cache failed: %v", err)
	}
	if err := store(old2, 600); err != nil { // 1200 >= 1000: the next store evicts
		t.Fatalf("Cache failed: %v", err)
	}

	done := make(chan error, 1)
	go func() {
		err := store(trigger, 10)
		if err == nil {
			// the rest of the cache must stay usable as well
			_, err = c.Get(trigger)
		}
		done <- err
	}()

	select {
	case err := <-done:
		if err != nil {
			t.Fatalf("store into full cache failed: %v", err)
		}
	case <-time.After(3 * time.Second):
		t.Fatal("deadlock: store into a full memory cache (store-triggered eviction) never completed")
	}
}
