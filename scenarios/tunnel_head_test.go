package tests

import (
	"bufio"
	"crypto/tls"
	"fmt"
	"io"
	"net"
	"net/http"
	"strings"
	"testing"
	"time"
)

// Scenario for C10 / C16: a HEAD request on a tunnel is answered with the headers of the
// resource and no body, and the tunnel stays usable: the next request gets its own answer.
func TestGovcScenarioTunnelHeadThenGet(t *testing.T) {
	env := SetupHttpsTestEnv(t)
	env.Upstream.Config.Handler = http.HandlerFunc(func(w http.ResponseWriter, r *http.Request) {
		w.Header().Set("Cache-Control", "max-age=60")
		w.Header().Set("X-Path", r.URL.Path)
		w.Header().Set("Content-Length", fmt.Sprint(len("body of "+r.URL.Path)))
		if r.Method != http.MethodHead {
			io.WriteString(w, "body of "+r.URL.Path)
		}
	})
	env.Start()
	target := strings.TrimPrefix(env.Upstream.URL, "https://")
	proxyAddr := strings.TrimPrefix(env.ProxyServer.URL, "http://")
	raw, err := net.DialTimeout("tcp", proxyAddr, 5*time.Second)
	if err != nil {
		t.Fatal(err)
	}
	defer raw.Close()
	raw.SetDeadline(time.Now().Add(8 * time.Second))
	fmt.Fprintf(raw, "CONNECT %s HTTP/1.1\r\nHost: %s\r\n\r\n", target, target)
	if resp, err := http.ReadResponse(bufio.NewReader(raw), nil); err != nil || resp.StatusCode != 200 {
		t.Fatalf("CONNECT: %v", err)
	}
	conn := tls.Client(raw, &tls.Config{InsecureSkipVerify: true})
	if err := conn.Handshake(); err != nil {
		t.Fatal(err)
	}
	br := bufio.NewReader(conn)
	do := func(n int, method, path string) {
		t.Helper()
		fmt.Fprintf(conn, "%s %s HTTP/1.1\r\nHost: %s\r\n\r\n", method, path, target)
		resp, err := http.ReadResponse(br, &http.Request{Method: method})
		if err != nil {
			t.Fatalf("exchange %d (%s %s): no well-formed response: %v", n, method, path, err)
		}
		b, err := io.ReadAll(resp.Body)
		resp.Body.Close()
		if err != nil {
			t.Fatalf("exchange %d (%s %s): body: %v", n, method, path, err)
		}
		want := "body of " + path
		if method == "HEAD" {
			want = ""
		}
		if resp.StatusCode != 200 || resp.Header.Get("X-Path") != path || string(b) != want {
			t.Fatalf("exchange %d (%s %s): got status %d X-Path %q body %q", n, method, path, resp.StatusCode, resp.Header.Get("X-Path"), b)
		}
	}
	do(1, "GET", "/a")  // stored
	do(2, "HEAD", "/a") // answered from the store
	do(3, "GET", "/b")
	do(4, "HEAD", "/c") // answered by the origin
	do(5, "GET", "/d")
}
