// place in: proxy
package proxy

import (
	"io"
	"net/http"
	"net/http/httptest"
	"strings"
	"sync/atomic"
	"testing"
	"time"

	"reservoir/cache"
	"reservoir/config"
)

// A store that loses an entry right after its lifetime was renewed (as an eviction, a
// cleanup run or a removal by the operator at that very moment would do).
type c05VanishingCache struct {
	inner cache.Cache[cachedRequestInfo]
	armed atomic.Bool
}

func (v *c05VanishingCache) Get(key cache.CacheKey) (*cache.Entry[cachedRequestInfo], error) {
	return v.inner.Get(key)
}
func (v *c05VanishingCache) Cache(key cache.CacheKey, data io.Reader, expires time.Time, md cachedRequestInfo) (*cache.Entry[cachedRequestInfo], error) {
	return v.inner.Cache(key, data, expires, md)
}
func (v *c05VanishingCache) Delete(key cache.CacheKey) error { return v.inner.Delete(key) }
func (v *c05VanishingCache) GetMetadata(key cache.CacheKey) (*cache.EntryMetadata[cachedRequestInfo], bool, error) {
	return v.inner.GetMetadata(key)
}
func (v *c05VanishingCache) UpdateMetadata(key cache.CacheKey, mod func(*cache.EntryMetadata[cachedRequestInfo])) error {
	err := v.inner.UpdateMetadata(key, mod)
	if err == nil && v.armed.CompareAndSwap(true, false) {
		v.inner.Delete(key)
	}
	return err
}
func (v *c05VanishingCache) Destroy() { v.inner.Destroy() }

// Two clients ask for the same stale resource at the same time. The origin confirms the
// stored copy (304), but the stored copy disappears right after its lifetime was renewed.
// Both clients must still receive the complete resource.
func TestC05StaleEntryVanishesAfterRenewal(t *testing.T) {
	const body = "the complete resource body"

	var conditionalHits int32
	sawConditional := make(chan struct{}, 8)
	release := make(chan struct{})
	origin := httptest.NewServer(http.HandlerFunc(func(w http.ResponseWriter, r *http.Request) {
		if r.Header.Get("If-None-Match") == "\"v1\"" {
			atomic.AddInt32(&conditionalHits, 1)
			sawConditional <- struct{}{}
			select {
			case <-release:
			case <-time.After(10 * time.Second):
			}
			w.WriteHeader(http.StatusNotModified)
			return
		}
		w.Header().Set("Cache-Control", "max-age=60")
		w.Header().Set("ETag", "\"v1\"")
		w.WriteHeader(http.StatusOK)
		w.Write([]byte(body))
	}))
	defer origin.Close()

	cfg := config.NewDefault()
	cfg.Proxy.UpstreamDefaultHttps.Overwrite(false)
	inner := cache.NewMemoryCache[cachedRequestInfo](cfg, 50, 1<<20, time.Hour, 4, t.Context())
	store := &c05VanishingCache{inner: inner}
	defer store.Destroy()
	p := &Proxy{cache: store, fetch: newFetcher(store, cfg), cfg: cfg}

	target := origin.URL + "/c05-stale-vanishes"
	newReq := func() *http.Request { return httptest.NewRequest(http.MethodGet, target, nil) }

	// A stored copy that has already expired.
	key := cache.MakeFromRequest(newReq())
	entry, err := inner.Cache(key, strings.NewReader(body), time.Now().Add(-time.Minute), cachedRequestInfo{
		ETag:         "\"v1\"",
		LastModified: time.Now().Add(-time.Hour),
		Header:       http.Header{"Etag": {"\"v1\""}, "Cache-Control": {"max-age=60"}},
	})
	if err != nil {
		t.Fatalf("could not seed the store: %v", err)
	}
	entry.Data.Close()
	store.armed.Store(true)

	serve := func(done chan<- *httptest.ResponseRecorder) {
		rec := httptest.NewRecorder()
		p.ServeHTTP(rec, newReq())
		done <- rec
	}
	answers := make(chan *httptest.ResponseRecorder, 2)
	go serve(answers)
	select {
	case <-sawConditional:
	case <-time.After(5 * time.Second):
		t.Fatal("origin never saw the revalidation")
	}
	go serve(answers)
	time.Sleep(300 * time.Millisecond) // the second client now waits for the revalidation in flight
	close(release)

	for i := 0; i < 2; i++ {
		select {
		case rec := <-answers:
			if rec.Code != http.StatusOK || rec.Body.String() != body {
				t.Errorf("client got status %d body %q, want 200 %q", rec.Code, rec.Body.String(), body)
			}
		case <-time.After(10 * time.Second):
			t.Fatal("a client never got an answer")
		}
	}
	if n := atomic.LoadInt32(&conditionalHits); n != 1 {
		t.Errorf("origin saw %d revalidations, want 1", n)
	}
}
