// place in: cache
// Demonstrates a shard lock that is never released when an eviction candidate
// disappears (is deleted) between the eviction snapshot and its removal.
package cache

import (
	"bytes"
	"context"
	"fmt"
	"log/slog"
	"reservoir/config"
	"sync"
	"testing"
	"time"
)

// hookHandler runs fn once, when a record with the given message is logged.
type hookHandler struct {
	msg  string
	once *sync.Once
	fn   func()
}

func (h hookHandler) Enabled(context.Context, slog.Level) bool { return true }
func (h hookHandler) Handle(_ context.Context, r slog.Record) error {
	if r.Message == h.msg {
		h.once.Do(h.fn)
	}
	return nil
}
func (h hookHandler) WithAttrs([]slog.Attr) slog.Handler { return h }
func (h hookHandler) WithGroup(string) slog.Handler      { return h }

func TestDemoC14_EvictRacingDeleteLeavesShardUsable(t *testing.T) {
	ctx := t.Context()
	cfg := config.NewDefault()

	const shards = 16
	// limit 1000 bytes, janitor effectively never ticks
	c := NewMemoryCache[TestMeta](cfg, 1, 1000, time.Hour, shards, ctx)
	defer c.Destroy()

	// Pick a victim key and a trigger key that live on different shards.
	victim := FromString("victim")
	var trigger CacheKey
	for i := 0; ; i++ {
		trigger = FromString(fmt.Sprintf("trigger-%d", i))
		if getLock(c.locks, trigger) != getLock(c.locks, victim) {
			break
		}
	}

	store := func(k CacheKey, n int) {
		e, err := c.Cache(k, bytes.NewReader(make([]byte, n)), time.Now().Add(time.Hour), TestMeta{})
		if err != nil {
			t.Fatalf("Cache failed: %v", err)
		}
		e.Data.Close()
	}

	// victim is the oldest entry => first eviction candidate
	store(victim, 300)
	time.Sleep(30 * time.Millisecond)
	store(FromString("filler-1"), 450)
	time.Sleep(30 * time.Millisecond)
	store(FromString("filler-2"), 450) // 1200 >= 1000: next store evicts

	// Interleaving: after the eviction took its snapshot (and before it starts
	// removing entries) somebody else deletes the first candidate.
	old := slog.Default()
	defer slog.SetDefault(old)
	slog.SetDefault(slog.New(hookHandler{
		msg:  "Target size for eviction",
		once: &sync.Once{},
		fn: func() {
			if err := c.Delete(victim); err != nil {
				t.Errorf("Delete failed: %v", err)
			}
		},
	}))

	done := make(chan struct{})
	go func() {
		defer close(done)
		// store-triggered eviction
		e, err := c.Cache(trigger, bytes.NewReader(make([]byte, 10)), time.Now().Add(time.Hour), TestMeta{})
		if err == nil {
			e.Data.Close()
		}
		// any later operation on the victim's shard must still complete
		c.Get(victim)
	}()

	select {
	case <-done:
	case <-time.After(3 * time.Second):
		t.Fatal("deadlock: operation on the victim's shard never completed after an eviction raced with a delete")
	}
}
