// place in: cache
package cache

import (
	"bytes"
	"fmt"
	"reservoir/config"
	"testing"
	"time"
)

// An accepted configuration must be one the cache can actually run under.
// lock_shards = 1 is the smallest value config verification accepts; a cache
// started with it has to be able to store and serve an entry.
func TestDemoC18AcceptedMinimumLockShardsIsWorkable(t *testing.T) {
	cfg := config.NewDefault()

	status, err := config.UpdatePartialFromConfig(cfg, map[string]any{
		"cache": map[string]any{"lock_shards": float64(1)},
	})
	if err != nil || status == config.UpdateStatusFailed {
		t.Fatalf("lock_shards=1 is a valid boundary value and must be accepted, got status=%v err=%v", status, err)
	}
	if got := cfg.Cache.LockShards.Read(); got != 1 {
		t.Fatalf("expected lock_shards to be 1 after the accepted update, got %d", got)
	}

	c := NewMemoryCache[TestMeta](cfg,
		cfg.Cache.Memory.MemoryBudgetPercent.Read(),
		cfg.Cache.MaxCacheSize.Read().Bytes(),
		cfg.Cache.CleanupInterval.Read().Cast(),
		cfg.Cache.LockShards.Read(),
		t.Context())
	defer c.Destroy()

	serve := func() (err error) {
		defer func() {
			if r := recover(); r != nil {
				err = fmt.Errorf("cache panicked under an accepted configuration: %v", r)
			}
		}()
		key := FromString("some-key")
		entry, err := c.Cache(key, bytes.NewReader([]byte("payload")), time.Now().Add(time.Hour), TestMeta{ID: "m"})
		if err != nil {
			return err
		}
		entry.Data.Close()
		got, err := c.Get(key)
		if err != nil {
			return err
		}
		got.Data.Close()
		return nil
	}

	if err := serve(); err != nil {
		t.Fatalf("accepted configuration (lock_shards=1) is not workable: %v", err)
	}
}
