// place in: tests
// A Range request whose If-Range validator does not match the stored entity must be
// answered with the complete stored body (200), with the length of that complete body.
package tests

import (
	"bytes"
	"io"
	"net/http"
	"testing"
)

func TestDemoC01IfRangeMismatchServesCompleteBody(t *testing.T) {
	env := SetupTestEnv(t)

	content := []byte("0123456789abcdefghijklmnopqrstuvwxyz")
	env.Upstream.Config.Handler = http.HandlerFunc(func(w http.ResponseWriter, r *http.Request) {
		w.Header().Set("Cache-Control", "max-age=60")
		w.Header().Set("ETag", "\"v2\"")
		w.Header().Set("Content-Type", "text/plain")
		w.WriteHeader(http.StatusOK)
		// The origin streams the body (no Content-Length, chunked transfer) and ignores Range
		w.Write(content[:10])
		if f, ok := w.(http.Flusher); ok {
			f.Flush()
		}
		w.Write(content[10:])
	})
	env.Start()

	targetURL := env.Upstream.URL + "/if-range-test"

	// Warm up the cache
	resp, err := env.Client.Get(targetURL)
	if err != nil {
		t.Fatalf("Warmup failed: %v", err)
	}
	body, _ := io.ReadAll(resp.Body)
	resp.Body.Close()
	if !bytes.Equal(body, content) {
		t.Fatalf("Warmup: expected body %q, got %q", content, body)
	}

	// The client holds a part of an older version ("v1") and asks for the rest of it
	req, _ := http.NewRequest("GET", targetURL, nil)
	req.Header.Set("Range", "bytes=4-9")
	req.Header.Set("If-Range", "\"v1\"")
	resp, err = env.Client.Do(req)
	if err != nil {
		t.Fatalf("Range request failed: %v", err)
	}
	defer resp.Body.Close()
	body, readErr := io.ReadAll(resp.Body)

	if resp.StatusCode != http.StatusOK {
		t.Fatalf("Expected 200 (If-Range mismatch), got %d", resp.StatusCode)
	}
	if readErr != nil {
		t.Errorf("Reading the body failed: %v", readErr)
	}
	if !bytes.Equal(body, content) {
		t.Errorf("Expected the complete body %q, got %q", content, body)
	}
	if cr := resp.Header.Get("Content-Range"); cr != "" {
		t.Errorf("A 200 response must not announce a slice, got Content-Range %q", cr)
	}
	if resp.ContentLength >= 0 && resp.ContentLength != int64(len(content)) {
		t.Errorf("Expected Content-Length %d (or none), got %d", len(content), resp.ContentLength)
	}
}
