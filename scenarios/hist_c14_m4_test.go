// place in: cache
// C14 demo: a file-cache store on one shard must complete while a transfer on another
// shard is still in flight, also right after the size limit was lowered at run time.
//
// Sequence: entry V (600 bytes) lives on shard 0. A slow store of another key on shard 0
// is in flight (it holds the shard-0 lock while it reads its body). The limit is lowered
// from 1000 to 500 bytes, so the cache is now "full". A store on shard 1 triggers an
// eviction, which cannot lock V's shard and frees nothing. The unmodified code evicts
// once and then stores; the mutant keeps evicting until the size drops below the limit,
// i.e. it spins for as long as the slow transfer lasts. Here the slow transfer only ends
// after the shard-1 store has completed, so with the mutant neither ever completes.
package cache

import (
	"bytes"
	"fmt"
	"io"
	"log/slog"
	"os"
	"reservoir/config"
	"reservoir/utils/bytesize"
	"testing"
	"time"
)

func TestC14_FileStoreCompletesWhileVictimShardBusyAfterLimitChange(t *testing.T) {
	oldLogger := slog.Default()
	slog.SetDefault(slog.New(slog.NewTextHandler(io.Discard, nil)))
	defer slog.SetDefault(oldLogger)

	cfg := config.NewDefault()
	tmpDir, err := os.MkdirTemp("", "reservoir-c14-demo-*")
	if err != nil {
		t.Fatalf("tmp dir: %v", err)
	}
	defer os.RemoveAll(tmpDir)

	c := NewFileCache[TestMeta](cfg, tmpDir, 1000, time.Hour, 2, t.Context())
	defer c.Destroy()

	// two distinct keys on shard 0 and one key on shard 1
	var shard0 []CacheKey
	var shard1 []CacheKey
	for i := 0; len(shard0) < 2 || len(shard1) < 1; i++ {
		k := FromString(fmt.Sprintf("c14-key-%d", i))
		if getLock(c.locks, k) == &c.locks[0] {
			shard0 = append(shard0, k)
		} else {
			shard1 = append(shard1, k)
		}
	}
	victim, slowKey, otherKey := shard0[0], shard0[1], shard1[0]
	exp := time.Now().Add(time.Hour)

	e, err := c.Cache(victim, bytes.NewReader(make([]byte, 600)), exp, TestMeta{})
	if err != nil {
		t.Fatalf("store of victim failed: %v", err)
	}
	e.Data.Close()

	// slow store on shard 0: holds the shard-0 lock until its body ends
	pr, pw := io.Pipe()
	inflight := make(chan struct{})
	release := make(chan struct{})
	go func() {
		pw.Write(make([]byte, 10)) // returns once the store has read it, i.e. holds the lock
		close(inflight)
		<-release
		pw.Close()
	}()
	slowDone := make(chan error, 1)
	go func() {
		e, err := c.Cache(slowKey, pr, exp, TestMeta{})
		if err == nil {
			e.Data.Close()
		}
		slowDone <- err
	}()
	select {
	case <-inflight:
	case <-time.After(5 * time.Second):
		t.Fatal("slow store did not start")
	}

	// run-time limit change: 1000 -> 500 bytes, the cache (600 bytes) is now over its limit
	cfg.Cache.MaxCacheSize.Overwrite(bytesize.ByteSize(500))
	for deadline := time.Now().Add(5 * time.Second); c.maxCacheSize.Get() != 500; {
		if time.Now().After(deadline) {
			t.Fatal("limit change was not applied")
		}
		time.Sleep(time.Millisecond)
	}

	otherDone := make(chan error, 1)
	go func() {
		e, err := c.Cache(otherKey, bytes.NewReader(make([]byte, 10)), exp, TestMeta{})
		if err == nil {
			e.Data.Close()
		}
		otherDone <- err
	}()

	stuck := false
	select {
	case err := <-otherDone:
		if err != nil {
			t.Errorf("store on shard 1 failed: %v", err)
		}
	case <-time.After(3 * time.Second):
		stuck = true
	}

	// the slow transfer ends only now (after the shard-1 store completed or was given up on)
	close(release)
	select {
	case err := <-slowDone:
		if err != nil {
			t.Errorf("slow store failed: %v", err)
		}
	case <-time.After(10 * time.Second):
		t.Error("slow store did not complete")
	}
	if stuck {
		select {
		case <-otherDone:
		case <-time.After(10 * time.Second):
		}
		t.Fatal("store on shard 1 did not complete while a transfer on shard 0 was in flight: it keeps re-running the eviction, waiting for a shard lock held by another operation")
	}
}
