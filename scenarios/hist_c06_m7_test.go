// place in: tests
package tests

import (
	"io"
	"net/http"
	"sync"
	"testing"
	"time"
)

// A client's own validator on a partial request must never reach the origin, and an
// origin "304" can therefore never renew a stored body on the strength of a validator
// that is not the stored one.
func TestSeedC06RangeRequestClientValidatorNotForwarded(t *testing.T) {
	env := SetupTestEnv(t)

	var mu sync.Mutex
	version := 1
	var seenClientValidator bool

	bodies := map[int]string{1: "AAAAAAAAAA-version-1", 2: "BBBBBBBBBB-version-2"}
	etags := map[int]string{1: `"v1"`, 2: `"v2"`}

	env.Upstream.Config.Handler = http.HandlerFunc(func(w http.ResponseWriter, r *http.Request) {
		mu.Lock()
		v := version
		mu.Unlock()

		inm := r.Header.Get("If-None-Match")
		if inm == `"v2"` && r.Header.Get("Range") != "" {
			mu.Lock()
			seenClientValidator = true
			mu.Unlock()
		}
		if inm != "" && inm == etags[v] {
			w.WriteHeader(http.StatusNotModified)
			return
		}
		w.Header().Set("Cache-Control", "max-age=1")
		w.Header().Set("ETag", etags[v])
		w.WriteHeader(http.StatusOK)
		w.Write([]byte(bodies[v]))
	})
	env.Start()

	target := env.Upstream.URL + "/seed-c06-range"

	get := func(hdr map[string]string) (int, string) {
		req, _ := http.NewRequest("GET", target, nil)
		for k, v := range hdr {
			req.Header.Set(k, v)
		}
		resp, err := env.Client.Do(req)
		if err != nil {
			t.Fatalf("request failed: %v", err)
		}
		defer resp.Body.Close()
		b, _ := io.ReadAll(resp.Body)
		return resp.StatusCode, string(b)
	}

	// 1. version 1 is stored
	if _, body := get(nil); body != bodies[1] {
		t.Fatalf("warm-up: got %q", body)
	}

	// 2. the stored response expires, the origin moves on to version 2
	time.Sleep(1300 * time.Millisecond)
	mu.Lock()
	version = 2
	mu.Unlock()

	// 3. a client that already holds version 2 asks for a part of it, conditionally
	status, part := get(map[string]string{"Range": "bytes=0-3", "If-None-Match": `"v2"`})
	t.Logf("partial request answered with %d %q", status, part)
	if part == bodies[1][0:4] {
		t.Errorf("partial request was answered from the expired version 1 body: %q", part)
	}

	mu.Lock()
	leaked := seenClientValidator
	mu.Unlock()
	if leaked {
		t.Errorf("the client's If-None-Match reached the origin")
	}

	// 4. version 1 expired before the origin changed: it must not be back in service
	if _, body := get(nil); body != bodies[2] {
		t.Errorf("after the origin changed, got %q, want %q", body, bodies[2])
	}
}
