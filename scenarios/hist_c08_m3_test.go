// place in: tests
package tests

import (
	"io"
	"net/http"
	"testing"
)

// A Range request that the origin answers with 416 is retried by the proxy without the
// Range header. When the answer to the retry is not storable, it is relayed to the client:
// the client must then see the status of the response whose headers and body it gets
// (the 200 of the retry), not the 416 of the response that was thrown away.
func TestSeedC08RetryAfter416RelaysStatusOfRetriedResponse(t *testing.T) {
	env := SetupTestEnv(t)

	env.Upstream.Config.Handler = http.HandlerFunc(func(w http.ResponseWriter, r *http.Request) {
		if r.Header.Get("Range") != "" {
			w.Header().Set("Content-Range", "bytes */13")
			w.WriteHeader(http.StatusRequestedRangeNotSatisfiable)
			return
		}
		w.Header().Set("Cache-Control", "no-store")
		w.Header().Set("X-Origin-Answer", "full")
		w.WriteHeader(http.StatusOK)
		w.Write([]byte("full response"))
	})
	env.Start()

	req, _ := http.NewRequest("GET", env.Upstream.URL+"/seed-c08-416-retry", nil)
	req.Header.Set("Range", "bytes=100-200")
	resp, err := env.Client.Do(req)
	if err != nil {
		t.Fatalf("request failed: %v", err)
	}
	defer resp.Body.Close()
	body, _ := io.ReadAll(resp.Body)

	if resp.Header.Get("X-Origin-Answer") != "full" || string(body) != "full response" {
		t.Fatalf("expected the retried (full) response to be relayed, got status %d header %q body %q",
			resp.StatusCode, resp.Header.Get("X-Origin-Answer"), body)
	}
	if resp.StatusCode != http.StatusOK {
		t.Errorf("relayed the origin's 200 response with status %d", resp.StatusCode)
	}
}
