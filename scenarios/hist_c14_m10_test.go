// place in: cache
package cache

import (
	"bytes"
	"reservoir/config"
	"testing"
	"time"
)

// Interleaving: the janitor's unlocked scan sees an expired entry, the entry is deleted by a
// concurrent Delete before the janitor's locked re-check, then an ordinary store follows.
func TestC14_ExpiredEntryDeletedBetweenScanAndRecheck(t *testing.T) {
	cfg := config.NewDefault()
	// janitor ticker effectively disabled; the cleanup cycle is driven by hand below
	c := NewMemoryCache[TestMeta](cfg, 50, 1<<30, time.Hour, 4, t.Context())
	defer c.Destroy()

	key := FromString("c14-expired")
	if _, err := c.Cache(key, bytes.NewReader([]byte("old")), time.Now().Add(-time.Minute), TestMeta{}); err != nil {
		t.Fatalf("store: %v", err)
	}

	// Deterministic stand-in for the interleaving: once the scan is over, delete the entry
	// (as a concurrent Delete request would) before the janitor re-checks it under the lock.
	orig := c.janitor.cacheFns.cacheIterator
	c.janitor.cacheFns.cacheIterator = func(yield func(CacheKey, *EntryMetadata[TestMeta]) bool) {
		orig(yield)
		if err := c.Delete(key); err != nil {
			t.Errorf("Delete: %v", err)
		}
	}

	cycleDone := make(chan struct{})
	go func() {
		c.janitor.cleanExpiredEntries()
		close(cycleDone)
	}()
	select {
	case <-cycleDone:
	case <-time.After(3 * time.Second):
		t.Fatal("cleanup cycle did not complete")
	}
	c.janitor.cacheFns.cacheIterator = orig

	storeDone := make(chan error, 1)
	go func() {
		_, err := c.Cache(FromString("c14-next"), bytes.NewReader([]byte("new")), time.Now().Add(time.Hour), TestMeta{})
		storeDone <- err
	}()
	select {
	case err := <-storeDone:
		if err != nil {
			t.Fatalf("store after cleanup: %v", err)
		}
	case <-time.After(3 * time.Second):
		t.Fatal("deadlock: store after the cleanup cycle never completes (index mutex left read-locked)")
	}
}
