// place in: cache
package cache

import (
	"bytes"
	"reservoir/config"
	"reservoir/utils/bytesize"
	"testing"
	"time"
)

// A limit raised at run time must govern the following stores of the file cache: below the
// new limit nothing is evicted. The janitor interval is an hour, so only the store path acts.
func TestSeedC13_FileCacheRuntimeLimitGovernsStores(t *testing.T) {
	ctx := t.Context()
	cfg := config.NewDefault()
	cfg.Cache.MaxCacheSize.Overwrite(bytesize.ParseUnchecked("1K"))

	c := NewFileCache[TestMeta](cfg, t.TempDir(), cfg.Cache.MaxCacheSize.Read().Bytes(), time.Hour, 16, ctx)
	defer c.Destroy()

	// raise the limit at run time: 1K -> 1M
	cfg.Cache.MaxCacheSize.Overwrite(bytesize.ParseUnchecked("1M"))

	data := make([]byte, 400)
	keys := []string{"k-a", "k-b", "k-c", "k-d", "k-e"}
	for _, k := range keys {
		e, err := c.Cache(FromString(k), bytes.NewReader(data), time.Now().Add(time.Hour), TestMeta{})
		if err != nil {
			t.Fatalf("Cache %s failed: %v", k, err)
		}
		e.Data.Close()
		time.Sleep(5 * time.Millisecond)
	}

	// 2000 bytes is far below the 1M limit now in force: nothing may have been evicted
	for _, k := range keys {
		e, err := c.Get(FromString(k))
		if err != nil {
			t.Errorf("entry %s was evicted although the store is far below the limit in force: %v", k, err)
			continue
		}
		e.Data.Close()
	}
	if got := c.byteSize.Get(); got != 2000 {
		t.Errorf("store size = %d, want 2000", got)
	}
}
