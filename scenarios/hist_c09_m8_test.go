// place in: tests
package tests

import (
	"bytes"
	"context"
	"fmt"
	"io"
	"net/http"
	"net/http/httptest"
	"net/url"
	"reservoir/config"
	"reservoir/proxy"
	"reservoir/utils/bytesize"
	"strconv"
	"sync"
	"sync/atomic"
	"testing"
	"time"
)

// File backend. One resource whose content (and length) changes at the origin. Requests with
// a Range header are never coalesced: each of them fetches the resource and, as the origin
// answers 200 with the full body, stores it again under the same key, i.e. it REPLACES the
// entry. At the same time plain GETs look the entry up. Whichever version a plain GET ends up
// with, it must be one complete, self-consistent answer of the origin (status 200, the
// Content-Length of that version and exactly that many bytes of that version) and never an
// error, a short body or a dropped connection.
func TestSeedC09M2_EntryReplacedBetweenLookupAndUse(t *testing.T) {
	versions := map[byte][]byte{
		'a': bytes.Repeat([]byte{'a'}, 200*1024),
		'b': bytes.Repeat([]byte{'b'}, 20*1024),
	}

	var served int32
	origin := httptest.NewServer(http.HandlerFunc(func(w http.ResponseWriter, r *http.Request) {
		n := atomic.AddInt32(&served, 1)
		body := versions['a']
		if n%2 == 0 {
			body = versions['b']
		}
		w.Header().Set("Cache-Control", "max-age=600")
		w.Header().Set("ETag", fmt.Sprintf("\"v-%c\"", body[0]))
		w.Header().Set("Content-Type", "application/octet-stream")
		w.Header().Set("Content-Length", strconv.Itoa(len(body)))
		w.WriteHeader(http.StatusOK) // the Range header is ignored, as an origin may do
		half := len(body) / 2
		w.Write(body[:half])
		if f, ok := w.(http.Flusher); ok {
			f.Flush()
		}
		time.Sleep(15 * time.Millisecond) // the transfer into the store takes a moment
		w.Write(body[half:])
	}))
	defer origin.Close()

	cfg := config.NewDefault()
	cfg.Proxy.UpstreamDefaultHttps.Overwrite(false)
	cfg.Cache.Type.Overwrite(config.CacheTypeFile)
	cfg.Cache.File.Dir.Overwrite(t.TempDir())
	cfg.Cache.MaxCacheSize.Overwrite(bytesize.ParseUnchecked("1G"))
	cfg.Cache.LockShards.Overwrite(8)

	ctx, cancel := context.WithCancel(context.Background())
	defer cancel()
	p, err := proxy.NewProxy(cfg, &FakeCA{}, ctx)
	if err != nil {
		t.Fatalf("NewProxy: %v", err)
	}
	defer p.Destroy()
	proxyServer := httptest.NewServer(p)
	defer proxyServer.Close()

	proxyURL, _ := url.Parse(proxyServer.URL)
	client := &http.Client{
		Timeout:   10 * time.Second,
		Transport: &http.Transport{Proxy: http.ProxyURL(proxyURL)},
	}
	target := origin.URL + "/changing-object"

	plainGet := func() error {
		resp, err := client.Get(target)
		if err != nil {
			return fmt.Errorf("request failed: %v", err)
		}
		got, err := io.ReadAll(resp.Body)
		resp.Body.Close()
		if resp.StatusCode != http.StatusOK {
			return fmt.Errorf("status %d, want 200", resp.StatusCode)
		}
		if err != nil {
			return fmt.Errorf("body broke off after %d bytes (Content-Length %s): %v", len(got), resp.Header.Get("Content-Length"), err)
		}
		if len(got) == 0 {
			return fmt.Errorf("empty body")
		}
		want, ok := versions[got[0]]
		if !ok || !bytes.Equal(got, want) {
			return fmt.Errorf("body of %d bytes starting with %q is not a complete answer of the origin", len(got), got[0])
		}
		if cl := resp.Header.Get("Content-Length"); cl != strconv.Itoa(len(want)) {
			return fmt.Errorf("Content-Length %s with a body of %d bytes", cl, len(got))
		}
		if et := resp.Header.Get("ETag"); et != fmt.Sprintf("\"v-%c\"", got[0]) {
			return fmt.Errorf("ETag %s with the body of version %c", et, got[0])
		}
		return nil
	}

	// Fill the store
	if err := plainGet(); err != nil {
		t.Fatalf("first request: %v", err)
	}

	var wg sync.WaitGroup
	done := make(chan struct{})
	var failures int32
	var firstFailure atomic.Value

	for i := 0; i < 4; i++ {
		wg.Add(1)
		go func() {
			defer wg.Done()
			for {
				select {
				case <-done:
					return
				default:
				}
				if err := plainGet(); err != nil {
					if atomic.AddInt32(&failures, 1) == 1 {
						firstFailure.Store(err.Error())
					}
				}
			}
		}()
	}

	// The replacing requests
	for i := 0; i < 40; i++ {
		req, _ := http.NewRequest(http.MethodGet, target, nil)
		req.Header.Set("Range", "bytes=0-9")
		resp, err := client.Do(req)
		if err != nil {
			t.Errorf("range request %d failed: %v", i, err)
			continue
		}
		io.Copy(io.Discard, resp.Body)
		resp.Body.Close()
	}
	close(done)
	wg.Wait()

	if n := atomic.LoadInt32(&failures); n > 0 {
		t.Fatalf("%d plain GETs did not receive a complete answer while the entry was being replaced; first: %v", n, firstFailure.Load())
	}
}
