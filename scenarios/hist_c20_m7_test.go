// place in: webserver/auth
package auth

import (
	"net/http"
	"net/http/httptest"
	"testing"
	"time"
)

// A session that was extended (because a request arrived within extendThreshold of its
// expiry) must still be ended by logout (Session.Destroy): afterwards its cookie is refused.
func TestDemoC20LogoutAfterExtension(t *testing.T) {
	sess := CreateSession(42)
	sid := sess.ID

	// Age the session: it now expires in 5 minutes, i.e. inside the extension window.
	aged := *sess
	aged.ExpiresAt = time.Now().Add(5 * time.Minute)
	sessionStore.Set(sid, &aged)

	req := httptest.NewRequest(http.MethodGet, "/api/auth/me", nil)
	req.AddCookie(&http.Cookie{Name: "reservoir.sid", Value: sid})

	// An authenticated request arrives: the session is live and gets extended.
	live, ok := SessionFromRequest(req)
	if !ok || live == nil {
		t.Fatalf("session close to expiry should still be live")
	}
	if time.Until(live.ExpiresAt) < 30*time.Minute {
		t.Fatalf("session was not extended: expires at %v", live.ExpiresAt)
	}

	// Logout, exactly as LogoutEndpoint.Post does with the session of the request context.
	live.Destroy()

	// The logged-out cookie must be refused from now on.
	if again, ok := SessionFromRequest(req); ok || again != nil {
		t.Fatalf("cookie of a logged-out session is still accepted (session %+v)", again)
	}
	if _, still := sessionStore.Get(sid); still {
		t.Fatalf("logged-out session is still in the store")
	}
}
