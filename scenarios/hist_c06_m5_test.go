// place in: tests
// (end-to-end through the proxy; takes about 4 seconds because it waits for two lifetimes to pass)
package tests

import (
	"io"
	"net/http"
	"regexp"
	"reservoir/utils/duration"
	"strconv"
	"sync/atomic"
	"testing"
	"time"
)

// C06: a 304 renews the stored entry by the CONFIGURED default lifetime - the one in force
// when the 304 arrives, also after default_max_age was changed while the proxy is running.
func TestC06Demo_304RenewsByCurrentlyConfiguredDefault(t *testing.T) {
	env := SetupTestEnv(t)

	var originHits int32
	env.Upstream.Config.Handler = http.HandlerFunc(func(w http.ResponseWriter, r *http.Request) {
		atomic.AddInt32(&originHits, 1)
		if r.Header.Get("If-None-Match") == "\"v1\"" {
			w.WriteHeader(http.StatusNotModified)
			return
		}
		w.Header().Set("Cache-Control", "max-age=1")
		w.Header().Set("ETag", "\"v1\"")
		w.WriteHeader(http.StatusOK)
		w.Write([]byte("body v1"))
	})
	env.Start()
	url := env.Upstream.URL + "/c06-default-lifetime"

	get := func() (string, string) {
		t.Helper()
		resp, err := env.Client.Get(url)
		if err != nil {
			t.Fatalf("request failed: %v", err)
		}
		defer resp.Body.Close()
		b, _ := io.ReadAll(resp.Body)
		return string(b), resp.Header.Get("Cache-Status")
	}

	// 1. miss, stored for one second (the origin's own max-age)
	if body, _ := get(); body != "body v1" {
		t.Fatalf("unexpected body %q", body)
	}

	// 2. the operator changes the default lifetime while the proxy is running (1h -> 2s)
	env.Cfg.Proxy.CachePolicy.DefaultMaxAge.Overwrite(duration.Duration(2 * time.Second))
	time.Sleep(1300 * time.Millisecond) // the stored response goes stale

	// 3. stale -> revalidation -> 304: lifetime renewed by the default now in force (2s)
	body, status := get()
	if body != "body v1" {
		t.Fatalf("unexpected body after 304: %q", body)
	}
	if n := atomic.LoadInt32(&originHits); n != 2 {
		t.Fatalf("expected the revalidation to be origin request 2, got %d", n)
	}
	if m := regexp.MustCompile(`ttl=(\d+)`).FindStringSubmatch(status); m != nil {
		if ttl, _ := strconv.Atoi(m[1]); ttl > 2 {
			t.Errorf("304 renewed the entry for %ds, configured default is 2s (Cache-Status: %s)", ttl, status)
		}
	} else {
		t.Errorf("no ttl in Cache-Status %q", status)
	}

	// 4. after the renewed lifetime has passed the origin has to be asked again
	time.Sleep(2300 * time.Millisecond)
	get()
	if n := atomic.LoadInt32(&originHits); n != 3 {
		t.Errorf("entry renewed by a 304 under default_max_age=2s was still served without asking the origin 2.3s later (origin requests: %d, want 3)", n)
	}
}
