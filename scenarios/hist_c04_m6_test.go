// place in: tests
package tests

import (
	"fmt"
	"io"
	"net/http"
	"net/http/httptest"
	"net/url"
	"sync/atomic"
	"testing"
	"time"

	"reservoir/config"
	"reservoir/logging"
	"reservoir/proxy"
)

// cache_policy.ignore_cache_control can be changed while the proxy runs. The decision
// whether a response is storable must follow the value in force when the response arrives,
// not the value the proxy was started with.
func TestDemoC04IgnoreCacheControlChangedAtRuntime(t *testing.T) {
	var hits int32
	upstream := httptest.NewServer(http.HandlerFunc(func(w http.ResponseWriter, r *http.Request) {
		n := atomic.AddInt32(&hits, 1)
		w.Header().Set("Cache-Control", "no-store")
		w.WriteHeader(http.StatusOK)
		fmt.Fprintf(w, "body-%d", n)
	}))

	cfg := config.NewDefault()
	cfg.Proxy.UpstreamDefaultHttps.Overwrite(false)
	cfg.Cache.File.Dir.Overwrite(t.TempDir())
	cfg.Cache.Type.Overwrite(config.CacheTypeMemory)
	cfg.Cache.LockShards.Overwrite(32)
	cfg.Proxy.CachePolicy.ForceDefaultMaxAge.Overwrite(true)
	// The proxy is started with directives ignored ...
	cfg.Proxy.CachePolicy.IgnoreCacheControl.Overwrite(true)
	logging.Init(cfg)

	p, err := proxy.NewProxy(cfg, &FakeCA{}, t.Context())
	if err != nil {
		t.Fatalf("Failed to create proxy: %v", err)
	}
	proxyServer := httptest.NewServer(p)
	proxyURL, _ := url.Parse(proxyServer.URL)
	transport := &http.Transport{Proxy: http.ProxyURL(proxyURL)}
	client := &http.Client{Transport: transport}
	t.Cleanup(func() {
		upstream.Close()
		proxyServer.Close()
		time.Sleep(100 * time.Millisecond)
		p.Destroy()
		transport.CloseIdleConnections()
	})

	get := func(path string) string {
		resp, err := client.Get(upstream.URL + path)
		if err != nil {
			t.Fatalf("request failed: %v", err)
		}
		defer resp.Body.Close()
		b, _ := io.ReadAll(resp.Body)
		return string(b)
	}

	// ... and then the operator switches to honouring origin directives.
	cfg.Proxy.CachePolicy.IgnoreCacheControl.Overwrite(false)

	first := get("/honour")
	after1 := atomic.LoadInt32(&hits)
	second := get("/honour")
	after2 := atomic.LoadInt32(&hits)
	if after2 == after1 || first == second {
		t.Fatalf("directives are honoured now, but the no-store response was reused: %q then %q (origin hits %d -> %d)", first, second, after1, after2)
	}

	// Back to ignoring directives: every 200 GET response is stored and reused.
	cfg.Proxy.CachePolicy.IgnoreCacheControl.Overwrite(true)

	third := get("/ignore")
	after3 := atomic.LoadInt32(&hits)
	fourth := get("/ignore")
	after4 := atomic.LoadInt32(&hits)
	if after4 != after3 || third != fourth {
		t.Fatalf("directives are ignored now, but the response was not reused: %q then %q (origin hits %d -> %d)", third, fourth, after3, after4)
	}
}
