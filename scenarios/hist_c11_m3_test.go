// place in: proxy/certs
// (no race detector needed; the test uses an internal timeout to turn the hang into a failure)
package certs

import (
	"crypto/ecdsa"
	"crypto/elliptic"
	"crypto/rand"
	"crypto/tls"
	"crypto/x509"
	"crypto/x509/pkix"
	"encoding/pem"
	"math/big"
	"os"
	"path/filepath"
	"sync"
	"testing"
	"time"
)

func demoC11NewCA(t *testing.T) (*PrivateCA, *x509.CertPool) {
	t.Helper()
	priv, err := ecdsa.GenerateKey(elliptic.P256(), rand.Reader)
	if err != nil {
		t.Fatal(err)
	}
	tmpl := x509.Certificate{
		SerialNumber:          big.NewInt(1),
		Subject:               pkix.Name{Organization: []string{"demo-ca"}},
		NotBefore:             time.Now().Add(-time.Hour),
		NotAfter:              time.Now().Add(24 * time.Hour),
		KeyUsage:              x509.KeyUsageCertSign | x509.KeyUsageDigitalSignature,
		BasicConstraintsValid: true,
		IsCA:                  true,
	}
	der, err := x509.CreateCertificate(rand.Reader, &tmpl, &tmpl, &priv.PublicKey, priv)
	if err != nil {
		t.Fatal(err)
	}
	dir := t.TempDir()
	certFile := filepath.Join(dir, "ca.crt")
	keyFile := filepath.Join(dir, "ca.key")
	if err := os.WriteFile(certFile, pem.EncodeToMemory(&pem.Block{Type: "CERTIFICATE", Bytes: der}), 0o600); err != nil {
		t.Fatal(err)
	}
	pk, err := x509.MarshalPKCS8PrivateKey(priv)
	if err != nil {
		t.Fatal(err)
	}
	if err := os.WriteFile(keyFile, pem.EncodeToMemory(&pem.Block{Type: "PRIVATE KEY", Bytes: pk}), 0o600); err != nil {
		t.Fatal(err)
	}
	ca, err := NewPrivateCA(certFile, keyFile)
	if err != nil {
		t.Fatal(err)
	}
	pool := x509.NewCertPool()
	pool.AddCert(ca.cert)
	return ca, pool
}

// Many tunnels to the same host open at the moment its cached certificate has
// expired: every one of them must still get a fresh, valid certificate.
func TestDemoC11ConcurrentTunnelsAfterExpiry(t *testing.T) {
	ca, pool := demoC11NewCA(t)
	const host = "expired.example.com"
	const workers = 32
	const rounds = 40

	for round := 0; round < rounds; round++ {
		// Plant an already expired certificate for the host in the cache
		// (validity of -1 hour => NotAfter lies in the past).
		pemCert, pemKey, err := ca.createCert([]string{host}, -1)
		if err != nil {
			t.Fatal(err)
		}
		old, err := tls.X509KeyPair(pemCert, pemKey)
		if err != nil {
			t.Fatal(err)
		}
		if !old.Leaf.NotAfter.Before(time.Now()) {
			t.Fatalf("setup: planted certificate is not expired")
		}
		ca.certs.Set(host, &old)

		start := make(chan struct{})
		errs := make(chan error, workers)
		got := make(chan *tls.Certificate, workers)
		var wg sync.WaitGroup
		for i := 0; i < workers; i++ {
			wg.Add(1)
			go func() {
				defer wg.Done()
				<-start
				c, err := ca.GetCertForHost(host + ":443")
				if err != nil {
					errs <- err
					return
				}
				got <- c
			}()
		}
		close(start)
		done := make(chan struct{})
		go func() { wg.Wait(); close(done) }()
		select {
		case <-done:
		case <-time.After(15 * time.Second):
			t.Fatalf("round %d: GetCertForHost did not return for all %d concurrent tunnels (certificate store is stuck)", round, workers)
		}
		close(errs)
		close(got)
		for err := range errs {
			t.Fatalf("round %d: GetCertForHost failed: %v", round, err)
		}
		for c := range got {
			if _, err := c.Leaf.Verify(x509.VerifyOptions{DNSName: host, Roots: pool, CurrentTime: time.Now()}); err != nil {
				t.Fatalf("round %d: certificate handed out is not valid: %v", round, err)
			}
		}
	}

	// The store must still be usable for other hosts afterwards.
	done := make(chan error, 1)
	go func() {
		_, err := ca.GetCertForHost("other.example.com:8443")
		done <- err
	}()
	select {
	case err := <-done:
		if err != nil {
			t.Fatal(err)
		}
	case <-time.After(15 * time.Second):
		t.Fatal("GetCertForHost for another host hangs")
	}
}
