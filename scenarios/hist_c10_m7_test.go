// place in: tests
package tests

import (
	"bufio"
	"crypto/tls"
	"fmt"
	"io"
	"net"
	"net/http"
	"net/url"
	"testing"
	"time"
)

// Opens one CONNECT tunnel through the proxy to the upstream of env and returns the
// TLS connection inside it plus a reader that lives as long as the tunnel.
func m1OpenTunnel(t *testing.T, env *TestEnv) (net.Conn, *bufio.Reader, string) {
	t.Helper()
	proxyURL, err := url.Parse(env.ProxyServer.URL)
	if err != nil {
		t.Fatalf("proxy url: %v", err)
	}
	upURL, err := url.Parse(env.Upstream.URL)
	if err != nil {
		t.Fatalf("upstream url: %v", err)
	}
	raw, err := net.DialTimeout("tcp", proxyURL.Host, 5*time.Second)
	if err != nil {
		t.Fatalf("dial proxy: %v", err)
	}
	t.Cleanup(func() { raw.Close() })
	raw.SetDeadline(time.Now().Add(10 * time.Second))

	fmt.Fprintf(raw, "CONNECT %s HTTP/1.1\r\nHost: %s\r\n\r\n", upURL.Host, upURL.Host)
	// Read the CONNECT reply byte-wise up to the blank line so nothing of the TLS stream is buffered away
	var head []byte
	one := make([]byte, 1)
	for len(head) < 4 || string(head[len(head)-4:]) != "\r\n\r\n" {
		if _, err := raw.Read(one); err != nil {
			t.Fatalf("reading CONNECT reply: %v (got %q)", err, head)
		}
		head = append(head, one[0])
	}
	if len(head) < 12 || string(head[9:12]) != "200" {
		t.Fatalf("CONNECT refused: %q", head)
	}

	tlsConn := tls.Client(raw, &tls.Config{InsecureSkipVerify: true})
	if err := tlsConn.Handshake(); err != nil {
		t.Fatalf("tls handshake in tunnel: %v", err)
	}
	return tlsConn, bufio.NewReader(tlsConn), upURL.Host
}

func m1Exchange(t *testing.T, conn net.Conn, br *bufio.Reader, method, host, path string) (int, http.Header, string) {
	t.Helper()
	fmt.Fprintf(conn, "%s %s HTTP/1.1\r\nHost: %s\r\n\r\n", method, path, host)
	resp, err := http.ReadResponse(br, &http.Request{Method: method})
	if err != nil {
		t.Fatalf("%s %s: reading response on the tunnel: %v", method, path, err)
	}
	body, err := io.ReadAll(resp.Body)
	resp.Body.Close()
	if err != nil {
		t.Fatalf("%s %s: reading body on the tunnel: %v", method, path, err)
	}
	return resp.StatusCode, resp.Header, string(body)
}

// A bodiless status (204) that the origin sends without a Content-Length must not leave
// any framing bytes on the tunnel: the exchange that follows it has to be read cleanly.
func TestTunnelNoContentThenNextExchange(t *testing.T) {
	env := SetupHttpsTestEnv(t)
	env.Upstream.Config.Handler = http.HandlerFunc(func(w http.ResponseWriter, r *http.Request) {
		switch r.URL.Path {
		case "/nocontent":
			w.Header().Set("X-Kind", "nocontent")
			w.WriteHeader(http.StatusNoContent) // no Content-Length on the wire
		default:
			w.Header().Set("Cache-Control", "no-store")
			w.Header().Set("X-Kind", "after")
			w.Write([]byte("after-body"))
		}
	})
	env.Start()

	conn, br, host := m1OpenTunnel(t, env)

	status, hdr, body := m1Exchange(t, conn, br, "DELETE", host, "/nocontent")
	if status != http.StatusNoContent || body != "" {
		t.Fatalf("first exchange: status %d body %q, want 204 with no body", status, body)
	}
	if hdr.Get("X-Kind") != "nocontent" {
		t.Errorf("first exchange: X-Kind %q, want nocontent", hdr.Get("X-Kind"))
	}

	status, hdr, body = m1Exchange(t, conn, br, "GET", host, "/after")
	if status != http.StatusOK || body != "after-body" || hdr.Get("X-Kind") != "after" {
		t.Fatalf("second exchange on the tunnel: status %d X-Kind %q body %q, want 200 after after-body", status, hdr.Get("X-Kind"), body)
	}

	// and once more, to see the tunnel is still in step
	status, _, body = m1Exchange(t, conn, br, "GET", host, "/after2")
	if status != http.StatusOK || body != "after-body" {
		t.Fatalf("third exchange on the tunnel: status %d body %q", status, body)
	}
}
