// place in: config
package config

import (
	"bytes"
	"os"
	"path/filepath"
	"testing"
)

// A configuration without a CA private key path cannot run the MITM proxy (the CA cannot be
// loaded), so neither an API update nor a configuration file that empties proxy.ca_key may be
// accepted, and the rejected update must leave the file on disk as it was.
func TestSeedC18M1_EmptyCaKeyIsRejected(t *testing.T) {
	dir := t.TempDir()
	oldPath := configPath.Path
	configPath.Path = filepath.Join(dir, "config.json")
	defer func() { configPath.Path = oldPath }()

	cfg := NewDefault()
	if err := cfg.persist(); err != nil {
		t.Fatalf("persist of default config failed: %v", err)
	}
	before, err := os.ReadFile(configPath.Path)
	if err != nil {
		t.Fatal(err)
	}

	// 1. update through the API path
	status, err := UpdatePartialFromConfig(cfg, map[string]any{
		"proxy": map[string]any{"ca_key": ""},
	})
	if err == nil || status != UpdateStatusFailed {
		t.Errorf("update emptying proxy.ca_key was accepted: status=%v err=%v", status, err)
	}
	after, err := os.ReadFile(configPath.Path)
	if err != nil {
		t.Fatal(err)
	}
	if !bytes.Equal(before, after) {
		t.Errorf("rejected update changed the configuration file:\nbefore: %s\nafter: %s", before, after)
	}

	// 2. load from file: the same document with an empty ca_key must not be accepted
	bad := bytes.Replace(before, []byte(`"ca_key": "ssl/ca.key"`), []byte(`"ca_key": ""`), 1)
	if bytes.Equal(bad, before) {
		t.Fatalf("test setup: ca_key not found in persisted config: %s", before)
	}
	badPath := filepath.Join(dir, "bad.json")
	if err := os.WriteFile(badPath, bad, 0644); err != nil {
		t.Fatal(err)
	}
	if loaded, err := load(badPath); err == nil {
		t.Errorf("configuration file with empty proxy.ca_key was accepted (ca_key=%q)", loaded.Proxy.CaKey.Read())
	}
}
