// place in: proxy
// (in-package test; uses the FILE cache backend, no race detector needed)
package proxy

import (
	"context"
	"fmt"
	"io"
	"net/http"
	"net/http/httptest"
	"net/url"
	"reservoir/config"
	"sync"
	"testing"
	"time"
)

// The origin's answer looks storable (200, max-age) but the store refuses it: the file
// backend does not keep an empty body. The coalesced fetch therefore ends "not cacheable",
// and every one of the clients waiting for it must still be given a complete origin
// response of its own (here: 200, empty body, the origin's headers) - not a 502.
func TestDemoC05UnstorableAnswerEveryClientGetsOwnResponse(t *testing.T) {
	origin := httptest.NewServer(http.HandlerFunc(func(w http.ResponseWriter, r *http.Request) {
		time.Sleep(300 * time.Millisecond) // let the clients pile up on one fetch
		w.Header().Set("Cache-Control", "max-age=60")
		w.Header().Set("X-Origin-Marker", "origin-says-hello")
		w.Header().Set("Content-Length", "0")
		w.WriteHeader(http.StatusOK)
	}))
	defer origin.Close()

	cfg := config.NewDefault()
	cfg.Proxy.UpstreamDefaultHttps.Overwrite(false)
	cfg.Cache.Type.Overwrite(config.CacheTypeFile)
	cfg.Cache.File.Dir.Overwrite(t.TempDir())
	cfg.Cache.LockShards.Overwrite(32)

	ctx, cancel := context.WithCancel(context.Background())
	defer cancel()
	p, err := NewProxy(cfg, nil, ctx)
	if err != nil {
		t.Fatalf("NewProxy: %v", err)
	}
	defer p.Destroy()

	front := httptest.NewServer(p)
	defer front.Close()

	proxyURL, _ := url.Parse(front.URL)
	client := &http.Client{
		Timeout:   20 * time.Second,
		Transport: &http.Transport{Proxy: http.ProxyURL(proxyURL)},
	}
	defer client.CloseIdleConnections()

	const n = 4
	target := origin.URL + "/c05-unstorable"
	start := make(chan struct{})
	var wg sync.WaitGroup
	errs := make(chan string, n)
	for i := 0; i < n; i++ {
		wg.Add(1)
		go func(i int) {
			defer wg.Done()
			<-start
			resp, err := client.Get(target)
			if err != nil {
				errs <- fmt.Sprintf("client %d: request failed: %v", i, err)
				return
			}
			defer resp.Body.Close()
			body, _ := io.ReadAll(resp.Body)
			if resp.StatusCode != http.StatusOK {
				errs <- fmt.Sprintf("client %d: got status %s (body %q), want the origin's 200", i, resp.Status, body)
				return
			}
			if got := resp.Header.Get("X-Origin-Marker"); got != "origin-says-hello" {
				errs <- fmt.Sprintf("client %d: origin header missing (got %q)", i, got)
			}
			if len(body) != 0 {
				errs <- fmt.Sprintf("client %d: unexpected body %q", i, body)
			}
		}(i)
	}
	close(start)
	wg.Wait()
	close(errs)
	for e := range errs {
		t.Error(e)
	}
}
