// place in: tests
package tests

import (
	"bufio"
	"crypto/tls"
	"fmt"
	"net"
	"net/http"
	"net/url"
	"testing"
	"time"
)

// Opens a CONNECT tunnel through the proxy to a target that is NOT the client's
// own address (a DNS name) and checks that the certificate presented inside the
// tunnel names that target and chains to the configured CA.
func TestDemoC11TunnelCertNamesConnectTarget(t *testing.T) {
	env := SetupHttpsTestEnv(t)
	env.Start()

	proxyURL, err := url.Parse(env.ProxyServer.URL)
	if err != nil {
		t.Fatal(err)
	}

	for _, target := range []string{"localhost:8443", "svc.internal.test:443"} {
		host, _, _ := net.SplitHostPort(target)

		conn, err := net.DialTimeout("tcp", proxyURL.Host, 5*time.Second)
		if err != nil {
			t.Fatal(err)
		}
		defer conn.Close()
		conn.SetDeadline(time.Now().Add(10 * time.Second))

		fmt.Fprintf(conn, "CONNECT %s HTTP/1.1\r\nHost: %s\r\n\r\n", target, target)
		br := bufio.NewReader(conn)
		resp, err := http.ReadResponse(br, &http.Request{Method: http.MethodConnect})
		if err != nil {
			t.Fatalf("%s: reading CONNECT response: %v", target, err)
		}
		if resp.StatusCode != http.StatusOK {
			t.Fatalf("%s: CONNECT status %d", target, resp.StatusCode)
		}
		if br.Buffered() != 0 {
			t.Fatalf("%s: unexpected bytes after CONNECT response", target)
		}

		tc := tls.Client(conn, &tls.Config{ServerName: host, RootCAs: env.CACertPool})
		if err := tc.Handshake(); err != nil {
			t.Fatalf("%s: TLS handshake inside tunnel failed (certificate does not name the CONNECT target?): %v", target, err)
		}
		leaf := tc.ConnectionState().PeerCertificates[0]
		if err := leaf.VerifyHostname(host); err != nil {
			t.Fatalf("%s: %v", target, err)
		}
		if len(leaf.IPAddresses) != 0 || len(leaf.DNSNames) != 1 {
			t.Fatalf("%s: certificate names DNS=%v IP=%v, want exactly [%s]", target, leaf.DNSNames, leaf.IPAddresses, host)
		}
		tc.Close()
	}
}
