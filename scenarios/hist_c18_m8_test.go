// place in: config
package config

import (
	"log/slog"
	"path/filepath"
	"testing"
)

// The process was started with command-line overrides (as OverrideFromFlags applies them, through
// ConfigProp.Overwrite). An accepted API update of an unrelated setting must change exactly that
// setting in the configuration file: what the next start (without the flags) loads may differ
// from what this start loaded only in the addressed property.
func TestSeedC18M2_UpdateWithFlagOverridesChangesOnlyAddressedSettingOnDisk(t *testing.T) {
	dir := t.TempDir()
	oldPath := configPath.Path
	configPath.Path = filepath.Join(dir, "config.json")
	defer func() { configPath.Path = oldPath }()

	cfg := NewDefault()
	if err := cfg.persist(); err != nil {
		t.Fatalf("persist of default config failed: %v", err)
	}

	// --listen :1234 --cache-dir /tmp/override-cache --no-dashboard
	cfg.Proxy.Listen.Overwrite(":1234")
	cfg.Cache.File.Dir.Overwrite("/tmp/override-cache")
	cfg.Webserver.DashboardDisabled.Overwrite(true)

	status, err := UpdatePartialFromConfig(cfg, map[string]any{
		"logging": map[string]any{"level": "DEBUG"},
	})
	if err != nil || status == UpdateStatusFailed {
		t.Fatalf("valid update was rejected: status=%v err=%v", status, err)
	}

	// the running settings: overrides still in force, addressed setting changed
	if got := cfg.Proxy.Listen.Read(); got != ":1234" {
		t.Errorf("running proxy.listen = %q, want the command-line override :1234", got)
	}
	if got := cfg.Logging.Level.Read(); got != slog.LevelDebug {
		t.Errorf("running logging.level = %v, want DEBUG", got)
	}

	// the next start, without flags
	next, err := load(configPath.Path)
	if err != nil {
		t.Fatalf("the persisted configuration does not load: %v", err)
	}
	if got := next.Logging.Level.Read(); got != slog.LevelDebug {
		t.Errorf("next start loads logging.level = %v, want DEBUG", got)
	}
	if got := next.Proxy.Listen.Read(); got != ":9999" {
		t.Errorf("next start loads proxy.listen = %q, want :9999 (the update did not address it)", got)
	}
	if got := next.Cache.File.Dir.Read(); got != "var/cache/" {
		t.Errorf("next start loads cache.file.dir = %q, want var/cache/ (the update did not address it)", got)
	}
	if got := next.Webserver.DashboardDisabled.Read(); got != false {
		t.Errorf("next start loads webserver.dashboard_disabled = %v, want false (the update did not address it)", got)
	}
}
