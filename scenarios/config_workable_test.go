package config

import "testing"

// Scenario for C18: a configuration the proxy cannot run under must be refused.
// lock_shards is the divisor of the shard index (0 divides by zero on the first
// request) and the length of the lock slice (negative panics in make).
func TestGovcScenarioUnworkableConfigRefused(t *testing.T) {
	for _, shards := range []int{0, -1, -1024} {
		cfg := NewDefault()
		cfg.Cache.LockShards.Overwrite(shards)
		if err := cfg.verify(); err == nil {
			t.Errorf("configuration with lock_shards=%d passed verify()", shards)
		}
	}
	cfg := NewDefault()
	if err := cfg.verify(); err != nil {
		t.Errorf("default configuration refused: %v", err)
	}
}
