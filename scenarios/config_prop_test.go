package config

import (
	"encoding/json"
	"sync"
	"testing"
	"time"
)

// Scenario for C17: a command-line override wins for the running process, also
// after an API update, but is never what is written to the file.
func TestGovcScenarioOverrideNotSaved(t *testing.T) {
	p := NewConfigProp("file-value")
	p.Overwrite("cli-value")
	if p.Read() != "cli-value" {
		t.Fatalf("override does not win: %q", p.Read())
	}
	b, err := json.Marshal(p)
	if err != nil || string(b) != `"file-value"` {
		t.Errorf("saved form is %s, want \"file-value\" (err %v)", b, err)
	}
	p.Stage("api-value")
	p.CommitStaged()
	if p.Read() != "cli-value" {
		t.Errorf("override lost after an API update: %q", p.Read())
	}
	b, _ = json.Marshal(p)
	if string(b) != `"api-value"` {
		t.Errorf("saved form after update is %s, want \"api-value\"", b)
	}
}

// Scenario for C19: every staged value is announced to every listener, also a
// value equal to the committed one (a listener may have followed a rejected value).
func TestGovcScenarioStageNotifies(t *testing.T) {
	p := NewConfigProp(10)
	var mu sync.Mutex
	var got []int
	p.OnChange(func(v int) { mu.Lock(); got = append(got, v); mu.Unlock() })
	p.Stage(3)  // announced, never committed (think: rejected update)
	p.Stage(10) // back to the committed value: must be announced too
	deadline := time.Now().Add(2 * time.Second)
	for time.Now().Before(deadline) {
		mu.Lock()
		n := len(got)
		mu.Unlock()
		if n >= 2 {
			break
		}
		time.Sleep(5 * time.Millisecond)
	}
	mu.Lock()
	defer mu.Unlock()
	seen10 := false
	for _, v := range got {
		if v == 10 {
			seen10 = true
		}
	}
	if len(got) != 2 || !seen10 {
		t.Errorf("listener saw %v, want notifications for 3 and 10", got)
	}
}
