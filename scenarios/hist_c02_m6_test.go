// place in: cache
package cache

import (
	"bufio"
	"net/http"
	"strings"
	"testing"
)

func c02m2Key(t *testing.T, target string, host string) CacheKey {
	t.Helper()
	raw := "GET " + target + " HTTP/1.1\r\nHost: " + host + "\r\n\r\n"
	req, err := http.ReadRequest(bufio.NewReader(strings.NewReader(raw)))
	if err != nil {
		t.Fatalf("cannot parse request %q: %v", raw, err)
	}
	return MakeFromRequest(req)
}

// A percent sign that is itself escaped (%25) is data: /x%252Fy names the resource whose
// path contains the three characters "%2F", /x%2Fy the one whose path contains an escaped
// slash. They are different resources (and are fetched from the origin as written), so
// they must not be answered from one stored entry.
func TestC02EscapedPercentDoesNotShareEntryWithEscape(t *testing.T) {
	pairs := [][2]string{
		{"/x%252Fy", "/x%2Fy"},
		{"/a%2541", "/a%41"},
		{"/files/report%252Epdf", "/files/report%2Epdf"},
	}
	for _, p := range pairs {
		k1 := c02m2Key(t, p[0], "example.com")
		k2 := c02m2Key(t, p[1], "example.com")
		if k1 == k2 {
			t.Errorf("requests for %s and %s share cache key %s", p[0], p[1], k1.Hex)
		}
	}

	// sanity: what is meant to share still shares, what is meant to differ still differs
	if c02m2Key(t, "/a/./b/../c", "example.com") != c02m2Key(t, "/a/c", "EXAMPLE.com") {
		t.Errorf("dot-segments / host case no longer share a key")
	}
	if c02m2Key(t, "/x%2Fy", "example.com") == c02m2Key(t, "/x/y", "example.com") {
		t.Errorf("/x%%2Fy and /x/y share a key")
	}
	if c02m2Key(t, "/a%20b", "example.com") == c02m2Key(t, "/a%2520b", "example.com") {
		t.Errorf("/a%%20b and /a%%2520b share a key")
	}
}
