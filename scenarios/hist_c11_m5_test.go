// place in: proxy/certs
package certs

import (
	"crypto/rand"
	"crypto/rsa"
	"crypto/x509"
	"crypto/x509/pkix"
	"encoding/pem"
	"math/big"
	"net"
	"os"
	"path/filepath"
	"testing"
	"time"
)

// The configured CA may use any key type that loadX509KeyPair accepts (PKCS#8:
// RSA, ECDSA, Ed25519). With an RSA CA every tunnel must still get a valid
// certificate for its host that chains to that CA.
func TestSeedC11RSAKeyedCA(t *testing.T) {
	caKey, err := rsa.GenerateKey(rand.Reader, 2048)
	if err != nil {
		t.Fatal(err)
	}
	tmpl := x509.Certificate{
		SerialNumber:          big.NewInt(1),
		Subject:               pkix.Name{Organization: []string{"rsa-test-ca"}},
		NotBefore:             time.Now().Add(-time.Minute),
		NotAfter:              time.Now().Add(time.Hour),
		KeyUsage:              x509.KeyUsageCertSign | x509.KeyUsageDigitalSignature,
		BasicConstraintsValid: true,
		IsCA:                  true,
	}
	der, err := x509.CreateCertificate(rand.Reader, &tmpl, &tmpl, &caKey.PublicKey, caKey)
	if err != nil {
		t.Fatal(err)
	}
	keyDer, err := x509.MarshalPKCS8PrivateKey(caKey)
	if err != nil {
		t.Fatal(err)
	}
	dir := t.TempDir()
	certFile := filepath.Join(dir, "ca.crt")
	keyFile := filepath.Join(dir, "ca.key")
	if err := os.WriteFile(certFile, pem.EncodeToMemory(&pem.Block{Type: "CERTIFICATE", Bytes: der}), 0o600); err != nil {
		t.Fatal(err)
	}
	if err := os.WriteFile(keyFile, pem.EncodeToMemory(&pem.Block{Type: "PRIVATE KEY", Bytes: keyDer}), 0o600); err != nil {
		t.Fatal(err)
	}

	ca, err := NewPrivateCA(certFile, keyFile)
	if err != nil {
		t.Fatalf("NewPrivateCA with RSA CA: %v", err)
	}

	caCert, err := x509.ParseCertificate(der)
	if err != nil {
		t.Fatal(err)
	}
	roots := x509.NewCertPool()
	roots.AddCert(caCert)

	for _, hp := range []string{"example.com:443", "127.0.0.1:8443", "[::1]:443"} {
		c, err := ca.GetCertForHost(hp)
		if err != nil {
			t.Fatalf("GetCertForHost(%q) with RSA-keyed CA failed: %v", hp, err)
		}
		leaf, err := x509.ParseCertificate(c.Certificate[0])
		if err != nil {
			t.Fatalf("parse leaf for %q: %v", hp, err)
		}
		host, _, err := net.SplitHostPort(hp)
		if err != nil {
			t.Fatal(err)
		}
		if _, err := leaf.Verify(x509.VerifyOptions{Roots: roots, DNSName: host}); err != nil {
			t.Fatalf("certificate for %q does not verify against the configured CA: %v", hp, err)
		}
	}
}
