// place in: proxy
// C09 demo: coalesced clients must each get an entry handle of their own; one client
// finishing / hanging up (closing its handle) must not break the answer of another one.
package proxy

import (
	"bytes"
	"io"
	"net/http"
	"net/http/httptest"
	"reservoir/cache"
	"reservoir/config"
	"reservoir/proxy/headers"
	"sync"
	"testing"
	"time"
)

func TestC09CoalescedClientsDoNotShareEntryHandle(t *testing.T) {
	body := bytes.Repeat([]byte("0123456789abcdef"), 4096) // 64 KiB

	upstream := httptest.NewServer(http.HandlerFunc(func(w http.ResponseWriter, r *http.Request) {
		// Slow origin, so that the concurrent requests pile up behind one fetch
		time.Sleep(400 * time.Millisecond)
		w.Header().Set("Cache-Control", "max-age=60")
		w.Header().Set("ETag", "\"c09-shared\"")
		w.WriteHeader(http.StatusOK)
		w.Write(body)
	}))
	defer upstream.Close()

	cfg := config.NewDefault()
	cfg.Proxy.UpstreamDefaultHttps.Overwrite(false)

	c := cache.NewFileCache[cachedRequestInfo](cfg, t.TempDir(), 1<<30, time.Hour, 8, t.Context())
	defer c.Destroy()
	f := newFetcher(c, cfg)

	const clients = 4
	results := make([]fetchResult, clients)
	errs := make([]error, clients)

	var wg sync.WaitGroup
	start := make(chan struct{})
	for i := range clients {
		wg.Add(1)
		go func() {
			defer wg.Done()
			req, err := http.NewRequest(http.MethodGet, upstream.URL+"/shared", nil)
			if err != nil {
				errs[i] = err
				return
			}
			key := cache.MakeFromRequest(req)
			clientHd := headers.ParseHeaderDirective(req.Header)
			<-start
			results[i], errs[i] = f.dedupFetch(req, key, clientHd)
		}()
	}
	close(start)

	done := make(chan struct{})
	go func() { wg.Wait(); close(done) }()
	select {
	case <-done:
	case <-time.After(20 * time.Second):
		t.Fatal("coalesced fetches did not return")
	}

	coalesced := make([]int, 0, clients)
	for i := range clients {
		if errs[i] != nil {
			t.Fatalf("client %d: origin answered, but fetch failed: %v", i, errs[i])
		}
		if results[i].Type != fetchTypeCached {
			t.Fatalf("client %d: expected a stored answer, got type %v", i, results[i].Type)
		}
		if results[i].Cached.Entry == nil || results[i].Cached.Entry.Data == nil {
			t.Fatalf("client %d: no entry data", i)
		}
		if results[i].Cached.Coalesced {
			coalesced = append(coalesced, i)
		}
	}
	if len(coalesced) < 2 {
		t.Skipf("requests were not coalesced (%d shared), nothing to check", len(coalesced))
	}

	// The clients are answered one after the other. Each one closes its handle when it is
	// done (this is also what happens when a client hangs up early). All the others must
	// still receive the complete answer of the origin.
	for n, i := range coalesced {
		data := results[i].Cached.Entry.Data
		got, err := io.ReadAll(data)
		data.Close()
		if err != nil {
			t.Fatalf("coalesced client #%d: reading the stored answer failed after another client was done: %v", n, err)
		}
		if !bytes.Equal(got, body) {
			t.Fatalf("coalesced client #%d: got %d bytes of %d after another client was done", n, len(got), len(body))
		}
	}
}
