package proxy

import (
	"bytes"
	"sync"
	"testing"
	"time"

	"reservoir/cache"
	"reservoir/config"
	"reservoir/utils/typeutils"
)

// Scenario for C15 (run with -race): one request builds the Cache-Status header of a
// stored entry (reads Metadata.Expires) while another request revalidates the same
// entry (UpdateMetadata writes Expires under the entry's shard lock).
func TestGovcScenarioCacheStatusReadsExpiresUnlocked(t *testing.T) {
	cfg := config.NewDefault()
	c := cache.NewMemoryCache[cachedRequestInfo](cfg, 50, 1<<30, time.Hour, 4, t.Context())
	defer c.Destroy()
	key := cache.FromString("k")
	e, err := c.Cache(key, bytes.NewReader([]byte("body")), time.Now().Add(time.Hour), cachedRequestInfo{})
	if err != nil {
		t.Fatal(err)
	}
	e.Data.Close()
	entry, err := c.Get(key)
	if err != nil {
		t.Fatal(err)
	}
	defer entry.Data.Close()
	var wg sync.WaitGroup
	wg.Add(2)
	go func() {
		defer wg.Done()
		for i := 0; i < 2000; i++ {
			c.UpdateMetadata(key, func(m *cache.EntryMetadata[cachedRequestInfo]) {
				m.Expires = time.Now().Add(time.Hour)
			})
		}
	}()
	go func() {
		defer wg.Done()
		for i := 0; i < 2000; i++ {
			makeCacheStatusHeader(typeutils.Some(entry), cacheStatus{hitStatus: hitStatusHit})
		}
	}()
	wg.Wait()
}
