// place in: tests
package tests

import (
	"io"
	"net/http"
	"sync/atomic"
	"testing"
)

// With cache_policy.ignore_cache_control = true every 200 GET response is stored and reused
// while fresh, whatever force_default_max_age says. Here force_default_max_age = false and the
// origin sends a Cache-Control without a positive max-age.
func TestC04IgnoredDirectivesResponseIsReused(t *testing.T) {
	env := SetupTestEnv(t) // force_default_max_age = false, default_max_age = 1h
	env.Cfg.Proxy.CachePolicy.IgnoreCacheControl.Overwrite(true)

	var upstreamRequests int32
	env.Upstream.Config.Handler = http.HandlerFunc(func(w http.ResponseWriter, r *http.Request) {
		atomic.AddInt32(&upstreamRequests, 1)
		w.Header().Set("Cache-Control", "no-store")
		w.WriteHeader(http.StatusOK)
		w.Write([]byte("ignored directives body"))
	})
	env.Start()

	targetURL := env.Upstream.URL + "/c04-ignored-directives"

	get := func() *http.Response {
		resp, err := env.Client.Get(targetURL)
		if err != nil {
			t.Fatalf("request failed: %v", err)
		}
		body, _ := io.ReadAll(resp.Body)
		resp.Body.Close()
		if resp.StatusCode != http.StatusOK || string(body) != "ignored directives body" {
			t.Fatalf("unexpected response: %d %q", resp.StatusCode, body)
		}
		return resp
	}

	get()
	if n := atomic.LoadInt32(&upstreamRequests); n != 1 {
		t.Fatalf("first request: expected 1 upstream request (response stored), got %d", n)
	}

	resp := get()
	if n := atomic.LoadInt32(&upstreamRequests); n != 1 {
		t.Errorf("second request reached the origin (%d upstream requests): the stored response was not reused", n)
	}
	if xc := resp.Header.Get("X-Cache"); xc != "HIT" {
		t.Errorf("second request: expected X-Cache HIT, got %q (Cache-Status %q)", xc, resp.Header.Get("Cache-Status"))
	}
}
