package cache

import (
	"bytes"
	"sync"
	"testing"
	"time"

	"reservoir/config"
)

type govcJMeta struct{ ID string }

// Scenario for C13: a fresh overwrite that lands between the cleanup scan and
// the removal must survive the cleanup cycle.  The overwrite is placed exactly
// there through the getLock callback the janitor calls before removing a key.
func TestGovcScenarioCleanupKeepsFreshOverwrite(t *testing.T) {
	cfg := config.NewDefault()
	c := NewMemoryCache[govcJMeta](cfg, 50, 1<<30, time.Hour, 4, t.Context())
	defer c.Destroy()
	key := FromString("k")
	e, err := c.Cache(key, bytes.NewReader([]byte("old")), time.Now().Add(-time.Minute), govcJMeta{})
	if err != nil {
		t.Fatal(err)
	}
	e.Data.Close()
	orig := c.janitor.cacheFns.getLock
	done := false
	c.janitor.cacheFns.getLock = func(k CacheKey) *sync.RWMutex {
		if !done {
			done = true
			e, err := c.Cache(key, bytes.NewReader([]byte("fresh")), time.Now().Add(time.Hour), govcJMeta{})
			if err != nil {
				t.Fatalf("overwrite: %v", err)
			}
			e.Data.Close()
		}
		return orig(k)
	}
	c.janitor.cleanExpiredEntries()
	got, err := c.Get(key)
	if err != nil {
		t.Fatalf("the fresh entry stored between scan and removal was deleted by the cleanup cycle: %v", err)
	}
	got.Data.Close()
	if got.Stale {
		t.Errorf("entry is stale")
	}
}

// Scenario for C15 (run with -race): cleanup / eviction scans read entry
// metadata while requests update it under the key's shard lock.
func TestGovcScenarioJanitorScanRace(t *testing.T) {
	cfg := config.NewDefault()
	c := NewMemoryCache[govcJMeta](cfg, 50, 1<<30, time.Hour, 4, t.Context())
	defer c.Destroy()
	key := FromString("k")
	e, err := c.Cache(key, bytes.NewReader([]byte("body")), time.Now().Add(time.Hour), govcJMeta{})
	if err != nil {
		t.Fatal(err)
	}
	e.Data.Close()
	var wg sync.WaitGroup
	wg.Add(2)
	go func() {
		defer wg.Done()
		for i := 0; i < 300; i++ {
			if g, err := c.Get(key); err == nil {
				g.Data.Close()
			}
			c.UpdateMetadata(key, func(m *EntryMetadata[govcJMeta]) { m.Expires = time.Now().Add(time.Hour) })
		}
	}()
	go func() {
		defer wg.Done()
		for i := 0; i < 300; i++ {
			c.janitor.cleanExpiredEntries()
			c.janitor.evict(1 << 40)
		}
	}()
	wg.Wait()
}
