package headers

import (
	"net/http"
	"testing"
)

// Scenario for C04/C03: header forms the property statement quantifies over.
// Each response header set is parsed with the real ParseHeaderDirective and the
// storability decision is taken with the real ShouldCache (directives honoured).
func TestGovcScenarioCacheControlForms(t *testing.T) {
	cases := []struct {
		name   string
		header http.Header
		store  bool
	}{
		{"private", http.Header{"Cache-Control": {"private, max-age=60"}}, false},
		{"no-store-upper", http.Header{"Cache-Control": {"No-Store, max-age=60"}}, false},
		{"second-line-no-store", http.Header{"Cache-Control": {"max-age=60", "no-store"}}, false},
		{"unparseable-max-age", http.Header{"Cache-Control": {"no-store, max-age=abc"}}, false},
		{"expires-zero", http.Header{"Expires": {"0"}}, false},
		{"max-age-upper", http.Header{"Cache-Control": {"Max-Age=60"}}, true},
		{"max-age", http.Header{"Cache-Control": {"public, max-age=60"}}, true},
		{"nothing", http.Header{"Content-Type": {"text/plain"}}, true},
		{"max-age-zero", http.Header{"Cache-Control": {"max-age=0"}}, false},
	}
	for _, c := range cases {
		hd := ParseHeaderDirective(c.header)
		if got := hd.ShouldCache(false); got != c.store {
			t.Errorf("%s: ShouldCache = %v, want %v (headers %v)", c.name, got, c.store, c.header)
		}
	}
}
