// place in: tests
package tests

import (
	"fmt"
	"io"
	"net/http"
	"sync/atomic"
	"testing"
)

// An origin that lists "cache-control" (lower case) as a connection option must not make the
// proxy drop the Cache-Control line unread: the no-store response may never be reused.
func TestDemoC04ConnectionOptionLowercaseCacheControl(t *testing.T) {
	env := SetupTestEnv(t)

	var hits int32
	env.Upstream.Config.Handler = http.HandlerFunc(func(w http.ResponseWriter, r *http.Request) {
		n := atomic.AddInt32(&hits, 1)
		w.Header().Set("Connection", "cache-control")
		w.Header().Set("Cache-Control", "no-store")
		w.WriteHeader(http.StatusOK)
		fmt.Fprintf(w, "body-%d", n)
	})
	env.Start()

	target := env.Upstream.URL + "/c04-connection-option"

	get := func() string {
		resp, err := env.Client.Get(target)
		if err != nil {
			t.Fatalf("request failed: %v", err)
		}
		defer resp.Body.Close()
		b, _ := io.ReadAll(resp.Body)
		return string(b)
	}

	first := get()
	after1 := atomic.LoadInt32(&hits)
	second := get()
	after2 := atomic.LoadInt32(&hits)

	if after2 == after1 {
		t.Fatalf("second request for a no-store response did not reach the origin (hits %d -> %d)", after1, after2)
	}
	if first == second {
		t.Fatalf("no-store response was reused from the store: both requests got %q", first)
	}
}
