// place in: tests
// Inside a CONNECT (MITM) tunnel, a Range request for a stored object that carries an
// If-Range HTTP-date older than the stored Last-Modified must be answered (with the full
// 200 representation); the client must not be left without any response.
package tests

import (
	"io"
	"net/http"
	"testing"
	"time"
)

func TestDemoC16IfRangeDateMismatchInTunnelIsAnswered(t *testing.T) {
	env := SetupHttpsTestEnv(t)

	content := "0123456789abcdefghijklmnopqrstuvwxyz"
	lastModified := time.Date(2024, time.May, 1, 12, 0, 0, 0, time.UTC)
	env.Upstream.Config.Handler = http.HandlerFunc(func(w http.ResponseWriter, r *http.Request) {
		w.Header().Set("Cache-Control", "max-age=60")
		w.Header().Set("ETag", "\"v2\"")
		w.Header().Set("Last-Modified", lastModified.Format(http.TimeFormat))
		w.Write([]byte(content))
	})
	env.Start()
	env.Client.Timeout = 3 * time.Second

	targetURL := env.Upstream.URL + "/if-range-date"

	// 1. Store the object.
	resp, err := env.Client.Get(targetURL)
	if err != nil {
		t.Fatalf("warmup failed: %v", err)
	}
	io.Copy(io.Discard, resp.Body)
	resp.Body.Close()

	// 2. Range request whose If-Range validator is a date before the stored Last-Modified:
	// the validator does not match, so the whole representation has to be sent.
	req, _ := http.NewRequest("GET", targetURL, nil)
	req.Header.Set("Range", "bytes=0-9")
	req.Header.Set("If-Range", lastModified.Add(-24*time.Hour).Format(http.TimeFormat))
	resp, err = env.Client.Do(req)
	if err != nil {
		t.Fatalf("Range request with an outdated If-Range date got no HTTP response: %v", err)
	}
	defer resp.Body.Close()
	body, err := io.ReadAll(resp.Body)
	if err != nil {
		t.Fatalf("reading the response body failed: %v", err)
	}
	if resp.StatusCode != http.StatusOK || string(body) != content {
		t.Fatalf("expected the full 200 response, got status %d body %q", resp.StatusCode, body)
	}
}
