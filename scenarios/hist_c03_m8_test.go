// place in: tests
package tests

import (
	"io"
	"net/http"
	"regexp"
	"reservoir/utils/duration"
	"strconv"
	"sync/atomic"
	"testing"
	"time"
)

var demoC03TTLRe = regexp.MustCompile(`ttl=(\d+)`)

func demoC03TTL(t *testing.T, resp *http.Response) int {
	t.Helper()
	cs := resp.Header.Get("Cache-Status")
	m := demoC03TTLRe.FindStringSubmatch(cs)
	if m == nil {
		t.Fatalf("no ttl in Cache-Status %q", cs)
	}
	ttl, _ := strconv.Atoi(m[1])
	return ttl
}

// A stored response (max-age=1) expires and is revalidated with the origin (304), which renews
// its lifetime to default_max_age (100s). The ttl reported with the revalidated response has to
// reflect that renewed lifetime: the very next request is a HIT served from the store with ~100s
// left, so the entry handed out for the revalidated response cannot have had ttl=0.
func TestDemoC03RevalidatedResponseReportsRenewedTTL(t *testing.T) {
	env := SetupTestEnv(t)
	env.Cfg.Proxy.CachePolicy.DefaultMaxAge.Overwrite(duration.Duration(100 * time.Second))

	var upstreamRequests int32
	env.Upstream.Config.Handler = http.HandlerFunc(func(w http.ResponseWriter, r *http.Request) {
		atomic.AddInt32(&upstreamRequests, 1)
		if r.Header.Get("If-None-Match") == `"c03-etag"` {
			w.WriteHeader(http.StatusNotModified)
			return
		}
		w.Header().Set("Cache-Control", "max-age=1")
		w.Header().Set("ETag", `"c03-etag"`)
		w.WriteHeader(http.StatusOK)
		w.Write([]byte("revalidation ttl body"))
	})
	env.Start()

	url := env.Upstream.URL + "/revalidated-ttl"
	get := func() *http.Response {
		t.Helper()
		resp, err := env.Client.Get(url)
		if err != nil {
			t.Fatalf("request failed: %v", err)
		}
		io.Copy(io.Discard, resp.Body)
		resp.Body.Close()
		return resp
	}

	if got := get().Header.Get("X-Cache"); got != "MISS" {
		t.Fatalf("first response: X-Cache = %q, want MISS", got)
	}

	time.Sleep(2200 * time.Millisecond) // max-age=1 has elapsed

	resp2 := get()
	if got := resp2.Header.Get("X-Cache"); got != "REVALIDATED" {
		t.Fatalf("second response: X-Cache = %q, want REVALIDATED (Cache-Status: %s)", got, resp2.Header.Get("Cache-Status"))
	}
	if n := atomic.LoadInt32(&upstreamRequests); n != 2 {
		t.Fatalf("after revalidation: %d upstream requests, want 2", n)
	}
	ttl2 := demoC03TTL(t, resp2)

	resp3 := get()
	if got := resp3.Header.Get("X-Cache"); got != "HIT" {
		t.Fatalf("third response: X-Cache = %q, want HIT", got)
	}
	if n := atomic.LoadInt32(&upstreamRequests); n != 2 {
		t.Fatalf("HIT contacted the origin: %d upstream requests, want 2", n)
	}
	ttl3 := demoC03TTL(t, resp3)

	if ttl3 < 90 || ttl3 > 100 {
		t.Errorf("HIT after revalidation: ttl=%d, want ~100 (default_max_age)", ttl3)
	}
	// The lifetime was renewed before the revalidated response was sent
	if ttl2 < 90 || ttl2 > 100 {
		t.Errorf("REVALIDATED response reports ttl=%d although its lifetime was just renewed to 100s (next HIT reports ttl=%d); Cache-Status: %s",
			ttl2, ttl3, resp2.Header.Get("Cache-Status"))
	}
}
