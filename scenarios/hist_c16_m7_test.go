// place in: proxy/responder
package responder

import (
	"bufio"
	"bytes"
	"io"
	"net/http"
	"strings"
	"testing"
)

// An origin answers a request inside a CONNECT tunnel with a bodiless status (204 or 304)
// and no Content-Length. The response the proxy writes for it must be a complete,
// self-delimiting message: whatever follows it on the tunnel is the next response.
func TestRawResponderBodilessStatusIsWellFramed(t *testing.T) {
	for _, status := range []int{http.StatusNoContent, http.StatusNotModified} {
		var wire bytes.Buffer

		first := NewRawHTTPResponder(&wire)
		first.SetHeaders(http.Header{
			"Etag":          {`"v1"`},
			"Cache-Control": {"max-age=60"},
		})
		if _, err := first.Write(status, http.NoBody); err != nil {
			t.Fatalf("status %d: writing the bodiless response failed: %v", status, err)
		}

		second := NewRawHTTPResponder(&wire)
		second.SetHeader("Content-Length", "5")
		if _, err := second.Write(http.StatusOK, strings.NewReader("hello")); err != nil {
			t.Fatalf("status %d: writing the following response failed: %v", status, err)
		}

		br := bufio.NewReader(&wire)
		req, _ := http.NewRequest(http.MethodGet, "https://origin.test/x", nil)

		resp1, err := http.ReadResponse(br, req)
		if err != nil {
			t.Fatalf("status %d: first response is not well-formed: %v", status, err)
		}
		if resp1.StatusCode != status {
			t.Fatalf("status %d: got status %d", status, resp1.StatusCode)
		}
		if len(resp1.TransferEncoding) != 0 || resp1.Header.Get("Transfer-Encoding") != "" {
			t.Errorf("status %d: bodiless response carries body framing: %v", status, resp1.TransferEncoding)
		}
		io.Copy(io.Discard, resp1.Body)
		resp1.Body.Close()

		resp2, err := http.ReadResponse(br, req)
		if err != nil {
			t.Fatalf("status %d: the next response on the tunnel is not well-formed: %v", status, err)
		}
		body, _ := io.ReadAll(resp2.Body)
		resp2.Body.Close()
		if resp2.StatusCode != http.StatusOK || string(body) != "hello" {
			t.Fatalf("status %d: next response: got %d %q, want 200 \"hello\"", status, resp2.StatusCode, body)
		}
	}
}
