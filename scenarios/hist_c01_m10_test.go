// place in: proxy
// Two clients whose lookups of the same key were coalesced onto one cache hit must each
// stream the complete stored body (every caller needs a read handle of its own).
package proxy

import (
	"bytes"
	"io"
	"net/http"
	"net/http/httptest"
	"reservoir/cache"
	"reservoir/proxy/headers"
	"sync"
	"sync/atomic"
	"testing"
	"time"
)

type seedC01M2Data struct{ *bytes.Reader }

func (seedC01M2Data) Close() error { return nil }

// A store holding one fresh entry under every key; the first Get blocks until released,
// so that a second lookup of the key is coalesced onto it.
type seedC01M2Cache struct {
	body    []byte
	calls   atomic.Int32
	entered chan struct{}
	release chan struct{}
}

func (c *seedC01M2Cache) Get(key cache.CacheKey) (*cache.Entry[cachedRequestInfo], error) {
	if c.calls.Add(1) == 1 {
		close(c.entered)
		<-c.release
	}
	exp := time.Now().Add(time.Hour)
	meta := &cache.EntryMetadata[cachedRequestInfo]{
		TimeWritten: time.Now(), LastAccess: time.Now(), Expires: exp, Size: int64(len(c.body)),
		Object: cachedRequestInfo{ETag: `"v1"`, Header: http.Header{"Content-Type": {"text/plain"}}},
	}
	return &cache.Entry[cachedRequestInfo]{Data: seedC01M2Data{bytes.NewReader(c.body)}, Metadata: meta, Expires: exp}, nil
}
func (c *seedC01M2Cache) Cache(cache.CacheKey, io.Reader, time.Time, cachedRequestInfo) (*cache.Entry[cachedRequestInfo], error) {
	panic("unexpected Cache")
}
func (c *seedC01M2Cache) Delete(cache.CacheKey) error { return nil }
func (c *seedC01M2Cache) GetMetadata(cache.CacheKey) (*cache.EntryMetadata[cachedRequestInfo], bool, error) {
	return nil, false, cache.ErrCacheEntryNotFound
}
func (c *seedC01M2Cache) UpdateMetadata(cache.CacheKey, func(*cache.EntryMetadata[cachedRequestInfo])) error {
	return nil
}
func (c *seedC01M2Cache) Destroy() {}

func TestSeedC01M2_CoalescedHitsGetOwnReadHandles(t *testing.T) {
	body := bytes.Repeat([]byte("0123456789abcdef"), 4096)
	fc := &seedC01M2Cache{body: body, entered: make(chan struct{}), release: make(chan struct{})}
	f := newFetcher(fc, nil)

	type result struct {
		fetched fetchResult
		err     error
	}
	results := make([]result, 2)
	var wg sync.WaitGroup
	run := func(i int) {
		defer wg.Done()
		req := httptest.NewRequest(http.MethodGet, "http://origin.test/file.bin", nil)
		key := cache.MakeFromRequest(req)
		hd := headers.ParseHeaderDirective(req.Header)
		fetched, err := f.dedupFetch(req, key, hd)
		results[i] = result{fetched, err}
	}

	wg.Add(2)
	go run(0)
	select {
	case <-fc.entered:
	case <-time.After(5 * time.Second):
		t.Fatal("first lookup never reached the store")
	}
	go run(1)
	time.Sleep(300 * time.Millisecond) // let the second caller join the flight
	close(fc.release)

	done := make(chan struct{})
	go func() { wg.Wait(); close(done) }()
	select {
	case <-done:
	case <-time.After(10 * time.Second):
		t.Fatal("dedupFetch did not return")
	}

	for i, r := range results {
		if r.err != nil {
			t.Fatalf("caller %d: %v", i, r.err)
		}
		if r.fetched.Type != fetchTypeCached || !r.fetched.Cached.Coalesced {
			t.Fatalf("caller %d: lookups were not coalesced onto one hit (type=%v coalesced=%v); test setup failed", i, r.fetched.Type, r.fetched.Cached.Coalesced)
		}
	}

	// Both clients now stream their response
	for i, r := range results {
		got, err := io.ReadAll(r.fetched.Cached.Entry.Data)
		if err != nil {
			t.Fatalf("caller %d: read: %v", i, err)
		}
		if !bytes.Equal(got, body) {
			t.Fatalf("caller %d received %d of %d body bytes: the read handle is shared with another client", i, len(got), len(body))
		}
	}
}
