// place in: tests
package tests

import (
	"net/http"
	"sync/atomic"
	"testing"
)

// C03: an unparseable Expires date counts as already expired. With
// ignore_cache_control=true the response is still stored, but its lifetime is
// zero, so every later request must contact the origin before the entry is
// reused and must not be labelled HIT.
func TestDemoC03UnparseableExpiresForcesOriginContact(t *testing.T) {
	env := SetupTestEnv(t)
	env.Cfg.Proxy.CachePolicy.IgnoreCacheControl.Overwrite(true)
	env.Cfg.Proxy.CachePolicy.ForceDefaultMaxAge.Overwrite(false)

	var requestCount int32
	env.Upstream.Config.Handler = http.HandlerFunc(func(w http.ResponseWriter, r *http.Request) {
		atomic.AddInt32(&requestCount, 1)
		if r.Header.Get("If-None-Match") == "\"bad-expires\"" {
			w.WriteHeader(http.StatusNotModified)
			return
		}
		w.Header().Set("Expires", "0") // malformed date: already expired
		w.Header().Set("ETag", "\"bad-expires\"")
		w.WriteHeader(http.StatusOK)
		w.Write([]byte("body with malformed expires"))
	})
	env.Start()

	targetURL := env.Upstream.URL + "/bad-expires"

	resp1, err := env.Client.Get(targetURL)
	if err != nil {
		t.Fatalf("first request failed: %v", err)
	}
	resp1.Body.Close()
	if c := atomic.LoadInt32(&requestCount); c != 1 {
		t.Fatalf("expected 1 upstream request after first fetch, got %d", c)
	}

	resp2, err := env.Client.Get(targetURL)
	if err != nil {
		t.Fatalf("second request failed: %v", err)
	}
	resp2.Body.Close()

	if xc := resp2.Header.Get("X-Cache"); xc == "HIT" {
		t.Errorf("response with already-expired (unparseable) Expires was served as X-Cache=HIT (Cache-Status=%q)", resp2.Header.Get("Cache-Status"))
	}
	if c := atomic.LoadInt32(&requestCount); c != 2 {
		t.Errorf("origin must be contacted again for an already-expired entry: expected 2 upstream requests, got %d", c)
	}
}
