// place in: tests
package tests

import (
	"io"
	"net/http"
	"sync"
	"testing"
	"time"
)

// A stored response that came with both validators is revalidated with both of them:
// an origin that only validates by date (it sends an ETag, but does not look at
// If-None-Match) must still be able to answer 304.
func TestSeedC06RevalidationSendsBothStoredValidators(t *testing.T) {
	env := SetupTestEnv(t)

	const lastModified = "Tue, 03 Feb 2015 10:20:30 GMT"
	const etag = `"both-validators"`
	const body = "body with two validators"

	var mu sync.Mutex
	var full, notModified int
	var revalidationINM, revalidationIMS []string

	env.Upstream.Config.Handler = http.HandlerFunc(func(w http.ResponseWriter, r *http.Request) {
		mu.Lock()
		defer mu.Unlock()

		inm, ims := r.Header.Get("If-None-Match"), r.Header.Get("If-Modified-Since")
		if inm != "" || ims != "" {
			revalidationINM = append(revalidationINM, inm)
			revalidationIMS = append(revalidationIMS, ims)
		}

		// date based validation only
		if ims == lastModified {
			notModified++
			w.WriteHeader(http.StatusNotModified)
			return
		}

		full++
		w.Header().Set("Cache-Control", "max-age=1")
		w.Header().Set("ETag", etag)
		w.Header().Set("Last-Modified", lastModified)
		w.WriteHeader(http.StatusOK)
		w.Write([]byte(body))
	})
	env.Start()

	target := env.Upstream.URL + "/seed-c06-both"

	get := func() string {
		resp, err := env.Client.Get(target)
		if err != nil {
			t.Fatalf("request failed: %v", err)
		}
		defer resp.Body.Close()
		b, _ := io.ReadAll(resp.Body)
		return string(b)
	}

	if got := get(); got != body {
		t.Fatalf("warm-up: got %q", got)
	}

	time.Sleep(1300 * time.Millisecond)

	if got := get(); got != body {
		t.Fatalf("after expiry: got %q", got)
	}

	mu.Lock()
	defer mu.Unlock()

	if len(revalidationINM) != 1 {
		t.Fatalf("expected exactly one conditional request at the origin, got %d", len(revalidationINM))
	}
	if revalidationINM[0] != etag {
		t.Errorf("If-None-Match at the origin = %q, want the stored %q", revalidationINM[0], etag)
	}
	if revalidationIMS[0] != lastModified {
		t.Errorf("If-Modified-Since at the origin = %q, want the stored %q", revalidationIMS[0], lastModified)
	}
	if full != 1 || notModified != 1 {
		t.Errorf("origin sent %d full responses and %d 304s, want 1 and 1", full, notModified)
	}
}
