// place in: config
package config

import (
	"reflect"
	"testing"
)

// A config update (as decoded from the API's JSON body) that names a section but gives it a
// value that is not an object must be ignored or rejected with an error - never panic.
func TestSeedC16SectionWithNonObjectValueDoesNotPanic(t *testing.T) {
	for _, bad := range []any{float64(5), "x", nil, []any{}, true} {
		func() {
			defer func() {
				if r := recover(); r != nil {
					t.Errorf("update {\"cache\": %#v} panicked: %v", bad, r)
				}
			}()
			cfg := NewDefault()
			_, err := setPropsFromMapRecursive(reflect.ValueOf(cfg), map[string]any{"cache": bad})
			_ = err // an error is fine, a panic is not
		}()
	}
}
