// place in: utils/bytesize
package bytesize

import (
	"encoding/json"
	"testing"
)

// A saved size must read back to the identical byte count, also for byte
// counts that are whole kilobytes but not a whole number of the largest unit
// that fits (e.g. 1025K, 1G+1M, 1T+512K).
func TestSeedC17M1_SizeReadsBackIdentically(t *testing.T) {
	values := []ByteSize{
		0, 1, 1023, 1024, 1025, 1536,
		ByteSize(UnitM), ByteSize(UnitM + 1), ByteSize(UnitM + UnitK), ByteSize(3*UnitM + 512*UnitK),
		ByteSize(UnitG), ByteSize(UnitG + UnitM), ByteSize(UnitG + UnitK), ByteSize(7*UnitG + 5),
		ByteSize(UnitT), ByteSize(UnitT + 512*UnitK), ByteSize(2*UnitT + UnitG),
	}
	for _, v := range values {
		data, err := json.Marshal(v)
		if err != nil {
			t.Fatalf("marshal %d: %v", int64(v), err)
		}
		var back ByteSize
		if err := json.Unmarshal(data, &back); err != nil {
			t.Fatalf("unmarshal %s (from %d): %v", data, int64(v), err)
		}
		if back != v {
			t.Errorf("size %d was written as %s which reads back as %d", int64(v), data, int64(back))
		}
	}
}
