// place in: cache
// (no race detector needed; deterministic, calls the janitor's expiry pass directly)
package cache

import (
	"bytes"
	"io"
	"reservoir/config"
	"reservoir/metrics"
	"testing"
	"time"
)

// After an expiry pass that actually removes something, the reported byte total
// (metrics BytesCached) must still equal the cache's own byte counter and the
// bytes of the entries that can be fetched.
func TestC12Demo_ExpiryPassKeepsReportedBytesExact(t *testing.T) {
	cfg := config.NewDefault()
	// The metrics are process wide: start from a clean slate for this cache.
	metrics.Global.Cache.BytesCached.Set(0)
	metrics.Global.Cache.CacheEntries.Set(0)

	// Janitor ticker effectively disabled (1h); the expiry pass is run by hand.
	c := NewMemoryCache[TestMeta](cfg, 1, 1024*1024*1024, time.Hour, 16, t.Context())
	defer c.Destroy()

	kExpired := FromString("c12-expired")
	kLive := FromString("c12-live")

	e, err := c.Cache(kExpired, bytes.NewReader(make([]byte, 100)), time.Now().Add(-time.Second), TestMeta{})
	if err != nil {
		t.Fatalf("Cache expired: %v", err)
	}
	e.Data.Close()
	e, err = c.Cache(kLive, bytes.NewReader(make([]byte, 50)), time.Now().Add(time.Hour), TestMeta{})
	if err != nil {
		t.Fatalf("Cache live: %v", err)
	}
	e.Data.Close()

	if got := metrics.Global.Cache.BytesCached.Get(); got != 150 {
		t.Fatalf("before expiry: reported bytes = %d, want 150", got)
	}

	c.janitor.cleanExpiredEntries()

	// What can actually be returned now
	var actualBytes, actualEntries int64
	for _, k := range []CacheKey{kExpired, kLive} {
		ent, err := c.Get(k)
		if err != nil {
			continue
		}
		n, _ := io.Copy(io.Discard, ent.Data)
		ent.Data.Close()
		actualBytes += n
		actualEntries++
	}
	if actualEntries != 1 || actualBytes != 50 {
		t.Fatalf("unexpected content after expiry: %d entries, %d bytes", actualEntries, actualBytes)
	}

	if got := c.byteSize.Get(); got != actualBytes {
		t.Errorf("internal byte counter = %d, want %d", got, actualBytes)
	}
	if got := metrics.Global.Cache.CacheEntries.Get(); got != actualEntries {
		t.Errorf("reported entries = %d, want %d", got, actualEntries)
	}
	if got := metrics.Global.Cache.BytesCached.Get(); got != actualBytes {
		t.Errorf("reported bytes (metrics BytesCached) = %d, want %d (drifted after expiry pass)", got, actualBytes)
	}

	// A second pass with nothing to expire must not change anything either
	c.janitor.cleanExpiredEntries()
	if got := metrics.Global.Cache.BytesCached.Get(); got != actualBytes {
		t.Errorf("reported bytes after idle expiry pass = %d, want %d", got, actualBytes)
	}
}
