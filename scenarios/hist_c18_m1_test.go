// place in: config
package config

import (
	"bytes"
	"os"
	"path/filepath"
	"testing"
)

// A multi-key update of which one key is ill-typed is rejected. The other (well-typed) key
// of that document must not leak anywhere: not into the running settings, not into the file,
// and not into the file written by a LATER accepted update of an unrelated key.
func TestC18RejectedMultiKeyUpdateDoesNotLeakIntoLaterPersist(t *testing.T) {
	oldPath := configPath
	defer func() { configPath = oldPath }()
	configPath.Path = filepath.Join(t.TempDir(), "config.json")

	cfg := NewDefault()
	if _, err := UpdatePartialFromConfig(cfg, map[string]any{"logging": map[string]any{"max_backups": 5}}); err != nil {
		t.Fatalf("first update should be accepted: %v", err)
	}
	before, err := os.ReadFile(configPath.Path)
	if err != nil {
		t.Fatal(err)
	}
	wantSize := cfg.Cache.MaxCacheSize.Read()

	// Map iteration order is random: repeat so that the good key is processed before the bad one at least once.
	for i := 0; i < 64; i++ {
		st, err := UpdatePartialFromConfig(cfg, map[string]any{
			"cache": map[string]any{"max_cache_size": "1G", "lock_shards": "oops"},
		})
		if err == nil || st != UpdateStatusFailed {
			t.Fatalf("ill-typed update must be rejected, got status %v err %v", st, err)
		}
	}
	if got := cfg.Cache.MaxCacheSize.Read(); got != wantSize {
		t.Fatalf("rejected update changed running max_cache_size: %v -> %v", wantSize, got)
	}
	after, _ := os.ReadFile(configPath.Path)
	if !bytes.Equal(before, after) {
		t.Fatalf("rejected update changed the file")
	}

	// A later, unrelated, accepted update.
	if _, err := UpdatePartialFromConfig(cfg, map[string]any{"logging": map[string]any{"max_backups": 7}}); err != nil {
		t.Fatalf("second update should be accepted: %v", err)
	}
	if got := cfg.Cache.MaxCacheSize.Read(); got != wantSize {
		t.Fatalf("running max_cache_size changed: %v -> %v", wantSize, got)
	}

	// What the next start will load.
	next, err := load(configPath.Path)
	if err != nil {
		t.Fatalf("persisted config does not load: %v", err)
	}
	if got := next.Cache.MaxCacheSize.Read(); got != wantSize {
		t.Errorf("next start loads max_cache_size=%v, running value is %v (value of a rejected update was persisted)", got, wantSize)
	}
	if got := next.Logging.MaxBackups.Read(); got != 7 {
		t.Errorf("next start loads max_backups=%v, want 7", got)
	}
}
