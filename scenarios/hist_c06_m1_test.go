// place in: tests
package tests

import (
	"io"
	"net/http"
	"reservoir/utils/duration"
	"strings"
	"sync/atomic"
	"testing"
	"time"
)

// A 304 must renew the stored entry's lifetime by the configured default max age counted
// from the moment of revalidation, also when the entry has been stale for longer than
// that default.
func TestC06Demo304RenewsLifetimeFromNow(t *testing.T) {
	env := SetupTestEnv(t)
	env.Cfg.Proxy.CachePolicy.DefaultMaxAge.Overwrite(duration.Duration(1 * time.Second))

	var requestCount int32
	var conditionalCount int32
	env.Upstream.Config.Handler = http.HandlerFunc(func(w http.ResponseWriter, r *http.Request) {
		atomic.AddInt32(&requestCount, 1)
		if r.Header.Get("If-None-Match") == "\"c06-m1\"" {
			atomic.AddInt32(&conditionalCount, 1)
			w.WriteHeader(http.StatusNotModified)
			return
		}
		w.Header().Set("Cache-Control", "max-age=1")
		w.Header().Set("ETag", "\"c06-m1\"")
		w.WriteHeader(http.StatusOK)
		w.Write([]byte("c06 m1 body"))
	})
	env.Start()

	target := env.Upstream.URL + "/c06-m1"

	get := func() (string, string) {
		t.Helper()
		resp, err := env.Client.Get(target)
		if err != nil {
			t.Fatalf("request failed: %v", err)
		}
		defer resp.Body.Close()
		body, _ := io.ReadAll(resp.Body)
		if resp.StatusCode != http.StatusOK {
			t.Fatalf("expected 200, got %d", resp.StatusCode)
		}
		return string(body), resp.Header.Get("Cache-Status")
	}

	// 1. miss, entry stored with a lifetime of 1s
	if body, _ := get(); body != "c06 m1 body" {
		t.Fatalf("unexpected body %q", body)
	}
	if n := atomic.LoadInt32(&requestCount); n != 1 {
		t.Fatalf("expected 1 upstream request, got %d", n)
	}

	// 2. let the entry be stale for longer than the default max age (1s)
	time.Sleep(2600 * time.Millisecond)

	// 3. revalidation, origin answers 304
	body, status := get()
	if body != "c06 m1 body" {
		t.Fatalf("unexpected body after revalidation %q", body)
	}
	if !strings.Contains(status, "revalidated") {
		t.Fatalf("expected revalidated, got %q", status)
	}
	if n := atomic.LoadInt32(&conditionalCount); n != 1 {
		t.Fatalf("expected 1 conditional upstream request, got %d", n)
	}

	// 4. right after the 304 the entry must be fresh again: no further upstream request
	body, status = get()
	if body != "c06 m1 body" {
		t.Fatalf("unexpected body after renewal %q", body)
	}
	if n := atomic.LoadInt32(&requestCount); n != 2 {
		t.Errorf("entry not renewed by 304: expected 2 upstream requests in total, got %d (Cache-Status %q)", n, status)
	}
	if !strings.Contains(status, "hit") || strings.Contains(status, "revalidated") {
		t.Errorf("expected a plain hit right after the 304, got Cache-Status %q", status)
	}
}
