package tests

import (
	"bufio"
	"crypto/tls"
	"fmt"
	"io"
	"net"
	"net/http"
	"strings"
	"sync/atomic"
	"testing"
	"time"
)

// Scenario for C10: a request on a tunnel carries a body the proxy has no reason to read
// (a GET answered from the store).  The bytes of that body must not be taken for the next
// request of the tunnel: each response depends only on its own request.
func TestGovcScenarioTunnelUnreadBodyIsNotARequest(t *testing.T) {
	env := SetupHttpsTestEnv(t)
	var evil atomic.Int32
	env.Upstream.Config.Handler = http.HandlerFunc(func(w http.ResponseWriter, r *http.Request) {
		if r.URL.Path == "/smuggled" {
			evil.Add(1)
		}
		w.Header().Set("Cache-Control", "max-age=60")
		w.Header().Set("X-Path", r.URL.Path)
		io.WriteString(w, "body of "+r.URL.Path)
	})
	env.Start()
	target := strings.TrimPrefix(env.Upstream.URL, "https://")
	proxyAddr := strings.TrimPrefix(env.ProxyServer.URL, "http://")
	raw, err := net.DialTimeout("tcp", proxyAddr, 5*time.Second)
	if err != nil {
		t.Fatal(err)
	}
	defer raw.Close()
	raw.SetDeadline(time.Now().Add(8 * time.Second))
	fmt.Fprintf(raw, "CONNECT %s HTTP/1.1\r\nHost: %s\r\n\r\n", target, target)
	if resp, err := http.ReadResponse(bufio.NewReader(raw), nil); err != nil || resp.StatusCode != 200 {
		t.Fatalf("CONNECT: %v", err)
	}
	conn := tls.Client(raw, &tls.Config{InsecureSkipVerify: true})
	if err := conn.Handshake(); err != nil {
		t.Fatal(err)
	}
	br := bufio.NewReader(conn)
	read := func(n int, path string) {
		t.Helper()
		resp, err := http.ReadResponse(br, &http.Request{Method: "GET"})
		if err != nil {
			t.Fatalf("response %d (for %s) did not arrive: %v", n, path, err)
		}
		b, _ := io.ReadAll(resp.Body)
		resp.Body.Close()
		if resp.StatusCode != 200 || resp.Header.Get("X-Path") != path || string(b) != "body of "+path {
			t.Fatalf("response %d belongs to another request: want %s, got status %d X-Path %q body %q", n, path, resp.StatusCode, resp.Header.Get("X-Path"), b)
		}
	}
	// 1: store /a
	fmt.Fprintf(conn, "GET /a HTTP/1.1\r\nHost: %s\r\n\r\n", target)
	read(1, "/a")
	// 2: /a again (a hit), with a body that looks like a request
	inner := fmt.Sprintf("GET /smuggled HTTP/1.1\r\nHost: %s\r\n\r\n", target)
	fmt.Fprintf(conn, "GET /a HTTP/1.1\r\nHost: %s\r\nContent-Length: %d\r\n\r\n%s", target, len(inner), inner)
	read(2, "/a")
	// 3: an ordinary request: its answer must be the next thing on the tunnel
	fmt.Fprintf(conn, "GET /c HTTP/1.1\r\nHost: %s\r\n\r\n", target)
	read(3, "/c")
	if evil.Load() != 0 {
		t.Errorf("the body of request 2 was executed as a request of its own (%d origin requests for /smuggled)", evil.Load())
	}
}
