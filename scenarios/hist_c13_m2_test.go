// place in: cache
package cache

import (
	"bytes"
	"fmt"
	"reservoir/config"
	"testing"
	"time"
)

// C13: a store that finds the cache at its limit evicts down to 80% of the
// limit, least-recently-used first. An entry that shares a lock with the
// triggering store may be skipped, but the eviction must then carry on with
// the next candidates until the target is really reached.
func TestC13Demo_SkippedEntryDoesNotCountAsFreed(t *testing.T) {
	ctx := t.Context()
	cfg := config.NewDefault()

	const shards = 4
	const limit = 1000
	c := NewMemoryCache[TestMeta](cfg, 1, limit, time.Hour, shards, ctx)
	defer c.Destroy()

	// Pick keys by lock shard
	n := 0
	keyInShard := func(want func(shard int) bool) CacheKey {
		for {
			n++
			k := FromString(fmt.Sprintf("c13-demo-key-%d", n))
			l := getLock(c.locks, k)
			for i := range c.locks {
				if l == &c.locks[i] && want(i) {
					return k
				}
			}
		}
	}
	inShard0 := func(s int) bool { return s == 0 }
	notShard0 := func(s int) bool { return s != 0 }

	store := func(k CacheKey, size int) error {
		e, err := c.Cache(k, bytes.NewReader(make([]byte, size)), time.Now().Add(time.Hour), TestMeta{})
		if err == nil {
			e.Data.Close()
		}
		return err
	}
	present := func(k CacheKey) bool {
		c.mu.RLock()
		defer c.mu.RUnlock()
		_, ok := c.entries[k]
		return ok
	}

	// Oldest entry lives in shard 0, four younger ones live elsewhere. 5 x 200 = limit.
	oldest := keyInShard(inShard0)
	others := []CacheKey{keyInShard(notShard0), keyInShard(notShard0), keyInShard(notShard0), keyInShard(notShard0)}
	if err := store(oldest, 200); err != nil {
		t.Fatalf("setup store failed: %v", err)
	}
	for _, k := range others {
		time.Sleep(10 * time.Millisecond) // distinct LastAccess
		if err := store(k, 200); err != nil {
			t.Fatalf("setup store failed: %v", err)
		}
	}
	if got := c.byteSize.Get(); got != limit {
		t.Fatalf("setup: expected size %d, got %d", limit, got)
	}
	time.Sleep(10 * time.Millisecond)

	// The triggering store uses a key that shares its lock with the oldest entry,
	// so the oldest entry is skipped by the eviction.
	trigger := keyInShard(inShard0)
	if err := store(trigger, 100); err != nil {
		t.Fatalf("store at the limit failed (%v): eviction did not free anything although unlocked entries were available", err)
	}

	if present(others[0]) {
		t.Errorf("least recently used unlocked entry was not evicted")
	}
	for i, k := range others[1:] {
		if !present(k) {
			t.Errorf("younger entry %d was evicted although the target was already reached", i+1)
		}
	}
	if !present(trigger) {
		t.Errorf("newly stored entry missing")
	}
	// 1000 -> evict one 200-byte entry -> 800 (= 80%% of limit) -> +100 stored
	if got := c.byteSize.Get(); got != 900 {
		t.Errorf("expected size 900 after eviction to 80%% and the 100-byte store, got %d", got)
	}
}
