// place in: cache
package cache

import (
	"bufio"
	"net/http"
	"strings"
	"testing"
)

// Two long request targets (a signed-URL style query) that differ only near their end
// name different resources and must not share a cache key.
func TestDemoLongTargetsDifferingInTailGetDistinctKeys(t *testing.T) {
	read := func(target string) *http.Request {
		t.Helper()
		raw := "GET " + target + " HTTP/1.1\r\nHost: files.example.com\r\n\r\n"
		req, err := http.ReadRequest(bufio.NewReader(strings.NewReader(raw)))
		if err != nil {
			t.Fatalf("ReadRequest(%q): %v", target, err)
		}
		return req
	}

	sig := strings.Repeat("0123456789abcdef", 20) // 320 characters
	a := read("/download/archive.tar.gz?signature=" + sig + "&object=1")
	b := read("/download/archive.tar.gz?signature=" + sig + "&object=2")
	if a.URL.RawQuery == b.URL.RawQuery {
		t.Fatal("test setup: the queries are meant to differ")
	}
	if MakeFromRequest(a) == MakeFromRequest(b) {
		t.Errorf("requests with different query strings share a cache key:\n  %s\n  %s", a.URL.RawQuery, b.URL.RawQuery)
	}

	// same for a long path that differs in its last segment only
	dir := strings.Repeat("/segment", 40)
	c := read(dir + "/one")
	d := read(dir + "/two")
	if MakeFromRequest(c) == MakeFromRequest(d) {
		t.Errorf("requests with different paths share a cache key: ...%s vs ...%s", c.URL.Path[len(dir):], d.URL.Path[len(dir):])
	}

	// sanity: short targets that name the same resource still share one
	e := read("/a/./b?x=1")
	f := read("/a//b?x=1")
	if MakeFromRequest(e) != MakeFromRequest(f) {
		t.Errorf("/a/./b and /a//b should share a key")
	}
}
