// place in: cache
package cache

import (
	"bytes"
	"reservoir/config"
	"testing"
	"time"
)

// An entry of the file cache whose lifetime has elapsed must be reported stale by the
// first Get after the expiry, even if the previous access to it happened while it was
// still fresh. (The proxy serves a non-stale entry as HIT without contacting the origin.)
func TestC03FileCacheFirstGetAfterExpiryIsStale(t *testing.T) {
	ctx := t.Context()
	cfg := config.NewDefault()

	// Long cleanup interval: the janitor must not remove the expired entry during the test.
	c := NewFileCache[TestMeta](cfg, t.TempDir(), 1024*1024, time.Hour, 16, ctx)
	defer c.Destroy()

	key := FromString("c03-file-expiry")
	lifetime := 300 * time.Millisecond
	stored, err := c.Cache(key, bytes.NewReader([]byte("payload")), time.Now().Add(lifetime), TestMeta{ID: "m"})
	if err != nil {
		t.Fatalf("Cache failed: %v", err)
	}
	stored.Data.Close()

	// Access while fresh.
	fresh, err := c.Get(key)
	if err != nil {
		t.Fatalf("Get (fresh) failed: %v", err)
	}
	fresh.Data.Close()
	if fresh.Stale {
		t.Fatalf("entry reported stale before its lifetime elapsed")
	}

	// Let the lifetime elapse.
	time.Sleep(lifetime + 200*time.Millisecond)

	expired, err := c.Get(key)
	if err != nil {
		t.Fatalf("Get (after expiry) failed: %v", err)
	}
	expired.Data.Close()
	if !expired.Stale {
		t.Errorf("first Get after the lifetime elapsed reports the entry as fresh (expires=%v, now=%v): it would be served as HIT without contacting the origin",
			expired.Expires, time.Now())
	}
}
