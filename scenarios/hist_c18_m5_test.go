// place in: config
package config

import (
	"bytes"
	"os"
	"path/filepath"
	"testing"
)

// A well-typed but invalid update (cache.lock_shards = 0) must be rejected and
// must leave the configuration file on disk exactly as it was, so that the next
// start still loads the last accepted configuration.
func TestSeedC18RejectedUpdateLeavesFileUntouched(t *testing.T) {
	oldPath := configPath
	defer func() { configPath = oldPath }()
	configPath.Path = filepath.Join(t.TempDir(), "config.json")

	cfg := NewDefault()
	if err := cfg.persist(); err != nil {
		t.Fatalf("persist of default config failed: %v", err)
	}
	before, err := os.ReadFile(configPath.Path)
	if err != nil {
		t.Fatal(err)
	}

	status, err := UpdatePartialFromConfig(cfg, map[string]any{
		"cache": map[string]any{"lock_shards": float64(0)},
	})
	if err == nil || status != UpdateStatusFailed {
		t.Fatalf("invalid update was not rejected: status=%v err=%v", status, err)
	}

	after, err := os.ReadFile(configPath.Path)
	if err != nil {
		t.Fatal(err)
	}
	if !bytes.Equal(before, after) {
		t.Errorf("rejected update changed the config file on disk:\n--- before\n%s\n--- after\n%s", before, after)
	}

	// What the next start would load must still be a workable configuration.
	loaded, err := load(configPath.Path)
	if err != nil {
		t.Fatalf("config file no longer loads after a rejected update: %v", err)
	}
	if got := loaded.Cache.LockShards.Read(); got != 1024 {
		t.Errorf("next start would load lock_shards=%d, want 1024", got)
	}
}
