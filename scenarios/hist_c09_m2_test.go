// place in: cache
package cache

import (
	"bytes"
	"reservoir/config"
	"testing"
	"time"
)

// Two evictions that run at the same time (two requests storing into a full cache on
// different lock shards, or a store racing with the periodic cleanup) work on the same
// snapshot of candidates. The one that loses the race for a victim asks the cache to
// remove a key that is already gone. After that the cache must still answer lookups and
// stores; otherwise every following request hangs although the origin answered.
func TestDemoC09LostEvictionRaceMustNotWedgeCache(t *testing.T) {
	ctx := t.Context()
	cfg := config.NewDefault()

	c := NewMemoryCache[TestMeta](cfg, 50, 1024, time.Hour, 16, ctx)
	defer c.Destroy()

	victim := FromString("victim")
	other := FromString("other")
	payload := make([]byte, 300)

	for _, k := range []CacheKey{victim, other} {
		e, err := c.Cache(k, bytes.NewReader(payload), time.Now().Add(time.Hour), TestMeta{})
		if err != nil {
			t.Fatalf("Cache failed: %v", err)
		}
		e.Data.Close()
	}

	// Eviction #1 wins the race and removes the victim.
	if err := c.Delete(victim); err != nil {
		t.Fatalf("Delete failed: %v", err)
	}

	// Eviction #2 still has the victim in its snapshot and does what janitor.evict does:
	// take the shard lock, ask for removal, release the shard lock.
	lock := c.janitor.cacheFns.getLock(victim)
	if !lock.TryLock() {
		t.Fatalf("shard lock unexpectedly held")
	}
	if err := c.janitor.cacheFns.removeEntry(victim); err != ErrCacheEntryNotFound {
		lock.Unlock()
		t.Fatalf("expected ErrCacheEntryNotFound for the lost race, got %v", err)
	}
	lock.Unlock()

	// A following client request: lookup of another object and a store of a new one.
	done := make(chan error, 1)
	go func() {
		e, err := c.Get(other)
		if err != nil {
			done <- err
			return
		}
		e.Data.Close()
		e, err = c.Cache(FromString("new"), bytes.NewReader(payload), time.Now().Add(time.Hour), TestMeta{})
		if err != nil {
			done <- err
			return
		}
		e.Data.Close()
		done <- nil
	}()

	select {
	case err := <-done:
		if err != nil {
			t.Fatalf("cache operation after lost eviction race failed: %v", err)
		}
	case <-time.After(3 * time.Second):
		t.Fatalf("cache is wedged after a lost eviction race: Get/Cache did not return within 3s (request would hang)")
	}
}
