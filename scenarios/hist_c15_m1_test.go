// place in: cache
// needs: -race
package cache

import (
	"bytes"
	"fmt"
	"io"
	"log/slog"
	"reservoir/config"
	"sync"
	"testing"
	"time"
)

// A cleanup cycle (run here directly instead of waiting for the ticker) walks the
// entries while client requests insert new, unrelated keys. The janitor must walk a
// private snapshot taken under c.mu; walking the live map races with the inserts
// (race detector report, or "concurrent map iteration and map write" abort).
func TestC15Demo_CleanupCycleVsInsert(t *testing.T) {
	old := slog.Default()
	slog.SetDefault(slog.New(slog.NewTextHandler(io.Discard, nil)))
	defer slog.SetDefault(old)

	cfg := config.NewDefault()
	// Cleanup interval long enough that the ticker never fires during the test.
	c := NewMemoryCache[TestMeta](cfg, 50, 1<<30, time.Hour, 16, t.Context())
	defer c.Destroy()

	// Pre-populate so that the walk takes a while. Nothing is expired, so the
	// cleanup cycle only reads.
	for i := 0; i < 256; i++ {
		e, err := c.Cache(FromString(fmt.Sprintf("seed-%d", i)), bytes.NewReader([]byte("x")), time.Now().Add(time.Hour), TestMeta{})
		if err != nil {
			t.Fatalf("seed Cache failed: %v", err)
		}
		e.Data.Close()
	}

	var wg sync.WaitGroup
	wg.Add(2)
	go func() {
		defer wg.Done()
		for i := 0; i < 200; i++ {
			c.janitor.cleanExpiredEntries()
		}
	}()
	go func() {
		defer wg.Done()
		for i := 0; i < 2000; i++ {
			e, err := c.Cache(FromString(fmt.Sprintf("new-%d", i)), bytes.NewReader([]byte("y")), time.Now().Add(time.Hour), TestMeta{})
			if err != nil {
				t.Errorf("Cache failed: %v", err)
				return
			}
			e.Data.Close()
		}
	}()
	wg.Wait()
}
