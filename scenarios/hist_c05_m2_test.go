// place in: proxy
// C05 demo (mutant m2): N clients ask for a STALE key at the same time and the single
// revalidation is answered with a response that may not be stored (200, no-store).
// Every client must receive a complete response of its own, never one shared upstream body.
package proxy

import (
	"bytes"
	"io"
	"log/slog"
	"net/http"
	"net/http/httptest"
	"net/url"
	"reservoir/config"
	"sync"
	"sync/atomic"
	"testing"
	"time"
)

func TestC05StaleNotCacheableOwnResponse(t *testing.T) {
	slog.SetDefault(slog.New(slog.NewTextHandler(io.Discard, nil)))

	bodyV1 := []byte("version one of the object")
	bodyV2 := bytes.Repeat([]byte("fedcba9876543210"), 64*1024) // 1 MiB

	var noStore atomic.Bool
	origin := httptest.NewServer(http.HandlerFunc(func(w http.ResponseWriter, r *http.Request) {
		if !noStore.Load() {
			w.Header().Set("Cache-Control", "max-age=1")
			w.Header().Set("ETag", "\"v1\"")
			w.WriteHeader(http.StatusOK)
			w.Write(bodyV1)
			return
		}
		// The object changed and may no longer be stored. Answer slowly so that the
		// concurrent clients pile up behind the one revalidation.
		time.Sleep(300 * time.Millisecond)
		w.Header().Set("Cache-Control", "no-store")
		w.Header().Set("ETag", "\"v2\"")
		w.Header().Set("Content-Type", "application/octet-stream")
		w.WriteHeader(http.StatusOK)
		w.Write(bodyV2)
	}))
	defer origin.Close()

	cfg := config.NewDefault()
	cfg.Proxy.UpstreamDefaultHttps.Overwrite(false)
	cfg.Proxy.CachePolicy.IgnoreCacheControl.Overwrite(false)
	cfg.Proxy.CachePolicy.ForceDefaultMaxAge.Overwrite(false)
	cfg.Cache.Type.Overwrite(config.CacheTypeMemory)
	cfg.Cache.LockShards.Overwrite(32)

	p, err := NewProxy(cfg, nil, t.Context())
	if err != nil {
		t.Fatalf("NewProxy: %v", err)
	}
	defer p.Destroy()

	proxySrv := httptest.NewServer(p)
	defer proxySrv.Close()
	proxyURL, _ := url.Parse(proxySrv.URL)
	client := &http.Client{Transport: &http.Transport{Proxy: http.ProxyURL(proxyURL)}, Timeout: 20 * time.Second}
	target := origin.URL + "/stale-object"

	// Store version one, then let it expire.
	resp, err := client.Get(target)
	if err != nil {
		t.Fatalf("priming request failed: %v", err)
	}
	got, err := io.ReadAll(resp.Body)
	resp.Body.Close()
	if err != nil || !bytes.Equal(got, bodyV1) {
		t.Fatalf("priming request: bad body %q err=%v", got, err)
	}
	time.Sleep(1300 * time.Millisecond)
	noStore.Store(true)

	const n = 4
	type result struct {
		status int
		body   []byte
		err    error
	}
	results := make([]result, n)
	var wg sync.WaitGroup
	start := make(chan struct{})
	for i := 0; i < n; i++ {
		wg.Add(1)
		go func(i int) {
			defer wg.Done()
			<-start
			resp, err := client.Get(target)
			if err != nil {
				results[i].err = err
				return
			}
			defer resp.Body.Close()
			results[i].status = resp.StatusCode
			results[i].body, results[i].err = io.ReadAll(resp.Body)
		}(i)
	}
	close(start)
	done := make(chan struct{})
	go func() { wg.Wait(); close(done) }()
	select {
	case <-done:
	case <-time.After(30 * time.Second):
		t.Fatal("timeout waiting for the concurrent clients")
	}

	for i, r := range results {
		if r.err != nil {
			t.Errorf("client %d: error: %v (got %d of %d bytes)", i, r.err, len(r.body), len(bodyV2))
			continue
		}
		if r.status != http.StatusOK {
			t.Errorf("client %d: status %d, want 200", i, r.status)
		}
		if !bytes.Equal(r.body, bodyV2) {
			t.Errorf("client %d: incomplete or wrong body: got %d bytes, want %d", i, len(r.body), len(bodyV2))
		}
	}
}
