package auth

import (
	"sync"
	"testing"
	"time"
)

// Scenario for C15 (run with -race): two requests present the same session shortly before
// it expires; both extend it while each reads what the other may be writing.
func TestGovcScenarioSessionExtendedConcurrently(t *testing.T) {
	s := CreateSession(1)
	var wg sync.WaitGroup
	for g := 0; g < 4; g++ {
		wg.Add(1)
		go func() {
			defer wg.Done()
			for i := 0; i < 300; i++ {
				cur, ok := GetSession(s.ID)
				if !ok {
					t.Errorf("live session refused")
					return
				}
				// push it back into the extension window (as time passing would)
				short := *cur
				short.ExpiresAt = time.Now().Add(time.Minute)
				sessionStore.Set(s.ID, &short)
			}
		}()
	}
	wg.Wait()
}
