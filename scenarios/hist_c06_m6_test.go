// place in: tests
// (end-to-end through the proxy; takes about 1.5 seconds because it waits for the stored response to go stale)
package tests

import (
	"io"
	"net/http"
	"strings"
	"sync/atomic"
	"testing"
	"time"
)

// C06, validator combination "Last-Modified only": the stored response has no ETag, so the
// revalidation carries only If-Modified-Since. The origin's 304 must keep the stored body in
// service and renew its lifetime - the origin is not asked again while the renewed lifetime runs.
func TestC06Demo_304ForLastModifiedOnlyEntryRenewsIt(t *testing.T) {
	env := SetupTestEnv(t)

	const lastModified = "Tue, 15 Nov 1994 12:45:26 GMT"
	var originHits, unconditionalHits int32
	var sawIMS atomic.Value
	env.Upstream.Config.Handler = http.HandlerFunc(func(w http.ResponseWriter, r *http.Request) {
		atomic.AddInt32(&originHits, 1)
		if ims := r.Header.Get("If-Modified-Since"); ims != "" {
			sawIMS.Store(ims)
			if ims == lastModified && r.Header.Get("If-None-Match") == "" {
				w.WriteHeader(http.StatusNotModified)
				return
			}
		}
		atomic.AddInt32(&unconditionalHits, 1)
		w.Header().Set("Cache-Control", "max-age=1")
		w.Header().Set("Last-Modified", lastModified) // no ETag
		w.WriteHeader(http.StatusOK)
		w.Write([]byte("body v1"))
	})
	env.Start()
	url := env.Upstream.URL + "/c06-lm-only"

	get := func() (string, string) {
		t.Helper()
		resp, err := env.Client.Get(url)
		if err != nil {
			t.Fatalf("request failed: %v", err)
		}
		defer resp.Body.Close()
		b, _ := io.ReadAll(resp.Body)
		return string(b), resp.Header.Get("Cache-Status")
	}

	// 1. miss: stored with Last-Modified as its only validator
	if body, _ := get(); body != "body v1" {
		t.Fatalf("unexpected body %q", body)
	}
	time.Sleep(1300 * time.Millisecond) // goes stale

	// 2. stale -> the origin is asked with the stored Last-Modified and answers 304
	body, status := get()
	if body != "body v1" {
		t.Fatalf("unexpected body after revalidation: %q", body)
	}
	if ims, _ := sawIMS.Load().(string); ims != lastModified {
		t.Fatalf("origin was not asked with the stored Last-Modified: If-Modified-Since=%q", ims)
	}
	if !strings.Contains(status, "revalidated") {
		t.Errorf("the origin's 304 was not taken as a successful revalidation (Cache-Status: %s)", status)
	}
	if n := atomic.LoadInt32(&unconditionalHits); n != 1 {
		t.Errorf("the full response was fetched %d times, want 1: the 304 should have kept the stored body in service", n)
	}
	hitsAfterRevalidation := atomic.LoadInt32(&originHits)

	// 3. the 304 renewed the lifetime (default 1h): the next request is a plain hit
	_, status = get()
	if n := atomic.LoadInt32(&originHits); n != hitsAfterRevalidation {
		t.Errorf("origin asked again right after a 304 (%d -> %d requests): the entry's lifetime was not renewed (Cache-Status: %s)", hitsAfterRevalidation, n, status)
	}
}
