// place in: tests
package tests

import (
	"bufio"
	"net"
	"net/http"
	"sync/atomic"
	"testing"
	"time"
)

// An origin whose first answer is an uncacheable 200 and whose second answer (to the proxy's
// direct re-fetch of the uncacheable resource) carries the status code 099. Whatever the origin
// sends, the client must get a well-formed HTTP response.
func TestSeedC16InvalidStatusOnDirectRefetchIsAnswered(t *testing.T) {
	env := SetupTestEnv(t)
	env.Start()

	ln, err := net.Listen("tcp", "127.0.0.1:0")
	if err != nil {
		t.Fatal(err)
	}
	defer ln.Close()

	var served atomic.Int32
	go func() {
		for {
			conn, err := ln.Accept()
			if err != nil {
				return
			}
			go func(c net.Conn) {
				defer c.Close()
				c.SetDeadline(time.Now().Add(5 * time.Second))
				if _, err := http.ReadRequest(bufio.NewReader(c)); err != nil {
					return
				}
				if served.Add(1) == 1 {
					c.Write([]byte("HTTP/1.1 200 OK\r\nCache-Control: no-store\r\nContent-Length: 2\r\nConnection: close\r\n\r\nok"))
				} else {
					c.Write([]byte("HTTP/1.1 099 Weird\r\nContent-Length: 0\r\nConnection: close\r\n\r\n"))
				}
			}(conn)
		}
	}()

	env.Client.Timeout = 10 * time.Second
	resp, err := env.Client.Get("http://" + ln.Addr().String() + "/thing")
	if err != nil {
		t.Fatalf("client got no well-formed response (origin requests served: %d): %v", served.Load(), err)
	}
	defer resp.Body.Close()
	if resp.StatusCode < 100 || resp.StatusCode > 599 {
		t.Fatalf("unexpected status %d", resp.StatusCode)
	}
	if served.Load() < 2 {
		t.Skipf("the proxy did not re-fetch (served=%d), scenario not exercised", served.Load())
	}
}
