// place in: tests
package tests

import (
	"net/http"
	"sync"
	"testing"
)

// C08: the origin must receive the client's path exactly as written on the wire.
// An escaped separator (%2F) or an over-escaped octet in the path is data and must
// not be decoded on the way to the origin.
func TestSeedC08EscapedPathReachesOriginAsWritten(t *testing.T) {
	env := SetupTestEnv(t)

	var mu sync.Mutex
	var seen []string
	env.Upstream.Config.Handler = http.HandlerFunc(func(w http.ResponseWriter, r *http.Request) {
		mu.Lock()
		seen = append(seen, r.Method+" "+r.RequestURI)
		mu.Unlock()
		w.Header().Set("Cache-Control", "no-store")
		w.WriteHeader(http.StatusOK)
		w.Write([]byte("ok"))
	})
	env.Start()

	cases := []struct{ method, uri string }{
		{http.MethodPost, "/files/a%2Fb/c?x=1%2F2"},
		{http.MethodGet, "/blob/sha256%3Aabc%2Fdef"},
	}
	for _, c := range cases {
		mu.Lock()
		seen = nil
		mu.Unlock()

		req, err := http.NewRequest(c.method, env.Upstream.URL+c.uri, nil)
		if err != nil {
			t.Fatalf("NewRequest: %v", err)
		}
		resp, err := env.Client.Do(req)
		if err != nil {
			t.Fatalf("request failed: %v", err)
		}
		resp.Body.Close()

		mu.Lock()
		got := append([]string(nil), seen...)
		mu.Unlock()
		if len(got) == 0 {
			t.Fatalf("origin saw no request for %s %s", c.method, c.uri)
		}
		want := c.method + " " + c.uri
		for _, g := range got {
			if g != want {
				t.Errorf("origin received %q, client sent %q", g, want)
			}
		}
	}
}
