package tests

import (
	"io"
	"net/http"
	"strings"
	"sync"
	"testing"
)

func TestGovcScenarioPost416IsRelayedOnce(t *testing.T) {
	env := SetupTestEnv(t)
	var mu sync.Mutex
	var bodies []string
	env.Upstream.Config.Handler = http.HandlerFunc(func(w http.ResponseWriter, r *http.Request) {
		b, _ := io.ReadAll(r.Body)
		mu.Lock()
		bodies = append(bodies, r.Method+" "+string(b))
		mu.Unlock()
		w.Header().Set("X-Origin", "yes")
		w.WriteHeader(http.StatusRequestedRangeNotSatisfiable)
		io.WriteString(w, "origin says 416")
	})
	env.Start()
	resp, err := env.Client.Post(env.Upstream.URL+"/upload", "text/plain", strings.NewReader("payload-bytes"))
	if err != nil {
		t.Fatal(err)
	}
	defer resp.Body.Close()
	b, _ := io.ReadAll(resp.Body)
	mu.Lock()
	defer mu.Unlock()
	t.Logf("client got %d %q; origin saw %q", resp.StatusCode, b, bodies)
	if resp.StatusCode != 416 || string(b) != "origin says 416" {
		t.Errorf("the origin's 416 answer was not relayed: %d %q", resp.StatusCode, b)
	}
	for _, s := range bodies {
		if s != "POST payload-bytes" {
			t.Errorf("the origin received a request without the client's body: %q", s)
		}
	}
	if len(bodies) != 1 {
		t.Errorf("a POST was sent to the origin %d times", len(bodies))
	}
}
