package tests

import (
	"fmt"
	"io"
	"net/http"
	"sync/atomic"
	"testing"
)

// Scenario for C04: a Cache-Control that the origin lists in its Connection header is
// addressed to the proxy itself: it must be honoured (not stored), not dropped unread.
func TestGovcScenarioConnectionListedCacheControlHonoured(t *testing.T) {
	env := SetupTestEnv(t)
	env.Cfg.Proxy.CachePolicy.IgnoreCacheControl.Overwrite(false)
	var hits atomic.Int32
	env.Upstream.Config.Handler = http.HandlerFunc(func(w http.ResponseWriter, r *http.Request) {
		hits.Add(1)
		w.Header().Set("Connection", "Cache-Control")
		w.Header().Set("Cache-Control", "no-store")
		fmt.Fprintf(w, "answer %d", hits.Load())
	})
	env.Start()
	var bodies []string
	for i := 0; i < 2; i++ {
		resp, err := env.Client.Get(env.Upstream.URL + "/x")
		if err != nil {
			t.Fatal(err)
		}
		b, _ := io.ReadAll(resp.Body)
		resp.Body.Close()
		bodies = append(bodies, string(b))
	}
	if bodies[0] == bodies[1] {
		t.Errorf("a response marked no-store (Cache-Control listed in Connection) was stored and reused: both requests got %q", bodies[0])
	}
}
