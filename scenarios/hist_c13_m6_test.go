// place in: cache
package cache

import (
	"bytes"
	"fmt"
	"reservoir/config"
	"testing"
	"time"
)

// C13: a cleanup cycle removes exactly the entries whose lifetime has elapsed. An
// expired entry that is in use at that instant (its shard lock is held) may be
// skipped, but that must not keep the cycle from removing the other expired entries.
func TestC13Demo_CleanupSkipsOnlyTheBusyEntries(t *testing.T) {
	cfg := config.NewDefault()
	// Long interval: the background janitor never fires, the cycle is driven by hand below.
	c := NewMemoryCache[TestMeta](cfg, 1, 1<<30, time.Hour, 16, t.Context())
	defer c.Destroy()

	const n = 200
	expiredKeys := make([]CacheKey, 0, n)
	freshKeys := make([]CacheKey, 0, n)
	for i := 0; i < n; i++ {
		ek := FromString(fmt.Sprintf("expired-%d", i))
		if _, err := c.Cache(ek, bytes.NewReader([]byte("old")), time.Now().Add(-time.Second), TestMeta{}); err != nil {
			t.Fatal(err)
		}
		expiredKeys = append(expiredKeys, ek)
		fk := FromString(fmt.Sprintf("fresh-%d", i))
		if _, err := c.Cache(fk, bytes.NewReader([]byte("new")), time.Now().Add(time.Hour), TestMeta{}); err != nil {
			t.Fatal(err)
		}
		freshKeys = append(freshKeys, fk)
	}

	// A client is busy with one expired entry (as Get/Cache/UpdateMetadata do, it
	// holds the entry's shard lock) while the cleanup cycle runs.
	busy := getLock(c.locks, expiredKeys[0])
	busy.Lock()
	done := make(chan struct{})
	go func() {
		defer close(done)
		c.janitor.cleanExpiredEntries()
	}()
	select {
	case <-done:
	case <-time.After(10 * time.Second):
		busy.Unlock()
		t.Fatal("cleanup cycle did not finish")
	}
	busy.Unlock()

	c.mu.RLock()
	defer c.mu.RUnlock()
	left, exempt := 0, 0
	for _, k := range expiredKeys {
		if getLock(c.locks, k) == busy {
			exempt++ // shares the held lock: may legitimately have been skipped
			continue
		}
		if _, ok := c.entries[k]; ok {
			left++
		}
	}
	if left > 0 {
		t.Errorf("%d of %d expired entries that were not in use survived the cleanup cycle (%d exempt ones share the busy lock)", left, n-exempt, exempt)
	}
	for _, k := range freshKeys {
		if _, ok := c.entries[k]; !ok {
			t.Errorf("fresh entry %s removed by the cleanup cycle", k.Hex[:8])
		}
	}
}
