// place in: tests
package tests

import (
	"io"
	"net/http"
	"strings"
	"sync"
	"testing"
	"time"
)

// A stale entry is revalidated with the validators saved from the stored response only.
// Conditional headers of the client must never reach the origin, not even those the proxy
// could not parse (an obsolete but legal RFC 850 date, a header whose first line is empty).
func TestSeedC06M1_UnparsedClientConditionalsNotForwardedOnRevalidation(t *testing.T) {
	env := SetupTestEnv(t)

	const storedLastModified = "Wed, 21 Oct 2015 07:28:00 GMT"
	const body = "stored body v1"

	var mu sync.Mutex
	var seen []http.Header
	env.Upstream.Config.Handler = http.HandlerFunc(func(w http.ResponseWriter, r *http.Request) {
		mu.Lock()
		seen = append(seen, r.Header.Clone())
		mu.Unlock()

		// An origin evaluates If-Unmodified-Since / If-Match before anything else (RFC 9110 13.2.2)
		if r.Header.Get("If-Unmodified-Since") != "" || len(r.Header.Values("If-Match")) > 0 {
			w.WriteHeader(http.StatusPreconditionFailed)
			return
		}
		if r.Header.Get("If-Modified-Since") == storedLastModified {
			w.WriteHeader(http.StatusNotModified)
			return
		}
		w.Header().Set("Cache-Control", "max-age=1")
		w.Header().Set("Last-Modified", storedLastModified)
		w.WriteHeader(http.StatusOK)
		w.Write([]byte(body))
	})
	env.Start()

	url := env.Upstream.URL + "/seed-c06-m1"

	resp, err := env.Client.Get(url)
	if err != nil {
		t.Fatalf("first request failed: %v", err)
	}
	io.Copy(io.Discard, resp.Body)
	resp.Body.Close()

	time.Sleep(1300 * time.Millisecond) // entry is stale now

	req, _ := http.NewRequest(http.MethodGet, url, nil)
	req.Header["If-None-Match"] = []string{"", "\"client-tag\""}              // first line empty
	req.Header.Set("If-Unmodified-Since", "Sunday, 06-Nov-94 08:49:37 GMT") // RFC 850 date
	resp, err = env.Client.Do(req)
	if err != nil {
		t.Fatalf("second request failed: %v", err)
	}
	got, _ := io.ReadAll(resp.Body)
	resp.Body.Close()

	mu.Lock()
	defer mu.Unlock()
	if len(seen) < 2 {
		t.Fatalf("expected a revalidation request at the origin, saw %d requests", len(seen))
	}
	for i, h := range seen[1:] {
		if v := h.Values("If-Unmodified-Since"); len(v) > 0 {
			t.Errorf("origin request %d carries the client's If-Unmodified-Since: %q", i+2, v)
		}
		if v := strings.Join(h.Values("If-None-Match"), ","); strings.Contains(v, "client-tag") {
			t.Errorf("origin request %d carries the client's If-None-Match: %q", i+2, v)
		}
	}
	if ims := seen[1].Get("If-Modified-Since"); ims != storedLastModified {
		t.Errorf("revalidation If-Modified-Since = %q, want stored %q", ims, storedLastModified)
	}
	if resp.StatusCode != http.StatusOK || string(got) != body {
		t.Errorf("client got %d %q, want 200 %q (stored body after 304)", resp.StatusCode, got, body)
	}
}
