// place in: config
package config

import (
	"reservoir/utils/bytesize"
	"reservoir/utils/duration"
	"testing"
	"time"
)

// A rejected update (ill-typed value) must leave every component that follows
// the settings exactly as it was: subscribers (cache janitor, cache size limit)
// must not be notified of any value, and the running settings must not change.
func TestDemoC18IllTypedUpdateDoesNotReachSubscribers(t *testing.T) {
	cfg := NewDefault()

	intervalEvents := make(chan duration.Duration, 8)
	sizeEvents := make(chan bytesize.ByteSize, 8)
	unsub1 := cfg.Cache.CleanupInterval.OnChange(func(d duration.Duration) { intervalEvents <- d })
	unsub2 := cfg.Cache.MaxCacheSize.OnChange(func(b bytesize.ByteSize) { sizeEvents <- b })
	defer unsub1()
	defer unsub2()

	oldInterval := cfg.Cache.CleanupInterval.Read()
	oldSize := cfg.Cache.MaxCacheSize.Read()

	docs := []map[string]any{
		// a number where a duration string ("30s") is expected
		{"cache": map[string]any{"cleanup_interval": float64(30)}},
		// a number where a size string ("5G") is expected
		{"cache": map[string]any{"max_cache_size": float64(5)}},
		// a string that is not a duration
		{"cache": map[string]any{"cleanup_interval": "soon"}},
	}

	for _, doc := range docs {
		status, err := UpdatePartialFromConfig(cfg, doc)
		if err == nil || status != UpdateStatusFailed {
			t.Fatalf("ill-typed update %v must be rejected, got status=%v err=%v", doc, status, err)
		}
	}

	// Events are delivered asynchronously; give them time to arrive.
	deadline := time.After(300 * time.Millisecond)
	for done := false; !done; {
		select {
		case d := <-intervalEvents:
			t.Errorf("rejected (ill-typed) update notified cleanup_interval subscribers with %v (a janitor would reset its ticker to this)", d.Cast())
		case b := <-sizeEvents:
			t.Errorf("rejected (ill-typed) update notified max_cache_size subscribers with %v", b)
		case <-deadline:
			done = true
		}
	}

	if got := cfg.Cache.CleanupInterval.Read(); got != oldInterval {
		t.Errorf("cleanup_interval changed by rejected update: %v -> %v", oldInterval.Cast(), got.Cast())
	}
	if got := cfg.Cache.MaxCacheSize.Read(); got != oldSize {
		t.Errorf("max_cache_size changed by rejected update: %v -> %v", oldSize, got)
	}
}
