// place in: tests
package tests

import (
	"net/http"
	"reservoir/utils/duration"
	"sync/atomic"
	"testing"
	"time"
)

// force_default_max_age decides the lifetime of a stored response, ignore_cache_control only
// decides whether Cache-Control may forbid storing it. The two settings are independent.
func TestC03LifetimeFollowsForceDefaultNotIgnoreCacheControl(t *testing.T) {
	cases := []struct {
		name          string
		ignoreCC      bool
		forceDefault  bool
		defaultMaxAge time.Duration
		originCC      string
	}{
		// operator forces a 1s lifetime, the origin allows an hour
		{name: "force_without_ignore", ignoreCC: false, forceDefault: true, defaultMaxAge: time.Second, originCC: "max-age=3600"},
		// operator ignores Cache-Control for storability only; the origin's 1s max-age still is the lifetime
		{name: "ignore_without_force", ignoreCC: true, forceDefault: false, defaultMaxAge: time.Hour, originCC: "max-age=1"},
	}

	for _, tc := range cases {
		t.Run(tc.name, func(t *testing.T) {
			env := SetupTestEnv(t)
			env.Cfg.Proxy.CachePolicy.IgnoreCacheControl.Overwrite(tc.ignoreCC)
			env.Cfg.Proxy.CachePolicy.ForceDefaultMaxAge.Overwrite(tc.forceDefault)
			env.Cfg.Proxy.CachePolicy.DefaultMaxAge.Overwrite(duration.Duration(tc.defaultMaxAge))

			var originHits int32
			env.Upstream.Config.Handler = http.HandlerFunc(func(w http.ResponseWriter, r *http.Request) {
				atomic.AddInt32(&originHits, 1)
				w.Header().Set("Cache-Control", tc.originCC)
				w.WriteHeader(http.StatusOK)
				w.Write([]byte("body"))
			})
			env.Start()

			url := env.Upstream.URL + "/c03-m1-" + tc.name

			resp, err := env.Client.Get(url)
			if err != nil {
				t.Fatalf("first request failed: %v", err)
			}
			resp.Body.Close()
			if got := atomic.LoadInt32(&originHits); got != 1 {
				t.Fatalf("expected 1 origin contact after first request, got %d", got)
			}

			// the lifetime (1s in both cases) elapses
			time.Sleep(1600 * time.Millisecond)

			resp, err = env.Client.Get(url)
			if err != nil {
				t.Fatalf("second request failed: %v", err)
			}
			resp.Body.Close()

			if xc := resp.Header.Get("X-Cache"); xc == "HIT" {
				t.Errorf("response served as HIT after its 1s lifetime elapsed (Cache-Status: %s)", resp.Header.Get("Cache-Status"))
			}
			if got := atomic.LoadInt32(&originHits); got != 2 {
				t.Errorf("expected the origin to be contacted again after expiry (2 contacts), got %d", got)
			}
		})
	}
}
