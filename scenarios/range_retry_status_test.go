package tests

import (
	"io"
	"net/http"
	"net/http/httptest"
	"testing"
	"time"

	"reservoir/config"
	"reservoir/logging"
	"reservoir/proxy"
)

// govcEnv is SetupTestEnv with a hook to adjust the configuration before the proxy is built.
func govcEnv(t *testing.T, adjust func(cfg *config.Config)) *TestEnv {
	cacheDir := t.TempDir()
	upstream := httptest.NewUnstartedServer(http.NotFoundHandler())
	cfg := config.NewDefault()
	cfg.Proxy.UpstreamDefaultHttps.Overwrite(false)
	cfg.Cache.File.Dir.Overwrite(cacheDir)
	cfg.Proxy.RetryOnRange416.Overwrite(false)
	cfg.Proxy.CachePolicy.IgnoreCacheControl.Overwrite(false)
	cfg.Proxy.CachePolicy.ForceDefaultMaxAge.Overwrite(false)
	cfg.Cache.Type.Overwrite(config.CacheTypeMemory)
	cfg.Cache.LockShards.Overwrite(32)
	cfg.Logging.ToStdout.Overwrite(false)
	adjust(cfg)
	logging.Init(cfg)
	p, err := proxy.NewProxy(cfg, &FakeCA{}, t.Context())
	if err != nil {
		t.Fatalf("Failed to create proxy: %v", err)
	}
	proxyServer := httptest.NewUnstartedServer(p)
	client := &http.Client{Transport: &http.Transport{}}
	t.Cleanup(func() {
		upstream.Close()
		proxyServer.Close()
		time.Sleep(100 * time.Millisecond)
		p.Destroy()
		client.Transport.(*http.Transport).CloseIdleConnections()
	})
	return &TestEnv{Upstream: upstream, ProxyServer: proxyServer, Client: client, Proxy: p, Cfg: cfg, CacheDir: cacheDir, T: t}
}

func govcGet(t *testing.T, env *TestEnv, path string) (int, string) {
	resp, err := env.Client.Get(env.Upstream.URL + path)
	if err != nil {
		t.Fatalf("GET %s: %v", path, err)
	}
	defer resp.Body.Close()
	b, _ := io.ReadAll(resp.Body)
	return resp.StatusCode, string(b)
}


// Scenario for C16 / C09: with retry_on_invalid_range an unsatisfiable Range on a stored
// resource is answered with the full stored response - a well-formed 200, not a reset
// connection or a response with status code 0.
func TestGovcScenarioInvalidRangeRetryAnswers(t *testing.T) {
	env := govcEnv(t, func(cfg *config.Config) { cfg.Proxy.RetryOnInvalidRange.Overwrite(true) })
	env.Upstream.Config.Handler = http.HandlerFunc(func(w http.ResponseWriter, r *http.Request) {
		w.Header().Set("Cache-Control", "max-age=60")
		w.Write([]byte("0123456789"))
	})
	env.Start()
	if st, body := govcGet(t, env, "/r"); st != 200 || body != "0123456789" {
		t.Fatalf("priming: %d %q", st, body)
	}
	req, _ := http.NewRequest("GET", env.Upstream.URL+"/r", nil)
	req.Header.Set("Range", "bytes=500-600")
	resp, err := env.Client.Do(req)
	if err != nil {
		t.Fatalf("the request with an unsatisfiable Range got no response at all: %v", err)
	}
	defer resp.Body.Close()
	b, _ := io.ReadAll(resp.Body)
	if resp.StatusCode != 200 || string(b) != "0123456789" {
		t.Errorf("expected the full stored response (200), got %d %q", resp.StatusCode, b)
	}
}
