// place in: webserver/auth
package auth

import (
	"net/http"
	"testing"
	"time"
)

// A session that expired a fraction of a second ago is expired all the same: it must be
// refused (and forgotten), not handed out with a fresh one-hour lifetime.
func TestDemoC20SessionExpiredBySubSecondMarginIsRefused(t *testing.T) {
	for _, margin := range []time.Duration{900 * time.Millisecond, 400 * time.Millisecond, 50 * time.Millisecond} {
		sess := CreateSession(7)
		sid := sess.ID
		now := time.Now()
		expired := *sess
		expired.CreatedAt = now.Add(-defaultLifetime - margin)
		expired.ExpiresAt = now.Add(-margin)
		sessionStore.Set(sid, &expired)

		r, _ := http.NewRequest("GET", "http://dashboard/api/auth/me", nil)
		r.AddCookie(&http.Cookie{Name: "reservoir.sid", Value: sid})
		if got, ok := SessionFromRequest(r); ok || got != nil {
			t.Fatalf("session expired %v ago was accepted (ok=%v, new expiry %v)", margin, ok, got.ExpiresAt)
		}
		if cur, ok := sessionStore.Get(sid); ok && cur.ExpiresAt.After(time.Now()) {
			t.Fatalf("session expired %v ago is live again in the store until %v", margin, cur.ExpiresAt)
		}
		sessionStore.Delete(sid)
	}
}
