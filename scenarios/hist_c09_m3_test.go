// place in: tests
package tests

import (
	"context"
	"io"
	"net/http"
	"sync/atomic"
	"testing"
	"time"
)

// Two clients ask for the same resource at the same time, so their fetches are coalesced.
// The client whose request runs the shared fetch hangs up while the origin is still
// answering. The other client must still get the origin's answer.
func TestDemoC09LeaderHangUpDoesNotFailFollower(t *testing.T) {
	env := SetupTestEnv(t)

	var upstreamRequests int32
	arrived := make(chan struct{}, 16)
	release := make(chan struct{})
	env.Upstream.Config.Handler = http.HandlerFunc(func(w http.ResponseWriter, r *http.Request) {
		atomic.AddInt32(&upstreamRequests, 1)
		arrived <- struct{}{}
		<-release
		w.Header().Set("Cache-Control", "max-age=60")
		w.Header().Set("ETag", "\"hangup-etag\"")
		w.WriteHeader(http.StatusOK)
		w.Write([]byte("origin answer"))
	})
	env.Start()
	defer func() {
		select {
		case <-release:
		default:
			close(release)
		}
	}()

	targetURL := env.Upstream.URL + "/hangup-test"

	// Leader: its request starts the shared fetch.
	leaderCtx, hangUp := context.WithCancel(context.Background())
	defer hangUp()
	leaderDone := make(chan struct{})
	go func() {
		defer close(leaderDone)
		req, _ := http.NewRequestWithContext(leaderCtx, http.MethodGet, targetURL, nil)
		resp, err := env.Client.Do(req)
		if err == nil {
			resp.Body.Close()
		}
	}()

	select {
	case <-arrived:
	case <-time.After(5 * time.Second):
		t.Fatal("origin never saw the first request")
	}

	// Follower: joins the fetch that is already in flight.
	type result struct {
		status int
		body   string
		err    error
	}
	followerDone := make(chan result, 1)
	go func() {
		resp, err := env.Client.Get(targetURL)
		if err != nil {
			followerDone <- result{err: err}
			return
		}
		defer resp.Body.Close()
		b, err := io.ReadAll(resp.Body)
		followerDone <- result{status: resp.StatusCode, body: string(b), err: err}
	}()

	// Give the follower time to join the in-flight fetch, then let the leader hang up.
	time.Sleep(300 * time.Millisecond)
	hangUp()
	<-leaderDone
	time.Sleep(300 * time.Millisecond)

	// The origin answers now (and any further request at once).
	close(release)

	select {
	case res := <-followerDone:
		if res.err != nil {
			t.Fatalf("follower request failed: %v", res.err)
		}
		if res.status != http.StatusOK || res.body != "origin answer" {
			t.Fatalf("follower got status %d body %q, want 200 %q", res.status, res.body, "origin answer")
		}
	case <-time.After(10 * time.Second):
		t.Fatal("follower request hangs")
	}
}
