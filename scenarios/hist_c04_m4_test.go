// place in: proxy/headers
package headers

import (
	"bufio"
	"net/http"
	"strings"
	"testing"
)

// Directives may be spread over several Cache-Control lines and all of them count, also
// when the first line happens to be empty; an Expires without a valid date means
// "already expired".
func TestDemoC04EmptyFirstHeaderLine(t *testing.T) {
	raw := "HTTP/1.1 200 OK\r\n" +
		"Cache-Control:\r\n" +
		"Cache-Control: no-store\r\n" +
		"Content-Length: 2\r\n" +
		"\r\n" +
		"ok"
	resp, err := http.ReadResponse(bufio.NewReader(strings.NewReader(raw)), nil)
	if err != nil {
		t.Fatalf("cannot read response: %v", err)
	}
	defer resp.Body.Close()
	if got := resp.Header.Values("Cache-Control"); len(got) != 2 || got[0] != "" || got[1] != "no-store" {
		t.Fatalf("unexpected header parse: %q", got)
	}
	hd := ParseHeaderDirective(resp.Header)
	if hd.ShouldCache(false) {
		t.Errorf("response with Cache-Control lines %q considered storable although the origin sent no-store",
			resp.Header.Values("Cache-Control"))
	}
	if !hd.ShouldCache(true) {
		t.Errorf("with directives ignored the response must be storable")
	}

	// private (together with a positive max-age) on the second line
	h := http.Header{"Cache-Control": {"", "private, max-age=600"}}
	if ParseHeaderDirective(h).ShouldCache(false) {
		t.Errorf("Cache-Control lines %q: private response considered storable", h["Cache-Control"])
	}

	// An empty Expires is not a valid date: already expired
	h = http.Header{"Expires": {""}}
	if ParseHeaderDirective(h).ShouldCache(false) {
		t.Errorf("response with an empty Expires considered storable")
	}

	// sanity
	h = http.Header{"Cache-Control": {"max-age=60"}}
	if !ParseHeaderDirective(h).ShouldCache(false) {
		t.Errorf("max-age=60 must be storable")
	}
}
