// place in: cache
package cache

import (
	"bufio"
	"net/http"
	"strings"
	"testing"
)

func demoC02Key(t *testing.T, method, target, host string) string {
	t.Helper()
	raw := method + " " + target + " HTTP/1.1\r\nHost: " + host + "\r\n\r\n"
	req, err := http.ReadRequest(bufio.NewReader(strings.NewReader(raw)))
	if err != nil {
		t.Fatalf("ReadRequest(%q): %v", target, err)
	}
	k := MakeFromRequest(req)
	return k.Hex
}

// Requests that differ only in dot-segments name the same resource and must share an entry;
// requests that differ by a trailing slash must not.
func TestDemoC02DotSegmentsShareEntry(t *testing.T) {
	same := [][2]string{
		{"/a/./b", "/a/b"},
		{"/a/x/../b", "/a/b"},
		{"/a/b/.", "/a/b/"},
		{"/a/b/..", "/a/"},
		{"/a/..", "/"},
		{"/a/b/c/..?q=1", "/a/b/?q=1"},
		{"/.", "/"},
	}
	for _, p := range same {
		if demoC02Key(t, "GET", p[0], "example.com") != demoC02Key(t, "GET", p[1], "example.com") {
			t.Errorf("%q and %q differ only in dot-segments but do not share a cache entry", p[0], p[1])
		}
	}
	differ := [][2]string{
		{"/a/b", "/a/b/"},
		{"/a/b/..", "/a"},
		{"/a/b/.", "/a/b"},
	}
	for _, p := range differ {
		if demoC02Key(t, "GET", p[0], "example.com") == demoC02Key(t, "GET", p[1], "example.com") {
			t.Errorf("%q and %q are distinct resources but share a cache entry", p[0], p[1])
		}
	}
}
