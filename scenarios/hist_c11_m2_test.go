// place in: proxy/certs
package certs

import (
	"crypto/ecdsa"
	"crypto/elliptic"
	"crypto/rand"
	"crypto/tls"
	"crypto/x509"
	"crypto/x509/pkix"
	"encoding/pem"
	"math/big"
	"os"
	"path/filepath"
	"testing"
	"time"
)

func demoM2NewCA(t *testing.T) (*PrivateCA, *x509.CertPool) {
	t.Helper()
	priv, err := ecdsa.GenerateKey(elliptic.P256(), rand.Reader)
	if err != nil {
		t.Fatal(err)
	}
	tmpl := x509.Certificate{
		SerialNumber:          big.NewInt(1),
		Subject:               pkix.Name{CommonName: "demo CA"},
		NotBefore:             time.Now().Add(-time.Hour),
		NotAfter:              time.Now().Add(24 * time.Hour),
		KeyUsage:              x509.KeyUsageCertSign | x509.KeyUsageDigitalSignature,
		BasicConstraintsValid: true,
		IsCA:                  true,
	}
	der, err := x509.CreateCertificate(rand.Reader, &tmpl, &tmpl, &priv.PublicKey, priv)
	if err != nil {
		t.Fatal(err)
	}
	keyDer, err := x509.MarshalPKCS8PrivateKey(priv)
	if err != nil {
		t.Fatal(err)
	}
	dir := t.TempDir()
	certFile := filepath.Join(dir, "ca.crt")
	keyFile := filepath.Join(dir, "ca.key")
	certPEM := pem.EncodeToMemory(&pem.Block{Type: "CERTIFICATE", Bytes: der})
	if err := os.WriteFile(certFile, certPEM, 0o600); err != nil {
		t.Fatal(err)
	}
	if err := os.WriteFile(keyFile, pem.EncodeToMemory(&pem.Block{Type: "PRIVATE KEY", Bytes: keyDer}), 0o600); err != nil {
		t.Fatal(err)
	}
	ca, err := NewPrivateCA(certFile, keyFile)
	if err != nil {
		t.Fatal(err)
	}
	pool := x509.NewCertPool()
	pool.AppendCertsFromPEM(certPEM)
	return ca, pool
}

// A cached certificate that has expired must be replaced: the tunnel opened
// after the expiry must be presented a certificate inside its validity period,
// and that new certificate must then be the one reused for the host.
func TestDemoC11M2_ExpiredCachedCertIsReplaced(t *testing.T) {
	ca, pool := demoM2NewCA(t)
	const host = "expired.example.com"

	// History step 1: a tunnel was opened long ago; its certificate (validity
	// of zero hours) is what is cached for the host now.
	pemCert, pemKey, err := ca.createCert([]string{host}, 0)
	if err != nil {
		t.Fatal(err)
	}
	old, err := tls.X509KeyPair(pemCert, pemKey)
	if err != nil {
		t.Fatal(err)
	}
	if old.Leaf == nil {
		t.Fatal("expected Leaf to be populated by tls.X509KeyPair")
	}
	ca.certs.Set(host, &old)
	time.Sleep(20 * time.Millisecond)
	if !old.Leaf.NotAfter.Before(time.Now()) {
		t.Fatalf("test setup: seeded cert is not expired (NotAfter=%v)", old.Leaf.NotAfter)
	}

	// History step 2: a new tunnel to the same host (any port) opens after expiry.
	got, err := ca.GetCertForHost(host + ":443")
	if err != nil {
		t.Fatalf("GetCertForHost: %v", err)
	}
	leaf, err := x509.ParseCertificate(got.Certificate[0])
	if err != nil {
		t.Fatal(err)
	}
	if !leaf.NotAfter.After(time.Now()) {
		t.Errorf("tunnel after expiry was handed an expired certificate: NotAfter=%v now=%v", leaf.NotAfter, time.Now())
	}
	if _, err := leaf.Verify(x509.VerifyOptions{
		Roots:     pool,
		DNSName:   host,
		KeyUsages: []x509.ExtKeyUsage{x509.ExtKeyUsageServerAuth},
	}); err != nil {
		t.Errorf("certificate presented after expiry does not verify: %v", err)
	}

	// History step 3: the replacement is what gets reused afterwards.
	again, err := ca.GetCertForHost(host + ":8443")
	if err != nil {
		t.Fatalf("GetCertForHost: %v", err)
	}
	if again != got {
		t.Errorf("valid certificate was not reused for the host")
	}
	if cached, ok := ca.certs.Get(host); !ok || !cached.Leaf.NotAfter.After(time.Now()) {
		t.Errorf("cache still holds an expired certificate for the host")
	}
}
