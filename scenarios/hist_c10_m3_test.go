// place in: tests
package tests

import (
	"bufio"
	"crypto/tls"
	"fmt"
	"io"
	"net"
	"net/http"
	"net/url"
	"testing"
	"time"
)

// A GET carrying a chunked request body that is answered from the store (so the
// body is never forwarded) must not disturb the following exchange on the tunnel.
func TestSeedC10M1ChunkedBodyOnHitDoesNotBreakTunnel(t *testing.T) {
	env := SetupHttpsTestEnv(t)
	env.Start()

	up, err := url.Parse(env.Upstream.URL)
	if err != nil {
		t.Fatal(err)
	}
	px, err := url.Parse(env.ProxyServer.URL)
	if err != nil {
		t.Fatal(err)
	}

	raw, err := net.DialTimeout("tcp", px.Host, 5*time.Second)
	if err != nil {
		t.Fatal(err)
	}
	defer raw.Close()
	raw.SetDeadline(time.Now().Add(15 * time.Second))

	fmt.Fprintf(raw, "CONNECT %s HTTP/1.1\r\nHost: %s\r\n\r\n", up.Host, up.Host)
	rawBr := bufio.NewReader(raw)
	cresp, err := http.ReadResponse(rawBr, &http.Request{Method: http.MethodConnect})
	if err != nil {
		t.Fatalf("CONNECT failed: %v", err)
	}
	if cresp.StatusCode != 200 {
		t.Fatalf("CONNECT status %d", cresp.StatusCode)
	}
	if rawBr.Buffered() != 0 {
		t.Fatalf("unexpected bytes after CONNECT response")
	}

	conn := tls.Client(raw, &tls.Config{InsecureSkipVerify: true})
	if err := conn.Handshake(); err != nil {
		t.Fatalf("handshake: %v", err)
	}
	br := bufio.NewReader(conn)

	exchange := func(step string, request string) string {
		t.Helper()
		if _, err := io.WriteString(conn, request); err != nil {
			t.Fatalf("%s: write: %v", step, err)
		}
		resp, err := http.ReadResponse(br, &http.Request{Method: http.MethodGet})
		if err != nil {
			t.Fatalf("%s: no response on the tunnel: %v", step, err)
		}
		body, err := io.ReadAll(resp.Body)
		resp.Body.Close()
		if err != nil {
			t.Fatalf("%s: reading body: %v", step, err)
		}
		if resp.StatusCode != 200 {
			t.Fatalf("%s: status %d", step, resp.StatusCode)
		}
		return string(body)
	}

	plain := fmt.Sprintf("GET /c10m1 HTTP/1.1\r\nHost: %s\r\n\r\n", up.Host)
	chunked := fmt.Sprintf("GET /c10m1 HTTP/1.1\r\nHost: %s\r\nTransfer-Encoding: chunked\r\n\r\n5\r\nhello\r\n6\r\n world\r\n0\r\n\r\n", up.Host)

	const want = "https response body"
	if got := exchange("1 (miss)", plain); got != want {
		t.Fatalf("exchange 1: body %q", got)
	}
	if got := exchange("2 (hit, chunked request body)", chunked); got != want {
		t.Fatalf("exchange 2: body %q", got)
	}
	if got := exchange("3 (after the chunked request)", plain); got != want {
		t.Fatalf("exchange 3: body %q", got)
	}
}
