// place in: tests
// A Range request whose If-Range does not match the stored validator must get the plain full
// 200: the whole body, no Content-Range and no Content-Length of the slice that was not served.
package tests

import (
	"bytes"
	"io"
	"net/http"
	"testing"
)

func TestSeedC07IfRangeMismatchFull200IsClean(t *testing.T) {
	env := SetupTestEnv(t)

	content := []byte("0123456789abcdefghijklmnopqrstuvwxyz")
	env.Upstream.Config.Handler = http.HandlerFunc(func(w http.ResponseWriter, r *http.Request) {
		w.Header().Set("Cache-Control", "max-age=60")
		w.Header().Set("ETag", "\"v2\"")
		w.WriteHeader(http.StatusOK)
		// Streamed (chunked) origin response: the stored headers carry no Content-Length.
		w.Write(content[:10])
		w.(http.Flusher).Flush()
		w.Write(content[10:])
	})
	env.Start()

	targetURL := env.Upstream.URL + "/if-range-mismatch"

	resp, err := env.Client.Get(targetURL)
	if err != nil {
		t.Fatalf("warmup failed: %v", err)
	}
	io.Copy(io.Discard, resp.Body)
	resp.Body.Close()

	req, _ := http.NewRequest("GET", targetURL, nil)
	req.Header.Set("Range", "bytes=0-9")
	req.Header.Set("If-Range", "\"v1\"") // the client holds an older version
	resp, err = env.Client.Do(req)
	if err != nil {
		t.Fatalf("request failed: %v", err)
	}
	body, readErr := io.ReadAll(resp.Body)
	resp.Body.Close()

	if resp.StatusCode != http.StatusOK {
		t.Fatalf("If-Range mismatch: want full 200, got %d", resp.StatusCode)
	}
	if cr := resp.Header.Get("Content-Range"); cr != "" {
		t.Errorf("full 200 carries Content-Range %q of the slice that was not served", cr)
	}
	if resp.ContentLength >= 0 && resp.ContentLength != int64(len(content)) {
		t.Errorf("full 200 declares Content-Length %d, representation has %d bytes", resp.ContentLength, len(content))
	}
	if readErr != nil {
		t.Errorf("reading the full 200 body failed: %v", readErr)
	}
	if !bytes.Equal(body, content) {
		t.Errorf("want the full body %q, got %q", content, body)
	}
}
