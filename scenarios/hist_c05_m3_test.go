// place in: tests
package tests

import (
	"context"
	"io"
	"net/http"
	"sync/atomic"
	"testing"
	"time"
)

// Two clients ask for the same cold resource. The one whose request carries the origin
// fetch hangs up while the origin is still thinking; the other one must still get the
// complete answer, from that one origin fetch.
func TestC05LeaderHangsUpWhileOthersWait(t *testing.T) {
	env := SetupTestEnv(t)

	const body = "the complete body every waiting client must receive"
	var originHits int32
	arrived := make(chan struct{}, 8)
	release := make(chan struct{})
	env.Upstream.Config.Handler = http.HandlerFunc(func(w http.ResponseWriter, r *http.Request) {
		atomic.AddInt32(&originHits, 1)
		arrived <- struct{}{}
		select {
		case <-release:
		case <-time.After(10 * time.Second):
		}
		w.Header().Set("Cache-Control", "max-age=60")
		w.Header().Set("ETag", "\"c05\"")
		w.WriteHeader(http.StatusOK)
		w.Write([]byte(body))
	})
	env.Start()
	defer func() {
		select {
		case <-release:
		default:
			close(release)
		}
	}()

	target := env.Upstream.URL + "/c05-leader-hangs-up"

	// The first client, on a connection of its own so that cancelling closes it.
	leaderCtx, hangUp := context.WithCancel(context.Background())
	defer hangUp()
	leaderClient := &http.Client{Transport: &http.Transport{Proxy: env.Client.Transport.(*http.Transport).Proxy, DisableKeepAlives: true}}
	leaderDone := make(chan struct{})
	go func() {
		defer close(leaderDone)
		req, _ := http.NewRequestWithContext(leaderCtx, http.MethodGet, target, nil)
		resp, err := leaderClient.Do(req)
		if err == nil {
			io.Copy(io.Discard, resp.Body)
			resp.Body.Close()
		}
	}()

	select {
	case <-arrived:
	case <-time.After(5 * time.Second):
		t.Fatal("origin never saw the first request")
	}

	// The second client joins the fetch in flight.
	type answer struct {
		status int
		body   string
		err    error
	}
	followerAnswer := make(chan answer, 1)
	go func() {
		resp, err := env.Client.Get(target)
		if err != nil {
			followerAnswer <- answer{err: err}
			return
		}
		defer resp.Body.Close()
		b, err := io.ReadAll(resp.Body)
		followerAnswer <- answer{status: resp.StatusCode, body: string(b), err: err}
	}()
	time.Sleep(300 * time.Millisecond) // let it reach the proxy and wait for the shared fetch

	// The first client hangs up; give the proxy time to notice.
	hangUp()
	<-leaderDone
	time.Sleep(300 * time.Millisecond)

	// Now the origin answers.
	close(release)

	select {
	case a := <-followerAnswer:
		if a.err != nil {
			t.Fatalf("waiting client got an error: %v", a.err)
		}
		if a.status != http.StatusOK || a.body != body {
			t.Fatalf("waiting client got status %d body %q, want 200 %q", a.status, a.body, body)
		}
	case <-time.After(10 * time.Second):
		t.Fatal("waiting client never got an answer")
	}
	if n := atomic.LoadInt32(&originHits); n != 1 {
		t.Fatalf("origin was asked %d times, want 1", n)
	}
}
