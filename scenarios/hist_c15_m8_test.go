// place in: tests
// needs: -race
package tests

import (
	"io"
	"net/http"
	"sync"
	"testing"
	"time"
)

// Several clients ask for the same, not yet stored resource while the origin is slow:
// their requests are coalesced and all of them receive the one result of the shared fetch.
// That result (the entry handed out by the store to the fetch) is shared between the
// request goroutines and must only be read by them: each takes a handle of its own.
func TestDemoC15CoalescedResultIsNotWrittenByItsReceivers(t *testing.T) {
	env := SetupTestEnv(t)
	env.Upstream.Config.Handler = http.HandlerFunc(func(w http.ResponseWriter, r *http.Request) {
		// Long enough for all the requests of a round to pile up behind the first one
		time.Sleep(150 * time.Millisecond)
		w.Header().Set("Cache-Control", "max-age=600")
		w.Header().Set("ETag", "\"coalesce-etag\"")
		w.WriteHeader(http.StatusOK)
		w.Write([]byte("response body"))
	})
	env.Start()

	for round := 0; round < 3; round++ {
		// A fresh resource per round: every round starts with a miss
		target := env.Upstream.URL + "/coalesced-" + string(rune('a'+round))

		var wg sync.WaitGroup
		start := make(chan struct{})
		for i := 0; i < 12; i++ {
			wg.Add(1)
			go func() {
				defer wg.Done()
				<-start
				resp, err := env.Client.Get(target)
				if err != nil {
					t.Errorf("request failed: %v", err)
					return
				}
				defer resp.Body.Close()
				body, _ := io.ReadAll(resp.Body)
				if resp.StatusCode != http.StatusOK || string(body) != "response body" {
					t.Errorf("unexpected answer: %d %q", resp.StatusCode, body)
				}
			}()
		}
		close(start)
		wg.Wait()
	}
}
