// place in: tests
package tests

import (
	"io"
	"net/http"
	"net/http/httptrace"
	"strings"
	"testing"
)

// Several exchanges on ONE CONNECT tunnel: every stored response must be delivered with the
// length and headers of its own body, whatever was answered before on the same tunnel.
func TestSeedC01TunnelExchangesAreIndependent(t *testing.T) {
	env := SetupHttpsTestEnv(t)

	small := "0123456789"
	big := strings.Repeat("abcdefgh", 8) // 64 bytes, sent by the origin without a Content-Length
	env.Upstream.Config.Handler = http.HandlerFunc(func(w http.ResponseWriter, r *http.Request) {
		w.Header().Set("Cache-Control", "max-age=60")
		w.Header().Set("Content-Type", "text/plain")
		switch r.URL.Path {
		case "/small":
			w.Header().Set("ETag", "\"small-1\"")
			w.WriteHeader(http.StatusOK)
			w.Write([]byte(small)) // Content-Length: 10 is added by net/http
		default:
			w.Header().Set("ETag", "\"big-1\"")
			w.WriteHeader(http.StatusOK)
			w.Write([]byte(big[:32]))
			w.(http.Flusher).Flush() // forces chunked transfer: no Content-Length from the origin
			w.Write([]byte(big[32:]))
		}
	})
	env.Start()

	do := func(path string, rangeHdr string) (status int, body string, hdr http.Header, reused bool) {
		req, _ := http.NewRequest("GET", env.Upstream.URL+path, nil)
		if rangeHdr != "" {
			req.Header.Set("Range", rangeHdr)
		}
		trace := &httptrace.ClientTrace{GotConn: func(info httptrace.GotConnInfo) { reused = info.Reused }}
		req = req.WithContext(httptrace.WithClientTrace(req.Context(), trace))
		resp, err := env.Client.Do(req)
		if err != nil {
			t.Fatalf("GET %s failed: %v", path, err)
		}
		defer resp.Body.Close()
		b, err := io.ReadAll(resp.Body)
		if err != nil {
			t.Errorf("GET %s: reading body: %v", path, err)
		}
		return resp.StatusCode, string(b), resp.Header, reused
	}

	// 1. /small is stored and answered with its 10 bytes
	status, body, _, _ := do("/small", "")
	if status != http.StatusOK || body != small {
		t.Fatalf("GET /small: status %d body %q", status, body)
	}

	// 2. /big on the same tunnel: a complete 64 byte body
	status, body, hdr, reused := do("/big", "")
	if !reused {
		t.Fatalf("second request did not reuse the CONNECT tunnel, the test needs that")
	}
	if status != http.StatusOK {
		t.Fatalf("GET /big: status %d", status)
	}
	if body != big {
		t.Errorf("GET /big: got %d bytes %q, want the complete %d byte body (Content-Length header: %q)", len(body), body, len(big), hdr.Get("Content-Length"))
	}

	// 3. a slice of /small (the origin ignores Range and answers 200, the proxy slices its stored copy) ...
	status, body, hdr, reused = do("/small", "bytes=2-5")
	if !reused {
		t.Fatalf("third request did not reuse the CONNECT tunnel, the test needs that")
	}
	if status != http.StatusPartialContent || body != small[2:6] {
		t.Errorf("GET /small bytes=2-5: status %d body %q Content-Range %q", status, body, hdr.Get("Content-Range"))
	}

	// 4. ... followed by the whole of /big again: a 200 with all of it and no slice headers
	status, body, hdr, reused = do("/big", "")
	if !reused {
		t.Fatalf("fourth request did not reuse the CONNECT tunnel, the test needs that")
	}
	if status != http.StatusOK || body != big {
		t.Errorf("GET /big after a slice: status %d, got %d bytes %q, want %d bytes", status, len(body), body, len(big))
	}
	if cr := hdr.Get("Content-Range"); cr != "" {
		t.Errorf("GET /big after a slice: 200 response carries Content-Range %q", cr)
	}
}
