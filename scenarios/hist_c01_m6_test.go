// place in: cache
// A stored body is immutable: neither an overwrite that fails part-way nor a successful
// overwrite may change the bytes of the version that readers hold or that stays stored.
package cache

import (
	"bytes"
	"errors"
	"io"
	"reservoir/config"
	"testing"
	"time"
)

type demoC01FailingReader struct {
	data []byte
	err  error
}

func (r *demoC01FailingReader) Read(p []byte) (int, error) {
	if len(r.data) == 0 {
		return 0, r.err
	}
	n := copy(p, r.data)
	r.data = r.data[n:]
	return n, nil
}

func TestDemoC01MemoryOverwriteKeepsStoredBodiesIntact(t *testing.T) {
	cfg := config.NewDefault()
	c := NewMemoryCache[TestMeta](cfg, 1, 1024*1024*1024, time.Minute, 16, t.Context())
	defer c.Destroy()

	key := FromString("demo-c01-overwrite")
	expires := time.Now().Add(time.Hour)
	v1 := bytes.Repeat([]byte("1"), 64)
	v2 := bytes.Repeat([]byte("2"), 64)

	entry, err := c.Cache(key, bytes.NewReader(v1), expires, TestMeta{ID: "v1"})
	if err != nil {
		t.Fatalf("Cache v1 failed: %v", err)
	}
	entry.Data.Close()

	// 1. The origin transfer of a new version aborts after 16 bytes
	abort := errors.New("origin aborted the transfer")
	if _, err := c.Cache(key, &demoC01FailingReader{data: v2[:16], err: abort}, expires, TestMeta{ID: "v2"}); err == nil {
		t.Fatalf("Expected the aborted transfer to be rejected")
	}

	kept, err := c.Get(key)
	if err != nil {
		t.Fatalf("Get after failed overwrite: %v", err)
	}
	content, _ := io.ReadAll(kept.Data)
	if kept.Metadata.Object.ID != "v1" || !bytes.Equal(content, v1) {
		t.Errorf("After a failed overwrite: expected the intact v1 body, got meta %q body %q", kept.Metadata.Object.ID, content)
	}
	kept.Data.Close()

	// 2. A reader that got the entry before a (successful) overwrite keeps reading its version
	if err := c.Delete(key); err != nil {
		t.Fatalf("Delete failed: %v", err)
	}
	entry, err = c.Cache(key, bytes.NewReader(v1), expires, TestMeta{ID: "v1"})
	if err != nil {
		t.Fatalf("Cache v1 failed: %v", err)
	}
	entry.Data.Close()

	reader, err := c.Get(key)
	if err != nil {
		t.Fatalf("Get failed: %v", err)
	}
	head := make([]byte, 8)
	if _, err := io.ReadFull(reader.Data, head); err != nil {
		t.Fatalf("Reading the head failed: %v", err)
	}

	entry, err = c.Cache(key, bytes.NewReader(v2), expires, TestMeta{ID: "v2"})
	if err != nil {
		t.Fatalf("Cache v2 failed: %v", err)
	}
	entry.Data.Close()

	tail, _ := io.ReadAll(reader.Data)
	reader.Data.Close()
	if got := append(head, tail...); !bytes.Equal(got, v1) {
		t.Errorf("A reader that started on v1 received a spliced body %q", got)
	}

	fresh, err := c.Get(key)
	if err != nil {
		t.Fatalf("Get v2 failed: %v", err)
	}
	content, _ = io.ReadAll(fresh.Data)
	fresh.Data.Close()
	if !bytes.Equal(content, v2) {
		t.Errorf("Expected v2 body after the overwrite, got %q", content)
	}
}
