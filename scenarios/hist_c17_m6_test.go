// place in: utils/bytesize
package bytesize

import (
	"encoding/json"
	"testing"
)

// A size string is accepted only as ASCII digits followed by one unit, and an
// accepted string means digits times unit. Non-ASCII decimal digits are not
// part of the documented form and must be rejected.
func TestSeedC17NonASCIIDigitsRejected(t *testing.T) {
	inputs := []string{
		"٣K",       // ARABIC-INDIC DIGIT THREE
		"５G",       // FULLWIDTH DIGIT FIVE
		"1٠M",      // ASCII 1 followed by ARABIC-INDIC DIGIT ZERO
		"१०B", // DEVANAGARI "10"
	}
	for _, in := range inputs {
		got, err := Parse(in)
		if err == nil {
			t.Errorf("Parse(%q) accepted a non digits-plus-unit string and returned %d bytes (%s)", in, int64(got), got.String())
		}

		var b ByteSize
		data, _ := json.Marshal(in)
		if err := json.Unmarshal(data, &b); err == nil {
			t.Errorf("UnmarshalJSON(%s) accepted a non digits-plus-unit string and returned %d bytes", data, int64(b))
		}
	}

	// Sanity: the documented form still means digits times unit.
	if got, err := Parse("3K"); err != nil || int64(got) != 3*1024 {
		t.Errorf("Parse(\"3K\") = %d, %v; want 3072, nil", int64(got), err)
	}
}
