// place in: cache
package cache

import (
	"bytes"
	"errors"
	"fmt"
	"io"
	"log/slog"
	"reservoir/config"
	"runtime/debug"
	"testing"
	"time"
)

// The memory cache is full and the only entry that could make room lives in the same lock
// shard as the key being stored, so the eviction run (which only try-locks) cannot remove it.
// Storing must then give up promptly with an error (the proxy answers such a request with a
// direct fetch); it must not keep the caller, and with it the client, waiting forever.
func TestDemoC09MemoryCacheFullAndUnevictableGivesUp(t *testing.T) {
	// The eviction run logs on every pass; keep the output readable.
	prevLogger := slog.Default()
	slog.SetDefault(slog.New(slog.NewTextHandler(io.Discard, nil)))
	defer slog.SetDefault(prevLogger)
	// Bound the damage of a runaway recursion in the background goroutine.
	defer debug.SetMaxStack(debug.SetMaxStack(512 << 20))

	ctx := t.Context()
	cfg := config.NewDefault()

	const shards = 4
	const maxSize = 1000
	c := NewMemoryCache[TestMeta](cfg, 1, maxSize, time.Hour, shards, ctx)
	defer c.Destroy()

	// Two different keys guarded by the same shard lock.
	resident := FromString("resident")
	var incoming CacheKey
	found := false
	for i := 0; i < 10000; i++ {
		k := FromString(fmt.Sprintf("incoming-%d", i))
		if getLock(c.locks, k) == getLock(c.locks, resident) {
			incoming, found = k, true
			break
		}
	}
	if !found {
		t.Fatal("no second key in the shard of the resident key")
	}

	// One entry that fills the cache beyond its limit all by itself.
	e, err := c.Cache(resident, bytes.NewReader(make([]byte, maxSize+500)), time.Now().Add(time.Hour), TestMeta{ID: "resident"})
	if err != nil {
		t.Fatalf("storing the resident entry failed: %v", err)
	}
	e.Data.Close()

	done := make(chan error, 1)
	go func() {
		e, err := c.Cache(incoming, bytes.NewReader([]byte("small body")), time.Now().Add(time.Hour), TestMeta{ID: "incoming"})
		if err == nil {
			e.Data.Close()
		}
		done <- err
	}()

	select {
	case err := <-done:
		// Either outcome lets the request be answered: stored, or refused with the "full" error.
		if err != nil && !errors.Is(err, ErrCacheMemoryExceeded) {
			t.Fatalf("unexpected error from Cache on a full cache: %v", err)
		}
	case <-time.After(2 * time.Second):
		t.Fatal("Cache on a full memory cache whose only entry shares the shard of the new key never returns (the request would hang)")
	}
}
