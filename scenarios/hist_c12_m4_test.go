// place in: cache
package cache

import (
	"bytes"
	"os"
	"reservoir/config"
	"reservoir/metrics"
	"testing"
	"time"
)

// A store that overwrites an existing key while the file cache is full: the eviction that
// runs at the start of that store removes the very entry that is about to be overwritten.
// Afterwards the reported size / entry count must still equal what is in the directory.
func TestSeedC12M2_FileOverwriteOfEntryEvictedBySameStore(t *testing.T) {
	cfg := config.NewDefault()
	dir, err := os.MkdirTemp("", "seed-c12-m2-*")
	if err != nil {
		t.Fatal(err)
	}
	defer os.RemoveAll(dir)

	const maxSize = 100
	c := NewFileCache[TestMeta](cfg, dir, maxSize, time.Hour, 16, t.Context())
	defer c.Destroy()

	bytesBefore := metrics.Global.Cache.BytesCached.Get()
	entriesBefore := metrics.Global.Cache.CacheEntries.Get()

	key := FromString("seed-c12-m2")
	exp := time.Now().Add(time.Hour)

	store := func(n int) {
		t.Helper()
		e, err := c.Cache(key, bytes.NewReader(make([]byte, n)), exp, TestMeta{})
		if err != nil {
			t.Fatalf("Cache(%d bytes) failed: %v", n, err)
		}
		e.Data.Close()
	}
	check := func(step string) {
		t.Helper()
		var dirBytes, dirFiles int64
		des, err := os.ReadDir(dir)
		if err != nil {
			t.Fatal(err)
		}
		for _, de := range des {
			info, err := de.Info()
			if err != nil {
				t.Fatal(err)
			}
			dirBytes += info.Size()
			dirFiles++
		}
		c.mu.RLock()
		indexed := int64(len(c.entriesMetadata))
		c.mu.RUnlock()

		if indexed != dirFiles {
			t.Errorf("%s: index has %d entries, directory has %d files", step, indexed, dirFiles)
		}
		if got := c.byteSize.Get(); got != dirBytes {
			t.Errorf("%s: byteSize=%d, bytes in directory=%d", step, got, dirBytes)
		}
		if got := metrics.Global.Cache.BytesCached.Get() - bytesBefore; got != dirBytes {
			t.Errorf("%s: BytesCached metric delta=%d, bytes in directory=%d", step, got, dirBytes)
		}
		if got := metrics.Global.Cache.CacheEntries.Get() - entriesBefore; got != dirFiles {
			t.Errorf("%s: CacheEntries metric delta=%d, files in directory=%d", step, got, dirFiles)
		}
	}

	store(30)
	check("first store")
	store(maxSize) // ordinary overwrite, cache not full yet: no eviction
	check("overwrite below the limit")

	// The cache is now exactly full (100 >= 100). Storing the same key again first evicts
	// down to 80%, which removes this key's entry, and then writes the new body.
	store(40)
	check("overwrite while full")

	if err := c.Delete(key); err != nil {
		t.Fatalf("Delete failed: %v", err)
	}
	check("delete")
}
