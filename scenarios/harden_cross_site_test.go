package middleware

import (
	"net/http"
	"net/http/httptest"
	"testing"
)

// Scenario for C20: requests the browser marks cross-site never reach the handler.
func TestGovcScenarioCrossSiteRefused(t *testing.T) {
	for _, c := range []struct {
		method, site, origin string
		wantNext             bool
	}{
		{"GET", "cross-site", "", false},
		{"POST", "cross-site", "https://evil.example", false},
		{"OPTIONS", "", "https://evil.example", false},
		{"GET", "same-origin", "http://localhost:8080", true},
		{"GET", "", "", true},
	} {
		called := false
		h := Harden(http.HandlerFunc(func(w http.ResponseWriter, r *http.Request) { called = true }))
		req := httptest.NewRequest(c.method, "http://localhost:8080/api/config", nil)
		if c.site != "" {
			req.Header.Set("Sec-Fetch-Site", c.site)
		}
		if c.origin != "" {
			req.Header.Set("Origin", c.origin)
		}
		rec := httptest.NewRecorder()
		h.ServeHTTP(rec, req)
		if called != c.wantNext {
			t.Errorf("%s site=%q origin=%q: handler reached=%v, want %v (status %d)", c.method, c.site, c.origin, called, c.wantNext, rec.Code)
		}
		if !c.wantNext && rec.Code != http.StatusForbidden {
			t.Errorf("%s site=%q origin=%q: status %d, want 403", c.method, c.site, c.origin, rec.Code)
		}
	}
}
