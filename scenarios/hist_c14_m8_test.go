// place in: cache
// Interleaving: an expired entry is deleted (by a request / another eviction) after the janitor's
// unlocked scan saw it but before the janitor re-checks it under the shard lock. The cleanup cycle
// must still complete and must leave the entry's shard usable.
package cache

import (
	"bytes"
	"fmt"
	"reservoir/config"
	"sync"
	"testing"
	"time"
)

func TestSeedC14M2_CleanupCompletesWhenEntryVanishesAfterScan(t *testing.T) {
	cfg := config.NewDefault()

	type backend struct {
		name    string
		c       Cache[TestMeta]
		janitor *cacheJanitor[TestMeta]
	}

	for _, shards := range []int{1, 2, 16} {
		mem := NewMemoryCache[TestMeta](cfg, 50, 1<<30, time.Hour, shards, t.Context())
		file := NewFileCache[TestMeta](cfg, t.TempDir(), 1<<30, time.Hour, shards, t.Context())
		backends := []backend{{"memory", mem, mem.janitor}, {"file", file, file.janitor}}

		for _, b := range backends {
			victim := FromString("victim")
			e, err := b.c.Cache(victim, bytes.NewReader([]byte("stale body")), time.Now().Add(-time.Second), TestMeta{})
			if err != nil {
				t.Fatalf("%s/%d: store failed: %v", b.name, shards, err)
			}
			e.Data.Close()

			// The janitor asks for the entry's lock right after its scan: at that point let a
			// complete, ordinary Delete of the same key happen (as a concurrent request would do).
			origGetLock := b.janitor.cacheFns.getLock
			var once sync.Once
			b.janitor.cacheFns.getLock = func(key CacheKey) *sync.RWMutex {
				if key == victim {
					once.Do(func() { _ = b.c.Delete(victim) })
				}
				return origGetLock(key)
			}

			done := make(chan string, 1)
			go func() {
				defer func() {
					if r := recover(); r != nil {
						done <- fmt.Sprintf("cleanup cycle panicked: %v", r)
						return
					}
					done <- ""
				}()
				b.janitor.cleanExpiredEntries()
				b.janitor.ensureCacheSize()
			}()
			select {
			case msg := <-done:
				if msg != "" {
					t.Errorf("%s/%d: %s", b.name, shards, msg)
				}
			case <-time.After(5 * time.Second):
				t.Fatalf("%s/%d: cleanup cycle did not complete", b.name, shards)
			}

			// The victim's shard must be usable afterwards.
			opDone := make(chan struct{})
			go func() {
				defer close(opDone)
				if e, err := b.c.Cache(victim, bytes.NewReader([]byte("fresh body")), time.Now().Add(time.Hour), TestMeta{}); err == nil {
					e.Data.Close()
				}
				if e, err := b.c.Get(victim); err == nil {
					e.Data.Close()
				}
			}()
			select {
			case <-opDone:
			case <-time.After(3 * time.Second):
				t.Fatalf("%s/%d: store/get on the victim's shard hangs after the cleanup cycle (shard lock left held)", b.name, shards)
			}

			b.c.Destroy()
		}
	}
}
