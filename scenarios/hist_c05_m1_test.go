// place in: proxy
// C05 demo (mutant m1): N clients that overlap on a FRESH key while the cache lookup
// is slow (e.g. the key's lock shard is busy) are coalesced by singleflight on a plain hit.
// Each of them must still read the stored object through a handle of its own.
package proxy

import (
	"bytes"
	"io"
	"log/slog"
	"net/http"
	"net/http/httptest"
	"net/url"
	"reservoir/cache"
	"reservoir/config"
	"sync"
	"sync/atomic"
	"testing"
	"time"
)

// slowGetCacheC05m1 delays Get while "slow" is set, so that concurrent lookups of one key overlap.
type innerCacheC05m1 = cache.Cache[cachedRequestInfo]

type slowGetCacheC05m1 struct {
	innerCacheC05m1
	slow atomic.Bool
}

func (c *slowGetCacheC05m1) Get(key cache.CacheKey) (*cache.Entry[cachedRequestInfo], error) {
	if c.slow.Load() {
		time.Sleep(300 * time.Millisecond)
	}
	return c.innerCacheC05m1.Get(key)
}

func TestC05CoalescedFreshHitOwnHandle(t *testing.T) {
	slog.SetDefault(slog.New(slog.NewTextHandler(io.Discard, nil)))

	body := bytes.Repeat([]byte("0123456789abcdef"), 64*1024) // 1 MiB
	var originHits int32
	origin := httptest.NewServer(http.HandlerFunc(func(w http.ResponseWriter, r *http.Request) {
		atomic.AddInt32(&originHits, 1)
		w.Header().Set("Cache-Control", "max-age=3600")
		w.Header().Set("ETag", "\"v1\"")
		w.Header().Set("Content-Type", "application/octet-stream")
		w.WriteHeader(http.StatusOK)
		w.Write(body)
	}))
	defer origin.Close()

	cfg := config.NewDefault()
	cfg.Proxy.UpstreamDefaultHttps.Overwrite(false)
	cfg.Cache.Type.Overwrite(config.CacheTypeFile)
	cfg.Cache.File.Dir.Overwrite(t.TempDir())
	cfg.Cache.LockShards.Overwrite(32)

	p, err := NewProxy(cfg, nil, t.Context())
	if err != nil {
		t.Fatalf("NewProxy: %v", err)
	}
	defer p.Destroy()

	gate := &slowGetCacheC05m1{innerCacheC05m1: p.cache}
	p.cache = gate
	p.fetch = newFetcher(gate, cfg)

	proxySrv := httptest.NewServer(p)
	defer proxySrv.Close()
	proxyURL, _ := url.Parse(proxySrv.URL)
	client := &http.Client{Transport: &http.Transport{Proxy: http.ProxyURL(proxyURL)}, Timeout: 20 * time.Second}
	target := origin.URL + "/fresh-object"

	// Prime the cache: the key is fresh afterwards.
	resp, err := client.Get(target)
	if err != nil {
		t.Fatalf("priming request failed: %v", err)
	}
	got, err := io.ReadAll(resp.Body)
	resp.Body.Close()
	if err != nil || !bytes.Equal(got, body) {
		t.Fatalf("priming request: bad body (len=%d err=%v)", len(got), err)
	}

	// Now N clients ask for the fresh key at the same time while lookups are slow.
	gate.slow.Store(true)
	const n = 4
	type result struct {
		status int
		body   []byte
		err    error
	}
	results := make([]result, n)
	var wg sync.WaitGroup
	start := make(chan struct{})
	for i := 0; i < n; i++ {
		wg.Add(1)
		go func(i int) {
			defer wg.Done()
			<-start
			resp, err := client.Get(target)
			if err != nil {
				results[i].err = err
				return
			}
			defer resp.Body.Close()
			results[i].status = resp.StatusCode
			results[i].body, results[i].err = io.ReadAll(resp.Body)
		}(i)
	}
	close(start)
	done := make(chan struct{})
	go func() { wg.Wait(); close(done) }()
	select {
	case <-done:
	case <-time.After(30 * time.Second):
		t.Fatal("timeout waiting for the concurrent clients")
	}

	for i, r := range results {
		if r.err != nil {
			t.Errorf("client %d: error: %v (got %d of %d bytes)", i, r.err, len(r.body), len(body))
			continue
		}
		if r.status != http.StatusOK {
			t.Errorf("client %d: status %d", i, r.status)
		}
		if !bytes.Equal(r.body, body) {
			t.Errorf("client %d: incomplete or wrong body: got %d bytes, want %d", i, len(r.body), len(body))
		}
	}
	if h := atomic.LoadInt32(&originHits); h != 1 {
		t.Errorf("origin was fetched %d times, want 1", h)
	}
}
