// place in: config
package config

import (
	"encoding/json"
	"strings"
	"testing"
)

// A command-line override that happens to equal the value currently in the
// file must still win over a later API update, and must not be saved.
func TestSeedC17OverrideEqualToFileValueSurvivesUpdate(t *testing.T) {
	cfg := NewDefault()

	// File value is ":9999"; the operator passes --listen :9999 explicitly.
	cfg.Proxy.Listen.Overwrite(cfg.Proxy.Listen.Read())
	// Same for an int prop.
	cfg.Logging.MaxBackups.Overwrite(3)

	// Later API update changes the file values.
	staged, err := setPropsFromMap(cfg, map[string]any{
		"proxy":   map[string]any{"listen": ":7777"},
		"logging": map[string]any{"max_backups": 9},
	})
	if err != nil {
		t.Fatalf("setPropsFromMap: %v", err)
	}
	for _, s := range staged {
		s.CommitStaged()
	}

	if got := cfg.Proxy.Listen.Read(); got != ":9999" {
		t.Errorf("command-line override lost after API update: proxy.listen = %q, want %q", got, ":9999")
	}
	if got := cfg.Logging.MaxBackups.Read(); got != 3 {
		t.Errorf("command-line override lost after API update: logging.max_backups = %d, want 3", got)
	}

	// The saved form carries the API value, not the override.
	data, err := json.Marshal(cfg)
	if err != nil {
		t.Fatalf("marshal: %v", err)
	}
	if !strings.Contains(string(data), `"listen":":7777"`) {
		t.Errorf("saved config should contain the API value for proxy.listen, got %s", data)
	}
	if !strings.Contains(string(data), `"max_backups":9`) {
		t.Errorf("saved config should contain the API value for logging.max_backups, got %s", data)
	}
}
