// place in: tests
package tests

import (
	"io"
	"net/http"
	"sync/atomic"
	"testing"
	"time"
)

// The origin spreads its Cache-Control directives over two header lines; the max-age is on the
// second one. With ignore_cache_control=true / force_default_max_age=false the lifetime of the
// stored response is the origin's max-age (1s), not the configured default (1h): after the
// max-age has elapsed the origin has to be contacted again and the answer must not be a HIT.
func TestDemoC03MaxAgeOnSecondCacheControlLine(t *testing.T) {
	env := SetupTestEnv(t)
	env.Cfg.Proxy.CachePolicy.IgnoreCacheControl.Overwrite(true)
	env.Cfg.Proxy.CachePolicy.ForceDefaultMaxAge.Overwrite(false)

	var upstreamRequests int32
	env.Upstream.Config.Handler = http.HandlerFunc(func(w http.ResponseWriter, r *http.Request) {
		atomic.AddInt32(&upstreamRequests, 1)
		w.Header().Add("Cache-Control", "no-transform")
		w.Header().Add("Cache-Control", "max-age=1")
		w.WriteHeader(http.StatusOK)
		w.Write([]byte("two cache-control lines"))
	})
	env.Start()

	url := env.Upstream.URL + "/two-cc-lines"

	get := func() *http.Response {
		t.Helper()
		resp, err := env.Client.Get(url)
		if err != nil {
			t.Fatalf("request failed: %v", err)
		}
		io.Copy(io.Discard, resp.Body)
		resp.Body.Close()
		return resp
	}

	resp1 := get()
	if got := resp1.Header.Get("X-Cache"); got != "MISS" {
		t.Fatalf("first response: X-Cache = %q, want MISS", got)
	}
	if n := atomic.LoadInt32(&upstreamRequests); n != 1 {
		t.Fatalf("after first request: %d upstream requests, want 1", n)
	}

	// max-age=1 has elapsed
	time.Sleep(2200 * time.Millisecond)

	resp2 := get()
	if got := resp2.Header.Get("X-Cache"); got == "HIT" {
		t.Errorf("response 2.2s after storing a max-age=1 response is labelled HIT (Cache-Status: %s)", resp2.Header.Get("Cache-Status"))
	}
	if n := atomic.LoadInt32(&upstreamRequests); n != 2 {
		t.Errorf("origin was contacted %d times, want 2: the max-age=1 lifetime had elapsed before the second request", n)
	}
}
