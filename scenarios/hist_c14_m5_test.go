// place in: cache
// A store that finds the memory cache full evicts from inside the store (own shard lock held).
// That eviction must never wait for a shard lock: a cached entry on the storing key's shard
// (always the case with one shard) would make the store wait for itself.
package cache

import (
	"bytes"
	"context"
	"fmt"
	"reservoir/config"
	"testing"
	"time"
)

func TestDemoC14_StoreTriggeredEvictionSameShard(t *testing.T) {
	for _, shards := range []int{1, 3, 16} {
		t.Run(fmt.Sprintf("shards=%d", shards), func(t *testing.T) {
			ctx, cancel := context.WithCancel(context.Background())
			defer cancel()
			cfg := config.NewDefault()

			c := NewMemoryCache[TestMeta](cfg, 50, 1024, time.Hour, shards, ctx)

			data := make([]byte, 600)
			keyA := FromString("resident-a")
			keyB := FromString("resident-b")
			for _, k := range []CacheKey{keyA, keyB} {
				if _, err := c.Cache(k, bytes.NewReader(data), time.Now().Add(time.Hour), TestMeta{}); err != nil {
					t.Fatalf("filling the cache failed: %v", err)
				}
			}

			// A new key that shares its shard with resident-a
			var keyC CacheKey
			for i := 0; ; i++ {
				keyC = FromString(fmt.Sprintf("incoming-%d", i))
				if getLock(c.locks, keyC) == getLock(c.locks, keyA) {
					break
				}
			}

			done := make(chan struct{})
			go func() {
				defer close(done)
				// 1200 >= 1024: this store evicts first; whether it then succeeds is irrelevant here
				c.Cache(keyC, bytes.NewReader(data), time.Now().Add(time.Hour), TestMeta{})
			}()

			select {
			case <-done:
				c.Destroy()
			case <-time.After(3 * time.Second):
				t.Fatalf("store on a full cache did not complete (shards=%d): the eviction it started waits for the shard lock the store holds", shards)
			}
		})
	}
}
