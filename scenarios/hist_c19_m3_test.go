// place in: cache
package cache

import (
	"context"
	"testing"
	"time"

	"reservoir/config"
	"reservoir/utils/duration"
)

// A cache whose context was cancelled first and which is then destroyed must be
// fully detached: a later change of the cleanup interval must not reach its janitor.
func TestDemoC19_JanitorDetachedAfterCtxCancelThenDestroy(t *testing.T) {
	cfg := config.NewDefault()
	ctx, cancel := context.WithCancel(context.Background())

	c := NewMemoryCache[TestMeta](cfg, 1, cfg.Cache.MaxCacheSize.Read().Bytes(), time.Hour, 16, ctx)

	// A second, live cache that must keep following changes.
	live := NewMemoryCache[TestMeta](cfg, 1, cfg.Cache.MaxCacheSize.Read().Bytes(), time.Hour, 16, context.Background())
	defer live.Destroy()

	// The context goes away first (e.g. process-wide shutdown signal) ...
	cancel()
	time.Sleep(200 * time.Millisecond)
	// ... and then the component is shut down.
	c.Destroy()

	// A later change must not be delivered to the destroyed cache's janitor.
	cfg.Cache.CleanupInterval.Overwrite(duration.Duration(5 * time.Minute))
	time.Sleep(200 * time.Millisecond)

	if n := len(c.janitor.intervalChanged); n != 0 {
		t.Fatalf("destroyed cache's janitor was notified of a later cleanup-interval change (%d pending notifications)", n)
	}
}
