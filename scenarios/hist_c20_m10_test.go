// place in: webserver/auth
package auth

import (
	"net/http"
	"testing"
	"time"
)

// Logout ends the session, whatever other requests of the same session did in the meantime.
//
// The interleaving: the session is in its last ten minutes, so every request that looks it up
// replaces the stored object by an extended copy (GetSession never changes a stored object).
// The logout request L and another request R look the session up at the same time: both read the
// old object, L stores its extended copy, then R stores its own extended copy over it. L then
// destroys the session it holds. R's store is replayed here by hand at exactly that point, which
// is what GetSession does in R (extended := *sess; sessionStore.Set(sid, &extended)).
func TestDemoC20LogoutEndsSessionDespiteConcurrentExtension(t *testing.T) {
	sess := CreateSession(7)
	sid := sess.ID
	now := time.Now()
	old := *sess
	old.CreatedAt = now.Add(-defaultLifetime + extendThreshold/2)
	old.ExpiresAt = now.Add(extendThreshold / 2) // close to expiring: lookups extend it
	sessionStore.Set(sid, &old)

	req := func() *http.Request {
		r, _ := http.NewRequest("POST", "http://dashboard/api/auth/logout", nil)
		r.AddCookie(&http.Cookie{Name: "reservoir.sid", Value: sid})
		return r
	}

	// L: the logout request resolves its session (and extends it)
	held, ok := SessionFromRequest(req())
	if !ok || held == nil {
		t.Fatalf("live session was refused")
	}
	// R: a concurrent request that had read the old object publishes its own extension
	byR := old
	byR.ExpiresAt = time.Now().Add(defaultLifetime)
	sessionStore.Set(sid, &byR)

	// L: the logout handler runs
	held.Destroy()

	if got, ok := SessionFromRequest(req()); ok || got != nil {
		sessionStore.Delete(sid)
		t.Fatalf("cookie of a logged-out session still authenticates (session live until %v)", got.ExpiresAt)
	}
}
