// place in: config
package config

import (
	"os"
	"path/filepath"
	"testing"
)

// cache.max_cache_size = "16777217T" is (2^24+1) * 2^40 bytes, which does not fit
// in 64 bits. Such a value is not a byte size the proxy can run under: the update
// must be rejected, the running setting must stay what it was and the file on disk
// must not change. (With a wrapping multiplication it silently becomes 1T.)
func TestSeedC18OverflowingSizeIsRejected(t *testing.T) {
	oldPath := configPath
	defer func() { configPath = oldPath }()
	configPath.Path = filepath.Join(t.TempDir(), "config.json")

	cfg := NewDefault()
	if err := cfg.persist(); err != nil {
		t.Fatalf("persist of default config failed: %v", err)
	}
	before, err := os.ReadFile(configPath.Path)
	if err != nil {
		t.Fatal(err)
	}
	oldSize := cfg.Cache.MaxCacheSize.Read()

	for _, doc := range []string{"16777217T", "16777219T"} {
		status, err := UpdatePartialFromConfig(cfg, map[string]any{
			"cache": map[string]any{"max_cache_size": doc},
		})
		if err == nil || status != UpdateStatusFailed {
			t.Fatalf("max_cache_size=%q was accepted (status=%v), running value is now %v",
				doc, status, cfg.Cache.MaxCacheSize.Read())
		}
		if got := cfg.Cache.MaxCacheSize.Read(); got != oldSize {
			t.Errorf("after max_cache_size=%q the running value is %v, want unchanged %v", doc, got, oldSize)
		}
		after, err := os.ReadFile(configPath.Path)
		if err != nil {
			t.Fatal(err)
		}
		if string(after) != string(before) {
			t.Errorf("after max_cache_size=%q the config file changed:\n%s", doc, after)
		}
	}

	// The same holds for a configuration file: it must not be accepted.
	bad := filepath.Join(t.TempDir(), "bad.json")
	patched := []byte(replaceOnce(string(before), `"max_cache_size": "10G"`, `"max_cache_size": "16777217T"`))
	if string(patched) == string(before) {
		t.Fatal("test setup: max_cache_size not found in persisted default config")
	}
	if err := os.WriteFile(bad, patched, 0o644); err != nil {
		t.Fatal(err)
	}
	if loaded, err := load(bad); err == nil {
		t.Errorf("config file with max_cache_size=16777217T was accepted as %v", loaded.Cache.MaxCacheSize.Read())
	}
}

func replaceOnce(s, old, new string) string {
	for i := 0; i+len(old) <= len(s); i++ {
		if s[i:i+len(old)] == old {
			return s[:i] + new + s[i+len(old):]
		}
	}
	return s
}
