// place in: webserver/api/auth
package auth

import (
	"net/http"
	"net/http/httptest"
	"os"
	"strings"
	"testing"

	"reservoir/db"
	dbmodels "reservoir/db/models"
	"reservoir/db/stores"
	"reservoir/utils/phc"
	"reservoir/webserver/api/apitypes"
)

// Login must succeed only when the request itself carries the password whose stored hash
// verifies. A body that carries no password at all must be refused, whatever happened before.
func TestDemoC20LoginWithoutPasswordAfterSomeoneElseLoggedIn(t *testing.T) {
	// The main database lives at the relative path var/database.db.
	t.Chdir(t.TempDir())
	if err := os.Mkdir("var", 0o755); err != nil {
		t.Fatal(err)
	}
	if err := db.MigrateDatabases(); err != nil {
		t.Fatal(err)
	}
	users, err := stores.OpenUserStore()
	if err != nil {
		t.Fatal(err)
	}
	// round-trip through the PHC string, which is what the store persists
	hash, err := phc.ParsePHC(phc.GenerateArgon2id("correct horse").String())
	if err != nil {
		t.Fatal(err)
	}
	if err := users.Save(&dbmodels.User{Username: "operator", PasswordHash: *hash}); err != nil {
		t.Fatal(err)
	}
	users.Close()

	// One endpoint object serves every request, as in api.New.
	ep := &LoginEndpoint{}
	post := ep.EndpointMethods()[0].Func
	login := func(body string) *httptest.ResponseRecorder {
		rec := httptest.NewRecorder()
		req := httptest.NewRequest(http.MethodPost, "/api/auth/login", strings.NewReader(body))
		post(rec, req, apitypes.Context{}) // no session cookie: unauthenticated context
		return rec
	}

	// Before anything else: no password, no login.
	if rec := login(`{"username":"operator"}`); rec.Code != http.StatusUnauthorized {
		t.Fatalf("login without a password (fresh server): got %d, want 401", rec.Code)
	}

	// The legitimate operator logs in.
	if rec := login(`{"username":"operator","password":"correct horse"}`); rec.Code != http.StatusOK {
		t.Fatalf("login with the right password: got %d, want 200 (%s)", rec.Code, rec.Body.String())
	}

	// Somebody who does not know the password now sends a body without a password field.
	rec := login(`{"username":"operator"}`)
	if rec.Code != http.StatusUnauthorized {
		t.Fatalf("login without a password after a legitimate login: got %d, want 401 (cookies: %v)", rec.Code, rec.Result().Cookies())
	}
	if len(rec.Result().Cookies()) != 0 {
		t.Fatalf("refused login handed out a session cookie: %v", rec.Result().Cookies())
	}

	// Same for an empty object: neither field is sent.
	if rec := login(`{}`); rec.Code != http.StatusUnauthorized {
		t.Fatalf("login with an empty JSON object: got %d, want 401", rec.Code)
	}
}
