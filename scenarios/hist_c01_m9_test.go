// place in: cache
// A reader that obtained an entry before the key was overwritten must keep seeing the
// metadata (size, validators, headers) that belongs to the body it is reading.
package cache

import (
	"bytes"
	"io"
	"os"
	"reservoir/config"
	"testing"
	"time"
)

func TestSeedC01M1_OverwriteDoesNotRepairReadersMetadata(t *testing.T) {
	cfg := config.NewDefault()
	tmpDir, err := os.MkdirTemp("", "reservoir-seed-c01m1-*")
	if err != nil {
		t.Fatal(err)
	}
	defer os.RemoveAll(tmpDir)

	c := NewFileCache[TestMeta](cfg, tmpDir, 1024*1024*1024, time.Hour, 16, t.Context())
	defer c.Destroy()

	key := FromString("seed-c01-m1")
	v1 := []byte("version-one")
	v2 := []byte("version-two-is-a-good-deal-longer")

	e, err := c.Cache(key, bytes.NewReader(v1), time.Now().Add(time.Hour), TestMeta{ID: "etag-v1"})
	if err != nil {
		t.Fatal(err)
	}
	e.Data.Close()

	// A reader opens version one ...
	reader, err := c.Get(key)
	if err != nil {
		t.Fatal(err)
	}
	defer reader.Data.Close()

	// ... then the entry is overwritten by version two ...
	e2, err := c.Cache(key, bytes.NewReader(v2), time.Now().Add(time.Hour), TestMeta{ID: "etag-v2"})
	if err != nil {
		t.Fatal(err)
	}
	e2.Data.Close()

	// ... and only now the reader looks at the metadata and streams the body.
	body, err := io.ReadAll(reader.Data)
	if err != nil {
		t.Fatal(err)
	}
	if !bytes.Equal(body, v1) {
		t.Fatalf("reader of v1 got body %q", body)
	}
	if reader.Metadata.Object.ID != "etag-v1" || reader.Metadata.Size != int64(len(v1)) {
		t.Fatalf("body of v1 (%d bytes) is paired with metadata id=%q size=%d",
			len(body), reader.Metadata.Object.ID, reader.Metadata.Size)
	}

	// A new reader gets v2 with v2's metadata
	fresh, err := c.Get(key)
	if err != nil {
		t.Fatal(err)
	}
	defer fresh.Data.Close()
	body2, _ := io.ReadAll(fresh.Data)
	if !bytes.Equal(body2, v2) || fresh.Metadata.Object.ID != "etag-v2" || fresh.Metadata.Size != int64(len(v2)) {
		t.Fatalf("fresh reader: body %q id=%q size=%d", body2, fresh.Metadata.Object.ID, fresh.Metadata.Size)
	}
}
