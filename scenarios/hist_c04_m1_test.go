// place in: tests
package tests

import (
	"io"
	"net/http"
	"sync/atomic"
	"testing"
)

// C04: with ignore_cache_control=false the origin's no-store must be honoured,
// regardless of the (unrelated) force_default_max_age setting. Every request for a
// no-store resource has to reach the origin.
func TestC04DemoNoStoreHonouredWhenForceDefaultMaxAge(t *testing.T) {
	env := SetupTestEnv(t)
	env.Cfg.Proxy.CachePolicy.IgnoreCacheControl.Overwrite(false)
	env.Cfg.Proxy.CachePolicy.ForceDefaultMaxAge.Overwrite(true)

	var requestCount int32
	env.Upstream.Config.Handler = http.HandlerFunc(func(w http.ResponseWriter, r *http.Request) {
		atomic.AddInt32(&requestCount, 1)
		w.Header().Set("Cache-Control", "no-store")
		w.WriteHeader(http.StatusOK)
		w.Write([]byte("secret body"))
	})
	env.Start()

	targetURL := env.Upstream.URL + "/c04-no-store"

	// Note: a non-storable response may cost more than one origin request per client
	// request (coalescing leader + direct fetch), so only require that every client
	// request reaches the origin at least once.
	for i := 1; i <= 3; i++ {
		before := atomic.LoadInt32(&requestCount)

		resp, err := env.Client.Get(targetURL)
		if err != nil {
			t.Fatalf("request %d failed: %v", i, err)
		}
		io.Copy(io.Discard, resp.Body)
		resp.Body.Close()

		if after := atomic.LoadInt32(&requestCount); after <= before {
			t.Fatalf("client request %d for a no-store resource did not reach the origin (origin requests before=%d after=%d): response was reused from the store", i, before, after)
		}
	}
}
