// place in: tests
package tests

import (
	"io"
	"net/http"
	"sync/atomic"
	"testing"
	"time"
)

// An Expires value that is not a valid HTTP-date (here: an IMF-fixdate whose zone is a
// named zone other than GMT) is unparseable and must count as already expired: the
// response must never be reused without contacting the origin.
func TestC03ExpiresWithNamedZoneIsAlreadyExpired(t *testing.T) {
	env := SetupTestEnv(t) // ignore_cache_control=false, force_default_max_age=false

	expires := time.Now().UTC().Add(1*time.Hour).Format("Mon, 02 Jan 2006 15:04:05") + " EST"

	var originContacts int32
	env.Upstream.Config.Handler = http.HandlerFunc(func(w http.ResponseWriter, r *http.Request) {
		atomic.AddInt32(&originContacts, 1)
		w.Header().Set("Expires", expires)
		w.Header().Set("ETag", "\"zone-etag\"")
		w.WriteHeader(http.StatusOK)
		w.Write([]byte("named zone body"))
	})
	env.Start()

	target := env.Upstream.URL + "/expires-named-zone"

	resp1, err := env.Client.Get(target)
	if err != nil {
		t.Fatalf("first request failed: %v", err)
	}
	io.Copy(io.Discard, resp1.Body)
	resp1.Body.Close()

	before := atomic.LoadInt32(&originContacts)
	if before < 1 {
		t.Fatalf("origin was not contacted by the first request")
	}

	resp2, err := env.Client.Get(target)
	if err != nil {
		t.Fatalf("second request failed: %v", err)
	}
	io.Copy(io.Discard, resp2.Body)
	resp2.Body.Close()

	after := atomic.LoadInt32(&originContacts)
	if after == before {
		t.Errorf("response with unparseable Expires %q was reused without contacting the origin (X-Cache=%q, Cache-Status=%q)",
			expires, resp2.Header.Get("X-Cache"), resp2.Header.Get("Cache-Status"))
	}
	if got := resp2.Header.Get("X-Cache"); got == "HIT" {
		t.Errorf("second response labelled HIT although its Expires %q is unparseable (already expired)", expires)
	}
}
