// place in: cache
// needs: -race
package cache

import (
	"bytes"
	"fmt"
	"os"
	"reservoir/config"
	"sync"
	"testing"
	"time"
)

// A file cache that is permanently "full" (cap of one byte) runs an eviction pass at the
// start of every Cache call. Several clients store and delete entries under different keys
// at the same time; every access to the entry map must be synchronised.
func TestSeedC15FileCacheEvictionVsMapWrites(t *testing.T) {
	ctx := t.Context()
	cfg := config.NewDefault()

	tmpDir, err := os.MkdirTemp("", "reservoir-c15-m1-*")
	if err != nil {
		t.Fatalf("tmp dir: %v", err)
	}
	defer os.RemoveAll(tmpDir)

	c := NewFileCache[TestMeta](cfg, tmpDir, 1, time.Hour, 16, ctx)
	defer c.Destroy()

	const workers = 8
	const rounds = 150
	var wg sync.WaitGroup
	for w := 0; w < workers; w++ {
		wg.Add(1)
		go func(w int) {
			defer wg.Done()
			for i := 0; i < rounds; i++ {
				key := FromString(fmt.Sprintf("w%d-k%d", w, i))
				entry, err := c.Cache(key, bytes.NewReader([]byte("payload")), time.Now().Add(time.Hour), TestMeta{ID: "x"})
				if err != nil {
					t.Errorf("Cache failed: %v", err)
					return
				}
				entry.Data.Close()
				if i%2 == 0 {
					c.Delete(key)
				}
			}
		}(w)
	}
	wg.Wait()
}
