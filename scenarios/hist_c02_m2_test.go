// place in: cache
package cache

import (
	"bufio"
	"net/http"
	"strings"
	"testing"
)

func c02m2Key(t *testing.T, target string) CacheKey {
	t.Helper()
	raw := "GET " + target + " HTTP/1.1\r\nHost: example.com\r\n\r\n"
	req, err := http.ReadRequest(bufio.NewReader(strings.NewReader(raw)))
	if err != nil {
		t.Fatalf("cannot parse request for %q: %v", target, err)
	}
	return MakeFromRequest(req)
}

// A percent-encoded '?' belongs to the path: /dl%3Fid=1 (path "/dl?id=1", no query) and
// /dl?id=1 (path "/dl", query "id=1") are different resources.
func TestC02EncodedQuestionMarkStaysInPath(t *testing.T) {
	distinct := [][2]string{
		{"http://example.com/dl%3Fid=1", "http://example.com/dl?id=1"},
		{"http://example.com/a%3Fb?c", "http://example.com/a?b?c"},
		{"http://example.com/a%3F", "http://example.com/a?x"},
		{"http://example.com/a?x=1", "http://example.com/a?x=2"},
		{"http://example.com/a?x", "http://example.com/a/?x"},
	}
	for _, p := range distinct {
		if c02m2Key(t, p[0]) == c02m2Key(t, p[1]) {
			t.Errorf("%q and %q share a cache key", p[0], p[1])
		}
	}
	same := [][2]string{
		{"http://example.com/a/./b?x=1", "http://example.com/a/b?x=1"},
		{"http://EXAMPLE.com/a//b?x=1", "http://example.com/a/b?x=1"},
	}
	for _, p := range same {
		if c02m2Key(t, p[0]) != c02m2Key(t, p[1]) {
			t.Errorf("%q and %q should share a cache key", p[0], p[1])
		}
	}
}
