// place in: cache
// (no race detector needed; the test is a stress loop over concurrent Deletes of one key)
package cache

import (
	"bytes"
	"reservoir/config"
	"reservoir/metrics"
	"sync"
	"testing"
	"time"
)

// Concurrent Deletes of the same key must account for the removed entry exactly once:
// after quiescence the reported size / entry count equal what is stored (nothing).
func TestSeedC12M1_ConcurrentDeleteSameKeyCountsOnce(t *testing.T) {
	ctx := t.Context()
	cfg := config.NewDefault()

	c := NewMemoryCache[TestMeta](cfg, 1, 1024*1024*1024, time.Hour, 16, ctx)
	defer c.Destroy()

	key := FromString("seed-c12-m1")
	data := bytes.Repeat([]byte("x"), 100)

	const rounds = 20000
	const deleters = 8

	for round := 0; round < rounds; round++ {
		entriesBefore := metrics.Global.Cache.CacheEntries.Get()
		bytesBefore := metrics.Global.Cache.BytesCached.Get()

		entry, err := c.Cache(key, bytes.NewReader(data), time.Now().Add(time.Hour), TestMeta{})
		if err != nil {
			t.Fatalf("round %d: Cache failed: %v", round, err)
		}
		entry.Data.Close()

		start := make(chan struct{})
		var wg sync.WaitGroup
		for i := 0; i < deleters; i++ {
			wg.Add(1)
			go func() {
				defer wg.Done()
				<-start
				_ = c.Delete(key)
			}()
		}
		close(start)
		wg.Wait()

		// Quiescent: the key is gone, the cache is empty.
		if _, err := c.Get(key); err != ErrCacheEntryNotFound {
			t.Fatalf("round %d: expected entry to be gone, got %v", round, err)
		}
		if got := c.byteSize.Get(); got != 0 {
			t.Fatalf("round %d: cache is empty but reports size %d", round, got)
		}
		if got := metrics.Global.Cache.BytesCached.Get() - bytesBefore; got != 0 {
			t.Fatalf("round %d: BytesCached drifted by %d over a store+delete of one entry", round, got)
		}
		if got := metrics.Global.Cache.CacheEntries.Get() - entriesBefore; got != 0 {
			t.Fatalf("round %d: CacheEntries drifted by %d over a store+delete of one entry", round, got)
		}
	}
}
