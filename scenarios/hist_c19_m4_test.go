// place in: cache
package cache

import (
	"context"
	"testing"
	"time"

	"reservoir/config"
	"reservoir/utils/bytesize"
)

// A settings change applied through the regular update path (stage, then commit)
// must leave the file cache following the new cache limit, also when the
// asynchronous notification is delivered before the commit step.
func TestDemoC19_FileCacheFollowsStagedThenCommittedLimit(t *testing.T) {
	cfg := config.NewDefault()
	oldLimit := cfg.Cache.MaxCacheSize.Read().Bytes()

	c := NewFileCache[TestMeta](cfg, t.TempDir(), oldLimit, time.Hour, 16, context.Background())
	defer c.Destroy()

	newLimit := bytesize.ParseUnchecked("7M")
	if newLimit.Bytes() == oldLimit {
		t.Fatalf("test needs a limit different from the default")
	}

	// What config.UpdatePartialFromConfig does: stage (this fires the change
	// notification asynchronously) and then commit.
	cfg.Cache.MaxCacheSize.Stage(newLimit)
	time.Sleep(200 * time.Millisecond) // let the notification be delivered before the commit
	cfg.Cache.MaxCacheSize.CommitStaged()
	time.Sleep(100 * time.Millisecond)

	if got := cfg.Cache.MaxCacheSize.Read().Bytes(); got != newLimit.Bytes() {
		t.Fatalf("config itself does not hold the new limit: %d", got)
	}
	if got := c.maxCacheSize.Get(); got != newLimit.Bytes() {
		t.Fatalf("file cache does not follow the latest cache limit: got %d, want %d (old %d)", got, newLimit.Bytes(), oldLimit)
	}
}
