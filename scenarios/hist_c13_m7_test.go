// place in: cache
package cache

import (
	"bytes"
	"reservoir/config"
	"testing"
	"time"
)

// A fresh response is stored under an expired key between the janitor's scan and its removal
// pass. The fresh entry must survive, and the following cleanup cycle must still be able to
// remove entries of the same lock shard whose lifetime has elapsed (and clients must still be
// able to use that shard).
func TestSeedC13M1_FreshOverwriteBetweenScanAndRemoval(t *testing.T) {
	ctx := t.Context()
	cfg := config.NewDefault()

	// Periodic cycle effectively disabled: the cycles are driven by hand below.
	c := NewMemoryCache[TestMeta](cfg, 50, 1<<30, time.Hour, 1, ctx)
	defer c.Destroy()

	keyA := FromString("seed-c13-m1-a")
	keyB := FromString("seed-c13-m1-b")

	if _, err := c.Cache(keyA, bytes.NewReader([]byte("old")), time.Now().Add(-time.Second), TestMeta{}); err != nil {
		t.Fatalf("Cache A failed: %v", err)
	}

	// Wrap the iterator: once the scan has seen everything, a client overwrites A with a fresh body.
	origIter := c.janitor.cacheFns.cacheIterator
	overwritten := false
	c.janitor.cacheFns.cacheIterator = func(yield func(CacheKey, *EntryMetadata[TestMeta]) bool) {
		origIter(yield)
		if !overwritten {
			overwritten = true
			if _, err := c.Cache(keyA, bytes.NewReader([]byte("fresh")), time.Now().Add(time.Hour), TestMeta{}); err != nil {
				t.Errorf("fresh overwrite failed: %v", err)
			}
		}
	}

	c.janitor.cleanExpiredEntries()
	c.janitor.cacheFns.cacheIterator = origIter

	done := make(chan string, 1)
	go func() {
		// The fresh entry must have survived the cycle
		if _, stale, err := c.GetMetadata(keyA); err != nil || stale {
			done <- "fresh entry A did not survive the cleanup cycle"
			return
		}
		// A second entry whose lifetime has elapsed, then the next cycle
		if _, err := c.Cache(keyB, bytes.NewReader([]byte("expired")), time.Now().Add(-time.Second), TestMeta{}); err != nil {
			done <- "Cache B failed: " + err.Error()
			return
		}
		c.janitor.cleanExpiredEntries()
		if _, _, err := c.GetMetadata(keyB); err != ErrCacheEntryNotFound {
			done <- "expired entry B was not removed by the following cleanup cycle"
			return
		}
		if _, stale, err := c.GetMetadata(keyA); err != nil || stale {
			done <- "fresh entry A was removed by the following cleanup cycle"
			return
		}
		done <- ""
	}()

	select {
	case msg := <-done:
		if msg != "" {
			t.Fatal(msg)
		}
	case <-time.After(3 * time.Second):
		t.Fatal("store blocked after a cleanup cycle: the janitor left the entry's lock held")
	}
}
