package responder

import (
	"bytes"
	"net/http"
	"net/http/httptest"
	"strings"
	"testing"
)

// Scenario for C08: every value of a multi-valued header is delivered, in order, by both responders.
func TestGovcScenarioMultiValueHeaders(t *testing.T) {
	h := http.Header{"Set-Cookie": {"a=1", "b=2", "c=3"}, "Vary": {"Accept", "Accept-Encoding"}}
	rec := httptest.NewRecorder()
	hr := NewHTTPResponder(rec)
	hr.SetHeaders(h)
	if got := rec.Header().Values("Set-Cookie"); strings.Join(got, "|") != "a=1|b=2|c=3" {
		t.Errorf("HTTPResponder: Set-Cookie delivered as %v", got)
	}
	var buf bytes.Buffer
	rr := NewRawHTTPResponder(&buf)
	rr.SetHeaders(h)
	if got := rr.GetHeaders().Values("Set-Cookie"); strings.Join(got, "|") != "a=1|b=2|c=3" {
		t.Errorf("RawHTTPResponder: Set-Cookie delivered as %v", got)
	}
	// the caller's header map must not be adopted: later changes to the response leave it alone
	rr.SetHeader("Content-Length", "5")
	if _, ok := h["Content-Length"]; ok {
		t.Errorf("RawHTTPResponder.SetHeaders adopted the caller's map: it now has Content-Length")
	}
}
