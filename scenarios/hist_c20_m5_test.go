// place in: webserver/api
package api

import (
	"net/http"
	"net/http/httptest"
	"os"
	"strings"
	"testing"

	"reservoir/config"
	"reservoir/db"
	"reservoir/db/models"
	"reservoir/db/stores"
	"reservoir/utils/phc"
)

func c20m1Setup(t *testing.T) *http.ServeMux {
	t.Helper()
	t.Chdir(t.TempDir())
	if err := os.MkdirAll("var", 0o755); err != nil {
		t.Fatal(err)
	}
	if err := db.MigrateDatabases(); err != nil {
		t.Fatalf("migrate: %v", err)
	}
	users, err := stores.OpenUserStore()
	if err != nil {
		t.Fatalf("open user store: %v", err)
	}
	if err := users.Save(&models.User{Username: "alice", PasswordHash: *phc.GenerateArgon2id("correct horse")}); err != nil {
		t.Fatalf("save user: %v", err)
	}
	users.Close()

	mux := http.NewServeMux()
	if err := New(config.NewDefault()).RegisterHandlers(mux); err != nil {
		t.Fatalf("register: %v", err)
	}
	return mux
}

func c20m1Login(mux *http.ServeMux, body string) *httptest.ResponseRecorder {
	req := httptest.NewRequest("POST", "/api/auth/login", strings.NewReader(body))
	req.Header.Set("Content-Type", "application/json")
	rec := httptest.NewRecorder()
	mux.ServeHTTP(rec, req)
	return rec
}

// Login must succeed only with the password whose stored hash verifies. A password that
// differs from the real one only by surrounding whitespace is a different password.
func TestC20LoginRejectsWhitespacePaddedPassword(t *testing.T) {
	mux := c20m1Setup(t)

	for _, pw := range []string{"correct horse ", " correct horse", "correct horse\\n", "\\tcorrect horse  "} {
		rec := c20m1Login(mux, `{"username":"alice","password":"`+pw+`"}`)
		if rec.Code != http.StatusUnauthorized {
			t.Errorf("login with wrong password %q: status %d, want 401", pw, rec.Code)
		}
		if c := rec.Header().Get("Set-Cookie"); c != "" {
			t.Errorf("login with wrong password %q handed out a session cookie: %s", pw, c)
		}
	}

	// sanity: the real password still logs in
	rec := c20m1Login(mux, `{"username":"alice","password":"correct horse"}`)
	if rec.Code != http.StatusOK || rec.Header().Get("Set-Cookie") == "" {
		t.Fatalf("login with the right password: status %d, cookie %q", rec.Code, rec.Header().Get("Set-Cookie"))
	}
}
