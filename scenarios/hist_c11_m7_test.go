// place in: proxy/certs
package certs

import (
	"crypto/ecdsa"
	"crypto/elliptic"
	"crypto/rand"
	"crypto/x509"
	"crypto/x509/pkix"
	"encoding/pem"
	"math/big"
	"os"
	"path/filepath"
	"testing"
	"time"
)

// A CA that was created a month ago (and is valid for years) must still hand
// out leaf certificates that are inside their validity period right now.
func TestDemoC11LeafValidWithOldCA(t *testing.T) {
	priv, err := ecdsa.GenerateKey(elliptic.P256(), rand.Reader)
	if err != nil {
		t.Fatal(err)
	}
	tmpl := x509.Certificate{
		SerialNumber:          big.NewInt(1),
		Subject:               pkix.Name{Organization: []string{"old-ca"}},
		NotBefore:             time.Now().Add(-30 * 24 * time.Hour),
		NotAfter:              time.Now().Add(5 * 365 * 24 * time.Hour),
		KeyUsage:              x509.KeyUsageCertSign | x509.KeyUsageDigitalSignature,
		BasicConstraintsValid: true,
		IsCA:                  true,
	}
	der, err := x509.CreateCertificate(rand.Reader, &tmpl, &tmpl, &priv.PublicKey, priv)
	if err != nil {
		t.Fatal(err)
	}
	dir := t.TempDir()
	certFile := filepath.Join(dir, "ca.crt")
	keyFile := filepath.Join(dir, "ca.key")
	if err := os.WriteFile(certFile, pem.EncodeToMemory(&pem.Block{Type: "CERTIFICATE", Bytes: der}), 0o600); err != nil {
		t.Fatal(err)
	}
	kb, _ := x509.MarshalPKCS8PrivateKey(priv)
	if err := os.WriteFile(keyFile, pem.EncodeToMemory(&pem.Block{Type: "PRIVATE KEY", Bytes: kb}), 0o600); err != nil {
		t.Fatal(err)
	}

	ca, err := NewPrivateCA(certFile, keyFile)
	if err != nil {
		t.Fatal(err)
	}

	roots := x509.NewCertPool()
	roots.AddCert(ca.cert)

	for _, target := range []string{"example.com:443", "127.0.0.1:8443", "[::1]:443"} {
		c1, err := ca.GetCertForHost(target)
		if err != nil {
			t.Fatalf("%s: %v", target, err)
		}
		now := time.Now()
		if now.Before(c1.Leaf.NotBefore) || now.After(c1.Leaf.NotAfter) {
			t.Errorf("%s: leaf not inside validity period: NotBefore=%v NotAfter=%v now=%v", target, c1.Leaf.NotBefore, c1.Leaf.NotAfter, now)
		}
		if _, err := c1.Leaf.Verify(x509.VerifyOptions{Roots: roots, CurrentTime: now}); err != nil {
			t.Errorf("%s: leaf does not verify against CA: %v", target, err)
		}
		c2, err := ca.GetCertForHost(target)
		if err != nil {
			t.Fatalf("%s: %v", target, err)
		}
		if c1 != c2 {
			t.Errorf("%s: valid certificate was not reused", target)
		}
	}
}
