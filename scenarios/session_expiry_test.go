package auth

import (
	"testing"
	"time"
)

// Scenario for C20: a session whose expiry has passed (by any margin) must be
// refused, not revived; a live session is returned.
func TestGovcScenarioExpiredSessionRefused(t *testing.T) {
	for _, margin := range []time.Duration{time.Nanosecond, time.Second, 24 * time.Hour} {
		s := CreateSession(7)
		s.ExpiresAt = time.Now().Add(-margin)
		if got, ok := GetSession(s.ID); ok || got != nil {
			t.Errorf("session expired %v ago was returned (ok=%v), expires now %v", margin, ok, got.ExpiresAt)
		}
	}
	live := CreateSession(8)
	if got, ok := GetSession(live.ID); !ok || got != live {
		t.Errorf("live session not returned")
	}
	live.Destroy()
	if _, ok := GetSession(live.ID); ok {
		t.Errorf("destroyed session still returned")
	}
}
