// place in: cache
package cache

import (
	"bytes"
	"reservoir/config"
	"reservoir/metrics"
	"testing"
	"time"
)

// Overwriting an existing key of the memory cache with a SMALLER body must shrink the
// reported size down to what is actually stored.
func TestSeedC12M1_MemoryShrinkingOverwrite(t *testing.T) {
	cfg := config.NewDefault()
	c := NewMemoryCache[TestMeta](cfg, 1, 1024*1024*1024, time.Hour, 16, t.Context())
	defer c.Destroy()

	bytesBefore := metrics.Global.Cache.BytesCached.Get()
	entriesBefore := metrics.Global.Cache.CacheEntries.Get()

	key := FromString("seed-c12-m1")
	exp := time.Now().Add(time.Hour)

	store := func(n int) {
		t.Helper()
		e, err := c.Cache(key, bytes.NewReader(make([]byte, n)), exp, TestMeta{})
		if err != nil {
			t.Fatalf("Cache(%d bytes) failed: %v", n, err)
		}
		e.Data.Close()
	}
	check := func(step string, wantBytes int64, wantEntries int64) {
		t.Helper()
		var stored int64
		c.mu.RLock()
		n := int64(len(c.entries))
		for _, e := range c.entries {
			stored += int64(len(e.data))
		}
		c.mu.RUnlock()
		if stored != wantBytes || n != wantEntries {
			t.Fatalf("%s: test expectation wrong: stored=%d entries=%d", step, stored, n)
		}
		if got := c.byteSize.Get(); got != stored {
			t.Errorf("%s: byteSize=%d, actually stored=%d", step, got, stored)
		}
		if got := metrics.Global.Cache.BytesCached.Get() - bytesBefore; got != stored {
			t.Errorf("%s: BytesCached metric delta=%d, actually stored=%d", step, got, stored)
		}
		if got := metrics.Global.Cache.CacheEntries.Get() - entriesBefore; got != n {
			t.Errorf("%s: CacheEntries metric delta=%d, actual entries=%d", step, got, n)
		}
	}

	store(300)
	check("first store", 300, 1)
	store(700) // growing overwrite
	check("growing overwrite", 700, 1)
	store(700) // same size overwrite
	check("same-size overwrite", 700, 1)
	store(100) // shrinking overwrite
	check("shrinking overwrite", 100, 1)

	if err := c.Delete(key); err != nil {
		t.Fatalf("Delete failed: %v", err)
	}
	check("delete", 0, 0)
}
