// place in: proxy/certs
// needs: -race
package certs

import (
	"crypto/ecdsa"
	"crypto/elliptic"
	"crypto/rand"
	"crypto/x509"
	"crypto/x509/pkix"
	"encoding/pem"
	"fmt"
	"math/big"
	"net"
	"os"
	"path/filepath"
	"sync"
	"testing"
	"time"
)

// Many tunnels to hosts that have no certificate yet open at the same moment.
// Every one of them must get a certificate naming its own host, and the shared
// certificate store must stay consistent (no unsynchronised map writes, which
// the runtime answers with "fatal error: concurrent map writes").
func TestSeedC11ConcurrentFirstTunnels(t *testing.T) {
	caKey, err := ecdsa.GenerateKey(elliptic.P256(), rand.Reader)
	if err != nil {
		t.Fatal(err)
	}
	tmpl := x509.Certificate{
		SerialNumber:          big.NewInt(1),
		Subject:               pkix.Name{Organization: []string{"race-test-ca"}},
		NotBefore:             time.Now().Add(-time.Minute),
		NotAfter:              time.Now().Add(time.Hour),
		KeyUsage:              x509.KeyUsageCertSign | x509.KeyUsageDigitalSignature,
		BasicConstraintsValid: true,
		IsCA:                  true,
	}
	der, err := x509.CreateCertificate(rand.Reader, &tmpl, &tmpl, &caKey.PublicKey, caKey)
	if err != nil {
		t.Fatal(err)
	}
	keyDer, err := x509.MarshalPKCS8PrivateKey(caKey)
	if err != nil {
		t.Fatal(err)
	}
	dir := t.TempDir()
	certFile := filepath.Join(dir, "ca.crt")
	keyFile := filepath.Join(dir, "ca.key")
	if err := os.WriteFile(certFile, pem.EncodeToMemory(&pem.Block{Type: "CERTIFICATE", Bytes: der}), 0o600); err != nil {
		t.Fatal(err)
	}
	if err := os.WriteFile(keyFile, pem.EncodeToMemory(&pem.Block{Type: "PRIVATE KEY", Bytes: keyDer}), 0o600); err != nil {
		t.Fatal(err)
	}
	ca, err := NewPrivateCA(certFile, keyFile)
	if err != nil {
		t.Fatal(err)
	}
	caCert, _ := x509.ParseCertificate(der)
	roots := x509.NewCertPool()
	roots.AddCert(caCert)

	const hosts = 8
	const perHost = 8
	start := make(chan struct{})
	errs := make(chan error, hosts*perHost)
	var wg sync.WaitGroup
	for h := 0; h < hosts; h++ {
		for i := 0; i < perHost; i++ {
			wg.Add(1)
			go func(h int) {
				defer wg.Done()
				hp := fmt.Sprintf("new-host-%d.example:443", h)
				<-start
				c, err := ca.GetCertForHost(hp)
				if err != nil {
					errs <- fmt.Errorf("%s: %v", hp, err)
					return
				}
				leaf, err := x509.ParseCertificate(c.Certificate[0])
				if err != nil {
					errs <- fmt.Errorf("%s: %v", hp, err)
					return
				}
				name, _, _ := net.SplitHostPort(hp)
				if _, err := leaf.Verify(x509.VerifyOptions{Roots: roots, DNSName: name}); err != nil {
					errs <- fmt.Errorf("%s: %v", hp, err)
				}
			}(h)
		}
	}
	close(start)

	done := make(chan struct{})
	go func() { wg.Wait(); close(done) }()
	select {
	case <-done:
	case <-time.After(60 * time.Second):
		t.Fatal("timeout waiting for concurrent GetCertForHost calls")
	}
	close(errs)
	for err := range errs {
		t.Error(err)
	}

	// Afterwards each host has exactly one cached, reusable certificate.
	for h := 0; h < hosts; h++ {
		hp := fmt.Sprintf("new-host-%d.example:443", h)
		a, err1 := ca.GetCertForHost(hp)
		b, err2 := ca.GetCertForHost(hp)
		if err1 != nil || err2 != nil || a != b {
			t.Errorf("%s: certificate not reused after concurrent creation (%v, %v)", hp, err1, err2)
		}
	}
}
