package tests

import (
	"context"
	"io"
	"net/http"
	"sync/atomic"
	"testing"
	"time"
)

// Scenario for C05: two clients ask for the same resource; the one whose fetch is in
// flight hangs up.  The other one must still receive the origin's answer.
func TestGovcScenarioLeaderDisconnectDoesNotFailFollower(t *testing.T) {
	env := SetupTestEnv(t)
	arrived := make(chan struct{}, 4)
	release := make(chan struct{})
	var hits atomic.Int32
	env.Upstream.Config.Handler = http.HandlerFunc(func(w http.ResponseWriter, r *http.Request) {
		hits.Add(1)
		arrived <- struct{}{}
		<-release
		w.Header().Set("Cache-Control", "max-age=60")
		w.Write([]byte("shared body"))
	})
	env.Start()
	url := env.Upstream.URL + "/shared"

	ctxA, cancelA := context.WithCancel(context.Background())
	doneA := make(chan struct{})
	go func() {
		defer close(doneA)
		req, _ := http.NewRequestWithContext(ctxA, "GET", url, nil)
		resp, err := env.Client.Do(req)
		if err == nil {
			io.Copy(io.Discard, resp.Body)
			resp.Body.Close()
		}
	}()
	select {
	case <-arrived:
	case <-time.After(5 * time.Second):
		t.Fatal("the first request never reached the origin")
	}
	type res struct {
		status int
		body   string
		err    error
	}
	resB := make(chan res, 1)
	go func() {
		resp, err := env.Client.Get(url)
		if err != nil {
			resB <- res{err: err}
			return
		}
		b, _ := io.ReadAll(resp.Body)
		resp.Body.Close()
		resB <- res{status: resp.StatusCode, body: string(b)}
	}()
	time.Sleep(300 * time.Millisecond) // the second client joins the flight of the first
	cancelA()                          // the first client hangs up
	<-doneA
	time.Sleep(300 * time.Millisecond)
	close(release)
	select {
	case r := <-resB:
		if r.err != nil || r.status != http.StatusOK || r.body != "shared body" {
			t.Errorf("the origin answered 200 \"shared body\"; the client that stayed received status=%d body=%q err=%v (origin requests: %d)", r.status, r.body, r.err, hits.Load())
		}
	case <-time.After(10 * time.Second):
		t.Fatal("the client that stayed never got an answer")
	}
}
