// place in: config
package config

import (
	"encoding/json"
	"testing"
	"time"

	"reservoir/utils/duration"
)

// Every duration must be written in a form that reads back to the identical
// value, and a saved valid configuration must load again with the same settings.
func TestSeedC17M2_DurationReadsBackIdentically(t *testing.T) {
	for _, d := range []time.Duration{
		0, time.Second, 10 * time.Second, 90 * time.Second, time.Minute,
		time.Hour, 90 * time.Minute, time.Hour + 20*time.Second,
		1500 * time.Millisecond, 100 * time.Millisecond, 10 * time.Microsecond,
	} {
		data, err := json.Marshal(duration.Duration(d))
		if err != nil {
			t.Fatalf("marshal %v: %v", d, err)
		}
		var back duration.Duration
		if err := json.Unmarshal(data, &back); err != nil {
			t.Errorf("duration %v was written as %s which does not read back: %v", d, data, err)
			continue
		}
		if back.Cast() != d {
			t.Errorf("duration %v was written as %s and read back as %v", d, data, back.Cast())
		}
	}

	// End to end: a valid update is saved, and the saved file must load to the same values.
	cfg := NewDefault()
	status, err := UpdatePartialFromConfig(cfg, map[string]any{
		"cache": map[string]any{"cleanup_interval": "2m30s"},
		"proxy": map[string]any{"cache_policy": map[string]any{"default_max_age": "10s"}},
	})
	if err != nil || status == UpdateStatusFailed {
		t.Fatalf("update failed: status=%v err=%v", status, err)
	}
	loaded, err := load(configPath.Path)
	if err != nil {
		t.Fatalf("saved valid config does not load again: %v", err)
	}
	if got := loaded.Cache.CleanupInterval.Read().Cast(); got != 150*time.Second {
		t.Errorf("cleanup_interval read back as %v, want 2m30s", got)
	}
	if got := loaded.Proxy.CachePolicy.DefaultMaxAge.Read().Cast(); got != 10*time.Second {
		t.Errorf("default_max_age read back as %v, want 10s", got)
	}
}
