package event

import "testing"

// Scenario for C19: two listeners, unsubscribed in the order they were added.
// The second unsubscribe must not panic and must leave no listener registered;
// a third listener added in between must stay registered.
func TestGovcScenarioUnsubscribeOrder(t *testing.T) {
	for _, order := range [][]int{{0, 1, 2}, {0, 2, 1}, {1, 0, 2}, {1, 2, 0}, {2, 0, 1}, {2, 1, 0}} {
		e := New[int]()
		hits := make([]chan int, 3)
		unsubs := make([]Unsubscribe, 3)
		for i := range hits {
			i := i
			hits[i] = make(chan int, 8)
			unsubs[i] = e.Subscribe(func(d int) { hits[i] <- d })
		}
		removed := map[int]bool{}
		for _, k := range order {
			func() {
				defer func() {
					if r := recover(); r != nil {
						t.Fatalf("order %v: unsubscribe %d panicked: %v", order, k, r)
					}
				}()
				unsubs[k]()
			}()
			removed[k] = true
			if got, want := len(e.subscribers), 3-len(removed); got != want {
				t.Fatalf("order %v: after unsubscribing %v there are %d listeners, want %d", order, removed, got, want)
			}
		}
	}
}

// A listener added after another one was removed must get its own identity:
// shutting it down must not detach a listener that is still live.
func TestGovcScenarioSubscribeAfterUnsubscribe(t *testing.T) {
	e := New[int]()
	hit := map[string]int{}
	mk := func(name string) Unsubscribe { return e.Subscribe(func(int) { hit[name]++ }) }
	ua := mk("A")
	mk("B")
	mk("C")
	ua()
	ud := mk("D")
	ud()
	if len(e.subscribers) != 2 {
		t.Fatalf("after A and D were shut down %d listeners remain, want 2 (B and C)", len(e.subscribers))
	}
	for _, s := range e.subscribers {
		s.fn(1)
	}
	if hit["B"] != 1 || hit["C"] != 1 || hit["A"] != 0 || hit["D"] != 0 {
		t.Errorf("notifications misrouted after subscribe-unsubscribe-subscribe: %v", hit)
	}
}

