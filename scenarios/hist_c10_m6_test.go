// place in: tests
// A response relayed through a CONNECT tunnel must carry the same header fields as the
// same response relayed to a plain proxied request - also when a field occurs several times.
package tests

import (
	"bufio"
	"crypto/tls"
	"fmt"
	"io"
	"net"
	"net/http"
	"net/url"
	"reflect"
	"strings"
	"testing"
	"time"
)

func c10m2OpenTunnel(t *testing.T, env *TestEnv) (net.Conn, *bufio.Reader, string) {
	t.Helper()
	pu, _ := url.Parse(env.ProxyServer.URL)
	uu, _ := url.Parse(env.Upstream.URL)
	c, err := net.Dial("tcp", pu.Host)
	if err != nil {
		t.Fatalf("dial proxy: %v", err)
	}
	c.SetDeadline(time.Now().Add(10 * time.Second))
	fmt.Fprintf(c, "CONNECT %s HTTP/1.1\r\nHost: %s\r\n\r\n", uu.Host, uu.Host)
	resp, err := http.ReadResponse(bufio.NewReader(c), &http.Request{Method: http.MethodConnect})
	if err != nil || resp.StatusCode != http.StatusOK {
		t.Fatalf("CONNECT failed: %v %v", err, resp)
	}
	tc := tls.Client(c, &tls.Config{InsecureSkipVerify: true})
	if err := tc.Handshake(); err != nil {
		t.Fatalf("TLS handshake in tunnel: %v", err)
	}
	t.Cleanup(func() { tc.Close() })
	return tc, bufio.NewReader(tc), uu.Host
}

func TestC10TunnelRelaysRepeatedHeaderFieldsLikePlainProxying(t *testing.T) {
	env := SetupHttpsTestEnv(t)
	env.Upstream.Config.Handler = http.HandlerFunc(func(w http.ResponseWriter, r *http.Request) {
		io.Copy(io.Discard, r.Body)
		w.Header().Set("Cache-Control", "max-age=60")
		w.Header().Add("Link", "</style.css>; rel=preload")
		w.Header().Add("Link", "</script.js>; rel=preload")
		w.Header().Add("Set-Cookie", "a=1")
		w.Header().Add("Set-Cookie", "b=2")
		w.Header().Add("Via", "1.1 origin-gw")
		w.Header().Set("Content-Length", "7")
		w.Write([]byte("payload"))
	})
	env.Start()

	uu, _ := url.Parse(env.Upstream.URL)
	fields := []string{"Link", "Set-Cookie", "Via"}

	// Plain proxied requests (the proxy of this environment talks https to the origin for these as well).
	plain := func(method, path string) map[string][]string {
		t.Helper()
		var body io.Reader
		if method == http.MethodPost {
			body = strings.NewReader("x=1")
		}
		req, _ := http.NewRequest(method, "http://"+uu.Host+path, body)
		resp, err := env.Client.Do(req)
		if err != nil {
			t.Fatalf("plain %s %s: %v", method, path, err)
		}
		defer resp.Body.Close()
		b, _ := io.ReadAll(resp.Body)
		if resp.StatusCode != http.StatusOK || string(b) != "payload" {
			t.Fatalf("plain %s %s: status %d body %q", method, path, resp.StatusCode, b)
		}
		got := map[string][]string{}
		for _, f := range fields {
			got[f] = resp.Header.Values(f)
		}
		return got
	}

	conn, br, host := c10m2OpenTunnel(t, env)
	tunnel := func(method, path string) map[string][]string {
		t.Helper()
		msg := fmt.Sprintf("%s %s HTTP/1.1\r\nHost: %s\r\n", method, path, host)
		if method == http.MethodPost {
			msg += "Content-Length: 3\r\n\r\nx=1"
		} else {
			msg += "\r\n"
		}
		conn.SetDeadline(time.Now().Add(5 * time.Second))
		if _, err := io.WriteString(conn, msg); err != nil {
			t.Fatalf("tunnel %s %s: write: %v", method, path, err)
		}
		resp, err := http.ReadResponse(br, &http.Request{Method: method})
		if err != nil {
			t.Fatalf("tunnel %s %s: read response: %v", method, path, err)
		}
		b, err := io.ReadAll(resp.Body)
		if err != nil || resp.StatusCode != http.StatusOK || string(b) != "payload" {
			t.Fatalf("tunnel %s %s: status %d body %q err %v", method, path, resp.StatusCode, b, err)
		}
		got := map[string][]string{}
		for _, f := range fields {
			got[f] = resp.Header.Values(f)
		}
		return got
	}

	// Sanity of the reference: plain proxying keeps every occurrence of a field.
	ref := plain(http.MethodGet, "/plain-miss")
	if len(ref["Link"]) != 2 || len(ref["Set-Cookie"]) != 2 || len(ref["Via"]) != 2 {
		t.Fatalf("reference (plain proxying) does not keep repeated fields: %v", ref)
	}

	cases := []struct {
		name         string
		method       string
		plainPath    string
		tunnelPath   string
		warmUpPlain  bool
		warmUpTunnel bool
	}{
		{name: "GET miss", method: http.MethodGet, plainPath: "/p1", tunnelPath: "/t1"},
		{name: "GET hit", method: http.MethodGet, plainPath: "/p2", tunnelPath: "/t2", warmUpPlain: true, warmUpTunnel: true},
		{name: "POST relayed", method: http.MethodPost, plainPath: "/p3", tunnelPath: "/t3"},
	}
	for _, c := range cases {
		if c.warmUpPlain {
			plain(c.method, c.plainPath)
		}
		if c.warmUpTunnel {
			tunnel(c.method, c.tunnelPath)
		}
		want := plain(c.method, c.plainPath)
		got := tunnel(c.method, c.tunnelPath)
		if !reflect.DeepEqual(got, want) {
			t.Errorf("%s: header fields through the tunnel %v differ from plain proxying %v", c.name, got, want)
		}
	}
}
