// place in: tests
package tests

import (
	"bytes"
	"io"
	"net/http"
	"testing"
	"time"
)

// An If-Range date that is older than the stored Last-Modified does not match
// the stored validator, so the proxy has to answer with the full 200 and not
// with a 206 slice of the (newer) stored representation.
func TestDemoC07StaleIfRangeDateGetsFull200(t *testing.T) {
	env := SetupTestEnv(t)

	content := []byte("0123456789abcdefghijklmnopqrstuvwxyz")
	lastModified := time.Date(2024, time.March, 10, 12, 0, 0, 0, time.UTC)
	env.Upstream.Config.Handler = http.HandlerFunc(func(w http.ResponseWriter, r *http.Request) {
		w.Header().Set("Cache-Control", "max-age=60")
		w.Header().Set("ETag", "\"ifrange-etag\"")
		w.Header().Set("Last-Modified", lastModified.Format(http.TimeFormat))
		w.WriteHeader(http.StatusOK)
		w.Write(content)
	})
	env.Start()

	targetURL := env.Upstream.URL + "/if-range-date"

	resp, err := env.Client.Get(targetURL)
	if err != nil {
		t.Fatalf("Warmup failed: %v", err)
	}
	io.Copy(io.Discard, resp.Body)
	resp.Body.Close()

	do := func(ifRange time.Time) (int, []byte, http.Header) {
		req, _ := http.NewRequest("GET", targetURL, nil)
		req.Header.Set("Range", "bytes=5-14")
		req.Header.Set("If-Range", ifRange.Format(http.TimeFormat))
		resp, err := env.Client.Do(req)
		if err != nil {
			t.Fatalf("Range request failed: %v", err)
		}
		defer resp.Body.Close()
		body, err := io.ReadAll(resp.Body)
		if err != nil {
			t.Fatalf("reading body failed: %v", err)
		}
		return resp.StatusCode, body, resp.Header
	}

	// Matching validator: exact slice.
	status, body, hdr := do(lastModified)
	if status != http.StatusPartialContent || !bytes.Equal(body, content[5:15]) {
		t.Fatalf("matching If-Range: want 206 %q, got %d %q", content[5:15], status, body)
	}
	if got := hdr.Get("Content-Range"); got != "bytes 5-14/36" {
		t.Fatalf("matching If-Range: Content-Range = %q", got)
	}

	// Client holds an older copy: validator does not match -> full 200.
	status, body, hdr = do(lastModified.Add(-24 * time.Hour))
	if status != http.StatusOK {
		t.Fatalf("stale If-Range date: want full 200, got %d (Content-Range %q, body %q)", status, hdr.Get("Content-Range"), body)
	}
	if !bytes.Equal(body, content) {
		t.Fatalf("stale If-Range date: want full body %q, got %q", content, body)
	}
}
