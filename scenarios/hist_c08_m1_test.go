// place in: proxy
package proxy

import (
	"io"
	"net/http"
	"net/http/httptest"
	"strings"
	"testing"
)

// A Connection header may be sent as several field lines. Every header named by any of
// them is hop-by-hop and must not cross the proxy, in either direction.
func TestDemoC08ConnectionListedHeadersOnSeveralLines(t *testing.T) {
	var seen http.Header
	origin := httptest.NewServer(http.HandlerFunc(func(w http.ResponseWriter, r *http.Request) {
		seen = r.Header.Clone()
		w.Header()["Connection"] = []string{"keep-alive", "X-Origin-Hop"}
		w.Header().Set("X-Origin-Hop", "origin-private")
		w.Header().Set("X-Origin-End", "kept")
		w.Write([]byte("ok"))
	}))
	defer origin.Close()

	req, err := http.NewRequest(http.MethodGet, origin.URL+"/res", nil)
	if err != nil {
		t.Fatal(err)
	}
	req.Host = strings.TrimPrefix(origin.URL, "http://")
	req.Header["Connection"] = []string{"keep-alive", "X-Client-Hop, x-other-hop"}
	req.Header.Set("X-Client-Hop", "client-private")
	req.Header.Set("X-Other-Hop", "client-private-2")
	req.Header.Set("X-Client-End", "kept")

	resp, err := sendRequestToTarget(req, false)
	if err != nil {
		t.Fatalf("sendRequestToTarget: %v", err)
	}
	defer resp.Body.Close()
	io.Copy(io.Discard, resp.Body)

	if got := seen.Get("X-Client-End"); got != "kept" {
		t.Errorf("end-to-end request header lost, got %q", got)
	}
	for _, name := range []string{"X-Client-Hop", "X-Other-Hop"} {
		if got := seen.Values(name); len(got) != 0 {
			t.Errorf("request header %s is named by a Connection line but reached the origin: %q", name, got)
		}
	}

	if got := resp.Header.Get("X-Origin-End"); got != "kept" {
		t.Errorf("end-to-end response header lost, got %q", got)
	}
	if got := resp.Header.Values("X-Origin-Hop"); len(got) != 0 {
		t.Errorf("response header X-Origin-Hop is named by a Connection line but is relayed: %q", got)
	}
}
