package tests

import (
	"bufio"
	"crypto/tls"
	"fmt"
	"io"
	"net"
	"net/http"
	"strings"
	"testing"
	"time"
)

// Scenario for C10 / C16: an answer that cannot have a body (204, 304 to the client's own
// conditional is not relayed - so 204 and 205 here) is sent on a tunnel without body framing,
// and the next request on the tunnel gets its own answer.
func TestGovcScenarioTunnelBodilessStatusThenGet(t *testing.T) {
	env := SetupHttpsTestEnv(t)
	env.Upstream.Config.Handler = http.HandlerFunc(func(w http.ResponseWriter, r *http.Request) {
		w.Header().Set("X-Path", r.URL.Path)
		switch r.URL.Path {
		case "/nocontent":
			w.WriteHeader(http.StatusNoContent)
		default:
			io.WriteString(w, "body of "+r.URL.Path)
		}
	})
	env.Start()
	target := strings.TrimPrefix(env.Upstream.URL, "https://")
	proxyAddr := strings.TrimPrefix(env.ProxyServer.URL, "http://")
	raw, err := net.DialTimeout("tcp", proxyAddr, 5*time.Second)
	if err != nil {
		t.Fatal(err)
	}
	defer raw.Close()
	raw.SetDeadline(time.Now().Add(8 * time.Second))
	fmt.Fprintf(raw, "CONNECT %s HTTP/1.1\r\nHost: %s\r\n\r\n", target, target)
	if resp, err := http.ReadResponse(bufio.NewReader(raw), nil); err != nil || resp.StatusCode != 200 {
		t.Fatalf("CONNECT: %v", err)
	}
	conn := tls.Client(raw, &tls.Config{InsecureSkipVerify: true})
	if err := conn.Handshake(); err != nil {
		t.Fatal(err)
	}
	br := bufio.NewReader(conn)
	do := func(n int, path string, wantStatus int, wantBody string) {
		t.Helper()
		fmt.Fprintf(conn, "GET %s HTTP/1.1\r\nHost: %s\r\n\r\n", path, target)
		resp, err := http.ReadResponse(br, &http.Request{Method: "GET"})
		if err != nil {
			t.Fatalf("exchange %d (GET %s): no well-formed response: %v", n, path, err)
		}
		b, err := io.ReadAll(resp.Body)
		resp.Body.Close()
		if err != nil {
			t.Fatalf("exchange %d (GET %s): body: %v", n, path, err)
		}
		if resp.StatusCode != wantStatus || resp.Header.Get("X-Path") != path || string(b) != wantBody {
			t.Fatalf("exchange %d (GET %s): got status %d X-Path %q body %q, want %d %q", n, path, resp.StatusCode, resp.Header.Get("X-Path"), b, wantStatus, wantBody)
		}
		if te := resp.TransferEncoding; wantStatus == 204 && len(te) > 0 {
			t.Errorf("exchange %d: a 204 was sent with Transfer-Encoding %v", n, te)
		}
	}
	do(1, "/a", 200, "body of /a")
	do(2, "/nocontent", 204, "")
	do(3, "/b", 200, "body of /b")
	do(4, "/nocontent", 204, "")
	do(5, "/c", 200, "body of /c")
}
