// place in: tests
package tests

import (
	"io"
	"net/http"
	"sync"
	"testing"
	"time"
)

// The validators of the stored response belong to the revalidation request only. When the
// origin answers the revalidation with something that is neither 200 nor 304, the client's
// request is answered by a plain fetch of its own request: that fetch must not carry the
// proxy's stored validators, and a client that sent no conditional headers must never be
// handed a bare 304.
func TestC06DemoStoredValidatorsStayOnRevalidationRequest(t *testing.T) {
	env := SetupTestEnv(t)

	var mu sync.Mutex
	var seenINM []string // If-None-Match of every upstream request, in order
	failedOnce := false
	env.Upstream.Config.Handler = http.HandlerFunc(func(w http.ResponseWriter, r *http.Request) {
		mu.Lock()
		inm := r.Header.Get("If-None-Match")
		seenINM = append(seenINM, inm)
		failNow := inm != "" && !failedOnce
		if failNow {
			failedOnce = true
		}
		mu.Unlock()

		if failNow {
			// transient origin failure on the first conditional request
			w.WriteHeader(http.StatusInternalServerError)
			w.Write([]byte("boom"))
			return
		}
		if inm == "\"c06-m2\"" {
			w.WriteHeader(http.StatusNotModified)
			return
		}
		w.Header().Set("Cache-Control", "max-age=1")
		w.Header().Set("ETag", "\"c06-m2\"")
		w.WriteHeader(http.StatusOK)
		w.Write([]byte("c06 m2 body"))
	})
	env.Start()

	target := env.Upstream.URL + "/c06-m2"

	// 1. miss, stored with ETag "c06-m2" and a lifetime of 1s
	resp, err := env.Client.Get(target)
	if err != nil {
		t.Fatalf("request failed: %v", err)
	}
	body, _ := io.ReadAll(resp.Body)
	resp.Body.Close()
	if resp.StatusCode != http.StatusOK || string(body) != "c06 m2 body" {
		t.Fatalf("unexpected first response: %d %q", resp.StatusCode, body)
	}

	// 2. entry goes stale
	time.Sleep(1300 * time.Millisecond)

	// 3. unconditional client request: revalidation gets a 500, the proxy falls back to a
	//    plain fetch of the client's request
	resp, err = env.Client.Get(target)
	if err != nil {
		t.Fatalf("request failed: %v", err)
	}
	body, _ = io.ReadAll(resp.Body)
	resp.Body.Close()

	mu.Lock()
	seen := append([]string(nil), seenINM...)
	mu.Unlock()

	if resp.StatusCode == http.StatusNotModified {
		t.Errorf("client sent no conditional headers but was answered 304 (body %q)", body)
	}
	if len(seen) != 3 {
		t.Fatalf("expected 3 upstream requests (miss, revalidation, fallback), got %d: %q", len(seen), seen)
	}
	if seen[0] != "" {
		t.Errorf("first fetch carried If-None-Match %q", seen[0])
	}
	if seen[1] != "\"c06-m2\"" {
		t.Errorf("revalidation did not carry the stored ETag, got %q", seen[1])
	}
	if seen[2] != "" {
		t.Errorf("fallback fetch of the client's request carried the proxy's stored validator %q", seen[2])
	}
	if resp.StatusCode != http.StatusOK || string(body) != "c06 m2 body" {
		t.Errorf("expected 200 with the full body for the unconditional client request, got %d %q", resp.StatusCode, body)
	}
}
