// place in: proxy
package proxy

import (
	"context"
	"io"
	"net/http"
	"net/http/httptest"
	"net/url"
	"sync/atomic"
	"testing"
	"time"

	"reservoir/cache"
	"reservoir/config"
)

// evictAfterRenewCache behaves like the wrapped cache, except that (when armed) the entry
// is evicted right after its metadata was renewed - i.e. between the UpdateMetadata and
// the following Get of a 304 revalidation. This is what a concurrent eviction (cache full,
// another request stores a big object) can do at that point.
type demoInnerCache = cache.Cache[cachedRequestInfo]

type evictAfterRenewCache struct {
	demoInnerCache
	armed atomic.Bool
}

func (c *evictAfterRenewCache) UpdateMetadata(key cache.CacheKey, modifier func(*cache.EntryMetadata[cachedRequestInfo])) error {
	err := c.demoInnerCache.UpdateMetadata(key, modifier)
	if err == nil && c.armed.CompareAndSwap(true, false) {
		c.demoInnerCache.Delete(key)
	}
	return err
}

func TestDemoC09EvictionBetweenRenewAndGetOn304(t *testing.T) {
	const body = "origin body"
	const etag = `"v1"`

	upstream := httptest.NewServer(http.HandlerFunc(func(w http.ResponseWriter, r *http.Request) {
		w.Header().Set("Cache-Control", "max-age=60")
		w.Header().Set("ETag", etag)
		if r.Header.Get("If-None-Match") == etag {
			w.WriteHeader(http.StatusNotModified)
			return
		}
		w.WriteHeader(http.StatusOK)
		w.Write([]byte(body))
	}))
	defer upstream.Close()

	cfg := config.NewDefault()
	cfg.Proxy.UpstreamDefaultHttps.Overwrite(false)
	cfg.Cache.Type.Overwrite(config.CacheTypeMemory)

	ctx, cancel := context.WithCancel(context.Background())
	defer cancel()

	inner := cache.NewMemoryCache[cachedRequestInfo](cfg, 50, 1<<30, time.Hour, 8, ctx)
	defer inner.Destroy()
	c := &evictAfterRenewCache{demoInnerCache: inner}

	p := &Proxy{cache: c, fetch: newFetcher(c, cfg), cfg: cfg}
	proxyServer := httptest.NewServer(p)
	defer proxyServer.Close()

	proxyURL, err := url.Parse(proxyServer.URL)
	if err != nil {
		t.Fatal(err)
	}
	tr := &http.Transport{Proxy: http.ProxyURL(proxyURL)}
	defer tr.CloseIdleConnections()
	client := &http.Client{Transport: tr, Timeout: 10 * time.Second}

	get := func() (int, string) {
		resp, err := client.Get(upstream.URL + "/obj")
		if err != nil {
			t.Fatalf("request through proxy failed: %v", err)
		}
		defer resp.Body.Close()
		b, _ := io.ReadAll(resp.Body)
		return resp.StatusCode, string(b)
	}

	// 1. Fill the cache.
	if st, b := get(); st != http.StatusOK || b != body {
		t.Fatalf("first request: got %d %q", st, b)
	}

	// 2. Make every cached entry stale, so the next request revalidates with the origin.
	req, _ := http.NewRequest(http.MethodGet, upstream.URL+"/obj", nil)
	key := cache.MakeFromRequest(req)
	if err := inner.UpdateMetadata(key, func(m *cache.EntryMetadata[cachedRequestInfo]) {
		m.Expires = time.Now().Add(-time.Minute)
	}); err != nil {
		t.Fatalf("could not expire entry (key mismatch?): %v", err)
	}

	// 3. The origin answers 304; the entry is evicted between renew and re-read.
	c.armed.Store(true)
	st, b := get()
	if c.armed.Load() {
		t.Fatalf("scenario not reached: revalidation did not renew the entry")
	}
	if st != http.StatusOK || b != body {
		t.Fatalf("origin answered fine, but client got status %d body %q (want 200 %q)", st, b, body)
	}
}
