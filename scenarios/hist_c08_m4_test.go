// place in: tests
package tests

import (
	"io"
	"net/http"
	"sync"
	"testing"
	"time"
)

// Sequence: a response is stored, its lifetime runs out, the next client request makes the
// proxy revalidate it (with the proxy's own If-None-Match / If-Modified-Since), and the
// origin answers the revalidation with a new response that may not be stored. The proxy then
// relays the client's request to the origin directly. That relayed request must carry the
// client's headers only: the client sent no conditional headers, so the origin must not
// receive any on the relayed request.
func TestSeedC08DirectFallbackAfterRevalidationCarriesOnlyClientHeaders(t *testing.T) {
	env := SetupTestEnv(t)

	var mu sync.Mutex
	var seen []http.Header
	env.Upstream.Config.Handler = http.HandlerFunc(func(w http.ResponseWriter, r *http.Request) {
		mu.Lock()
		seen = append(seen, r.Header.Clone())
		n := len(seen)
		mu.Unlock()

		if n == 1 {
			w.Header().Set("Cache-Control", "max-age=1")
			w.Header().Set("ETag", "\"v1\"")
			w.WriteHeader(http.StatusOK)
			w.Write([]byte("version one"))
			return
		}
		// The resource changed and may not be stored any more
		w.Header().Set("Cache-Control", "no-store")
		w.Header().Set("ETag", "\"v2\"")
		w.WriteHeader(http.StatusOK)
		w.Write([]byte("version two"))
	})
	env.Start()

	targetURL := env.Upstream.URL + "/seed-c08-revalidate-fallback"

	resp, err := env.Client.Get(targetURL)
	if err != nil {
		t.Fatalf("first request failed: %v", err)
	}
	io.Copy(io.Discard, resp.Body)
	resp.Body.Close()

	time.Sleep(1500 * time.Millisecond)

	req, _ := http.NewRequest("GET", targetURL, nil)
	req.Header.Set("X-Client-Marker", "second")
	resp, err = env.Client.Do(req)
	if err != nil {
		t.Fatalf("second request failed: %v", err)
	}
	body, _ := io.ReadAll(resp.Body)
	resp.Body.Close()
	if resp.StatusCode != http.StatusOK || string(body) != "version two" {
		t.Fatalf("expected the new response to be relayed, got status %d body %q", resp.StatusCode, body)
	}

	mu.Lock()
	defer mu.Unlock()
	if len(seen) != 3 {
		t.Fatalf("expected 3 requests at the origin (fill, revalidation, relayed request), got %d", len(seen))
	}
	if seen[1].Get("If-None-Match") != "\"v1\"" {
		t.Fatalf("expected the second origin request to be the proxy's revalidation, got headers %v", seen[1])
	}
	relayed := seen[2]
	if relayed.Get("X-Client-Marker") != "second" {
		t.Fatalf("third origin request is not the relayed client request: %v", relayed)
	}
	for _, name := range []string{"If-None-Match", "If-Modified-Since"} {
		if v, ok := relayed[name]; ok {
			t.Errorf("origin received %s: %q on the relayed request, the client never sent it", name, v)
		}
	}
}
