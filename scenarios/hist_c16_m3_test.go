// place in: tests
package tests

import (
	"bufio"
	"net"
	"net/http"
	"testing"
	"time"
)

// A CONNECT whose target has no port ("CONNECT example.com HTTP/1.1") cannot get a
// certificate (host:port split fails). The client must still receive a well-formed
// HTTP error response on the (already hijacked) connection, not a bare close.
func TestSeedC16M1ConnectWithoutPortIsAnswered(t *testing.T) {
	env := SetupHttpsTestEnv(t)
	env.Start()

	conn, err := net.DialTimeout("tcp", env.ProxyServer.Listener.Addr().String(), 5*time.Second)
	if err != nil {
		t.Fatalf("dial proxy: %v", err)
	}
	defer conn.Close()
	conn.SetDeadline(time.Now().Add(5 * time.Second))

	if _, err := conn.Write([]byte("CONNECT example.com HTTP/1.1\r\nHost: example.com\r\n\r\n")); err != nil {
		t.Fatalf("write CONNECT: %v", err)
	}

	resp, err := http.ReadResponse(bufio.NewReader(conn), &http.Request{Method: http.MethodConnect})
	if err != nil {
		t.Fatalf("client was left without a well-formed HTTP response to CONNECT with a port-less target: %v", err)
	}
	defer resp.Body.Close()
	if resp.StatusCode < 400 || resp.StatusCode > 599 {
		t.Fatalf("expected an error status for an unusable CONNECT target, got %d", resp.StatusCode)
	}
}
