package config

import (
	"sync/atomic"
	"testing"
	"time"

	"reservoir/utils/bytesize"
)

// Scenario for C18: an update that is rejected (one of its values is invalid)
// must leave the running settings and every listener untouched.
func TestGovcScenarioRejectedUpdateChangesNothing(t *testing.T) {
	cfg := NewDefault()
	before := cfg.Cache.MaxCacheSize.Read()
	var notified atomic.Int64
	cfg.Cache.MaxCacheSize.OnChange(func(bytesize.ByteSize) { notified.Add(1) })
	_, err := UpdatePartialFromConfig(cfg, map[string]any{
		"cache": map[string]any{"max_cache_size": "3G", "cleanup_interval": "0s"},
	})
	if err == nil {
		t.Fatalf("update with cleanup_interval 0s was accepted")
	}
	time.Sleep(50 * time.Millisecond)
	if got := cfg.Cache.MaxCacheSize.Read(); got != before {
		t.Errorf("rejected update changed max_cache_size from %v to %v", before, got)
	}
	if got := cfg.Cache.CleanupInterval.Read(); got.Cast() <= 0 {
		t.Errorf("rejected update left cleanup_interval at %v", got.Cast())
	}
	if n := notified.Load(); n != 0 {
		t.Errorf("rejected update notified %d listener(s)", n)
	}
}
