// place in: cache
package cache

import (
	"bytes"
	"fmt"
	"reservoir/config"
	"sync"
	"testing"
	"time"
)

// Concurrent stores and deletes on DIFFERENT keys; at quiescence the reported size must
// equal the bytes of the entries that are still stored. (Stress test: a lost counter
// update needs two goroutines to touch the byte counter at the same moment.)
func TestSeedC12M2_ConcurrentStoreDeleteSizeMatchesAtQuiescence(t *testing.T) {
	ctx := t.Context()
	cfg := config.NewDefault()

	c := NewMemoryCache[TestMeta](cfg, 50, 1<<40, time.Hour, 64, ctx)
	defer c.Destroy()

	const workers = 16
	const opsPerRound = 3000
	const rounds = 40
	payload := bytes.Repeat([]byte("x"), 100)
	expires := time.Now().Add(time.Hour)

	keys := make([][]CacheKey, workers)
	for w := range keys {
		keys[w] = make([]CacheKey, 8)
		for i := range keys[w] {
			keys[w][i] = FromString(fmt.Sprintf("w%d-k%d", w, i))
		}
	}

	for round := 0; round < rounds; round++ {
		var wg sync.WaitGroup
		for w := 0; w < workers; w++ {
			wg.Add(1)
			go func(w int) {
				defer wg.Done()
				for i := 0; i < opsPerRound; i++ {
					k := keys[w][i%len(keys[w])]
					if _, err := c.Cache(k, bytes.NewReader(payload), expires, TestMeta{}); err != nil {
						t.Errorf("store: %v", err)
						return
					}
					if i%len(keys[w]) != 0 { // the first key of every worker stays stored
						if err := c.Delete(k); err != nil {
							t.Errorf("delete: %v", err)
							return
						}
					}
				}
			}(w)
		}
		wg.Wait()

		// quiescent: compare the reported size with what is stored
		var stored int64
		c.mu.RLock()
		n := len(c.entries)
		for _, e := range c.entries {
			stored += int64(len(e.data))
		}
		c.mu.RUnlock()
		if n != workers {
			t.Fatalf("round %d: %d entries stored, want %d", round, n, workers)
		}
		if got := c.byteSize.Get(); got != stored {
			t.Fatalf("round %d: reported cache size %d, bytes actually stored %d", round, got, stored)
		}
	}
}
