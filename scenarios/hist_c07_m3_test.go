// place in: tests
package tests

import (
	"bytes"
	"io"
	"net/http"
	"strings"
	"testing"
	"time"
)

// An origin that itself honours Range answers an out-of-bounds range with 416. The proxy
// then fetches the whole representation without the Range header and stores it. The client
// must get a 416 stating the size or the full 200 - never a broken/dropped connection.
func TestC07OutOfBoundsRangeAgainstRangeAwareOrigin(t *testing.T) {
	env := SetupTestEnv(t)

	content := []byte("0123456789abcdefghijklmnopqrstuvwxyz")
	modTime := time.Date(2024, 1, 2, 3, 4, 5, 0, time.UTC)
	env.Upstream.Config.Handler = http.HandlerFunc(func(w http.ResponseWriter, r *http.Request) {
		w.Header().Set("Cache-Control", "max-age=60")
		w.Header().Set("ETag", "\"c07-etag\"")
		// ServeContent answers 416 for a range outside the content, 200 without Range.
		http.ServeContent(w, r, "", modTime, bytes.NewReader(content))
	})
	env.Start()

	targetURL := env.Upstream.URL + "/c07-origin-416"

	req, _ := http.NewRequest("GET", targetURL, nil)
	req.Header.Set("Range", "bytes=100-200")
	resp, err := env.Client.Do(req)
	if err != nil {
		t.Fatalf("out-of-bounds range request was not answered (connection dropped?): %v", err)
	}
	defer resp.Body.Close()

	body, err := io.ReadAll(resp.Body)
	if err != nil {
		t.Fatalf("reading the answer failed: %v", err)
	}

	switch resp.StatusCode {
	case http.StatusOK:
		if !bytes.Equal(body, content) {
			t.Fatalf("200 does not carry the full representation: %q", body)
		}
	case http.StatusRequestedRangeNotSatisfiable:
		cr := resp.Header.Get("Content-Range")
		if strings.TrimSpace(cr) != "bytes */36" {
			t.Fatalf("416 does not state the representation size: Content-Range=%q", cr)
		}
	default:
		t.Fatalf("expected 416 or the full 200, got %d (%q)", resp.StatusCode, body)
	}
}
