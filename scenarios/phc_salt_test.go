package phc

import "testing"

// Scenario for C16: a stored password-hash string with an over-long salt is rejected
// with an error, not with a panic.
func TestGovcScenarioLongSaltRejected(t *testing.T) {
	for _, salt := range []string{"AAAAAAAAAAAAAAAAAAAAAAAA", "AAAAAAAAAAAAAAAAAAAAAAAAAAAAAAAAAAAAAAAAAAAA", "AAAAAAAAAAAAAAAAAAAAAAA"} {
		func() {
			defer func() {
				if r := recover(); r != nil {
					t.Errorf("ParsePHC panicked on a salt of %d characters: %v", len(salt), r)
				}
			}()
			if p, err := ParsePHC("$argon2id$v=19$m=65536,t=1,p=2$" + salt + "$AAAAAAAAAAAAAAAAAAAAAA"); err == nil {
				t.Errorf("salt of %d characters accepted: %v", len(salt), p)
			}
		}()
	}
	// a well-formed string still parses
	good := GenerateArgon2id("pw").String()
	if _, err := ParsePHC(good); err != nil {
		t.Errorf("well-formed string rejected: %v", err)
	}
}
