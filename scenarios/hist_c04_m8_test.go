// place in: tests
package tests

import (
	"io"
	"net/http"
	"sync/atomic"
	"testing"
)

// Origin directives are honoured (ignore_cache_control = false in the test environment).
// A response marked no-store / private must never be answered from the store, also when the
// origin puts optional whitespace (SP / HTAB, RFC 9110 section 5.6.1) around the list commas.
func TestC04NoStoreWithOptionalWhitespaceIsNotReused(t *testing.T) {
	cases := map[string]string{
		"/c04-ows-space": "no-store , max-age=60",
		"/c04-ows-tab":   "max-age=60,\tprivate",
	}

	env := SetupTestEnv(t)

	var upstreamRequests int32
	env.Upstream.Config.Handler = http.HandlerFunc(func(w http.ResponseWriter, r *http.Request) {
		atomic.AddInt32(&upstreamRequests, 1)
		w.Header().Set("Cache-Control", cases[r.URL.Path])
		w.WriteHeader(http.StatusOK)
		w.Write([]byte("must not be stored"))
	})
	env.Start()

	get := func(url string) *http.Response {
		resp, err := env.Client.Get(url)
		if err != nil {
			t.Fatalf("request failed: %v", err)
		}
		body, _ := io.ReadAll(resp.Body)
		resp.Body.Close()
		if resp.StatusCode != http.StatusOK || string(body) != "must not be stored" {
			t.Fatalf("unexpected response: %d %q", resp.StatusCode, body)
		}
		return resp
	}

	for path, cc := range cases {
		first := get(env.Upstream.URL + path)
		if got := first.Header.Get("Cache-Control"); got != cc {
			t.Fatalf("%s: Cache-Control did not reach the client as sent: %q", path, got)
		}
		before := atomic.LoadInt32(&upstreamRequests)

		second := get(env.Upstream.URL + path)
		after := atomic.LoadInt32(&upstreamRequests)

		if after == before {
			t.Errorf("%s (Cache-Control %q): second request did not reach the origin", path, cc)
		}
		if xc := second.Header.Get("X-Cache"); xc == "HIT" {
			t.Errorf("%s (Cache-Control %q): second request answered from the store (Cache-Status %q)", path, cc, second.Header.Get("Cache-Status"))
		}
	}
}
