// place in: tests
package tests

import (
	"net/http"
	"strconv"
	"testing"
	"time"
)

// C03: the Age of a HIT must be consistent with the time the response was
// stored. The origin here sends no Date header (and no Age), so the only
// source for Age is the time the entry has been resident in the cache.
func TestDemoC03AgeOfHitReflectsTimeStored(t *testing.T) {
	env := SetupTestEnv(t)

	env.Upstream.Config.Handler = http.HandlerFunc(func(w http.ResponseWriter, r *http.Request) {
		w.Header()["Date"] = nil // suppress the automatic Date header
		w.Header().Set("Cache-Control", "max-age=60")
		w.Header().Set("ETag", "\"age-etag\"")
		w.WriteHeader(http.StatusOK)
		w.Write([]byte("age test body"))
	})
	env.Start()

	targetURL := env.Upstream.URL + "/age-test"

	resp1, err := env.Client.Get(targetURL)
	if err != nil {
		t.Fatalf("first request failed: %v", err)
	}
	resp1.Body.Close()
	if xc := resp1.Header.Get("X-Cache"); xc != "MISS" {
		t.Fatalf("expected first request to be a MISS, got %q", xc)
	}

	time.Sleep(2200 * time.Millisecond)

	resp2, err := env.Client.Get(targetURL)
	if err != nil {
		t.Fatalf("second request failed: %v", err)
	}
	resp2.Body.Close()
	if xc := resp2.Header.Get("X-Cache"); xc != "HIT" {
		t.Fatalf("expected second request to be a HIT, got %q", xc)
	}

	age, err := strconv.Atoi(resp2.Header.Get("Age"))
	if err != nil {
		t.Fatalf("HIT carries no usable Age header: %q", resp2.Header.Get("Age"))
	}
	if age < 2 || age > 5 {
		t.Errorf("Age of HIT is %d, but the entry was stored about 2s ago (Cache-Status=%q)", age, resp2.Header.Get("Cache-Status"))
	}
}
