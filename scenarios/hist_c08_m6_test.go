// place in: proxy/responder
package responder

import (
	"bytes"
	"io"
	"net/http"
	"strings"
	"testing"
)

// Keeps the head of what is written (status line and header block), discards the rest.
type seedHeadCapture struct {
	head bytes.Buffer
}

func (h *seedHeadCapture) Write(p []byte) (int, error) {
	if room := 4096 - h.head.Len(); room > 0 {
		h.head.Write(p[:min(room, len(p))])
	}
	return len(p), nil
}

type seedEndlessReader struct{}

func (seedEndlessReader) Read(p []byte) (int, error) { return len(p), nil }

// C08: a response delivered over the CONNECT/TLS transport carries every end-to-end header
// of the origin with its value, also for a large body. An origin response of 2 GiB with
// "Content-Length: 2147483648" must reach the client with that Content-Length, not reframed.
func TestSeedC08LargeContentLengthIsKept(t *testing.T) {
	for _, size := range []int64{1<<31 - 1, 1 << 31} {
		sizeStr := func() string {
			if size == 1<<31 {
				return "2147483648"
			}
			return "2147483647"
		}()

		w := &seedHeadCapture{}
		r := NewRawHTTPResponder(w)
		r.SetHeaders(http.Header{
			"Content-Length": {sizeStr},
			"Content-Type":   {"application/octet-stream"},
		})

		written, err := r.Write(http.StatusOK, io.LimitReader(seedEndlessReader{}, size))
		if err != nil {
			t.Fatalf("size %d: Write failed: %v", size, err)
		}
		if written != size {
			t.Errorf("size %d: %d body bytes were relayed", size, written)
		}

		head := w.head.String()
		if end := strings.Index(head, "\r\n\r\n"); end >= 0 {
			head = head[:end]
		}
		if !strings.Contains(head, "\r\nContent-Length: "+sizeStr) {
			t.Errorf("size %d: the origin's Content-Length is missing from the response head:\n%s", size, head)
		}
		if strings.Contains(strings.ToLower(head), "transfer-encoding") {
			t.Errorf("size %d: response was reframed (Transfer-Encoding) although the origin declared its length:\n%s", size, head)
		}
	}
}
