// place in: config
package config

import (
	"testing"

	"reservoir/utils/bytesize"
)

// A command-line override must stay in effect for the running process even
// after the same property is later updated through the API; the update only
// changes the value that is saved to the file.
func TestSeedC17M1_OverrideSurvivesApiUpdate(t *testing.T) {
	cfg := NewDefault()

	// Command-line overrides.
	cfg.Proxy.Listen.Overwrite(":7777")
	cfg.Logging.MaxSize.Overwrite(bytesize.ParseUnchecked("3M"))

	// Later API update of the same properties.
	status, err := UpdatePartialFromConfig(cfg, map[string]any{
		"proxy":   map[string]any{"listen": ":8888"},
		"logging": map[string]any{"max_size": "7M"},
	})
	if err != nil || status == UpdateStatusFailed {
		t.Fatalf("update failed: status=%v err=%v", status, err)
	}

	if got := cfg.Proxy.Listen.Read(); got != ":7777" {
		t.Errorf("proxy.listen: command-line override lost after API update: got %q, want %q", got, ":7777")
	}
	if got := cfg.Logging.MaxSize.Read(); got != bytesize.ParseUnchecked("3M") {
		t.Errorf("logging.max_size: command-line override lost after API update: got %v, want 3M", got)
	}

	// The file holds the updated values, not the overrides.
	loaded, err := load(configPath.Path)
	if err != nil {
		t.Fatalf("load failed: %v", err)
	}
	if got := loaded.Proxy.Listen.Read(); got != ":8888" {
		t.Errorf("saved proxy.listen: got %q, want %q", got, ":8888")
	}
	if got := loaded.Logging.MaxSize.Read(); got != bytesize.ParseUnchecked("7M") {
		t.Errorf("saved logging.max_size: got %v, want 7M", got)
	}
}
