// place in: tests
package tests

import (
	"fmt"
	"io"
	"net/http"
	"testing"
)

// An out-of-bounds Range over plain HTTP (retry_on_invalid_range off) must be refused
// with a 416 that states the size of the stored representation.
func TestSeedC07UnsatisfiableRangeStatesSize(t *testing.T) {
	env := SetupTestEnv(t)

	content := []byte("0123456789abcdefghijklmnopqrstuvwxyz")
	env.Upstream.Config.Handler = http.HandlerFunc(func(w http.ResponseWriter, r *http.Request) {
		w.Header().Set("Cache-Control", "max-age=60")
		w.Header().Set("ETag", "\"seed-etag\"")
		w.WriteHeader(http.StatusOK)
		w.Write(content)
	})
	env.Start()

	targetURL := env.Upstream.URL + "/seed-c07-416"

	resp, err := env.Client.Get(targetURL)
	if err != nil {
		t.Fatalf("warmup failed: %v", err)
	}
	io.Copy(io.Discard, resp.Body)
	resp.Body.Close()

	for _, rng := range []string{"bytes=100-200", "bytes=36-", "bytes=-37", "bytes=-0", "bytes=9223372036854775807-"} {
		req, _ := http.NewRequest("GET", targetURL, nil)
		req.Header.Set("Range", rng)
		resp, err = env.Client.Do(req)
		if err != nil {
			t.Fatalf("%s: request failed: %v", rng, err)
		}
		io.Copy(io.Discard, resp.Body)
		resp.Body.Close()

		if resp.StatusCode != http.StatusRequestedRangeNotSatisfiable {
			t.Fatalf("%s: expected 416, got %d", rng, resp.StatusCode)
		}
		want := fmt.Sprintf("bytes */%d", len(content))
		if got := resp.Header.Get("Content-Range"); got != want {
			t.Errorf("%s: 416 must state the representation size: Content-Range = %q, want %q", rng, got, want)
		}
	}
}
