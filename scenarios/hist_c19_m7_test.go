// place in: logging
package logging

import (
	"log/slog"
	"testing"
	"time"

	"reservoir/config"
)

// One settings update that changes the log level together with a log-writer
// setting (here: logging.to_stdout). Both properties are staged (which notifies
// the listeners) and committed afterwards, exactly as config.UpdatePartialFromConfig
// does. The logger must end up at the new level.
func TestC19LogLevelSurvivesWriterChangeInSameUpdate(t *testing.T) {
	cfg := config.NewDefault()
	cfg.Logging.File.Overwrite("") // no log file
	cfg.Logging.ToStdout.Overwrite(false)
	// fresh package state (Init is guarded by a package-level flag)
	subs.UnsubscribeAll()
	initialized = false
	Init(cfg)
	defer func() { subs.UnsubscribeAll(); initialized = false }()

	waitFor := func(what string, cond func() bool) {
		t.Helper()
		deadline := time.Now().Add(3 * time.Second)
		for !cond() {
			if time.Now().After(deadline) {
				t.Fatalf("timed out waiting for %s", what)
			}
			time.Sleep(2 * time.Millisecond)
		}
	}

	if got := logLevel.Level(); got != slog.LevelInfo {
		t.Fatalf("unexpected initial level %v", got)
	}

	// stage logging.level = DEBUG; the level listener runs asynchronously
	cfg.Logging.Level.Stage(slog.LevelDebug)
	waitFor("level listener", func() bool { return logLevel.Level() == slog.LevelDebug })

	// stage a writer setting of the same update; its listener rebuilds the logger
	before := slog.Default()
	cfg.Logging.ToStdout.Stage(false)
	waitFor("logger rebuild", func() bool { return slog.Default() != before })
	time.Sleep(20 * time.Millisecond)

	// commit both, as the update path does
	cfg.Logging.Level.CommitStaged()
	cfg.Logging.ToStdout.CommitStaged()
	time.Sleep(20 * time.Millisecond)

	if got := cfg.Logging.Level.Read(); got != slog.LevelDebug {
		t.Fatalf("config level = %v, want DEBUG", got)
	}
	if got := logLevel.Level(); got != slog.LevelDebug {
		t.Fatalf("logger follows level %v, but the latest accepted logging.level is DEBUG", got)
	}
	if !slog.Default().Enabled(t.Context(), slog.LevelDebug) {
		t.Fatalf("default logger does not emit DEBUG records after logging.level was set to DEBUG")
	}
}
