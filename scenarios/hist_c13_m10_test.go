// place in: cache
package cache

import (
	"reservoir/config"
	"reservoir/utils/duration"
	"sync"
	"sync/atomic"
	"testing"
	"time"
)

// Two cleanup-interval changes arrive while the janitor is busy inside a cleanup cycle.
// The interval changed last must govern the following cycles.
func TestSeedC13_LastIntervalChangeGovernsWhileJanitorBusy(t *testing.T) {
	ctx := t.Context()
	cfg := config.NewDefault()

	var scans atomic.Int64
	entered := make(chan struct{}, 1)
	release := make(chan struct{})
	var once sync.Once
	var lock sync.RWMutex

	fns := cacheFunctions[TestMeta]{
		cacheIterator: func(yield func(CacheKey, *EntryMetadata[TestMeta]) bool) {
			scans.Add(1)
			first := false
			once.Do(func() { first = true })
			if first {
				// the first cycle is a long one: the janitor is busy until released
				entered <- struct{}{}
				<-release
			}
		},
		removeEntry:  func(CacheKey) error { return nil },
		getCacheSize: func() int64 { return 0 },
		getCacheLen:  func() int { return 0 },
		getLock:      func(CacheKey) *sync.RWMutex { return &lock },
		getMetadata:  func(CacheKey) (*EntryMetadata[TestMeta], bool) { return nil, false },
	}

	j := newCacheJanitor(cfg, 20*time.Millisecond, fns)
	j.start(ctx)
	defer j.stop()

	select {
	case <-entered:
	case <-time.After(5 * time.Second):
		t.Fatal("janitor never ran its first cycle")
	}

	// janitor is busy; the operator changes the interval twice, one change after the other
	// (listeners are notified asynchronously, so give each notification time to be delivered)
	cfg.Cache.CleanupInterval.Overwrite(duration.Duration(2 * time.Hour))
	time.Sleep(100 * time.Millisecond)
	cfg.Cache.CleanupInterval.Overwrite(duration.Duration(30 * time.Millisecond))
	time.Sleep(100 * time.Millisecond)
	close(release)

	// let the janitor take over the changes, then count the cycles of the following second
	time.Sleep(200 * time.Millisecond)
	before := scans.Load()
	time.Sleep(1 * time.Second)
	got := scans.Load() - before
	if got < 5 {
		t.Fatalf("interval in force is 30ms, but only %d cleanup cycles ran in 1s: the last interval change does not govern the cycles", got)
	}
}
