// place in: tests
package tests

import (
	"io"
	"net/http"
	"sync"
	"sync/atomic"
	"testing"
	"time"
)

// N identical unconditional GETs arrive on a stale key. The one shared revalidation is
// answered with a transient 503 by the origin (not storable), so every client has to be
// answered with a fetch of its own. None of the clients sent a validator, so each of them
// must receive the full 200 response - never a bodyless 304 that answers the validators
// the proxy itself attached to the shared revalidation.
func TestSeedC05StaleRevalidationFailureGivesEveryClientAFullAnswer(t *testing.T) {
	env := SetupTestEnv(t)

	const etag = "\"seed-v1\""
	const body = "seed c05 body - complete"

	var conditional int32
	env.Upstream.Config.Handler = http.HandlerFunc(func(w http.ResponseWriter, r *http.Request) {
		if r.Header.Get("If-None-Match") == etag {
			if atomic.AddInt32(&conditional, 1) == 1 {
				// The shared revalidation: hold it so that the other clients pile up,
				// then fail transiently.
				time.Sleep(400 * time.Millisecond)
				w.WriteHeader(http.StatusServiceUnavailable)
				w.Write([]byte("busy"))
				return
			}
			w.Header().Set("ETag", etag)
			w.WriteHeader(http.StatusNotModified)
			return
		}
		w.Header().Set("Cache-Control", "max-age=1")
		w.Header().Set("ETag", etag)
		w.WriteHeader(http.StatusOK)
		w.Write([]byte(body))
	})
	env.Start()

	targetURL := env.Upstream.URL + "/seed-c05-stale"

	// Fill the cache, then let the entry go stale.
	resp, err := env.Client.Get(targetURL)
	if err != nil {
		t.Fatalf("priming request failed: %v", err)
	}
	io.Copy(io.Discard, resp.Body)
	resp.Body.Close()
	time.Sleep(1500 * time.Millisecond)

	const n = 4
	var wg sync.WaitGroup
	start := make(chan struct{})
	statuses := make([]int, n)
	bodies := make([]string, n)
	for i := 0; i < n; i++ {
		wg.Add(1)
		go func(i int) {
			defer wg.Done()
			<-start
			resp, err := env.Client.Get(targetURL)
			if err != nil {
				t.Errorf("client %d: request failed: %v", i, err)
				return
			}
			defer resp.Body.Close()
			b, _ := io.ReadAll(resp.Body)
			statuses[i] = resp.StatusCode
			bodies[i] = string(b)
		}(i)
	}
	close(start)
	wg.Wait()

	for i := 0; i < n; i++ {
		if statuses[i] != http.StatusOK || bodies[i] != body {
			t.Errorf("client %d (sent no validator): got status %d body %q, want 200 %q", i, statuses[i], bodies[i], body)
		}
	}
}
