// place in: proxy
package proxy

import (
	"net/http"
	"net/http/httptest"
	"reservoir/config"
	"testing"
)

// The retry switch proxy.retry_on_invalid_range is changed (and accepted) while the
// proxy is running. Requests with an unsatisfiable Range header for a cached object
// must be handled according to the most recent value of the switch.
func TestDemoC19RetryOnInvalidRangeFollowsLatestSetting(t *testing.T) {
	const body = "0123456789"

	upstream := httptest.NewServer(http.HandlerFunc(func(w http.ResponseWriter, r *http.Request) {
		// An origin without range support: always the full object.
		w.Header().Set("Cache-Control", "max-age=60")
		w.Header().Set("ETag", "\"demo\"")
		w.WriteHeader(http.StatusOK)
		w.Write([]byte(body))
	}))
	defer upstream.Close()

	cfg := config.NewDefault()
	cfg.Proxy.UpstreamDefaultHttps.Stage(false)
	cfg.Proxy.UpstreamDefaultHttps.CommitStaged()
	cfg.Cache.LockShards.Stage(16)
	cfg.Cache.LockShards.CommitStaged()

	if cfg.Proxy.RetryOnInvalidRange.Read() {
		t.Fatal("precondition: retry_on_invalid_range defaults to false")
	}

	p, err := NewProxy(cfg, nil, t.Context())
	if err != nil {
		t.Fatalf("NewProxy: %v", err)
	}
	defer p.Destroy()

	invalidRange := func() *httptest.ResponseRecorder {
		req := httptest.NewRequest(http.MethodGet, upstream.URL+"/object", nil)
		req.Header.Set("Range", "bytes=100-200") // beyond the 10 byte object
		rec := httptest.NewRecorder()
		p.ServeHTTP(rec, req)
		return rec
	}

	// Switch off (initial value): the invalid range is answered with 416.
	if rec := invalidRange(); rec.Code != http.StatusRequestedRangeNotSatisfiable {
		t.Fatalf("retry_on_invalid_range=false: got status %d, want 416", rec.Code)
	}

	// Accepted change: switch on. The request is now retried without the Range header.
	cfg.Proxy.RetryOnInvalidRange.Stage(true)
	cfg.Proxy.RetryOnInvalidRange.CommitStaged()
	if rec := invalidRange(); rec.Code != http.StatusOK || rec.Body.String() != body {
		t.Fatalf("retry_on_invalid_range=true (latest setting %v): got status %d body %q, want 200 %q",
			cfg.Proxy.RetryOnInvalidRange.Read(), rec.Code, rec.Body.String(), body)
	}

	// Accepted change: switch off again.
	cfg.Proxy.RetryOnInvalidRange.Stage(false)
	cfg.Proxy.RetryOnInvalidRange.CommitStaged()
	if rec := invalidRange(); rec.Code != http.StatusRequestedRangeNotSatisfiable {
		t.Fatalf("retry_on_invalid_range=false again (latest setting %v): got status %d, want 416",
			cfg.Proxy.RetryOnInvalidRange.Read(), rec.Code)
	}
}
