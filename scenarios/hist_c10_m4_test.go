// place in: tests
package tests

import (
	"bufio"
	"crypto/tls"
	"fmt"
	"io"
	"net"
	"net/http"
	"net/url"
	"testing"
	"time"
)

// A HEAD for a resource whose origin announces a Content-Length must be answered on the
// tunnel just as over plain HTTP, and the next exchange must get its own response.
func TestSeedC10M2HeadWithContentLengthOnTunnel(t *testing.T) {
	env := SetupHttpsTestEnv(t)
	const payload = "https response body"
	env.Upstream.Config.Handler = http.HandlerFunc(func(w http.ResponseWriter, r *http.Request) {
		w.Header().Set("Cache-Control", "max-age=60")
		w.Header().Set("X-Path", r.URL.Path)
		w.Header().Set("Content-Length", fmt.Sprint(len(payload)))
		w.WriteHeader(http.StatusOK)
		if r.Method != http.MethodHead {
			io.WriteString(w, payload)
		}
	})
	env.Start()

	up, err := url.Parse(env.Upstream.URL)
	if err != nil {
		t.Fatal(err)
	}
	px, err := url.Parse(env.ProxyServer.URL)
	if err != nil {
		t.Fatal(err)
	}

	raw, err := net.DialTimeout("tcp", px.Host, 5*time.Second)
	if err != nil {
		t.Fatal(err)
	}
	defer raw.Close()
	raw.SetDeadline(time.Now().Add(8 * time.Second))

	fmt.Fprintf(raw, "CONNECT %s HTTP/1.1\r\nHost: %s\r\n\r\n", up.Host, up.Host)
	rawBr := bufio.NewReader(raw)
	cresp, err := http.ReadResponse(rawBr, &http.Request{Method: http.MethodConnect})
	if err != nil {
		t.Fatalf("CONNECT failed: %v", err)
	}
	if cresp.StatusCode != 200 {
		t.Fatalf("CONNECT status %d", cresp.StatusCode)
	}

	conn := tls.Client(raw, &tls.Config{InsecureSkipVerify: true})
	if err := conn.Handshake(); err != nil {
		t.Fatalf("handshake: %v", err)
	}
	br := bufio.NewReader(conn)

	// Two exchanges on one tunnel: HEAD /first, then GET /second.
	fmt.Fprintf(conn, "HEAD /first HTTP/1.1\r\nHost: %s\r\n\r\n", up.Host)
	fmt.Fprintf(conn, "GET /second HTTP/1.1\r\nHost: %s\r\n\r\n", up.Host)

	r1, err := http.ReadResponse(br, &http.Request{Method: http.MethodHead})
	if err != nil {
		t.Fatalf("exchange 1 (HEAD): no response: %v", err)
	}
	if r1.StatusCode != 200 {
		t.Errorf("exchange 1 (HEAD): status %d", r1.StatusCode)
	}
	if got := r1.Header.Get("X-Path"); got != "/first" {
		t.Errorf("exchange 1 (HEAD /first) was answered with the response for %q", got)
	}
	if got := r1.Header.Get("Content-Length"); got != fmt.Sprint(len(payload)) {
		t.Errorf("exchange 1 (HEAD): Content-Length %q", got)
	}

	r2, err := http.ReadResponse(br, &http.Request{Method: http.MethodGet})
	if err != nil {
		t.Fatalf("exchange 2 (GET): no response: %v", err)
	}
	body, err := io.ReadAll(r2.Body)
	if err != nil {
		t.Fatalf("exchange 2 (GET): body: %v", err)
	}
	if got := r2.Header.Get("X-Path"); got != "/second" {
		t.Errorf("exchange 2 (GET /second) was answered with the response for %q", got)
	}
	if string(body) != payload {
		t.Errorf("exchange 2 (GET): body %q", body)
	}
}
