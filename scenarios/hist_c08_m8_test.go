// place in: tests
package tests

import (
	"io"
	"net/http"
	"reflect"
	"testing"
)

// A relayed response that is not a 2xx (redirect, authentication challenge, error page) must
// carry the origin's end-to-end headers just like a 200 does.
func TestDemoC08NonSuccessResponsesKeepOriginHeaders(t *testing.T) {
	env := SetupTestEnv(t)

	env.Upstream.Config.Handler = http.HandlerFunc(func(w http.ResponseWriter, r *http.Request) {
		switch r.URL.Path {
		case "/moved":
			w.Header().Set("Location", "http://elsewhere.example/new-place")
			w.Header().Add("Set-Cookie", "a=1; Path=/")
			w.Header().Add("Set-Cookie", "b=2; Path=/")
			w.WriteHeader(http.StatusFound)
		case "/private":
			w.Header().Add("WWW-Authenticate", `Basic realm="one"`)
			w.Header().Add("WWW-Authenticate", `Bearer realm="two"`)
			w.Header().Set("Content-Type", "application/problem+json")
			w.WriteHeader(http.StatusUnauthorized)
			w.Write([]byte(`{"title":"unauthorized"}`))
		case "/busy":
			w.Header().Set("Retry-After", "120")
			w.Header().Set("X-Origin-Note", "overloaded")
			w.WriteHeader(http.StatusServiceUnavailable)
			w.Write([]byte("busy"))
		}
	})
	env.Start()
	// The client must see the redirect itself
	env.Client.CheckRedirect = func(req *http.Request, via []*http.Request) error {
		return http.ErrUseLastResponse
	}

	cases := []struct {
		path   string
		status int
		body   string
		want   http.Header
	}{
		{"/moved", http.StatusFound, "", http.Header{
			"Location":   {"http://elsewhere.example/new-place"},
			"Set-Cookie": {"a=1; Path=/", "b=2; Path=/"},
		}},
		{"/private", http.StatusUnauthorized, `{"title":"unauthorized"}`, http.Header{
			"Www-Authenticate": {`Basic realm="one"`, `Bearer realm="two"`},
			"Content-Type":     {"application/problem+json"},
		}},
		{"/busy", http.StatusServiceUnavailable, "busy", http.Header{
			"Retry-After":   {"120"},
			"X-Origin-Note": {"overloaded"},
		}},
	}

	for _, c := range cases {
		resp, err := env.Client.Get(env.Upstream.URL + c.path)
		if err != nil {
			t.Fatalf("%s: request failed: %v", c.path, err)
		}
		body, _ := io.ReadAll(resp.Body)
		resp.Body.Close()

		if resp.StatusCode != c.status {
			t.Errorf("%s: expected status %d, got %d", c.path, c.status, resp.StatusCode)
		}
		if string(body) != c.body {
			t.Errorf("%s: expected body %q, got %q", c.path, c.body, body)
		}
		for name, values := range c.want {
			if got := resp.Header.Values(name); !reflect.DeepEqual(got, values) {
				t.Errorf("%s: header %s sent by the origin as %q reached the client as %q", c.path, name, values, got)
			}
		}
	}
}
