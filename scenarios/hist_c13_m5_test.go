// place in: cache
package cache

import (
	"bytes"
	"errors"
	"os"
	"reservoir/config"
	"reservoir/utils/bytesize"
	"testing"
	"time"
)

// C13: the size limit is enforced against the real population. An overwrite of an
// existing key with a body of a different size must leave the byte accounting equal
// to the sum of the sizes of the stored entries, so that the next store evicts iff
// the store really is at/over its limit.
func TestC13Demo_OverwriteWithDifferentSizeKeepsLimitEnforced(t *testing.T) {
	newCache := func(t *testing.T) *FileCache[TestMeta] {
		cfg := config.NewDefault()
		cfg.Cache.MaxCacheSize.Overwrite(bytesize.ByteSize(1000))
		dir, err := os.MkdirTemp("", "c13-m1-*")
		if err != nil {
			t.Fatal(err)
		}
		t.Cleanup(func() { os.RemoveAll(dir) })
		c := NewFileCache[TestMeta](cfg, dir, 1000, time.Hour, 16, t.Context())
		t.Cleanup(c.Destroy)
		return c
	}
	put := func(t *testing.T, c *FileCache[TestMeta], key string, n int) {
		e, err := c.Cache(FromString(key), bytes.NewReader(make([]byte, n)), time.Now().Add(time.Hour), TestMeta{})
		if err != nil {
			t.Fatalf("Cache(%s,%d): %v", key, n, err)
		}
		e.Data.Close()
		time.Sleep(5 * time.Millisecond) // distinct LastAccess
	}
	present := func(c *FileCache[TestMeta], key string) bool {
		_, _, err := c.GetMetadata(FromString(key))
		return !errors.Is(err, ErrCacheEntryNotFound)
	}
	realSize := func(c *FileCache[TestMeta]) int64 {
		c.mu.RLock()
		defer c.mu.RUnlock()
		var sum int64
		for _, m := range c.entriesMetadata {
			sum += m.Size
		}
		return sum
	}

	t.Run("grown overwrite still counts", func(t *testing.T) {
		c := newCache(t)
		put(t, c, "a", 100)
		put(t, c, "a", 900) // overwrite: real population is 900 bytes
		put(t, c, "b", 200) // 900 < 1000: no eviction, population 1100 (over the limit)
		if got := c.byteSize.Get(); got != realSize(c) {
			t.Errorf("accounted size %d != real size of stored entries %d", got, realSize(c))
		}
		put(t, c, "c", 10) // store while over the limit: must evict down to <= 800 first
		if present(c, "a") {
			t.Errorf("store at 1100/1000 bytes did not evict the least recently used entry 'a'")
		}
		if sz := realSize(c); sz > 800+10 {
			t.Errorf("after the triggering store the population is %d bytes, want <= 810", sz)
		}
	})

	t.Run("shrunk overwrite does not keep counting", func(t *testing.T) {
		c := newCache(t)
		put(t, c, "a", 900)
		put(t, c, "a", 100) // overwrite: real population is 100 bytes
		put(t, c, "b", 150) // population 250
		put(t, c, "c", 10)  // 250 < 1000: nothing may be evicted
		if !present(c, "a") || !present(c, "b") {
			t.Errorf("entries evicted although the store held only 250 of 1000 bytes (a present=%v, b present=%v)", present(c, "a"), present(c, "b"))
		}
	})
}
