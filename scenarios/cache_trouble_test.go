package tests

import (
	"fmt"
	"io"
	"net/http"
	"net/http/httptest"
	"reservoir/config"
	"reservoir/logging"
	"reservoir/proxy"
	"testing"
	"time"
)

// govcEnv is SetupTestEnv with a hook to adjust the configuration before the proxy is built.
func govcEnv(t *testing.T, adjust func(cfg *config.Config)) *TestEnv {
	cacheDir := t.TempDir()
	upstream := httptest.NewUnstartedServer(http.NotFoundHandler())
	cfg := config.NewDefault()
	cfg.Proxy.UpstreamDefaultHttps.Overwrite(false)
	cfg.Cache.File.Dir.Overwrite(cacheDir)
	cfg.Proxy.RetryOnRange416.Overwrite(false)
	cfg.Proxy.CachePolicy.IgnoreCacheControl.Overwrite(false)
	cfg.Proxy.CachePolicy.ForceDefaultMaxAge.Overwrite(false)
	cfg.Cache.Type.Overwrite(config.CacheTypeMemory)
	cfg.Cache.LockShards.Overwrite(32)
	cfg.Logging.ToStdout.Overwrite(false)
	adjust(cfg)
	logging.Init(cfg)
	p, err := proxy.NewProxy(cfg, &FakeCA{}, t.Context())
	if err != nil {
		t.Fatalf("Failed to create proxy: %v", err)
	}
	proxyServer := httptest.NewUnstartedServer(p)
	client := &http.Client{Transport: &http.Transport{}}
	t.Cleanup(func() {
		upstream.Close()
		proxyServer.Close()
		time.Sleep(100 * time.Millisecond)
		p.Destroy()
		client.Transport.(*http.Transport).CloseIdleConnections()
	})
	return &TestEnv{Upstream: upstream, ProxyServer: proxyServer, Client: client, Proxy: p, Cfg: cfg, CacheDir: cacheDir, T: t}
}

func govcGet(t *testing.T, env *TestEnv, path string) (int, string) {
	resp, err := env.Client.Get(env.Upstream.URL + path)
	if err != nil {
		t.Fatalf("GET %s: %v", path, err)
	}
	defer resp.Body.Close()
	b, _ := io.ReadAll(resp.Body)
	return resp.StatusCode, string(b)
}

// Scenario for C09: the origin answers 200 every time; whatever the cache does with
// the answer (refuses it because it is empty, has no room for it), the client must
// receive the origin's answer.
func TestGovcScenarioCacheTroubleIsNotAnError(t *testing.T) {
	t.Run("file cache, empty body", func(t *testing.T) {
		env := govcEnv(t, func(cfg *config.Config) { cfg.Cache.Type.Overwrite(config.CacheTypeFile) })
		env.Upstream.Config.Handler = http.HandlerFunc(func(w http.ResponseWriter, r *http.Request) {
			w.Header().Set("Cache-Control", "max-age=60")
			w.Header().Set("X-Origin", "yes")
			w.WriteHeader(http.StatusOK)
		})
		env.Start()
		for i := 0; i < 2; i++ {
			status, body := govcGet(t, env, "/empty")
			if status != http.StatusOK || body != "" {
				t.Errorf("request %d: origin answered 200 with an empty body, client received %d %q", i+1, status, body)
			}
		}
	})
	t.Run("memory cache, no room and nothing evictable", func(t *testing.T) {
		env := govcEnv(t, func(cfg *config.Config) {
			cfg.Cache.LockShards.Overwrite(1)
			cfg.Cache.MaxCacheSize.Overwrite(16)
		})
		env.Upstream.Config.Handler = http.HandlerFunc(func(w http.ResponseWriter, r *http.Request) {
			w.Header().Set("Cache-Control", "max-age=60")
			fmt.Fprintf(w, "body of %s, longer than sixteen bytes", r.URL.Path)
		})
		env.Start()
		for _, p := range []string{"/a", "/b", "/c"} {
			status, body := govcGet(t, env, p)
			want := fmt.Sprintf("body of %s, longer than sixteen bytes", p)
			if status != http.StatusOK || body != want {
				t.Errorf("GET %s: origin answered 200 %q, client received %d %q", p, want, status, body)
			}
		}
	})
}
