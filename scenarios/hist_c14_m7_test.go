// place in: cache
// File backend only: a store that finds the cache full (store-triggered eviction) or a
// janitor expiry cycle must complete; the eviction must not wait for a lock it already holds.
package cache

import (
	"bytes"
	"reservoir/config"
	"testing"
	"time"
)

func TestSeedC14M1_FileCacheEvictionAndExpiryComplete(t *testing.T) {
	cfg := config.NewDefault()

	for _, shards := range []int{1, 3, 16} {
		dir := t.TempDir()
		// limit 100 bytes, janitor effectively never ticks on its own
		c := NewFileCache[TestMeta](cfg, dir, 100, time.Hour, shards, t.Context())

		run := func(what string, fn func()) {
			t.Helper()
			done := make(chan struct{})
			go func() {
				defer close(done)
				fn()
			}()
			select {
			case <-done:
			case <-time.After(5 * time.Second):
				t.Fatalf("shards=%d: %s did not complete (deadlock)", shards, what)
			}
		}

		store := func(name string, expires time.Time) {
			run("store "+name, func() {
				e, err := c.Cache(FromString(name), bytes.NewReader(make([]byte, 80)), expires, TestMeta{})
				if err != nil {
					t.Errorf("shards=%d: store %s failed: %v", shards, name, err)
					return
				}
				e.Data.Close()
			})
		}

		// 1. store-triggered eviction: 160 bytes >= 100 when the third store starts
		store("a", time.Now().Add(time.Hour))
		store("b", time.Now().Add(time.Hour))
		store("c", time.Now().Add(time.Hour))

		// every entry must still be reachable afterwards (no shard lock left behind)
		for _, name := range []string{"a", "b", "c"} {
			run("get "+name, func() {
				if e, err := c.Get(FromString(name)); err == nil {
					e.Data.Close()
				}
			})
		}

		// 2. expiry cleanup cycle with an expired entry present
		store("old", time.Now().Add(-time.Second))
		run("cleanup cycle", func() {
			c.janitor.cleanExpiredEntries()
			c.janitor.ensureCacheSize()
		})
		run("get old", func() {
			if e, err := c.Get(FromString("old")); err == nil {
				e.Data.Close()
				t.Errorf("shards=%d: expired entry survived the cleanup cycle", shards)
			}
		})

		c.Destroy()
	}
}
