// place in: cache
package cache

import (
	"bufio"
	"net/http"
	"strings"
	"testing"
)

func c02m1Key(t *testing.T, target string) CacheKey {
	t.Helper()
	raw := "GET " + target + " HTTP/1.1\r\nHost: example.com\r\n\r\n"
	req, err := http.ReadRequest(bufio.NewReader(strings.NewReader(raw)))
	if err != nil {
		t.Fatalf("cannot parse request for %q: %v", target, err)
	}
	return MakeFromRequest(req)
}

// A last segment made only of three or more dots ("...") is an ordinary name, not a
// dot-segment: /files/... and /files/.../ are different resources.
func TestC02DotsOnlySegmentIsNotADirectory(t *testing.T) {
	distinct := [][2]string{
		{"http://example.com/files/...", "http://example.com/files/.../"},
		{"http://example.com/...", "http://example.com/.../"},
		{"http://example.com/a/....", "http://example.com/a/..../"},
		{"http://example.com/a", "http://example.com/a/"},
		{"http://example.com/a/b/..", "http://example.com/a"},
	}
	for _, p := range distinct {
		if c02m1Key(t, p[0]) == c02m1Key(t, p[1]) {
			t.Errorf("%q and %q share a cache key", p[0], p[1])
		}
	}
	same := [][2]string{
		{"http://example.com/a/.", "http://example.com/a/"},
		{"http://example.com/a/b/..", "http://example.com/a/"},
		{"http://example.com/a/./b", "http://example.com/a/b"},
		{"http://EXAMPLE.com/a//b", "http://example.com/a/b"},
	}
	for _, p := range same {
		if c02m1Key(t, p[0]) != c02m1Key(t, p[1]) {
			t.Errorf("%q and %q should share a cache key", p[0], p[1])
		}
	}
}
