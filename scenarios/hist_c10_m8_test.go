// place in: tests
package tests

import (
	"io"
	"net/http"
	"net/http/httptest"
	"testing"
)

func m2Get(t *testing.T, client *http.Client, url string) (int, string, string) {
	t.Helper()
	resp, err := client.Get(url)
	if err != nil {
		t.Fatalf("GET %s: %v", url, err)
	}
	defer resp.Body.Close()
	body, err := io.ReadAll(resp.Body)
	if err != nil {
		t.Fatalf("GET %s: reading body: %v", url, err)
	}
	return resp.StatusCode, resp.Header.Get("X-Cache"), string(body)
}

// The same path requested from two different origins through CONNECT tunnels must be
// answered by the origin named in each request, exactly as with plain proxying: a stored
// response of one origin must never be served for the other.
func TestTunnelSamePathTwoOrigins(t *testing.T) {
	env := SetupHttpsTestEnv(t)
	env.Upstream.Config.Handler = http.HandlerFunc(func(w http.ResponseWriter, r *http.Request) {
		w.Header().Set("Cache-Control", "max-age=60")
		w.Header().Set("X-Origin", "A")
		w.Write([]byte("body-of-origin-A"))
	})
	// A second origin; httptest servers share one certificate, which env.Start makes trusted
	originB := httptest.NewTLSServer(http.HandlerFunc(func(w http.ResponseWriter, r *http.Request) {
		w.Header().Set("Cache-Control", "max-age=60")
		w.Header().Set("X-Origin", "B")
		w.Write([]byte("body-of-origin-B!"))
	}))
	defer originB.Close()
	env.Start()

	const path = "/shared/asset.js?v=1"

	status, xc, body := m2Get(t, env.Client, env.Upstream.URL+path)
	if status != 200 || body != "body-of-origin-A" {
		t.Fatalf("origin A, first request: status %d body %q", status, body)
	}
	if xc != "MISS" {
		t.Fatalf("origin A, first request: X-Cache %q, want MISS", xc)
	}

	status, xc, body = m2Get(t, env.Client, originB.URL+path)
	if status != 200 || body != "body-of-origin-B!" {
		t.Fatalf("origin B through a tunnel got status %d body %q (X-Cache %q), want body-of-origin-B!", status, body, xc)
	}
	if xc != "MISS" {
		t.Errorf("origin B, first request: X-Cache %q, want MISS", xc)
	}

	// both are stored now, each under its own origin
	status, xc, body = m2Get(t, env.Client, env.Upstream.URL+path)
	if status != 200 || body != "body-of-origin-A" || xc != "HIT" {
		t.Errorf("origin A, second request: status %d X-Cache %q body %q", status, xc, body)
	}
	status, xc, body = m2Get(t, env.Client, originB.URL+path)
	if status != 200 || body != "body-of-origin-B!" || xc != "HIT" {
		t.Errorf("origin B, second request: status %d X-Cache %q body %q", status, xc, body)
	}
}
