// place in: cache
// (no race detector needed; deterministic, calls the janitor's expiry pass directly)
package cache

import (
	"bytes"
	"os"
	"reservoir/config"
	"reservoir/metrics"
	"testing"
	"time"
)

// File backend: store a key, let the janitor expire it, store the same key again.
// Afterwards reported size / entry count must equal what is in the directory and
// what the cache can return.
func TestC12Demo_FileCacheRestoreAfterExpiryKeepsCountersExact(t *testing.T) {
	cfg := config.NewDefault()
	// The metrics are process wide: start from a clean slate for this cache.
	metrics.Global.Cache.BytesCached.Set(0)
	metrics.Global.Cache.CacheEntries.Set(0)

	dir := t.TempDir()
	// Janitor ticker effectively disabled (1h); the expiry pass is run by hand.
	c := NewFileCache[TestMeta](cfg, dir, 1024*1024*1024, time.Hour, 16, t.Context())
	defer c.Destroy()

	key := FromString("c12-refetched")

	e, err := c.Cache(key, bytes.NewReader(make([]byte, 100)), time.Now().Add(-time.Second), TestMeta{})
	if err != nil {
		t.Fatalf("first Cache: %v", err)
	}
	e.Data.Close()

	c.janitor.cleanExpiredEntries()

	if _, err := c.Get(key); err != ErrCacheEntryNotFound {
		t.Errorf("Get after expiry pass: got %v, want ErrCacheEntryNotFound", err)
	}
	if n := c.janitor.cacheFns.getCacheLen(); n != 0 {
		t.Errorf("index length after expiry pass = %d, want 0", n)
	}

	// The object is fetched again and stored under the same key
	e, err = c.Cache(key, bytes.NewReader(make([]byte, 40)), time.Now().Add(time.Hour), TestMeta{})
	if err != nil {
		t.Fatalf("second Cache: %v", err)
	}
	e.Data.Close()

	// What is really on disk
	var dirFiles, dirBytes int64
	des, err := os.ReadDir(dir)
	if err != nil {
		t.Fatal(err)
	}
	for _, de := range des {
		info, err := de.Info()
		if err != nil {
			t.Fatal(err)
		}
		dirFiles++
		dirBytes += info.Size()
	}
	if dirFiles != 1 || dirBytes != 40 {
		t.Fatalf("unexpected directory content: %d files, %d bytes", dirFiles, dirBytes)
	}
	got, err := c.Get(key)
	if err != nil {
		t.Fatalf("Get after re-store: %v", err)
	}
	got.Data.Close()

	if v := c.byteSize.Get(); v != dirBytes {
		t.Errorf("internal byte counter = %d, want %d", v, dirBytes)
	}
	if v := metrics.Global.Cache.BytesCached.Get(); v != dirBytes {
		t.Errorf("reported bytes = %d, want %d", v, dirBytes)
	}
	if v := metrics.Global.Cache.CacheEntries.Get(); v != dirFiles {
		t.Errorf("reported entries = %d, want %d", v, dirFiles)
	}
	if n := c.janitor.cacheFns.getCacheLen(); int64(n) != dirFiles {
		t.Errorf("index length = %d, want %d", n, dirFiles)
	}
}
