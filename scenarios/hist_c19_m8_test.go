// place in: cache
package cache

import (
	"bytes"
	"errors"
	"testing"
	"time"

	"reservoir/config"
)

// cache.memory.memory_budget_percent accepts the whole range 0..100 (see
// CacheConfig.verify). A live memory cache has to follow a change to the
// boundary value 0 like any other accepted value.
func TestC19MemoryBudgetBoundaryValueIsFollowed(t *testing.T) {
	cfg := config.NewDefault()
	c := NewMemoryCache[TestMeta](cfg, 50, 1024*1024*1024, time.Hour, 16, t.Context())
	defer c.Destroy()

	readCap := func() int64 {
		c.mu.RLock()
		defer c.mu.RUnlock()
		return c.memoryCap
	}
	waitCap := func(what string, cond func(int64) bool) {
		t.Helper()
		deadline := time.Now().Add(2 * time.Second)
		for !cond(readCap()) {
			if time.Now().After(deadline) {
				t.Fatalf("%s: memory cap is %d", what, readCap())
			}
			time.Sleep(2 * time.Millisecond)
		}
	}
	change := func(percent int) {
		cfg.Cache.Memory.MemoryBudgetPercent.Stage(percent)
		cfg.Cache.Memory.MemoryBudgetPercent.CommitStaged()
	}

	initial := readCap()
	if initial <= 0 {
		t.Skip("no system memory information")
	}

	// an ordinary change is followed
	change(10)
	waitCap("budget 10% not followed", func(v int64) bool { return v > 0 && v < initial })

	// the accepted boundary value 0 must be followed as well
	change(0)
	if got := cfg.Cache.Memory.MemoryBudgetPercent.Read(); got != 0 {
		t.Fatalf("config value = %d, want 0", got)
	}
	waitCap("latest accepted memory budget (0%) not followed by the live cache", func(v int64) bool { return v == 0 })

	// with a zero budget nothing may be stored any more
	_, err := c.Cache(FromString("k"), bytes.NewReader([]byte("payload")), time.Now().Add(time.Hour), TestMeta{ID: "m"})
	if !errors.Is(err, ErrCacheMemoryExceeded) {
		t.Fatalf("Cache with 0%% memory budget: err = %v, want ErrCacheMemoryExceeded", err)
	}

	// and a later change is followed again
	change(100)
	waitCap("budget 100% not followed", func(v int64) bool { return v >= initial })
}
