// place in: cache
package cache

import (
	"bytes"
	"context"
	"io"
	"testing"
	"time"

	"reservoir/config"
)

// Two distinct resources stored one after the other in the memory cache must keep
// their own bytes: reading the first one back must never yield the second one's body.
func TestDemoC02MemoryEntriesDoNotShareBytes(t *testing.T) {
	ctx, cancel := context.WithCancel(context.Background())
	defer cancel()
	c := NewMemoryCache[string](config.NewDefault(), 50, 1<<30, time.Hour, 16, ctx)
	defer c.Destroy()

	for _, size := range []int{100, 600, 3000, 5000, 20000, 100000} {
		bodyA := bytes.Repeat([]byte("a"), size)
		keyA := FromString("GET|example.com|/a|" + string(rune('0'+size%10)) + time.Now().String())
		if _, err := c.Cache(keyA, bytes.NewReader(bodyA), time.Now().Add(time.Hour), "A"); err != nil {
			t.Fatalf("store A: %v", err)
		}
		for i := 0; i < 4; i++ {
			bodyB := bytes.Repeat([]byte("b"), size)
			keyB := FromString("GET|example.com|/b|" + time.Now().String() + string(rune('0'+i)))
			if _, err := c.Cache(keyB, bytes.NewReader(bodyB), time.Now().Add(time.Hour), "B"); err != nil {
				t.Fatalf("store B: %v", err)
			}
		}
		e, err := c.Get(keyA)
		if err != nil {
			t.Fatalf("get A: %v", err)
		}
		got, _ := io.ReadAll(e.Data)
		if !bytes.Equal(got, bodyA) {
			t.Fatalf("size %d: resource /a answered with bytes of another resource (first bytes %q)", size, got[:8])
		}
	}
}
