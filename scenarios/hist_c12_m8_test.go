// place in: cache
package cache

import (
	"bytes"
	"os"
	"reservoir/config"
	"reservoir/utils/bytesize"
	"testing"
	"time"
)

// A live change of the configured maximum cache size must not disturb the reported size:
// it still has to equal the bytes of the stored entries and of the files in the directory.
func TestSeedC12M2_MaxCacheSizeChangeKeepsReportedSize(t *testing.T) {
	ctx := t.Context()
	cfg := config.NewDefault()

	tmpDir, err := os.MkdirTemp("", "reservoir-seed-c12-m2-*")
	if err != nil {
		t.Fatalf("Failed to create tmp dir: %v", err)
	}
	defer os.RemoveAll(tmpDir)

	c := NewFileCache[TestMeta](cfg, tmpDir, 1024*1024*1024, time.Hour, 16, ctx)
	defer c.Destroy()

	store := func(name string, size int) {
		t.Helper()
		entry, err := c.Cache(FromString(name), bytes.NewReader(bytes.Repeat([]byte("x"), size)), time.Now().Add(time.Hour), TestMeta{})
		if err != nil {
			t.Fatalf("Cache %s failed: %v", name, err)
		}
		entry.Data.Close()
	}
	store("seed-c12-m2-a", 100)
	store("seed-c12-m2-b", 200)

	check := func(when string) {
		t.Helper()
		var indexBytes int64
		c.mu.RLock()
		indexLen := len(c.entriesMetadata)
		for _, meta := range c.entriesMetadata {
			indexBytes += meta.Size
		}
		c.mu.RUnlock()

		var dirBytes int64
		dirFiles := 0
		dirEntries, err := os.ReadDir(tmpDir)
		if err != nil {
			t.Fatalf("ReadDir failed: %v", err)
		}
		for _, de := range dirEntries {
			info, err := de.Info()
			if err != nil {
				t.Fatalf("Info failed: %v", err)
			}
			dirFiles++
			dirBytes += info.Size()
		}

		reported := c.byteSize.Get()
		if reported != indexBytes || reported != dirBytes || indexLen != dirFiles {
			t.Fatalf("%s: reported size %d, stored entries %d (%d bytes), directory %d files (%d bytes)",
				when, reported, indexLen, indexBytes, dirFiles, dirBytes)
		}
	}

	check("before config change")

	// Operator lowers the maximum cache size at runtime (still far above what is stored).
	newMax := bytesize.ParseUnchecked("1M")
	cfg.Cache.MaxCacheSize.Overwrite(newMax)

	// The change listeners run asynchronously: wait until the cache has seen the change.
	deadline := time.Now().Add(2 * time.Second)
	for time.Now().Before(deadline) {
		if c.maxCacheSize.Get() == newMax.Bytes() || c.byteSize.Get() != 300 {
			break
		}
		time.Sleep(5 * time.Millisecond)
	}

	check("after config change")

	// ... and it stays right after further operations.
	store("seed-c12-m2-c", 50)
	check("after config change and one more store")
	if err := c.Delete(FromString("seed-c12-m2-a")); err != nil {
		t.Fatalf("Delete failed: %v", err)
	}
	check("after config change, store and delete")
}
