package tests

import (
	"io"
	"net/http"
	"sync"
	"testing"
)

// Scenario for C06: conditional request headers sent by the client never reach the
// origin, whatever their form (a date that does not parse, an empty first value).
func TestGovcScenarioClientConditionalsNotForwarded(t *testing.T) {
	env := SetupTestEnv(t)
	var mu sync.Mutex
	seen := map[string][]string{}
	env.Upstream.Config.Handler = http.HandlerFunc(func(w http.ResponseWriter, r *http.Request) {
		mu.Lock()
		for _, h := range []string{"If-None-Match", "If-Modified-Since", "If-Match", "If-Unmodified-Since"} {
			if v, ok := r.Header[h]; ok {
				seen[r.URL.Path+" "+h] = v
			}
		}
		mu.Unlock()
		w.Header().Set("Cache-Control", "max-age=60")
		w.Write([]byte("body"))
	})
	env.Start()
	cases := []struct {
		path string
		hdr  http.Header
	}{
		{"/a", http.Header{"If-Modified-Since": {"yesterday"}}},
		{"/b", http.Header{"If-None-Match": {"", `"abc"`}}},
		{"/c", http.Header{"If-Unmodified-Since": {"0"}}},
		{"/d", http.Header{"If-Match": {"", `"abc"`}}},
		{"/e", http.Header{"If-None-Match": {`"abc"`}, "If-Modified-Since": {"Mon, 02 Jan 2006 15:04:05 GMT"}}},
	}
	for _, c := range cases {
		req, _ := http.NewRequest("GET", env.Upstream.URL+c.path, nil)
		for k, v := range c.hdr {
			req.Header[k] = v
		}
		resp, err := env.Client.Do(req)
		if err != nil {
			t.Fatal(err)
		}
		io.Copy(io.Discard, resp.Body)
		resp.Body.Close()
	}
	mu.Lock()
	defer mu.Unlock()
	for k, v := range seen {
		t.Errorf("origin received the client's conditional header: %s = %q", k, v)
	}
}
