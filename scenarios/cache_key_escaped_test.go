package tests

import (
	"io"
	"net/http"
	"testing"
)

// Scenario for C02: a percent-encoded slash is data, not a separator (RFC 3986 2.2):
// /x%2Fy and /x/y are different resources and the origin is asked for each as written.
func TestGovcScenarioEncodedSlashIsNotASeparator(t *testing.T) {
	env := SetupTestEnv(t)
	env.Upstream.Config.Handler = http.HandlerFunc(func(w http.ResponseWriter, r *http.Request) {
		w.Header().Set("Cache-Control", "max-age=60")
		io.WriteString(w, "wire-path="+r.URL.EscapedPath())
	})
	env.Start()
	get := func(target string) string {
		resp, err := env.Client.Get(env.Upstream.URL + target)
		if err != nil {
			t.Fatal(err)
		}
		defer resp.Body.Close()
		b, _ := io.ReadAll(resp.Body)
		return string(b)
	}
	pairs := [][2]string{
		{"/x%2Fy", "/x/y"},
		{"/files/a%2Fb.txt", "/files/a/b.txt"},
		{"/q/%2E%2E%2Fsecret", "/secret"},
	}
	for _, p := range pairs {
		first := get(p[0])
		second := get(p[1])
		if first == second {
			t.Errorf("%s and %s are different resources but the second request was answered with the entry of the first: %q", p[0], p[1], second)
		}
	}
}
