// place in: cache
package cache

import (
	"bufio"
	"net/http"
	"strings"
	"sync"
	"testing"
	"time"
)

func c02m1Request(t *testing.T, raw string) *http.Request {
	t.Helper()
	req, err := http.ReadRequest(bufio.NewReader(strings.NewReader(raw)))
	if err != nil {
		t.Fatalf("cannot parse request %q: %v", raw, err)
	}
	return req
}

// Two clients ask for two different resources at the same time. The key computed for
// a request must depend on that request alone: a request for /a must never be given
// the key of (and so be answered from the entry of) /b, whatever else is going on.
func TestC02DistinctResourcesNeverGetSameKeyConcurrently(t *testing.T) {
	reqA := c02m1Request(t, "GET /downloads/a.tar.gz HTTP/1.1\r\nHost: example.com\r\n\r\n")
	reqB := c02m1Request(t, "GET /downloads/b.tar.gz HTTP/1.1\r\nHost: example.com\r\n\r\n")

	wantA := MakeFromRequest(reqA)
	wantB := MakeFromRequest(reqB)
	if wantA == wantB {
		t.Fatalf("distinct resources share a key even sequentially: %s", wantA.Hex)
	}

	const rounds = 300000
	deadline := time.Now().Add(20 * time.Second)

	run := func(req *http.Request, want CacheKey, seen map[CacheKey]int, wg *sync.WaitGroup) {
		defer wg.Done()
		defer func() {
			if r := recover(); r != nil {
				seen[CacheKey{Hex: "panic"}]++
			}
		}()
		for i := 0; i < rounds && time.Now().Before(deadline); i++ {
			got := MakeFromRequest(req)
			if got != want {
				seen[got]++
			}
		}
	}

	var wg sync.WaitGroup
	oddA := map[CacheKey]int{}
	oddB := map[CacheKey]int{}
	wg.Add(2)
	go run(reqA, wantA, oddA, &wg)
	go run(reqB, wantB, oddB, &wg)
	wg.Wait()

	if n := oddA[wantB]; n > 0 {
		t.Errorf("request for /downloads/a.tar.gz was given the key of /downloads/b.tar.gz %d times", n)
	}
	if n := oddB[wantA]; n > 0 {
		t.Errorf("request for /downloads/b.tar.gz was given the key of /downloads/a.tar.gz %d times", n)
	}
	for k := range oddA {
		if _, both := oddB[k]; both {
			t.Errorf("both resources were given the same key %s", k.Hex)
		}
	}
	if len(oddA) > 0 || len(oddB) > 0 {
		t.Errorf("key is not a function of the request: %d/%d unexpected keys for a/b", len(oddA), len(oddB))
	}
}
