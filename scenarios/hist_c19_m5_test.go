// place in: cache
package cache

import (
	"reservoir/config"
	"reservoir/utils/duration"
	"sync"
	"testing"
	"time"
)

// Two accepted changes of cache.cleanup_interval follow one another while the
// janitor is busy with a (long) cleanup cycle. Once the cycle is over the janitor
// must end up ticking with the most recent interval.
func TestDemoC19JanitorFollowsLatestIntervalWhileBusy(t *testing.T) {
	cfg := config.NewDefault()

	gate := make(chan struct{})
	entered := make(chan struct{}, 1)
	seen := make(chan time.Duration, 4096)
	var once sync.Once
	var lock sync.RWMutex

	var j *cacheJanitor[TestMeta]
	fns := cacheFunctions[TestMeta]{
		// Runs on the janitor goroutine, once per cleanup cycle.
		cacheIterator: func(yield func(CacheKey, *EntryMetadata[TestMeta]) bool) {
			once.Do(func() {
				entered <- struct{}{}
				<-gate // a long first cleanup cycle
			})
			select {
			case seen <- j.interval: // same goroutine as the writer of j.interval
			default:
			}
		},
		removeEntry:  func(CacheKey) error { return nil },
		getCacheSize: func() int64 { return 0 },
		getCacheLen:  func() int { return 0 },
		getLock:      func(CacheKey) *sync.RWMutex { return &lock },
	}

	j = newCacheJanitor(cfg, 5*time.Millisecond, fns)
	j.start(t.Context())
	defer j.stop()

	select {
	case <-entered:
	case <-time.After(3 * time.Second):
		close(gate)
		t.Fatal("janitor never started a cleanup cycle")
	}

	first := 20 * time.Millisecond
	latest := 40 * time.Millisecond

	// First accepted change; wait until its notification has been delivered.
	cfg.Cache.CleanupInterval.Stage(duration.Duration(first))
	cfg.Cache.CleanupInterval.CommitStaged()
	deadline := time.Now().Add(3 * time.Second)
	for len(j.intervalChanged) == 0 {
		if time.Now().After(deadline) {
			close(gate)
			t.Fatal("first interval change was never handed to the janitor")
		}
		time.Sleep(time.Millisecond)
	}

	// Second accepted change, while the janitor is still busy.
	cfg.Cache.CleanupInterval.Stage(duration.Duration(latest))
	cfg.Cache.CleanupInterval.CommitStaged()
	time.Sleep(150 * time.Millisecond) // let the asynchronous notification run

	close(gate) // the long cleanup cycle ends

	var last time.Duration
	timeout := time.After(3 * time.Second)
	for {
		select {
		case last = <-seen:
			if last == latest {
				return // follows the most recent value
			}
		case <-timeout:
			t.Fatalf("janitor does not follow the latest cleanup interval: runs with %v, configured %v",
				last, cfg.Cache.CleanupInterval.Read().Cast())
		}
	}
}
