// place in: config
package config

import (
	"testing"
)

// A rejected API update must not influence what a later, unrelated and
// successful update writes to the config file: the file has to read back to
// exactly the settings that are in effect.
func TestSeedC17M2_RejectedUpdateNotSaved(t *testing.T) {
	cfg := NewDefault()
	before := cfg.Cache.MaxCacheSize.Read()

	// An update that is rejected as a whole because one of its values is malformed.
	// Depending on map iteration order the valid sibling may or may not be looked at
	// before the malformed one, so repeat it a number of times.
	for i := 0; i < 64; i++ {
		bad := map[string]any{
			"cache": map[string]any{
				"max_cache_size": "5G",
				"lock_shards":    "not-a-number",
			},
		}
		if _, err := UpdatePartialFromConfig(cfg, bad); err == nil {
			t.Fatalf("malformed update unexpectedly accepted")
		}
	}
	if got := cfg.Cache.MaxCacheSize.Read(); got != before {
		t.Fatalf("rejected update changed the effective max_cache_size: %v -> %v", before, got)
	}

	// A later, unrelated update that succeeds and persists the config.
	good := map[string]any{
		"logging": map[string]any{
			"to_stdout": true,
		},
	}
	if status, err := UpdatePartialFromConfig(cfg, good); err != nil || status == UpdateStatusFailed {
		t.Fatalf("valid update failed: status=%v err=%v", status, err)
	}

	loaded, err := load(configPath.Path)
	if err != nil {
		t.Fatalf("saved config does not load: %v", err)
	}
	if got, want := loaded.Cache.MaxCacheSize.Read(), cfg.Cache.MaxCacheSize.Read(); got != want {
		t.Errorf("saved config reads back max_cache_size=%v, effective setting is %v", got, want)
	}
	if got, want := loaded.Cache.LockShards.Read(), cfg.Cache.LockShards.Read(); got != want {
		t.Errorf("saved config reads back lock_shards=%v, effective setting is %v", got, want)
	}
	if got, want := loaded.Logging.ToStdout.Read(), cfg.Logging.ToStdout.Read(); got != want {
		t.Errorf("saved config reads back to_stdout=%v, effective setting is %v", got, want)
	}
}
