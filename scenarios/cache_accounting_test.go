package cache

import (
	"bytes"
	"errors"
	"io"
	"os"
	"testing"
	"time"

	"reservoir/config"
)

type govcMeta struct{ ID string }

type govcFailingReader struct {
	data []byte
	pos  int
}

func (r *govcFailingReader) Read(p []byte) (int, error) {
	if r.pos >= len(r.data) {
		return 0, errors.New("origin transfer aborted")
	}
	n := copy(p, r.data[r.pos:])
	r.pos += n
	return n, nil
}

func govcDirSize(t *testing.T, dir string) (bytes int64, files int) {
	ents, err := os.ReadDir(dir)
	if err != nil {
		t.Fatalf("read dir: %v", err)
	}
	for _, e := range ents {
		info, err := e.Info()
		if err == nil && !e.IsDir() {
			bytes += info.Size()
			files++
		}
	}
	return
}

// Scenario for C12 (memory backend): reported size equals what Get can return
// after stores, an overwrite of an existing key, a failed store and deletes.
func TestGovcScenarioMemoryAccounting(t *testing.T) {
	cfg := config.NewDefault()
	c := NewMemoryCache[govcMeta](cfg, 50, 1<<30, time.Hour, 4, t.Context())
	defer c.Destroy()
	exp := time.Now().Add(time.Hour)
	k1, k2 := FromString("k1"), FromString("k2")
	store := func(k CacheKey, body string) {
		e, err := c.Cache(k, bytes.NewReader([]byte(body)), exp, govcMeta{})
		if err != nil {
			t.Fatalf("store: %v", err)
		}
		e.Data.Close()
	}
	check := func(step string, want int64, wantEntries int) {
		if got := c.byteSize.Get(); got != want {
			t.Errorf("%s: reported size %d, stored bytes %d", step, got, want)
		}
		if got := len(c.entries); got != wantEntries {
			t.Errorf("%s: %d entries, want %d", step, got, wantEntries)
		}
	}
	store(k1, "abc")
	check("first store", 3, 1)
	store(k1, "defgh") // overwrite of an existing key
	check("overwrite", 5, 1)
	store(k2, "xy")
	check("second key", 7, 2)
	if _, err := c.Cache(k2, &govcFailingReader{data: []byte("partial")}, exp, govcMeta{}); err == nil {
		t.Fatalf("failing reader stored")
	}
	check("failed store", 7, 2)
	c.Delete(k1)
	check("delete", 2, 1)
	c.Delete(k2)
	check("delete all", 0, 0)
}

// Scenario for C12 (file backend): the same history, compared with the directory content.
func TestGovcScenarioFileAccounting(t *testing.T) {
	cfg := config.NewDefault()
	dir := t.TempDir()
	c := NewFileCache[govcMeta](cfg, dir, 1<<30, time.Hour, 4, t.Context())
	defer c.Destroy()
	exp := time.Now().Add(time.Hour)
	k1, k2 := FromString("k1"), FromString("k2")
	store := func(k CacheKey, body string) {
		e, err := c.Cache(k, bytes.NewReader([]byte(body)), exp, govcMeta{})
		if err != nil {
			t.Fatalf("store: %v", err)
		}
		e.Data.Close()
	}
	check := func(step string) {
		bytesOnDisk, files := govcDirSize(t, dir)
		if got := c.byteSize.Get(); got != bytesOnDisk {
			t.Errorf("%s: reported size %d, bytes in directory %d", step, got, bytesOnDisk)
		}
		if got := len(c.entriesMetadata); got != files {
			t.Errorf("%s: %d entries, %d files in directory", step, got, files)
		}
		for k := range c.entriesMetadata {
			e, err := c.Get(k)
			if err != nil {
				t.Errorf("%s: entry %s listed but not returned: %v", step, k.Hex[:8], err)
				continue
			}
			b, _ := io.ReadAll(e.Data)
			e.Data.Close()
			if int64(len(b)) != e.Metadata.Size {
				t.Errorf("%s: entry %s has %d bytes, metadata says %d", step, k.Hex[:8], len(b), e.Metadata.Size)
			}
		}
	}
	store(k1, "abc")
	check("first store")
	store(k1, "defgh")
	check("overwrite")
	store(k2, "xy")
	check("second key")
	if _, err := c.Cache(k2, &govcFailingReader{data: []byte("partial")}, exp, govcMeta{}); err == nil {
		t.Fatalf("failing reader stored")
	}
	check("failed overwrite")
	c.Delete(k1)
	check("delete")
	c.Delete(k2)
	check("delete all")
}
