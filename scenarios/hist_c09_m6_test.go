// place in: proxy
// C09 demo: a stale entry that is evicted between the lookup and the renewal of its
// lifetime must not cost the client the answer of the origin: the client asked with a
// plain GET and has to receive the full 200 response.
package proxy

import (
	"io"
	"net/http"
	"net/http/httptest"
	"net/url"
	"reservoir/cache"
	"reservoir/config"
	"sync"
	"sync/atomic"
	"testing"
	"time"
)

// evictingCache behaves like the wrapped cache, except that (once armed) the entry is
// removed right before its metadata is renewed - as the janitor / an eviction run of a
// concurrent store may do at any time between a lookup and the revalidation.
type c09InnerCache = cache.Cache[cachedRequestInfo]

type evictingCache struct {
	c09InnerCache
	mu      sync.Mutex
	lastKey cache.CacheKey
	armed   atomic.Bool
	evicted atomic.Int32
}

func (e *evictingCache) Get(key cache.CacheKey) (*cache.Entry[cachedRequestInfo], error) {
	e.mu.Lock()
	e.lastKey = key
	e.mu.Unlock()
	return e.c09InnerCache.Get(key)
}

func (e *evictingCache) UpdateMetadata(key cache.CacheKey, modifier func(*cache.EntryMetadata[cachedRequestInfo])) error {
	if e.armed.Load() {
		if err := e.c09InnerCache.Delete(key); err == nil {
			e.evicted.Add(1)
		}
	}
	return e.c09InnerCache.UpdateMetadata(key, modifier)
}

func TestC09StaleEntryEvictedBeforeRenewalStillAnswered(t *testing.T) {
	const body = "the answer of the origin"

	var conditionalSeen, plainSeen atomic.Int32
	upstream := httptest.NewServer(http.HandlerFunc(func(w http.ResponseWriter, r *http.Request) {
		if r.Header.Get("If-None-Match") == "\"c09-v1\"" {
			conditionalSeen.Add(1)
			w.Header().Set("ETag", "\"c09-v1\"")
			w.WriteHeader(http.StatusNotModified)
			return
		}
		plainSeen.Add(1)
		w.Header().Set("Cache-Control", "max-age=60")
		w.Header().Set("ETag", "\"c09-v1\"")
		w.WriteHeader(http.StatusOK)
		w.Write([]byte(body))
	}))
	defer upstream.Close()

	cfg := config.NewDefault()
	cfg.Proxy.UpstreamDefaultHttps.Overwrite(false)

	inner := cache.NewMemoryCache[cachedRequestInfo](cfg, 50, 1<<30, time.Hour, 8, t.Context())
	defer inner.Destroy()
	c := &evictingCache{c09InnerCache: inner}

	p := &Proxy{cache: c, fetch: newFetcher(c, cfg), cfg: cfg}
	proxyServer := httptest.NewServer(p)
	defer proxyServer.Close()

	proxyURL, _ := url.Parse(proxyServer.URL)
	client := &http.Client{
		Timeout:   10 * time.Second,
		Transport: &http.Transport{Proxy: http.ProxyURL(proxyURL)},
	}

	get := func() (int, string) {
		t.Helper()
		resp, err := client.Get(upstream.URL + "/doc")
		if err != nil {
			t.Fatalf("request through proxy failed: %v", err)
		}
		defer resp.Body.Close()
		b, err := io.ReadAll(resp.Body)
		if err != nil {
			t.Fatalf("reading body failed: %v", err)
		}
		return resp.StatusCode, string(b)
	}

	// 1. fill the cache
	if status, got := get(); status != http.StatusOK || got != body {
		t.Fatalf("warm-up: got %d %q", status, got)
	}

	// 2. let the entry run out
	c.mu.Lock()
	key := c.lastKey
	c.mu.Unlock()
	if err := inner.UpdateMetadata(key, func(m *cache.EntryMetadata[cachedRequestInfo]) {
		m.Expires = time.Now().Add(-time.Minute)
	}); err != nil {
		t.Fatalf("could not expire the entry: %v", err)
	}

	// 3. plain GET; the stale entry is found, the origin says "not modified", but the
	// entry is evicted before its lifetime can be renewed.
	c.armed.Store(true)
	status, got := get()
	c.armed.Store(false)

	if c.evicted.Load() == 0 || conditionalSeen.Load() == 0 {
		t.Fatalf("scenario not reached: evicted=%d conditional requests=%d", c.evicted.Load(), conditionalSeen.Load())
	}
	if status != http.StatusOK || got != body {
		t.Fatalf("origin is fine and the client sent an unconditional GET, but it received status %d with body %q (want 200 %q); upstream saw %d conditional / %d plain requests",
			status, got, body, conditionalSeen.Load(), plainSeen.Load())
	}
}
