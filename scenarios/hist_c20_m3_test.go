// place in: webserver/api
package api

import (
	"net/http"
	"net/http/httptest"
	"strings"
	"testing"

	"reservoir/webserver/api/apitypes"
)

// A request without a live session must be answered 401 AND must not reach the
// handler (no effect, no handler output appended to the 401 body).
func TestC20DemoUnauthorizedRequestNeverReachesHandler(t *testing.T) {
	// 1. Directly through WrapHandler with the real gate.
	calls := 0
	protected := apitypes.EndpointMethod{
		Method: "PATCH",
		Func: func(w http.ResponseWriter, r *http.Request, ctx apitypes.Context) {
			calls++
			w.Write([]byte("SECRET-EFFECT"))
		},
		RequiresAuth: true,
	}
	h := WrapHandler(nil, protected.Func, func(ctx apitypes.Context) (int, error) {
		return EnsureAllowed(ctx, protected)
	})

	rec := httptest.NewRecorder()
	h(rec, httptest.NewRequest("PATCH", "/api/config", strings.NewReader(`{}`)))
	if rec.Code != http.StatusUnauthorized {
		t.Fatalf("no cookie: want 401, got %d", rec.Code)
	}
	if calls != 0 {
		t.Errorf("no cookie: handler was invoked %d time(s) although the request was answered 401", calls)
	}
	if strings.Contains(rec.Body.String(), "SECRET-EFFECT") {
		t.Errorf("no cookie: handler output leaked into the 401 body: %q", rec.Body.String())
	}

	// Same with a random cookie that names no session.
	rec = httptest.NewRecorder()
	req := httptest.NewRequest("PATCH", "/api/config", strings.NewReader(`{}`))
	req.AddCookie(&http.Cookie{Name: "reservoir.sid", Value: "NOSUCHSESSIONNOSUCHSESSION"})
	h(rec, req)
	if rec.Code != http.StatusUnauthorized || calls != 0 {
		t.Errorf("random cookie: want 401 and 0 handler calls, got %d and %d", rec.Code, calls)
	}

	// 2. Through the real mux: the version route must reveal nothing but the 401.
	mux := http.NewServeMux()
	if err := New(nil).RegisterHandlers(mux); err != nil {
		t.Fatal(err)
	}
	rec = httptest.NewRecorder()
	mux.ServeHTTP(rec, httptest.NewRequest("GET", "/api/version", nil))
	if rec.Code != http.StatusUnauthorized {
		t.Fatalf("GET /api/version without session: want 401, got %d", rec.Code)
	}
	if strings.Contains(rec.Body.String(), "version") {
		t.Errorf("GET /api/version without session: handler output present in body: %q", rec.Body.String())
	}
}
