// place in: cache
package cache

import (
	"bytes"
	"fmt"
	"reservoir/config"
	"reservoir/utils/bytesize"
	"testing"
	"time"
)

// The store holds 5000 bytes under a 10K limit. The limit is then lowered to 1K at run
// time. The next cleanup cycle finds the store over the (new) limit and has to evict down
// to 80% of that limit (819 bytes).
func TestSeedC13M2_CycleEvictsTo80PercentOfLoweredLimit(t *testing.T) {
	ctx := t.Context()
	cfg := config.NewDefault()
	cfg.Cache.MaxCacheSize.Overwrite(bytesize.ParseUnchecked("10K"))

	// long interval: the cycle's size enforcement step is driven by hand below
	c := NewMemoryCache[TestMeta](cfg, 1, cfg.Cache.MaxCacheSize.Read().Bytes(), time.Hour, 16, ctx)
	defer c.Destroy()

	data := make([]byte, 100)
	for i := 0; i < 50; i++ {
		e, err := c.Cache(FromString(fmt.Sprintf("seed-c13-m2-key-%d", i)), bytes.NewReader(data), time.Now().Add(time.Hour), TestMeta{})
		if err != nil {
			t.Fatalf("Cache %d failed: %v", i, err)
		}
		e.Data.Close()
	}
	if got := c.byteSize.Get(); got != 5000 {
		t.Fatalf("setup: expected 5000 bytes stored, got %d", got)
	}

	// below the limit: a cycle evicts nothing
	c.janitor.ensureCacheSize()
	if got := c.byteSize.Get(); got != 5000 {
		t.Fatalf("cycle below the limit evicted: size %d, expected 5000", got)
	}

	// run-time change of the limit
	cfg.Cache.MaxCacheSize.Overwrite(bytesize.ParseUnchecked("1K"))

	// the following cycle is governed by the new limit
	c.janitor.ensureCacheSize()

	newLimit := int64(1024)
	target := int64(float64(newLimit) * 0.8)
	got := c.byteSize.Get()
	if got > target {
		t.Errorf("after the cycle the store holds %d bytes, expected at most %d (80%% of the new 1K limit)", got, target)
	}
	// stops as soon as the target is reached: with 100-byte entries that is 800 bytes
	if got < 800 {
		t.Errorf("cycle evicted past the target: %d bytes left, expected 800", got)
	}
}
