// place in: webserver/api
package api

import (
	"net/http"
	"net/http/httptest"
	"os"
	"strings"
	"testing"

	"reservoir/config"
	"reservoir/db"
)

// Every registered route and method except login must answer 401, and do nothing, for a
// request that carries no cookie or a cookie that names no live session.
func TestC20EveryRouteAndMethodNeedsALiveSession(t *testing.T) {
	t.Chdir(t.TempDir())
	if err := os.MkdirAll("var", 0o755); err != nil {
		t.Fatal(err)
	}
	if err := db.MigrateDatabases(); err != nil {
		t.Fatalf("migrate: %v", err)
	}

	cfg := config.NewDefault()
	a := New(cfg)
	mux := http.NewServeMux()
	if err := a.RegisterHandlers(mux); err != nil {
		t.Fatalf("register: %v", err)
	}
	backupsBefore := cfg.Logging.MaxBackups.Read()

	checked := 0
	for _, ep := range a.endpoints {
		for _, m := range ep.EndpointMethods() {
			path := a.basePath + ep.Path()
			if path == "/api/auth/login" {
				continue
			}
			for _, cookie := range []string{"", "AAAAAAAAAAAAAAAAAAAAAAAAAA"} {
				body := `{"logging":{"max_backups":7},"current_password":"x","new_password":"y"}`
				req := httptest.NewRequest(m.Method, path, strings.NewReader(body))
				req.Header.Set("Content-Type", "application/json")
				if cookie != "" {
					req.AddCookie(&http.Cookie{Name: "reservoir.sid", Value: cookie})
				}
				rec := httptest.NewRecorder()
				mux.ServeHTTP(rec, req)
				checked++
				if rec.Code != http.StatusUnauthorized {
					t.Errorf("%s %s with cookie %q: status %d (%q), want 401", m.Method, path, cookie, rec.Code, strings.TrimSpace(rec.Body.String()))
				}
			}
		}
	}
	if checked < 20 {
		t.Fatalf("only %d route/method/cookie combinations were exercised", checked)
	}

	if got := cfg.Logging.MaxBackups.Read(); got != backupsBefore {
		t.Errorf("an unauthenticated request changed the running configuration: logging.max_backups %d -> %d", backupsBefore, got)
	}
	if _, err := os.Stat("var/config.json"); err == nil {
		t.Errorf("an unauthenticated request persisted a configuration file")
	}
}
