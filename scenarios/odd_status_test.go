package tests

import (
	"bufio"
	"fmt"
	"io"
	"net"
	"net/http"
	"strings"
	"testing"
	"time"
)

// Scenario for C16: an origin that answers with a three-digit status below 100 (Go's client
// accepts "HTTP/1.1 099 Weird") still gets the client a well-formed answer, not a dropped
// connection (net/http's WriteHeader panics for codes outside 100..999).
func TestGovcScenarioOriginStatusBelow100IsAnswered(t *testing.T) {
	ln, err := net.Listen("tcp", "127.0.0.1:0")
	if err != nil {
		t.Fatal(err)
	}
	defer ln.Close()
	go func() {
		for {
			c, err := ln.Accept()
			if err != nil {
				return
			}
			go func(c net.Conn) {
				defer c.Close()
				br := bufio.NewReader(c)
				if _, err := http.ReadRequest(br); err != nil {
					return
				}
				io.WriteString(c, "HTTP/1.1 099 Weird\r\nContent-Length: 5\r\nConnection: close\r\n\r\nhello")
			}(c)
		}
	}()
	env := SetupTestEnv(t)
	env.Start()
	client := &http.Client{Transport: env.Client.Transport, Timeout: 5 * time.Second}
	resp, err := client.Get("http://" + ln.Addr().String() + "/odd")
	if err != nil {
		t.Fatalf("no well-formed answer for an origin status of 099: %v", err)
	}
	defer resp.Body.Close()
	b, _ := io.ReadAll(resp.Body)
	if resp.StatusCode < 100 || resp.StatusCode > 999 {
		t.Fatalf("status %d", resp.StatusCode)
	}
	_ = fmt.Sprint(strings.TrimSpace(string(b)))
}
