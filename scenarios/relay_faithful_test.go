package tests

import (
	"io"
	"net/http"
	"testing"
)

// Scenario for C08: a redirect answered by the origin is relayed to the client
// as it is (the proxy must not follow it), and an escaped path reaches the
// origin with its escaping intact.
func TestGovcScenarioRelayFaithful(t *testing.T) {
	env := SetupTestEnv(t)
	var seenPath string
	env.Upstream.Config.Handler = http.HandlerFunc(func(w http.ResponseWriter, r *http.Request) {
		switch {
		case r.URL.Path == "/redirect":
			w.Header().Set("Location", "/target")
			w.WriteHeader(http.StatusFound)
		case r.URL.Path == "/target":
			w.Write([]byte("target body"))
		default:
			seenPath = r.URL.EscapedPath()
			w.Header().Set("Cache-Control", "no-store")
			w.Write([]byte("ok"))
		}
	})
	env.Start()
	env.Client.CheckRedirect = func(*http.Request, []*http.Request) error { return http.ErrUseLastResponse }
	resp, err := env.Client.Get(env.Upstream.URL + "/redirect")
	if err != nil {
		t.Fatal(err)
	}
	io.Copy(io.Discard, resp.Body)
	resp.Body.Close()
	if resp.StatusCode != http.StatusFound || resp.Header.Get("Location") != "/target" {
		t.Errorf("origin answered 302 Location: /target, client received %d Location: %q", resp.StatusCode, resp.Header.Get("Location"))
	}
	resp, err = env.Client.Get(env.Upstream.URL + "/x%2Fy")
	if err != nil {
		t.Fatal(err)
	}
	io.Copy(io.Discard, resp.Body)
	resp.Body.Close()
	if seenPath != "/x%2Fy" {
		t.Errorf("client asked for /x%%2Fy, origin saw %q", seenPath)
	}
}
