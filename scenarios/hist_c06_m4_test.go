// place in: tests
package tests

import (
	"io"
	"net/http"
	"sync"
	"testing"
	"time"
)

// The Last-Modified validator saved from the stored response is the one the origin sent,
// whichever of the three legal HTTP date formats it used (RFC 9110 5.6.7: recipients must
// accept IMF-fixdate, RFC 850 and asctime). Revalidation must carry that instant in
// If-Modified-Since, and the origin's new version (modified after that instant, but
// before the proxy's own fetch time by the origin's clock) must replace the stored body.
func TestSeedC06M2_ObsoleteFormatLastModifiedIsTheStoredValidator(t *testing.T) {
	env := SetupTestEnv(t)

	// The origin's clock runs behind: all its timestamps lie in the past.
	v1Modified := time.Date(1994, time.November, 6, 8, 49, 37, 0, time.UTC)
	v2Modified := v1Modified.Add(24 * time.Hour)
	const v1Header = "Sunday, 06-Nov-94 08:49:37 GMT" // RFC 850 format
	const wantIMS = "Sun, 06 Nov 1994 08:49:37 GMT"

	var mu sync.Mutex
	current := 1
	var revalidationIMS []string
	env.Upstream.Config.Handler = http.HandlerFunc(func(w http.ResponseWriter, r *http.Request) {
		mu.Lock()
		defer mu.Unlock()
		modified, lmHeader, body := v1Modified, v1Header, "body v1"
		if current == 2 {
			modified, lmHeader, body = v2Modified, v2Modified.Format(http.TimeFormat), "body v2"
		}
		if ims := r.Header.Get("If-Modified-Since"); ims != "" {
			revalidationIMS = append(revalidationIMS, ims)
			if since, err := http.ParseTime(ims); err == nil && !modified.After(since) {
				w.WriteHeader(http.StatusNotModified)
				return
			}
		}
		w.Header().Set("Cache-Control", "max-age=1")
		w.Header().Set("Last-Modified", lmHeader)
		w.WriteHeader(http.StatusOK)
		w.Write([]byte(body))
	})
	env.Start()

	url := env.Upstream.URL + "/seed-c06-m2"
	get := func() (int, string, http.Header) {
		resp, err := env.Client.Get(url)
		if err != nil {
			t.Fatalf("request failed: %v", err)
		}
		defer resp.Body.Close()
		b, _ := io.ReadAll(resp.Body)
		return resp.StatusCode, string(b), resp.Header
	}

	if status, body, _ := get(); status != 200 || body != "body v1" {
		t.Fatalf("first response: %d %q", status, body)
	}
	// served from the store: the validator handed to the client is the origin's
	if _, _, h := get(); h.Get("Last-Modified") != wantIMS {
		t.Errorf("stored response served with Last-Modified %q, want %q", h.Get("Last-Modified"), wantIMS)
	}

	mu.Lock()
	current = 2 // origin content changes
	mu.Unlock()
	time.Sleep(1300 * time.Millisecond) // entry is stale now

	status, body, _ := get()

	mu.Lock()
	defer mu.Unlock()
	if len(revalidationIMS) == 0 {
		t.Fatalf("no revalidation request with If-Modified-Since reached the origin")
	}
	if revalidationIMS[0] != wantIMS {
		t.Errorf("revalidation If-Modified-Since = %q, want the stored validator %q", revalidationIMS[0], wantIMS)
	}
	if status != 200 || body != "body v2" {
		t.Errorf("after the origin changed its content the client got %d %q, want 200 %q", status, body, "body v2")
	}
}
