// place in: cache
// needs: -race
package cache

import (
	"bytes"
	"fmt"
	"reservoir/config"
	"testing"
	"time"
)

// Every change of cache.memory.memory_budget_percent is delivered to the memory cache
// by a listener that runs in a goroutine of its own (event.Fire). Two changes that
// follow each other therefore run two listener goroutines with nothing ordering them
// but c.mu: every access to c.memoryCap - also the one that reports the new cap - has
// to stay inside the critical section.
//
// The budget is changed a few times in a row (a dashboard user dragging the slider,
// or two admins saving the config) while entries are being stored.
// Run with -race: race free on the unmodified code.
func TestC15_MemoryBudgetChangedTwiceInARow(t *testing.T) {
	ctx := t.Context()
	cfg := config.NewDefault()

	c := NewMemoryCache[TestMeta](cfg, 50, 1024*1024*1024, time.Minute, 16, ctx)
	defer c.Destroy()

	done := make(chan struct{})
	go func() {
		defer close(done)
		for i := 0; i < 200; i++ {
			key := FromString(fmt.Sprintf("c15-budget-%d", i))
			entry, err := c.Cache(key, bytes.NewReader([]byte("payload")), time.Now().Add(time.Hour), TestMeta{ID: "m"})
			if err != nil {
				t.Errorf("Cache failed: %v", err)
				return
			}
			entry.Data.Close()
		}
	}()

	for i := 0; i < 20; i++ {
		cfg.Cache.Memory.MemoryBudgetPercent.Stage(40 + i)
		cfg.Cache.Memory.MemoryBudgetPercent.CommitStaged()
	}

	<-done
	// The listeners are fire-and-forget goroutines: give them time to finish.
	time.Sleep(300 * time.Millisecond)

	c.mu.RLock()
	memCap := c.memoryCap
	c.mu.RUnlock()
	if memCap <= 0 {
		t.Errorf("memory cap not updated: %d", memCap)
	}
}
