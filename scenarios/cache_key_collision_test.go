package tests

import (
	"io"
	"net/http"
	"testing"
)

// Scenario for C02: requests that name different resources never share a stored entry.
func TestGovcScenarioDistinctResourcesDistinctEntries(t *testing.T) {
	env := SetupTestEnv(t)
	env.Upstream.Config.Handler = http.HandlerFunc(func(w http.ResponseWriter, r *http.Request) {
		w.Header().Set("Cache-Control", "max-age=60")
		io.WriteString(w, "path="+r.URL.Path+" query="+r.URL.RawQuery)
	})
	env.Start()
	get := func(target string) string {
		resp, err := env.Client.Get(env.Upstream.URL + target)
		if err != nil {
			t.Fatal(err)
		}
		defer resp.Body.Close()
		b, _ := io.ReadAll(resp.Body)
		return string(b)
	}
	pairs := [][2]string{
		{"/a%7Cb?c", "/a?b|c"},
		{"/dir/", "/dir"},
		{"/x/y/", "/x/y"},
	}
	for _, p := range pairs {
		first := get(p[0])
		second := get(p[1])
		if first == second {
			t.Errorf("%s and %s are different resources but the second request was answered with the entry of the first: %q", p[0], p[1], second)
		}
	}
	// and these do name the same resource
	a, b := get("/s/./t"), get("/s//t")
	if a != b {
		t.Logf("note: /s/./t and /s//t were not shared (%q vs %q)", a, b)
	}
}
