// place in: tests
package tests

import (
	"io"
	"net/http"
	"testing"
)

// The origin answers with a Cache-Control that carries no usable max-age ("no-cache",
// "public", "max-age=0", ...) and without an Expires header. With ignore_cache_control=true
// (the default) the answer is storable, and with force_default_max_age=false its lifetime is
// derived from the origin's header set. Whatever that header set is, the client must get a
// well-formed response.
func TestOriginCacheControlWithoutMaxAgeIsAnswered(t *testing.T) {
	env := SetupTestEnv(t)
	env.Cfg.Proxy.CachePolicy.IgnoreCacheControl.Overwrite(true)
	env.Cfg.Proxy.CachePolicy.ForceDefaultMaxAge.Overwrite(false)

	env.Upstream.Config.Handler = http.HandlerFunc(func(w http.ResponseWriter, r *http.Request) {
		w.Header().Set("Cache-Control", r.URL.Query().Get("cc"))
		w.WriteHeader(http.StatusOK)
		w.Write([]byte("payload"))
	})
	env.Start()

	for _, cc := range []string{"no-cache", "public", "max-age=0"} {
		target := env.Upstream.URL + "/cc-without-max-age?cc=" + cc
		resp, err := env.Client.Get(target)
		if err != nil {
			t.Fatalf("Cache-Control %q: request was left without a response: %v", cc, err)
		}
		body, _ := io.ReadAll(resp.Body)
		resp.Body.Close()
		if resp.StatusCode != http.StatusOK || string(body) != "payload" {
			t.Fatalf("Cache-Control %q: got %d %q, want 200 \"payload\"", cc, resp.StatusCode, body)
		}
	}
}
