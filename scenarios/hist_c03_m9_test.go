// place in: cache
package cache

import (
	"bytes"
	"reservoir/config"
	"testing"
	"time"
)

// A Get that has to wait for the key's shard lock (e.g. because another request that maps
// to the same shard is still storing a slow upstream body) must judge freshness at the time
// it actually reads the entry, not at the time it started waiting.
func TestSeedC03GetAfterLockWaitSeesExpiry(t *testing.T) {
	cfg := config.NewDefault()
	c := NewMemoryCache[TestMeta](cfg, 1, 1024*1024*1024, time.Hour, 16, t.Context())
	defer c.Destroy()

	key := FromString("seed-c03-lock-wait")
	e, err := c.Cache(key, bytes.NewReader([]byte("body")), time.Now().Add(300*time.Millisecond), TestMeta{ID: "x"})
	if err != nil {
		t.Fatalf("Cache failed: %v", err)
	}
	e.Data.Close()

	// Somebody else holds the shard lock of this key for longer than the remaining lifetime.
	lock := getLock(c.locks, key)
	lock.Lock()

	type res struct {
		entry *Entry[TestMeta]
		err   error
	}
	done := make(chan res, 1)
	go func() {
		en, err := c.Get(key)
		done <- res{en, err}
	}()

	time.Sleep(800 * time.Millisecond) // the lifetime (300ms) elapses while Get is waiting
	lock.Unlock()

	select {
	case r := <-done:
		if r.err != nil {
			t.Fatalf("Get failed: %v", r.err)
		}
		r.entry.Data.Close()
		if !r.entry.Stale {
			t.Fatalf("entry expired %v ago but Get reported it fresh (Stale=false)", time.Since(r.entry.Expires))
		}
	case <-time.After(5 * time.Second):
		t.Fatal("Get did not return")
	}
}
