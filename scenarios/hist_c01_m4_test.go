// place in: proxy
// (no race detector needed: the bodies are read one after the other once all coalesced callers returned)
package proxy

import (
	"io"
	"net/http"
	"net/http/httptest"
	"reservoir/cache"
	"reservoir/config"
	"reservoir/proxy/headers"
	"sync"
	"sync/atomic"
	"testing"
	"time"
)

// Every client of a coalesced fetch must be able to read the complete stored body:
// the result handed to one client must not share its read position with another client.
func TestSeedC01M2_CoalescedClientsGetIndependentCompleteBodies(t *testing.T) {
	const body = "0123456789-coalesced-origin-body-abcdefghijklmnopqrstuvwxyz"

	var upstreamHits int32
	upstream := httptest.NewServer(http.HandlerFunc(func(w http.ResponseWriter, r *http.Request) {
		atomic.AddInt32(&upstreamHits, 1)
		// Long enough for every client to join the flight of the first one
		time.Sleep(400 * time.Millisecond)
		w.Header().Set("Cache-Control", "max-age=60")
		w.Header().Set("ETag", "\"seed-c01-m2\"")
		w.WriteHeader(http.StatusOK)
		w.Write([]byte(body))
	}))
	defer upstream.Close()

	cfg := config.NewDefault()
	cfg.Proxy.UpstreamDefaultHttps.Overwrite(false)

	c := cache.NewMemoryCache[cachedRequestInfo](cfg, 50, 1024*1024*1024, time.Hour, 16, t.Context())
	defer c.Destroy()
	f := newFetcher(c, cfg)

	const clients = 6
	results := make([]fetchResult, clients)
	errs := make([]error, clients)

	start := make(chan struct{})
	var wg sync.WaitGroup
	wg.Add(clients)
	for i := range clients {
		go func() {
			defer wg.Done()
			req, err := http.NewRequest(http.MethodGet, upstream.URL+"/seed-c01-m2", nil)
			if err != nil {
				errs[i] = err
				return
			}
			clientHd := headers.ParseHeaderDirective(req.Header)
			key := cache.MakeFromRequest(req)
			<-start
			results[i], errs[i] = f.dedupFetch(req, key, clientHd)
		}()
	}
	close(start)

	done := make(chan struct{})
	go func() { wg.Wait(); close(done) }()
	select {
	case <-done:
	case <-time.After(20 * time.Second):
		t.Fatal("coalesced fetches did not finish")
	}

	if hits := atomic.LoadInt32(&upstreamHits); hits != 1 {
		t.Skipf("requests were not coalesced (%d upstream requests), scenario not reached", hits)
	}

	// All clients hold their result now; each of them reads its body.
	for i := range clients {
		if errs[i] != nil {
			t.Fatalf("client %d: dedupFetch failed: %v", i, errs[i])
		}
		if results[i].Type != fetchTypeCached {
			t.Fatalf("client %d: expected a stored response, got fetch type %v", i, results[i].Type)
		}
		entry := results[i].Cached.Entry
		got, err := io.ReadAll(entry.Data)
		if err != nil {
			t.Errorf("client %d: reading body: %v", i, err)
			continue
		}
		if string(got) != body {
			t.Errorf("client %d: got %d of %d body bytes (%q); stored length is %d",
				i, len(got), len(body), got, entry.Metadata.Size)
		}
	}
	for i := range clients {
		if results[i].Type == fetchTypeCached && results[i].Cached.Entry != nil && results[i].Cached.Entry.Data != nil {
			results[i].Cached.Entry.Data.Close()
		}
	}
}
