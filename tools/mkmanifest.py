#!/usr/bin/env python3
"""Regenerates /verif/MANIFEST.json from props.json (single source of per-property metadata)."""
import json, os, subprocess
here = os.path.dirname(os.path.dirname(os.path.abspath(__file__)))
props = json.load(open(os.path.join(here, "props.json")))
all_ids = [json.loads(l)["id"] for l in open(os.path.join(here, "properties.jsonl")) if l.strip()]
hooks = subprocess.run(["git", "-C", "/repo", "log", "--format=%H %s"], capture_output=True, text=True).stdout.splitlines()
hook_commits = [l.split()[0] for l in hooks if " verif:" in l or l.split(" ", 1)[1].startswith("verif:")]
checks, na = [], []
for pid in all_ids:
    p = props.get(pid, {})
    if p.get("claimed"):
        checks.append({
            "property_id": pid,
            "quick_cmd": f"./check {pid} --tier quick",
            "thorough_cmd": f"./check {pid} --tier thorough",
            "evidence_file": f"/verif/evidence/{pid}.json",
            "replay_cmd_template": "cat {path}   # the replay document names the obligation, the witness input, the generated in-package test and the go test -overlay command that runs it against /repo",
            "engine": "govc",
            "level_claimed": {"category": p.get("level", "proof"), "text": p["level_text"], "design_ref": p.get("design_ref", "DESIGN.md §5 " + pid)},
            "level_note": p["level_note"],
            "technique": p.get("technique", "contract-based deductive verification: weakest-precondition style VCs generated from the Go AST by govc, contracts in //@ comments in /repo (tag verif), discharged by z3/cvc5"),
        })
    else:
        na.append({"property_id": pid, "reason": p.get("na_reason", "not yet brought under contract in this build; see DESIGN.md §5 " + pid)})
m = {
    "version": 1,
    "setup_cmd": "sh ./setup.sh",
    "hooks": {
        "guard": "verif",
        "enable": "govc loads /repo with go/packages BuildFlags -tags=verif; the hook files are comment-only <pkg>/contracts_verif.go files (//go:build verif) holding the //@ contracts",
        "baseline_off_cmd": "cd /repo && go test -mod=mod -json -vet=off -count=1 -timeout 25m ./...",
        "source_commits": hook_commits,
        "add_only": True,
    },
    "engines": [{
        "name": "govc",
        "path": "/verif/govc",
        "serves_properties": [c["property_id"] for c in checks],
        "kind_free_text": "self-written verification-condition generator for Go (go/ast + go/types, symbolic execution between cut points with loop invariants, modular calls by contract), SMT back ends z3 5.1.0, z3 4.8.12, cvc5 1.0.3 raced per obligation; failed obligations are replayed on the real code with go test -overlay",
    }],
    "checks": checks,
    "not_applicable": na,
    "notes": "See DESIGN.md. known_findings.jsonl lists recorded and fixed defects; obligations.baseline.json the obligations that must stay discharged.",
}
json.dump(m, open(os.path.join(here, "MANIFEST.json"), "w"), indent=1)
print("claimed:", [c["property_id"] for c in checks])
