#!/bin/sh
# usage: confirm_mutant.sh <seeded dir>
# Confirms in a scratch worktree: the mutant compiles, the pinned suite passes with it,
# the demonstration fails with it and passes without it.  Writes <dir>/confirm.txt.
d="$(cd "$1" && pwd)"; name=$(basename "$d")
wt=/tmp/cm_$name
export GOFLAGS=-mod=mod GOPROXY=off
git -C /repo worktree add -q --detach "$wt" HEAD || exit 2
out="$d/confirm.txt"; : > "$out"
place=$(head -3 "$d/demo_test.go.txt" | sed -n 's/.*place in:[ ]*\([^ ]*\).*/\1/p' | head -1)
tname=$(grep -o 'func Test[A-Za-z0-9_]*' "$d/demo_test.go.txt" | head -1 | sed 's/func //')
echo "place=$place test=$tname" >> "$out"
cd "$wt"
if git apply "$d/patch.diff"; then echo "patch: applies" >> "$out"; else echo "patch: DOES NOT APPLY" >> "$out"; fi
if go build ./cache/... ./proxy/... ./config/... ./utils/... ./logging/... ./webserver/auth/... ./webserver/api/... >> "$out" 2>&1; then echo "build: ok" >> "$out"; else echo "build: FAILED" >> "$out"; fi
if go test -vet=off -count=1 ./cache/... ./config/... ./proxy/... ./tests/... ./utils/... > /tmp/cm_suite_$name.txt 2>&1; then echo "suite-with-mutant: passes" >> "$out"; else echo "suite-with-mutant: FAILS" >> "$out"; grep -E "^(---|FAIL)" /tmp/cm_suite_$name.txt | head -5 >> "$out"; fi
cp "$d/demo_test.go.txt" "$wt/$place/zz_demo_test.go"
race=""; if head -3 "$d/demo_test.go.txt" | grep -q "needs: -race"; then race="-race"; fi
if go test $race -vet=off -count=1 -run "^$tname\$" "./$place" > /tmp/cm_demo_$name.txt 2>&1; then echo "demo-with-mutant: PASSES (unexpected)" >> "$out"; else echo "demo-with-mutant: fails (expected)" >> "$out"; grep -E "^\s+.*_test.go|panic" /tmp/cm_demo_$name.txt | head -3 >> "$out"; fi
git apply -R "$d/patch.diff"
if go test $race -vet=off -count=1 -run "^$tname\$" "./$place" > /tmp/cm_demo2_$name.txt 2>&1; then echo "demo-without-mutant: passes (expected)" >> "$out"; else echo "demo-without-mutant: FAILS (unexpected)" >> "$out"; tail -5 /tmp/cm_demo2_$name.txt >> "$out"; fi
cd /; git -C /repo worktree remove --force "$wt"; rm -f /tmp/cm_suite_$name.txt /tmp/cm_demo_$name.txt /tmp/cm_demo2_$name.txt
cat "$out"
