#!/bin/sh
# usage: try_mutant.sh <ABSOLUTE mutant dir with patch.diff> <property id>...
# Applies the patch to /repo, runs the checks, and ALWAYS reverts the patch
# (also when interrupted or when the output pipe is closed).
d="$1"; shift
cd /repo || exit 2
if ! git diff --quiet HEAD --; then echo "REFUSING: /repo has uncommitted changes"; exit 4; fi
if ! git apply --check "$d/patch.diff" 2>/dev/null; then echo "PATCH DOES NOT APPLY: $d"; exit 3; fi
revert() { git -C /repo diff --quiet HEAD -- || git -C /repo apply -R "$d/patch.diff"; }
trap 'revert; exit 130' INT TERM HUP PIPE
git apply "$d/patch.diff"
out=$(mktemp)
for p in "$@"; do
  (cd /verif && ./check "$p" -no-evidence > "$out" 2>&1; echo "exit($p)=$?" >> "$out")
  grep -E "^(VIOLATION|KNOWN|NO VERDICT|C[0-9]+ |exit)" "$out"
done
rm -f "$out"
revert
git -C /repo status --short | grep -v '^??'
exit 0
