#!/bin/sh
# usage: try_mutant.sh <mutant dir with patch.diff> <property id>...
# Applies the patch to /repo, runs the checks, and ALWAYS reverts the patch.
d="$1"; shift
cd /repo || exit 2
if ! git apply --check "$d/patch.diff" 2>/dev/null; then echo "PATCH DOES NOT APPLY: $d"; exit 3; fi
if ! git diff --quiet HEAD --; then echo "REFUSING: /repo has uncommitted changes"; exit 4; fi
git apply "$d/patch.diff"
for p in "$@"; do
  (cd /verif && ./check "$p" -no-evidence 2>&1 | grep -E "^(VIOLATION|KNOWN|NO VERDICT|C[0-9]+ )" )
  echo "exit($p)=$?"
done
if ! git -C /repo diff --quiet HEAD -- ; then git -C /repo apply -R "$d/patch.diff"; fi
git -C /repo status --short | grep -v '^??' | head -3
