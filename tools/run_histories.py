#!/usr/bin/env python3
"""Runs every registered bounded history (scenarios/index.json) once against /repo's current tree."""
import json, os, subprocess, tempfile, sys
idx = json.load(open('/verif/scenarios/index.json'))
seen = set()
bad = 0
for e in idx:
    k = (e['file'], e['test'])
    if k in seen:
        continue
    seen.add(k)
    ov = {"Replace": {os.path.join('/repo', e['pkg'], 'zz_govc_scenario_test.go'): os.path.join('/verif/scenarios', e['file'])}}
    gen = '/repo/webserver/dashboard/csp/hashes_gen.go'
    with tempfile.TemporaryDirectory() as d:
        if not os.path.exists(gen):
            stub = os.path.join(d, 'csp.go'); open(stub, 'w').write('package csp\n\nconst Header = ""\n'); ov["Replace"][gen] = stub
        f = os.path.join(d, 'ov.json'); json.dump(ov, open(f, 'w'))
        args = ['go', 'test'] + (['-race'] if e.get('race') else []) + ['-overlay', f, '-vet=off', '-count=1', '-timeout', '120s', '-run', '^' + e['test'] + '$', './' + e['pkg']]
        r = subprocess.run(args, cwd='/repo', capture_output=True, text=True, env=dict(os.environ, GOFLAGS='-mod=mod', GOPROXY='off'))
    ok = r.returncode == 0
    if not ok:
        bad += 1
    print(('ok   ' if ok else 'FAIL ') + e['file'] + ' ' + e['test'] + ('' if ok else '\n' + (r.stdout + r.stderr)[-600:]), flush=True)
sys.exit(1 if bad else 0)
