#!/usr/bin/env python3
"""Runs every seeded change through the check of its property (tools/try_mutant.sh) and
prints one table row per change: which obligations report it and whether a replay on the
real code confirmed it.  Usage: tools/corpus_table.py [extra props per mutant as Cxx_mN=Cyy,...]"""
import json, os, re, subprocess, sys
extra = {}
for a in sys.argv[1:]:
    k, v = a.split('=')
    extra[k] = v.split(',')
base = '/verif/seeded'
rows = []
import re as _re
flt = os.environ.get('CORPUS_FILTER')
for d in sorted(os.listdir(base)):
    p = os.path.join(base, d)
    if not os.path.isdir(p):
        continue
    if flt and not _re.search(flt, d):
        continue
    meta = json.load(open(os.path.join(p, 'meta.json')))
    props = [meta['property']] + extra.get(d, [])
    out = subprocess.run(['/verif/tools/try_mutant_scratch.sh', p] + props, capture_output=True, text=True).stdout
    caught = []
    for line in out.splitlines():
        m = re.match(r'VIOLATION property=(C\d+) replay=\S*?/C\d+/(\S+?)(\.replay\.json|\.replay\.txt|\.missing\.txt)( no-failing-input-found)?$', line)
        if m:
            caught.append((m.group(1), m.group(2), 'missing' if 'missing' in m.group(3) else ('unconfirmed' if m.group(4) else 'confirmed')))
    summary = meta.get('summary', '').split('. ')[0][:140]
    if caught:
        ob = '; '.join(sorted({f"{c[0]} `{c[1]}`" for c in caught})[:3])
        conf = 'confirmed' if any(c[2] == 'confirmed' for c in caught) else ('no-failing-input-found' if any(c[2] == 'unconfirmed' for c in caught) else 'obligation gone (generator error)')
    else:
        ob, conf = '**not caught**', ''
    print(f"| {d} | {summary} | {ob} | {conf} |", flush=True)
