#!/bin/sh
# usage: try_mutant_scratch.sh <ABSOLUTE mutant dir with patch.diff> <property id>...
# Like try_mutant.sh, but leaves /repo alone: the working tree is copied to a scratch
# directory, the patch is applied there and the checks run against the copy
# (govc check -repo <copy>).  The copy is removed afterwards.
d="$1"; shift
s=$(mktemp -d /tmp/mutscratch_XXXXXX) || exit 2
trap 'rm -rf "$s"' EXIT INT TERM HUP
(cd /repo && tar --exclude=.git -cf - .) | tar -xf - -C "$s"
if ! (cd "$s" && git apply --exclude='*/contracts_verif.go' "$d/patch.diff" 2>/dev/null); then echo "PATCH DOES NOT APPLY: $d"; exit 3; fi
export GOFLAGS=-mod=mod GOPROXY=off GOVC_NESTED=1
for p in "$@"; do
  out=$(cd /verif && ./bin/govc check -prop "$p" -repo "$s" -verif /verif -tier quick -no-evidence 2>&1; echo "exit($p)=$?")
  echo "$out" | grep -E "^(VIOLATION|KNOWN|NO VERDICT|C[0-9]+ |exit)"
done
exit 0
