package main

// sync/atomic.Value as a heap cell holding one dynamically typed value, and
// encoding/json.Marshal dispatching to MarshalJSON methods.

import (
	"fmt"
	"go/types"
)

// AtomicRefV is the interface value returned by (*atomic.Value).Load: its
// dynamic value is read from the heap when a type assertion names the type.
type AtomicRefV struct {
	Addr *Term
}

func (AtomicRefV) isValue() {}

func atomicKey(t types.Type) string { return "atomicValue:" + typeKey(t) }

func (x *Exec) atomicStore(st *State, addr *Term, v Value, t types.Type) {
	v = x.rebase(st, v)
	var ls []struct {
		Path string
		T    *Term
	}
	x.leavesOf(v, "", &ls)
	for _, l := range ls {
		key := atomicKey(t) + l.Path
		arr := st.heapArr(key, l.T.Sort)
		st.heap[key] = Store(arr, addr, l.T)
	}
	set := st.heapArr("atomicValue#set", SBool)
	st.heap["atomicValue#set"] = Store(set, addr, TTrue)
}

func (x *Exec) atomicLoad(st *State, addr *Term, t types.Type) Value {
	v := x.fromLeaves(t, "", func(li leafInfo) *Term {
		if li.Kind == "off" {
			return IntLit(0)
		}
		tm := Select(st.heapArr(atomicKey(t)+li.Path, li.Sort), addr)
		x.assumeLeaf(st, li, tm)
		return tm
	})
	return v
}

func init() {
	models["sync/atomic.Value.Store"] = func(x *Exec, fr *Frame, st *State, pc *preparedCall, k func(*State, []Value)) {
		p := pc.recv.(PtrV)
		x.nilCheck(fr, st, p, pc.e)
		arg := pc.args[0]
		var dyn Value = arg
		dt := x.argType(pc, 0)
		if o, ok := arg.(OpaqueV); ok && o.Dyn != nil {
			dyn = o.Dyn
			dt = x.dynType(o.Dyn)
			if dt == nil {
				dt = o.DynType
			}
		}
		if dt == nil {
			panic(x.unsupported("atomic.Value.Store of a value whose dynamic type is unknown"))
		}
		if _, isIface := dt.Underlying().(*types.Interface); isIface {
			panic(x.unsupported("atomic.Value.Store of an interface value"))
		}
		x.atomicStore(st, p.Addr, dyn, dt)
		k(st, nil)
	}
	models["sync/atomic.Value.Load"] = func(x *Exec, fr *Frame, st *State, pc *preparedCall, k func(*State, []Value)) {
		p := pc.recv.(PtrV)
		x.nilCheck(fr, st, p, pc.e)
		set := Select(st.heapArr("atomicValue#set", SBool), p.Addr)
		k(st, []Value{OpaqueV{T: Ite(set, IntLit(1), IntLit(0)), Type: types.Universe.Lookup("any").Type(), Dyn: AtomicRefV{Addr: p.Addr}}})
	}
	// json.Marshal(v): a value whose type has a MarshalJSON method is encoded by
	// that method (this is how encoding/json behaves); anything else is an
	// uninterpreted, deterministic encoding of the value.
	// json.Unmarshal(data, &v): writes only what v points to; an error, or v filled
	models["encoding/json.Unmarshal"] = func(x *Exec, fr *Frame, st *State, pc *preparedCall, k func(*State, []Value)) {
		var dst PtrV
		switch a := pc.args[1].(type) {
		case PtrV:
			dst = a
		case OpaqueV:
			if p, ok := a.Dyn.(PtrV); ok {
				dst = p
			} else {
				panic(x.unsupported("json.Unmarshal into something other than a pointer"))
			}
		default:
			panic(x.unsupported("json.Unmarshal into something other than a pointer"))
		}
		fresh := x.freshValue(st, x.resolveType(dst.Elem), "unmarshalled")
		if dst.LV != nil {
			dst.LV.Store(x, st, fresh)
		} else {
			x.heapStore(st, dst, fresh)
		}
		k(st, []Value{x.freshErr(st, "jsonerr")})
	}
	models["encoding/json.Marshal"] = func(x *Exec, fr *Frame, st *State, pc *preparedCall, k func(*State, []Value)) {
		arg := pc.args[0]
		var dyn Value = arg
		var dt types.Type
		if o, ok := arg.(OpaqueV); ok && o.Dyn != nil {
			dyn = o.Dyn
			dt = o.DynType
		}
		if dt == nil {
			dt = x.dynType(dyn)
		}
		if dt != nil {
			for _, t := range []types.Type{dt, types.NewPointer(dt)} {
				ms := types.NewMethodSet(t)
				if sel := ms.Lookup(nil, "MarshalJSON"); sel != nil {
					fn := sel.Obj().(*types.Func)
					if fn.Pkg() != nil && inModule(fn.Pkg().Path()) {
						npc := &preparedCall{e: pc.e, fn: fn, recv: dyn, recvType: dt}
						sig := fn.Type().(*types.Signature)
						if _, wantPtr := sig.Recv().Type().(*types.Pointer); wantPtr {
							if _, isPtr := dyn.(PtrV); !isPtr {
								continue
							}
						}
						x.invoke(fr, npc, st, k)
						return
					}
				}
			}
		}
		r := x.freshValue(st, types.NewSlice(types.Typ[types.Byte]), "json").(StrV)
		st.assumeRaw(Eq(x.strID(st, r), App("jsonenc", SInt, x.identityOf(st, dyn))))
		errT := Var(x.fresh("jsonerr"), SInt)
		st.assumeRaw(Ge(errT, IntLit(0)))
		k(st, []Value{r, OpaqueV{T: errT, Type: types.Universe.Lookup("error").Type()}})
	}
}

// atomic.Bool / Int64 / Uint64 / Int32 / Uint32: a cell in field "v"
func atomicCellLV(x *Exec, st *State, p PtrV) LVal {
	if p.LV != nil {
		return fieldLV{p.LV, "v"}
	}
	stt := x.resolveType(p.Elem).Underlying().(*types.Struct)
	for i := 0; i < stt.NumFields(); i++ {
		if stt.Field(i).Name() == "v" {
			return heapFieldLV{p: p, field: "v", ftype: x.resolveType(stt.Field(i).Type())}
		}
	}
	panic(x.unsupported("atomic cell without field v"))
}

func init() {
	for _, tn := range []string{"Int64", "Uint64", "Int32", "Uint32"} {
		tn := tn
		models["sync/atomic."+tn+".Load"] = func(x *Exec, fr *Frame, st *State, pc *preparedCall, k func(*State, []Value)) {
			k(st, []Value{atomicCellLV(x, st, pc.recv.(PtrV)).Load(x, st)})
		}
		models["sync/atomic."+tn+".Store"] = func(x *Exec, fr *Frame, st *State, pc *preparedCall, k func(*State, []Value)) {
			atomicCellLV(x, st, pc.recv.(PtrV)).Store(x, st, pc.args[0])
			k(st, nil)
		}
		models["sync/atomic."+tn+".Add"] = func(x *Exec, fr *Frame, st *State, pc *preparedCall, k func(*State, []Value)) {
			lv := atomicCellLV(x, st, pc.recv.(PtrV))
			cur := lv.Load(x, st).(IntV)
			rt := pc.fn.Type().(*types.Signature).Results().At(0).Type()
			nv := IntV{x.wrapFor(rt, Add(cur.T, pc.args[0].(IntV).T))}
			lv.Store(x, st, nv)
			k(st, []Value{nv})
		}
	}
	models["sync/atomic.Bool.Load"] = func(x *Exec, fr *Frame, st *State, pc *preparedCall, k func(*State, []Value)) {
		v := atomicCellLV(x, st, pc.recv.(PtrV)).Load(x, st).(IntV)
		k(st, []Value{BoolV{Ne(v.T, IntLit(0))}})
	}
	models["sync/atomic.Bool.Store"] = func(x *Exec, fr *Frame, st *State, pc *preparedCall, k func(*State, []Value)) {
		atomicCellLV(x, st, pc.recv.(PtrV)).Store(x, st, IntV{Ite(pc.args[0].(BoolV).T, IntLit(1), IntLit(0))})
		k(st, nil)
	}
}

var _ = fmt.Sprint
