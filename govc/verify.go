package main

import (
	"fmt"
	"go/ast"
	"go/token"
	"go/types"
	"runtime"
	"strings"
)

func NewExec(l *Loader, c *Contracts) *Exec {
	return &Exec{
		L: l, C: c,
		Abstractions: map[string]bool{},
		Trusted:      map[string]bool{},
		maxPaths:     400000,
		posFset:      l.Fset,
		globals:      map[types.Object]Value{},
		errIDs:       map[types.Object]int64{},
		strLits:      map[string]int64{},
		UsedSpecs:    map[string]bool{},
		constMaps:    map[types.Object]*ConstMap{},
		iterSources:  map[string]iterSource{},
	}
}

// VerifyFunc generates the obligations of one function under contract.
func (x *Exec) VerifyFunc(key string, fc *FuncContract) (err error) {
	pkg := x.L.pkgOf(fc.Pkg)
	if pkg == nil {
		return fmt.Errorf("package %s not loaded", fc.Pkg)
	}
	decl, fn := x.L.findFunc(pkg, fc.Name)
	var lit *ast.FuncLit
	var litOuter *ast.FuncDecl
	if decl == nil {
		if im := x.ifaceMethod(pkg, fc.Name); im != nil {
			return x.checkImplementations(key, fc, pkg, im)
		}
	}
	if decl == nil {
		// closure: "Outer$n"
		if i := strings.Index(fc.Name, "$"); i > 0 {
			litOuter, _ = x.L.findFunc(pkg, fc.Name[:i])
			if litOuter != nil {
				var n int
				fmt.Sscanf(fc.Name[i+1:], "%d", &n)
				cnt := 0
				ast.Inspect(litOuter.Body, func(nd ast.Node) bool {
					if fl, ok := nd.(*ast.FuncLit); ok {
						cnt++
						if cnt == n {
							lit = fl
						}
					}
					return true
				})
			}
		}
		if lit == nil {
			return fmt.Errorf("function %s not found in %s", fc.Name, fc.Pkg)
		}
	}
	defer func() {
		if r := recover(); r != nil {
			if ue, ok := r.(unsupportedErr); ok {
				err = fmt.Errorf("%s: unsupported: %s", key, ue.msg)
				return
			}
			// internal error of the generator: report, never crash the whole check
			buf := make([]byte, 4096)
			n := runtime.Stack(buf, false)
			err = fmt.Errorf("%s: generator internal error: %v\n%s", key, r, firstLines(string(buf[:n]), 14))
		}
	}()
	ctx := &FuncCtx{Name: shortPkg(fc.Pkg) + "." + fc.Name, Short: fc.Name, Contract: fc, NoPanic: fc.NoPanic, Props: fc.Props, Pkg: pkg,
		Params: map[string]Value{}, ParamT: map[string]types.Type{}}
	for _, g := range fc.Ghost {
		if g == "nooverflow" {
			ctx.NoOvf = true
		}
	}
	x.cur = ctx
	x.paths = 0
	st := &State{vars: map[types.Object]Value{}, boxed: map[types.Object]PtrV{}, heap: map[string]*Term{}, ghost: map[string]Value{}}
	st.now = Var("now0", SInt)
	st.assumeRaw(Gt(st.now, IntLit(1_000_000_000)))
	x.initGhostInts(st)
	st.alloc = Var("alloc0", SInt)
	st.assumeRaw(Ge(st.alloc, IntLit(0)))

	var body *ast.BlockStmt
	var sig *types.Signature
	var ftype *ast.FuncType
	var recv *ast.FieldList
	if decl != nil {
		body, ftype, recv = decl.Body, decl.Type, decl.Recv
		sig = fn.Type().(*types.Signature)
	} else {
		body, ftype = lit.Body, lit.Type
		sig = pkg.TypesInfo.TypeOf(lit).(*types.Signature)
	}
	fr := x.newFrame(nil, nil, fn, sig, body)
	fr.pkg = pkg
	fr.contract = fc
	fr.top = ctx
	fr.tsubst = map[*types.TypeParam]types.Type{}
	x.tsub = fr.tsubst

	// symbolic parameters
	info := pkg.TypesInfo
	bindFresh := func(id *ast.Ident) {
		obj, _ := info.Defs[id].(*types.Var)
		if obj == nil || id.Name == "_" {
			return
		}
		t := x.resolveType(obj.Type())
		v := x.freshValue(st, t, "p_"+id.Name)
		if p, ok := v.(PtrV); ok {
			x.assumeAllocated(st, p.Addr)
		}
		st.vars[obj] = v
		ctx.Params[id.Name] = v
		ctx.ParamT[id.Name] = t
	}
	if recv != nil {
		for _, f := range recv.List {
			for _, n := range f.Names {
				bindFresh(n)
				// receivers are assumed non-nil
				if p, ok := ctx.Params[n.Name].(PtrV); ok {
					st.assumeRaw(Gt(p.Addr, IntLit(0)))
				}
				ctx.Params["self"] = ctx.Params[n.Name]
			}
		}
	}
	for _, f := range ftype.Params.List {
		for _, n := range f.Names {
			bindFresh(n)
		}
	}
	// closures: free variables are symbolic inputs
	if lit != nil {
		x.bindFreeVars(fr, lit, litOuter, st, ctx)
	}
	// named results
	if ftype.Results != nil {
		ri := 0
		for _, f := range ftype.Results.List {
			if len(f.Names) == 0 {
				v := types.NewVar(token.NoPos, nil, fmt.Sprintf("result%d", ri), sig.Results().At(ri).Type())
				fr.results = append(fr.results, v)
				st.vars[v] = x.zeroValue(x.resolveType(v.Type()))
				ri++
				continue
			}
			for _, n := range f.Names {
				obj := info.Defs[n].(*types.Var)
				fr.results = append(fr.results, obj)
				st.vars[obj] = x.zeroValue(x.resolveType(obj.Type()))
				ri++
			}
		}
	}
	for _, g := range fc.Ghost {
		if g == "holds shard" {
			st.held = append(st.held, heldLock{ID: Var("callerlock", SInt), Level: 1, Write: true, Desc: "elem:held-by-caller"})
		}
	}
	if fc.Implements != "" && x.C.Funcs["fnfield:"+fc.Implements] == nil {
		// a method implementing an interface method under contract: "implements Cache.Get"
		ifc := x.C.Funcs[fc.Pkg+"."+fc.Implements]
		if ifc == nil {
			return fmt.Errorf("%s: implements unknown contract %s", key, fc.Implements)
		}
		im := x.ifaceMethod(pkg, fc.Implements)
		if im == nil {
			return fmt.Errorf("%s: %s is not an interface method of %s", key, fc.Implements, fc.Pkg)
		}
		isig := im.Type().(*types.Signature)
		i := 0
		for _, f := range ftype.Params.List {
			for _, n := range f.Names {
				if i < isig.Params().Len() {
					ctx.Params[isig.Params().At(i).Name()] = ctx.Params[n.Name]
				}
				i++
			}
		}
		fc.Requires = append(append([]Clause{}, fc.Requires...), ifc.Requires...)
		fc.Ensures = append(append([]Clause{}, fc.Ensures...), ifc.Ensures...)
		if len(fc.Assigns) == 0 && !fc.Pure {
			fc.Assigns = ifc.Assigns // the implementation stays within the interface method's frame
		}
		fc.Implements = ""
		x.Trusted["interface contract "+ifc.Name+": every implementation in the module is verified against it (implements)"] = true
	}
	if fc.Implements != "" {
		if ff := x.C.Funcs["fnfield:"+fc.Implements]; ff != nil {
			// the closure's parameters are also known under the names the field contract uses
			i := 0
			for _, f := range ftype.Params.List {
				for _, n := range f.Names {
					if i < len(ff.Params) {
						ctx.Params[ff.Params[i].Name] = ctx.Params[n.Name]
					}
					i++
				}
			}
			for _, r := range ff.Results {
				ctx.ResultAlias = append(ctx.ResultAlias, r.Name)
			}
			for _, g := range ff.Ghost {
				if g == "holds shard" {
					st.held = append(st.held, heldLock{ID: Var("callerlock", SInt), Level: 1, Write: true, Desc: "elem:held-by-caller"})
				}
			}
			fc.Requires = append(append([]Clause{}, ff.Requires...), fc.Requires...)
			fc.Ensures = append(append([]Clause{}, ff.Ensures...), fc.Ensures...)
			fc.Implements = ""
		} else {
			return fmt.Errorf("%s: implements unknown fnfield %s", key, fc.Implements)
		}
	}
	x.onFuncEntry(fr, st, ctx)
	// preconditions
	env := x.entryEnv(fr, st, ctx)
	for _, r := range fc.Requires {
		st.assumeRaw(x.specBool(env, r.Expr))
	}
	// "ghost jsize-is <expr>": in this function the janitor's view of the cache size (ghost jsize
	// of the callback contracts) is the value of <expr>
	for _, g := range fc.Ghost {
		if strings.HasPrefix(g, "jsize-is ") {
			e, err := ParseSpec(strings.TrimPrefix(g, "jsize-is "))
			if err != nil {
				return fmt.Errorf("%s: jsize-is: %v", key, err)
			}
			if v, ok := x.specEval(env, e).(IntV); ok {
				st.assumeRaw(Eq(st.ghostInt("jsize"), v.T))
			}
		}
	}
	// "ghost jexp-is <expr>": in this callback implementation the janitor's view of the expiry of
	// the entry stored for the parameter key (ghost jexp(key) of the callback contracts) is <expr>
	for _, g := range fc.Ghost {
		if strings.HasPrefix(g, "jexp-is ") {
			e, err := ParseSpec(strings.TrimPrefix(g, "jexp-is "))
			if err != nil {
				return fmt.Errorf("%s: jexp-is: %v", key, err)
			}
			kv, okk := env.vars["key"]
			if v, ok := x.specEval(env, e).(IntV); ok && okk {
				st.assumeRaw(Eq(Select(st.ghostArr("jexp", SInt), x.keyTerm(st, kv)), v.T))
			}
		}
	}
	ctx.Entry = st.clone()
	// vacuity: the precondition must be satisfiable
	x.Obls = append(x.Obls, &Obligation{Func: ctx.Name, Kind: "cover", Label: "requires", Name: ctx.Name + "#cover:requires",
		Assume: append([]*Term(nil), st.pc...), Goal: TFalse, Cover: true, Props: ctx.Props, Inputs: ctx.Params})

	fr.ret = func(st *State, vals []Value) {
		ctx.retCount++
		x.atReturn(fr, st, ctx, sig, vals)
	}
	x.runBody(fr, body, st)
	x.FuncsDone = append(x.FuncsDone, ctx.Name)
	return nil
}

func shortPkg(p string) string {
	p = strings.TrimPrefix(p, "reservoir/")
	return p
}

func (x *Exec) entryEnv(fr *Frame, st *State, ctx *FuncCtx) *SpecEnv {
	env := &SpecEnv{x: x, st: st, vars: map[string]Value{}, bound: map[string]Value{}, pkgPath: fr.pkg.PkgPath, fr: fr}
	for k, v := range ctx.Params {
		env.vars[k] = v
	}
	return env
}

func (x *Exec) atReturn(fr *Frame, st *State, ctx *FuncCtx, sig *types.Signature, vals []Value) {
	env := x.entryEnv(fr, st, ctx)
	env.old = ctx.Entry
	results := map[string]Value{}
	for i, v := range vals {
		name := fmt.Sprintf("result%d", i)
		if i < len(fr.results) && !strings.HasPrefix(fr.results[i].Name(), "result") {
			name = fr.results[i].Name()
		}
		env.vars[name] = v
		env.vars[fmt.Sprintf("result%d", i)] = v
		if i == 0 {
			env.vars["result"] = v
		}
		if i < len(ctx.ResultAlias) && ctx.ResultAlias[i] != "" {
			// the names the function-field contract gives its results
			env.vars[ctx.ResultAlias[i]] = v
		}
		results[name] = v
	}
	for _, g := range ctx.Contract.Ghost {
		if strings.HasPrefix(g, "jsize-is ") {
			if e, err := ParseSpec(strings.TrimPrefix(g, "jsize-is ")); err == nil {
				if v, ok := x.specEval(env, e).(IntV); ok {
					st.ghost["jsize"] = IntV{v.T}
				}
			}
		}
	}
	for i, e := range ctx.Contract.Ensures {
		t := x.specBool(env, e.Expr)
		x.oblige(fr, st, "post", fmt.Sprint(i+1), t, nil)
		ob := x.Obls[len(x.Obls)-1]
		ob.Tag = e.Tag
		ob.Clause = e.Expr
		ob.Results = results
		ob.Pos = fmt.Sprintf("%s (ensures %s)", ctx.Contract.File, e.Src)
	}
	if ctx.Contract.Pure {
		x.pureFrame(fr, st, ctx)
	} else if len(ctx.Contract.Assigns) > 0 {
		x.assignsFrame(fr, st, ctx)
	}
	if ctx.Contract.Pure || len(ctx.Contract.Assigns) > 0 {
		x.ghostFrame(fr, st, ctx)
	}
	x.onFuncExit(fr, st, ctx, env)
	// canary: this return must be reachable under the contract's assumptions
	x.Obls = append(x.Obls, &Obligation{Func: ctx.Name, Kind: "canary", Label: "return", Name: ctx.Name + "#canary:return",
		Assume: append([]*Term(nil), st.pc...), Goal: TFalse, Canary: true, Props: ctx.Props, Inputs: ctx.Params, Trace: append([]string(nil), st.trace...)})
}

// bindFreeVars gives the free variables of a closure under contract symbolic values.
func (x *Exec) bindFreeVars(fr *Frame, lit *ast.FuncLit, outer *ast.FuncDecl, st *State, ctx *FuncCtx) {
	info := fr.pkg.TypesInfo
	seen := map[types.Object]bool{}
	ast.Inspect(lit.Body, func(n ast.Node) bool {
		id, ok := n.(*ast.Ident)
		if !ok {
			return true
		}
		obj, ok := info.Uses[id].(*types.Var)
		if !ok || seen[obj] || obj.IsField() {
			return true
		}
		if obj.Pkg() == nil || obj.Parent() == obj.Pkg().Scope() {
			return true
		}
		// declared outside the literal?
		if obj.Pos() >= lit.Pos() && obj.Pos() <= lit.End() {
			return true
		}
		seen[obj] = true
		t := x.resolveType(obj.Type())
		v := x.freshValue(st, t, "fv_"+obj.Name())
		if p, ok := v.(PtrV); ok {
			x.assumeAllocated(st, p.Addr)
			st.assumeRaw(Gt(p.Addr, IntLit(0)))
		}
		st.vars[obj] = v
		ctx.Params[obj.Name()] = v
		ctx.ParamT[obj.Name()] = t
		return true
	})
}

func firstLines(s string, n int) string {
	lines := strings.Split(s, "\n")
	if len(lines) > n {
		lines = lines[:n]
	}
	return strings.Join(lines, "\n")
}

// pureFrame: a function declared pure leaves every heap location that was
// allocated at entry unchanged (it may allocate and initialise new objects).
func (x *Exec) pureFrame(fr *Frame, st *State, ctx *FuncCtx) {
	if st.havocked {
		x.oblige(fr, st, "frame", "pure/havoc", TFalse, nil)
		return
	}
	if st.loopHavoc {
		return
	}
	for _, key := range st.heapKeys() {
		cur := st.heap[key]
		if cur.Op == "var" {
			continue // never written
		}
		init := Var("H0_"+sanitize(key), cur.Sort)
		x.quantN++
		a := Var(fmt.Sprintf("qa_%d", x.quantN), SInt)
		goal := Forall([]*Term{a}, Implies(allocAt(Var("alloc0", SInt), a), Eq(Select(cur, a), Select(init, a))))
		if strings.HasPrefix(key, "map_") {
			goal = Forall([]*Term{a}, Implies(allocAt(Var("alloc0", SInt), a), Eq(Select(cur, a), Select(init, a))))
		}
		x.oblige(fr, st, "frame", "pure/"+key, goal, nil)
	}
}

// assignsFrame: a function with an assigns clause leaves every heap array that
// matches none of its patterns unchanged at the addresses allocated at entry.
func (x *Exec) assignsFrame(fr *Frame, st *State, ctx *FuncCtx) {
	matches := func(key string) bool {
		for _, a := range ctx.Contract.Assigns {
			if strings.HasPrefix(a, "ghost:") || a == "nothing" || strings.HasPrefix(a, "new:") || strings.Contains(a, "@") {
				continue
			}
			if strings.Contains(key, a) {
				return true
			}
		}
		return false
	}
	if st.havocked && len(st.lazyHavoc) == 0 {
		x.oblige(fr, st, "frame", "assigns/havoc", TFalse, nil)
		return
	}
	if st.loopHavoc {
		// frame of loops is checked per iteration (syntactic scan of the body): see loopFrame
		return
	}
	// one-object patterns "T@param": keys matching T may change at the entry value of param only
	onlyAt := func(key string) []*Term {
		var out []*Term
		for _, a := range ctx.Contract.Assigns {
			if strings.HasPrefix(a, "@") {
				if pv, ok := ctx.Params[a[1:]].(PtrV); ok && (key == pv.Prefix || strings.HasPrefix(key, pv.Prefix+".")) {
					out = append(out, pv.Addr)
				}
				continue
			}
			if i := strings.Index(a, "@"); i > 0 && !strings.HasPrefix(a, "ghost:") && strings.Contains(key, a[:i]) {
				if ad, ok := x.frameObj(x.entrySpecEnv(ctx), a[i+1:]); ok {
					out = append(out, ad)
				}
			}
		}
		return out
	}
	// one obligation per path: every heap array outside the frame is unchanged at the addresses
	// allocated at entry (the keys concerned are listed in the obligation's position text)
	var goals []*Term
	var keys []string
	for _, key := range st.heapKeys() {
		if matches(key) {
			continue
		}
		cur := st.heap[key]
		if cur.Op == "var" && strings.HasPrefix(cur.Name, "H0_") {
			continue
		}
		init := Var("H0_"+sanitize(key), cur.Sort)
		x.quantN++
		a := Var(fmt.Sprintf("qa_%d", x.quantN), SInt)
		conds := []*Term{allocAt(Var("alloc0", SInt), a)}
		for _, ex := range onlyAt(key) {
			conds = append(conds, Ne(a, ex))
		}
		goals = append(goals, Forall([]*Term{a}, Implies(And(conds...), Eq(Select(cur, a), Select(init, a)))))
		keys = append(keys, key)
	}
	for i := 0; i < len(goals); i += 6 {
		j := min(i+6, len(goals))
		x.oblige(fr, st, "frame", "assigns", And(goals[i:j]...), nil)
		x.Obls[len(x.Obls)-1].Pos = "written outside the assigns clause? candidates: " + strings.Join(keys[i:j], ", ")
	}
}

// ifaceMethod finds "Iface.Method" in a package.
func (x *Exec) ifaceMethod(pkg *pkgT, name string) *types.Func {
	parts := strings.SplitN(name, ".", 2)
	if len(parts) != 2 {
		return nil
	}
	obj := pkg.Types.Scope().Lookup(parts[0])
	if obj == nil {
		return nil
	}
	it, ok := obj.Type().Underlying().(*types.Interface)
	if !ok {
		return nil
	}
	for i := 0; i < it.NumMethods(); i++ {
		if it.Method(i).Name() == parts[1] {
			return it.Method(i)
		}
	}
	return nil
}

// checkImplementations: a contract on an interface method is used at calls through the
// interface; it is sound only if every type of the module that implements the interface
// has its method verified against it.  One obligation per implementing type.
func (x *Exec) checkImplementations(key string, fc *FuncContract, pkg *pkgT, im *types.Func) error {
	parts := strings.SplitN(fc.Name, ".", 2)
	iobj := pkg.Types.Scope().Lookup(parts[0])
	iface := iobj.Type().Underlying().(*types.Interface)
	ctxName := shortPkg(fc.Pkg) + "." + fc.Name
	found := 0
	for path, p := range x.L.Pkgs {
		if !inModule(path) || p.Types == nil {
			continue
		}
		scope := p.Types.Scope()
		for _, n := range scope.Names() {
			tn, ok := scope.Lookup(n).(*types.TypeName)
			if !ok || tn.IsAlias() {
				continue
			}
			named, ok := tn.Type().(*types.Named)
			if !ok {
				continue
			}
			if _, isI := named.Underlying().(*types.Interface); isI {
				continue
			}
			// generic types: compare method names and arity (instantiation-independent)
			ms := types.NewMethodSet(types.NewPointer(named))
			all := true
			for i := 0; i < iface.NumMethods(); i++ {
				if ms.Lookup(iface.Method(i).Pkg(), iface.Method(i).Name()) == nil {
					all = false
					break
				}
			}
			if !all {
				continue
			}
			if strings.HasSuffix(p.PkgPath, "_test") {
				continue
			}
			found++
			ik := path + "." + n + "." + parts[1]
			ic := x.C.Funcs[ik]
			ok2 := ic != nil && ic.ImplDecl == fc.Name && !ic.Assumed
			x.Obls = append(x.Obls, &Obligation{Func: ctxName, Kind: "implements", Label: shortPkg(path) + "." + n, Name: ctxName + "#implements:" + shortPkg(path) + "." + n,
				Goal: BoolLit(ok2), Props: fc.Props, Pos: fc.File})
		}
	}
	if found == 0 {
		return fmt.Errorf("%s: no implementation of the interface found in the module", key)
	}
	x.FuncsDone = append(x.FuncsDone, ctxName+" (interface contract)")
	return nil
}
