package main

// The property check driver: govc check -prop C07 [-tier quick|thorough]

import (
	"os/exec"
	"regexp"
	"encoding/json"
	"flag"
	"fmt"
	"os"
	"path/filepath"
	"sort"
	"strings"
	"time"
)

type PropConfig struct {
	Packages []string       `json:"packages"`
	Level    string         `json:"level"`
	Notes    []string       `json:"not_decided"`
	Bounded  []BoundedCheck `json:"bounded"`
}

// BoundedCheck: a test of the real code that stands in for a trusted contract of a
// function outside the verifier's reach.  Labelled bounded, never counted as proved.
type BoundedCheck struct {
	Name      string `json:"name"`
	Pkg       string `json:"pkg"`
	File      string `json:"file"` // under /verif/bounded
	Test      string `json:"test"`
	Bound     string `json:"bound"`
	StandsFor string `json:"stands_for"`
	Race      bool   `json:"race"`
}

type KnownFinding struct {
	Status     string `json:"status"` // "known" or "fixed"
	Property   string `json:"property"`
	Obligation string `json:"obligation"`
	What       string `json:"what"`
	Commit     string `json:"commit,omitempty"`
	Witness    string `json:"witness,omitempty"`
}

type oblGroup struct {
	Name      string
	Instances []int
	Status    string // "discharged" "failed" "undecided"
	Solver    string
	Seconds   float64
	FailIdx   int
	Tried     []string
}

func loadJSON(path string, v any) error {
	b, err := os.ReadFile(path)
	if err != nil {
		return err
	}
	return json.Unmarshal(b, v)
}

func loadKnownFindings(path string) ([]KnownFinding, error) {
	b, err := os.ReadFile(path)
	if err != nil {
		if os.IsNotExist(err) {
			return nil, nil
		}
		return nil, err
	}
	var out []KnownFinding
	for _, line := range strings.Split(string(b), "\n") {
		line = strings.TrimSpace(line)
		if line == "" || strings.HasPrefix(line, "#") {
			continue
		}
		var k KnownFinding
		if err := json.Unmarshal([]byte(line), &k); err != nil {
			return nil, fmt.Errorf("%s: %v", path, err)
		}
		out = append(out, k)
	}
	return out, nil
}

func hasProp(props []string, p string) bool {
	for _, q := range props {
		if q == p {
			return true
		}
	}
	return false
}

func cmdCheck(args []string) {
	fs := flag.NewFlagSet("check", flag.ExitOnError)
	repo := fs.String("repo", "/repo", "repository root")
	vdir := fs.String("verif", "/verif", "verification directory")
	prop := fs.String("prop", "", "property id")
	tier := fs.String("tier", "quick", "quick or thorough")
	verbose := fs.Bool("v", false, "verbose")
	updateBaseline := fs.Bool("update-baseline", false, "rewrite the obligation baseline for this property")
	noEvidence := fs.Bool("no-evidence", false, "do not write the evidence file (used by self tests)")
	fs.Parse(args)
	if *prop == "" {
		fmt.Fprintln(os.Stderr, "missing -prop")
		os.Exit(2)
	}
	code := runCheck(*repo, *vdir, *prop, *tier, *verbose, *updateBaseline, !*noEvidence)
	cleanupScratch()
	os.Exit(code)
}

func runCheck(repo, vdir, prop, tier string, verbose, updateBaseline, writeEvidence bool) int {
	t0 := time.Now()
	seed := 0
	fmt.Sscanf(os.Getenv("VERIF_SEED"), "%d", &seed)
	var props map[string]PropConfig
	if err := loadJSON(filepath.Join(vdir, "props.json"), &props); err != nil {
		fmt.Fprintln(os.Stderr, "props.json:", err)
		return 2
	}
	pc, ok := props[prop]
	if !ok {
		fmt.Fprintf(os.Stderr, "property %s is not configured\n", prop)
		return 2
	}
	timeout := 10 * time.Second
	fuel := 2
	if tier == "thorough" {
		timeout = 60 * time.Second
		fuel = 3
	}
	l, err := LoadRepo(repo, pc.Packages)
	if err != nil {
		// the tree does not type-check: nothing can be decided
		fmt.Fprintln(os.Stderr, "load:", err)
		return 2
	}
	cs, err := loadContracts(l, vdir)
	if err != nil {
		fmt.Fprintln(os.Stderr, err)
		return 2
	}
	x := NewExec(l, cs)
	x.specFuel = fuel
	x.loadDirectives()
	var keys []string
	for k, fc := range cs.Funcs {
		if !fc.Assumed && hasProp(fc.Props, prop) {
			keys = append(keys, k)
		}
	}
	sort.Strings(keys)
	var genErrors []string
	for _, k := range keys {
		if err := x.VerifyFunc(k, cs.Funcs[k]); err != nil {
			genErrors = append(genErrors, err.Error())
		}
	}
	x.lemmaObligations(prop)
	x.globalObligations(prop)
	genErrors = append(genErrors, x.Errors...)
	// keep only obligations serving this property
	var obls []*Obligation
	for _, ob := range x.Obls {
		if ob.Tag != "" && !hasProp(strings.Fields(strings.ReplaceAll(ob.Tag, ",", " ")), prop) {
			continue
		}
		obls = append(obls, ob)
	}
	tGen := time.Since(t0).Seconds()
	results := dischargeAll(x, obls, timeout, tier == "thorough")
	if verbose {
		fmt.Fprintf(os.Stderr, "generated %d obligation instances in %.1fs, discharged in %.1fs\n", len(obls), tGen, time.Since(t0).Seconds()-tGen)
		slow := map[string]float64{}
		for i, r := range results {
			if r.Seconds > 1.0 || r.Status == "unknown" {
				slow[obls[i].Func+"#"+obls[i].Kind+fmt.Sprint(r.Tried)+firstLines(r.Detail, 2)] += r.Seconds
			}
		}
		for k, v := range slow {
			fmt.Fprintf(os.Stderr, "slow: %s %.1fs\n", k, v)
		}
	}

	// group by name
	groups := map[string]*oblGroup{}
	var order []string
	for i, ob := range obls {
		g := groups[ob.Name]
		if g == nil {
			g = &oblGroup{Name: ob.Name, Status: "discharged", FailIdx: -1}
			groups[ob.Name] = g
			order = append(order, ob.Name)
		}
		g.Instances = append(g.Instances, i)
		r := results[i]
		g.Seconds += r.Seconds
		if ob.Canary || ob.Cover {
			continue
		}
		if r.Status == "unsat" {
			if g.Solver == "" {
				g.Solver = r.Solver
			}
			continue
		}
		if g.FailIdx < 0 || (r.Status == "sat" && results[g.FailIdx].Status != "sat") {
			g.FailIdx = i
		}
		if r.Status == "sat" {
			g.Status = "failed"
		} else if g.Status != "failed" {
			g.Status = "undecided"
		}
		g.Tried = r.Tried
	}
	// vacuity guards
	var vacuous []string
	var deadClauses []string
	for _, n := range order {
		g := groups[n]
		ob0 := obls[g.Instances[0]]
		if !(ob0.Canary || ob0.Cover) {
			continue
		}
		anySat := false
		allUnsat := true
		for _, i := range g.Instances {
			if results[i].Status == "sat" {
				anySat = true
			}
			if results[i].Status != "unsat" {
				allUnsat = false
			}
		}
		if anySat {
			g.Status = "reachable"
		} else if allUnsat && ob0.Soft {
			g.Status = "dead-clause"
			deadClauses = append(deadClauses, n)
		} else if allUnsat {
			g.Status = "vacuous"
			vacuous = append(vacuous, n)
		} else {
			g.Status = "reachability-unknown"
		}
	}

	known, err := loadKnownFindings(filepath.Join(vdir, "known_findings.jsonl"))
	if err != nil {
		fmt.Fprintln(os.Stderr, err)
		return 2
	}
	var baseline map[string][]string
	loadJSON(filepath.Join(vdir, "obligations.baseline.json"), &baseline)
	if baseline == nil {
		baseline = map[string][]string{}
	}

	nObl, nDis := 0, 0
	var violations []string
	var knownPrinted []string
	var samples []any
	solverTime := map[string]float64{}
	replayDir := filepath.Join(vdir, "replay", prop)
	if os.Getenv("GOVC_NESTED") != "" {
		// a run of the must-fail corpus: its replays are not those of the tree under check
		replayDir = filepath.Join(scratch(), "nested_replay", prop)
	}
	for _, n := range order {
		g := groups[n]
		ob0 := obls[g.Instances[0]]
		if ob0.Canary || ob0.Cover {
			continue
		}
		nObl++
		if g.Status == "discharged" {
			nDis++
			solverTime[g.Solver] += g.Seconds
			if len(samples) < 12 {
				samples = append(samples, map[string]any{"obligation": n, "paths": len(g.Instances), "backend": g.Solver, "seconds": round3(g.Seconds), "at": ob0.Pos})
			}
			continue
		}
		// failed or undecided
		kf := matchKnown(known, prop, n)
		if kf != nil {
			knownPrinted = append(knownPrinted, fmt.Sprintf("KNOWN-FINDING: property=%s %s [%s]", prop, kf.What, n))
			continue
		}
		fi := g.FailIdx
		rep := x.buildReplay(repo, vdir, replayDir, prop, obls[fi], results[fi], g, timeout)
		line := fmt.Sprintf("VIOLATION property=%s replay=%s", prop, rep.Path)
		if !rep.Confirmed {
			line += " no-failing-input-found"
		}
		violations = append(violations, line)
		if verbose {
			fmt.Fprintf(os.Stderr, "failed: %s status=%s at %s trace=%v tried=%v\n", n, g.Status, obls[fi].Pos, obls[fi].Trace, g.Tried)
		}
	}
	// baseline: obligations that used to be discharged must still exist
	present := map[string]bool{}
	for _, n := range order {
		present[n] = true
	}
	for _, n := range baseline[prop] {
		if !present[n] && !updateBaseline {
			if kf := matchKnown(known, prop, n); kf != nil {
				continue
			}
			path := filepath.Join(replayDir, sanitize(n)+".missing.txt")
			os.MkdirAll(replayDir, 0o755)
			os.WriteFile(path, []byte(fmt.Sprintf("obligation %s is in the baseline of %s but was not generated from the current tree\ngenerator errors: %v\n", n, prop, genErrors)), 0o644)
			violations = append(violations, fmt.Sprintf("VIOLATION property=%s replay=%s no-failing-input-found", prop, path))
			nObl++
		}
	}
	for _, e := range genErrors {
		fmt.Fprintln(os.Stderr, "generator:", e)
	}
	if updateBaseline {
		var names []string
		for _, n := range order {
			g := groups[n]
			if g.Status == "discharged" && stableName(obls[g.Instances[0]].Kind) {
				names = append(names, n)
			}
		}
		sort.Strings(names)
		baseline[prop] = names
		b, _ := json.MarshalIndent(baseline, "", " ")
		os.WriteFile(filepath.Join(vdir, "obligations.baseline.json"), append(b, '\n'), 0o644)
	}

	var boundedReport []any
	for _, bc := range pc.Bounded {
		out, failed, built := goTestOverlay(repo, bc.Pkg, filepath.Join(vdir, "bounded", bc.File), bc.Test, bc.Race)
		status := "held"
		if !built {
			status = "did-not-build"
			genErrors = append(genErrors, "bounded check "+bc.Name+" did not build or run: "+tail(out, 300))
		} else if failed {
			status = "violated"
			os.MkdirAll(replayDir, 0o755)
			path := filepath.Join(replayDir, "bounded_"+sanitize(bc.Name)+".replay.txt")
			os.WriteFile(path, []byte(fmt.Sprintf("bounded check %s (stands for: %s; bound: %s)\ntest %s in ./%s fails on the real code:\n%s\n", bc.Name, bc.StandsFor, bc.Bound, bc.Test, bc.Pkg, tail(out, 3000))), 0o644)
			violations = append(violations, fmt.Sprintf("VIOLATION property=%s replay=%s", prop, path))
		}
		boundedReport = append(boundedReport, map[string]any{"name": bc.Name, "level": "bounded", "bound": bc.Bound, "stands_for": bc.StandsFor, "test": bc.Test, "status": status})
	}
	// thorough tier only: (1) the bounded histories registered for this property are all run on
	// the tree as it is (not only as replays of a failed obligation); (2) the must-fail corpus
	// of this property is run on scratch copies of the tree: the check must report each of them
	var historyReport, corpusReport []any
	if tier == "thorough" && os.Getenv("GOVC_NESTED") == "" {
		var idx []scenarioEntry
		loadJSON(filepath.Join(vdir, "scenarios", "index.json"), &idx)
		seen := map[string]bool{}
		for _, sc := range idx {
			if !hasProp(sc.Props, prop) || seen[sc.File+"/"+sc.Test] || sc.NoHistory {
				continue
			}
			seen[sc.File+"/"+sc.Test] = true
			out, failed, built := goTestOverlay(repo, sc.Pkg, filepath.Join(vdir, "scenarios", sc.File), sc.Test, sc.Race)
			if failed {
				// timing-dependent histories: a failure counts only when it repeats
				out, failed, built = goTestOverlay(repo, sc.Pkg, filepath.Join(vdir, "scenarios", sc.File), sc.Test, sc.Race)
			}
			status := "held"
			if !built {
				status = "did-not-build"
			} else if failed {
				status = "violated"
				if kf := matchKnownScenario(known, prop, sc.Obligation); kf != nil {
					status = "known-finding"
				} else {
					os.MkdirAll(replayDir, 0o755)
					path := filepath.Join(replayDir, "history_"+sanitize(sc.Test)+".replay.txt")
					os.WriteFile(path, []byte(fmt.Sprintf("bounded history %s (%s)\nfails on the real code:\n%s\n", sc.Test, sc.What, tail(out, 3000))), 0o644)
					violations = append(violations, fmt.Sprintf("VIOLATION property=%s replay=%s", prop, path))
				}
			}
			historyReport = append(historyReport, map[string]any{"test": sc.Test, "what": sc.What, "level": "bounded history", "status": status})
		}
		corpusReport = runCorpus(repo, vdir, prop)
	}
	for _, l := range knownPrinted {
		fmt.Println(l)
	}
	for _, v := range violations {
		fmt.Println(v)
	}
	exit := 0
	if len(violations) > 0 {
		exit = 1
	}
	for _, d := range deadClauses {
		fmt.Fprintln(os.Stderr, "note: dead clause (antecedent unreachable after the call):", d)
	}
	hard := ""
	if len(vacuous) > 0 {
		hard = "vacuous contracts: " + strings.Join(vacuous, ", ")
	}
	if nObl == 0 {
		hard = "no obligations generated"
	}
	if len(genErrors) > 0 && len(violations) == 0 {
		// a function under contract left the supported subset: its obligations are not discharged
		hard = "generator errors: " + strings.Join(genErrors, "; ")
	}
	if hard != "" {
		fmt.Fprintln(os.Stderr, "NO VERDICT:", hard)
		if exit == 0 {
			exit = 2
		}
	}
	if writeEvidence {
		var trusted []string
		for t := range x.Trusted {
			trusted = append(trusted, t)
		}
		sort.Strings(trusted)
		var abstr []string
		for a := range x.Abstractions {
			abstr = append(abstr, a)
		}
		sort.Strings(abstr)
		trusted = append(trusted, "go/types + go/packages front end (x/tools v0.29.0), govc VC generator, z3 5.1.0, z3 4.8.12, cvc5 1.0")
		var reach []string
		for _, n := range order {
			g := groups[n]
			if obls[g.Instances[0]].Canary || obls[g.Instances[0]].Cover {
				reach = append(reach, n+"="+g.Status)
			}
		}
		level := pc.Level
		if level == "" {
			level = "proof"
		}
		ev := map[string]any{
			"property_id": prop,
			"tier":        tier,
			"seed":        seed,
			"level":       level,
			"wall_s":      round3(time.Since(t0).Seconds()),
			"violations":  len(violations),
			"coverage": map[string]any{
				"obligations":           nObl - len(knownPrinted),
				"discharged":            nDis,
				"obligations_including_known_findings": nObl,
				"checker_cmd":           fmt.Sprintf("govc check -prop %s -tier %s (z3-new / cvc5 / z3 raced per obligation, %s limit)", prop, tier, timeout),
				"trusted_base":          trusted,
				"functions_under_contract": x.FuncsDone,
				"obligation_instances":  len(obls),
				"solver_seconds":        roundMap(solverTime),
				"samples":               samples,
				"abstractions_exercised": abstr,
				"vacuity_guards":        reach,
				"bounded_checks":        boundedReport,
				"bounded_histories":     historyReport,
				"must_fail_corpus":      corpusReport,
				"known_findings_printed": knownPrinted,
				"spec_functions_used":   sortedKeys(x.UsedSpecs),
				"not_decided":           pc.Notes,
				"generator_errors":      genErrors,
				"integer_semantics":     "Go integers are SMT Int with explicit two's-complement wrap functions per width; spec integers are mathematical",
			},
			"assumptions": append(append([]string{}, abstr...), pc.Notes...),
		}
		os.MkdirAll(filepath.Join(vdir, "evidence"), 0o755)
		b, _ := json.MarshalIndent(ev, "", " ")
		os.WriteFile(filepath.Join(vdir, "evidence", prop+".json"), append(b, '\n'), 0o644)
	}
	fmt.Fprintf(os.Stderr, "%s %s: %d obligations, %d discharged, %d violations, %d known findings, %.1fs\n", prop, tier, nObl, nDis, len(violations), len(knownPrinted), time.Since(t0).Seconds())
	return exit
}

func matchKnown(known []KnownFinding, prop, obl string) *KnownFinding {
	for i := range known {
		k := &known[i]
		if k.Status == "known" && k.Property == prop && k.Obligation == obl {
			return k
		}
	}
	return nil
}

func round3(f float64) float64 { return float64(int(f*1000+0.5)) / 1000 }

func roundMap(m map[string]float64) map[string]float64 {
	out := map[string]float64{}
	for k, v := range m {
		out[k] = round3(v)
	}
	return out
}

// loadContracts reads the assumed contracts and prelude (/verif/assumed) and
// then the contract files of the loaded repository packages.
func loadContracts(l *Loader, vdir string) (*Contracts, error) {
	cs := NewContracts()
	assumed, _ := filepath.Glob(filepath.Join(vdir, "assumed", "*.contracts"))
	sort.Strings(assumed)
	for _, f := range assumed {
		if err := cs.LoadContractFile(f, "", true); err != nil {
			return nil, err
		}
	}
	cfiles := l.contractFiles()
	var cfnames []string
	for f := range cfiles {
		cfnames = append(cfnames, f)
	}
	sort.Strings(cfnames)
	for _, f := range cfnames {
		if err := cs.LoadContractFile(f, cfiles[f], false); err != nil {
			return nil, err
		}
	}
	return cs, nil
}

// stableName: obligations whose name does not quote source text (contract
// clauses, loop contracts, lemmas, frames).  Only these are pinned by the
// baseline; site-labelled safety obligations are regenerated from whatever the
// current code contains, so a harmless edit cannot make one "go missing".
func stableName(kind string) bool {
	switch kind {
	case "post", "inv-init", "inv-keep", "variant", "lemma", "balanced", "frame":
		return true
	}
	return false
}

// matchKnownScenario: a history whose obligation class contains a listed known finding.
func matchKnownScenario(known []KnownFinding, prop, oblRe string) *KnownFinding {
	re, err := regexp.Compile(oblRe)
	if err != nil {
		return nil
	}
	for i := range known {
		k := &known[i]
		if k.Status == "known" && k.Property == prop && re.MatchString(k.Obligation) {
			return k
		}
	}
	return nil
}

// runCorpus: the must-fail corpus of a property (seeded changes and the reverse patches of
// repaired defects) is applied, one at a time, to a scratch copy of the tree; the check is
// expected to report each.  A miss is a weakness of the machinery, recorded in the evidence;
// it is not a violation of the property on the tree under check.
func runCorpus(repo, vdir, prop string) []any {
	var out []any
	var dirs []string
	for _, sub := range []string{"seeded", "findings"} {
		ents, _ := os.ReadDir(filepath.Join(vdir, sub))
		for _, e := range ents {
			if e.IsDir() && strings.HasPrefix(e.Name(), prop+"_") {
				dirs = append(dirs, filepath.Join(vdir, sub, e.Name()))
			}
		}
	}
	self, _ := os.Executable()
	for _, d := range dirs {
		patch := filepath.Join(d, "patch.diff")
		if _, err := os.Stat(patch); err != nil {
			continue
		}
		scratchDir, err := os.MkdirTemp("", "govc_corpus_")
		if err != nil {
			continue
		}
		rec := map[string]any{"item": filepath.Base(filepath.Dir(d)) + "/" + filepath.Base(d)}
		cp := exec.Command("cp", "-a", repo+"/.", scratchDir)
		if err := cp.Run(); err != nil {
			rec["status"] = "copy failed"
		} else if ap := exec.Command("git", "apply", "--exclude=*/contracts_verif.go", patch); func() bool { ap.Dir = scratchDir; return ap.Run() != nil }() {
			rec["status"] = "patch does not apply to the tree under check"
		} else {
			c := exec.Command(self, "check", "-prop", prop, "-repo", scratchDir, "-verif", vdir, "-tier", "quick", "-no-evidence")
			c.Env = append(os.Environ(), "GOVC_NESTED=1")
			o, _ := c.CombinedOutput()
			if strings.Contains(string(o), "VIOLATION property="+prop) {
				rec["status"] = "reported"
			} else {
				rec["status"] = "MISSED"
			}
		}
		os.RemoveAll(scratchDir)
		out = append(out, rec)
	}
	return out
}
