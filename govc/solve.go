package main

import (
	"context"
	"fmt"
	"math/big"
	"os"
	"os/exec"
	"path/filepath"
	"strings"
	"sync"
	"time"
)

type SolveResult struct {
	Status  string // "unsat" "sat" "unknown"
	Solver  string
	Seconds float64
	Detail  string
	Tried   []string
}

type solverSpec struct {
	Name string
	Cmd  func(file string, timeout time.Duration) []string
	CVC5 bool
	// Early solvers start together with the first one.
	Early bool
}

var solvers = []solverSpec{
	{Name: "z3-5.1.0", Cmd: func(f string, t time.Duration) []string {
		return []string{"z3-new", fmt.Sprintf("-T:%d", int(t.Seconds())+1), f}
	}},
	{Name: "z3-5.1.0-ematch", Early: true, Cmd: func(f string, t time.Duration) []string {
		return []string{"z3-new", fmt.Sprintf("-T:%d", int(t.Seconds())+1), "smt.mbqi=false", f}
	}},
	{Name: "cvc5-1.0", CVC5: true, Cmd: func(f string, t time.Duration) []string {
		return []string{"cvc5", fmt.Sprintf("--tlimit=%d", t.Milliseconds()), f}
	}},
	{Name: "z3-4.8.12", Cmd: func(f string, t time.Duration) []string {
		return []string{"/usr/bin/z3", fmt.Sprintf("-T:%d", int(t.Seconds())+1), f}
	}},
}

var scratchDir string
var scratchOnce sync.Once
var fileCounter int64
var fileMu sync.Mutex

func scratch() string {
	scratchOnce.Do(func() {
		d, err := os.MkdirTemp("", "govc-")
		if err != nil {
			panic(err)
		}
		scratchDir = d
	})
	return scratchDir
}

func cleanupScratch() {
	if scratchDir != "" {
		os.RemoveAll(scratchDir)
	}
}

func runSolverCtx(ctx context.Context, s solverSpec, smt string, timeout time.Duration) (status, out string, secs float64) {
	fileMu.Lock()
	fileCounter++
	n := fileCounter
	fileMu.Unlock()
	file := filepath.Join(scratch(), fmt.Sprintf("q%d_%s.smt2", n, sanitize(s.Name)))
	if err := os.WriteFile(file, []byte(smt), 0o644); err != nil {
		return "unknown", err.Error(), 0
	}
	defer os.Remove(file)
	cctx, cancel := context.WithTimeout(ctx, timeout+3*time.Second)
	defer cancel()
	args := s.Cmd(file, timeout)
	cmd := exec.CommandContext(cctx, args[0], args[1:]...)
	t0 := time.Now()
	b, _ := cmd.CombinedOutput()
	secs = time.Since(t0).Seconds()
	out = string(b)
	first := strings.TrimSpace(strings.SplitN(out, "\n", 2)[0])
	switch first {
	case "unsat", "sat":
		return first, out, secs
	}
	if ctx.Err() != nil {
		return "cancelled", out, secs
	}
	if strings.Contains(out, "error") && !strings.Contains(out, "timeout") {
		return "error", out, secs
	}
	return "unknown", out, secs
}

func runSolver(s solverSpec, smt string, timeout time.Duration) (status, out string, secs float64) {
	return runSolverCtx(context.Background(), s, smt, timeout)
}

// solveQuery races the portfolio: the first solver starts at once, the others
// after a short head start; the first definite answer wins.  With all=true
// every solver runs to completion and disagreement is reported.
func solveQuery(q *Query, timeout time.Duration, all bool) SolveResult {
	std := q.SMT(nil, false)
	cvc := ""
	type r struct {
		st, out string
		secs    float64
		name    string
	}
	ctx, cancel := context.WithCancel(context.Background())
	defer cancel()
	ch := make(chan r, len(solvers))
	launch := func(s solverSpec) {
		txt := std
		if s.CVC5 {
			if cvc == "" {
				cvc = q.SMT(nil, true)
			}
			txt = cvc
		}
		go func() {
			st, out, secs := runSolverCtx(ctx, s, txt, timeout)
			ch <- r{st, out, secs, s.Name}
		}()
	}
	launch(solvers[0])
	launched := 1
	for launched < len(solvers) && solvers[launched].Early {
		launch(solvers[launched])
		launched++
	}
	var tried []string
	best := SolveResult{Status: "unknown"}
	got := 0
	head := time.After(1500 * time.Millisecond)
	if all {
		head = time.After(0)
	}
	for got < len(solvers) {
		select {
		case <-head:
			for launched < len(solvers) {
				launch(solvers[launched])
				launched++
			}
			head = nil
		case rr := <-ch:
			got++
			tried = append(tried, fmt.Sprintf("%s:%s:%.2fs", rr.name, rr.st, rr.secs))
			if rr.st == "unsat" || rr.st == "sat" {
				if best.Status != "unsat" && best.Status != "sat" {
					best = SolveResult{Status: rr.st, Solver: rr.name, Seconds: rr.secs}
				} else if best.Status != rr.st {
					best = SolveResult{Status: "unknown", Solver: "disagreement", Detail: fmt.Sprintf("%s says %s, %s says %s", best.Solver, best.Status, rr.name, rr.st)}
				}
				if !all {
					best.Tried = tried
					return best
				}
			} else if best.Status == "unknown" && best.Detail == "" {
				best.Detail = rr.out
			}
			// a solver that gave up early: start the others now
			for launched < len(solvers) {
				launch(solvers[launched])
				launched++
			}
		}
	}
	best.Tried = tried
	return best
}

// ---------------------------------------------------------------- models

type sexp struct {
	atom string
	list []*sexp
}

func parseSexps(s string) []*sexp {
	var out []*sexp
	pos := 0
	var parse func() *sexp
	skip := func() {
		for pos < len(s) && (s[pos] == ' ' || s[pos] == '\n' || s[pos] == '\t' || s[pos] == '\r') {
			pos++
		}
	}
	parse = func() *sexp {
		skip()
		if pos >= len(s) {
			return nil
		}
		if s[pos] == '(' {
			pos++
			n := &sexp{list: []*sexp{}}
			for {
				skip()
				if pos >= len(s) {
					return n
				}
				if s[pos] == ')' {
					pos++
					return n
				}
				c := parse()
				if c == nil {
					return n
				}
				n.list = append(n.list, c)
			}
		}
		if s[pos] == ')' {
			pos++
			return nil
		}
		start := pos
		if s[pos] == '|' {
			pos++
			for pos < len(s) && s[pos] != '|' {
				pos++
			}
			pos++
			return &sexp{atom: s[start:pos]}
		}
		for pos < len(s) && !strings.ContainsRune(" \n\t\r()", rune(s[pos])) {
			pos++
		}
		return &sexp{atom: s[start:pos]}
	}
	for {
		skip()
		if pos >= len(s) {
			break
		}
		e := parse()
		if e == nil {
			break
		}
		out = append(out, e)
	}
	return out
}

func sexpInt(e *sexp) (*big.Int, bool) {
	if e == nil {
		return nil, false
	}
	if e.list == nil {
		v, ok := new(big.Int).SetString(e.atom, 10)
		return v, ok
	}
	if len(e.list) == 2 && e.list[0].atom == "-" {
		v, ok := sexpInt(e.list[1])
		if !ok {
			return nil, false
		}
		return new(big.Int).Neg(v), true
	}
	return nil, false
}

// getValues asks the first solver that answers sat for the values of terms,
// under the query's constraints plus extra pins.
func getValues(q *Query, pins []*Term, terms []*Term, timeout time.Duration) ([]*sexp, string, bool) {
	q2 := &Query{Assume: append(append([]*Term{}, q.Assume...), pins...), Goal: q.Goal, Extra: q.Extra}
	for _, s := range solvers {
		if s.CVC5 {
			continue
		}
		st, out, _ := runSolver(s, q2.SMT(terms, false), timeout)
		if st != "sat" {
			continue
		}
		rest := strings.SplitN(out, "\n", 2)
		if len(rest) < 2 {
			continue
		}
		es := parseSexps(rest[1])
		if len(es) == 0 || len(es[0].list) != len(terms) {
			continue
		}
		vals := make([]*sexp, len(terms))
		for i, p := range es[0].list {
			if len(p.list) == 2 {
				vals[i] = p.list[1]
			}
		}
		return vals, s.Name, true
	}
	return nil, "", false
}
