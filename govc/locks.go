package main

// Lock discipline (C14) and guarded-by discipline (C15).
//
// Ghost state per path: the set of held locks with their static level.
// Lock()/RLock(): obligation "locklevel" - every held lock has a strictly lower
// level (blocking acquisition only above everything held); TryLock() is exempt.
// Unlock(): obligation "unlock" - the lock is held.  At every return of a
// function under contract: obligation "balanced" - the held set equals the one
// at entry.  Blocking operations (channel send/receive, singleflight.Do) while
// a lock is held: obligation "noblock".

import (
	"fmt"
	"go/ast"
	"strconv"
	"strings"
)

type lockRule struct {
	pattern string // substring of the lock's heap prefix ("MemoryCache" + ".mu"), or "elem" for slice elements
	level   int
	name    string
}

type guardRule struct {
	field string // substring of the heap key, e.g. "EntryMetadata" + ".Expires"
	guard string // "shard" | "mu:<pattern>" | "confined"
	text  string
	// volatile: other threads change the field under its guard, so whatever was
	// read before the guard was acquired is forgotten when it is acquired
	volatile bool
}

func (x *Exec) loadDirectives() {
	x.loadSumRules()
	// identity-level concatenation facts are produced only when some contract speaks of concatid
	for _, sf := range x.C.Specs {
		if strings.Contains(sf.Src, "concatid(") {
			x.concatAxioms()
		}
	}
	for _, d := range x.C.Directives {
		switch d.Kind {
		case "lock":
			// lock <pattern> level <n> [name]
			f := strings.Fields(d.Text)
			if len(f) >= 3 && f[1] == "level" {
				n, _ := strconv.Atoi(f[2])
				r := lockRule{pattern: f[0], level: n, name: f[0]}
				x.lockRules = append(x.lockRules, r)
			}
		case "field":
			// field <pattern> guarded_by <guard> [volatile]
			f := strings.Fields(d.Text)
			if len(f) >= 3 && f[1] == "guarded_by" {
				g := guardRule{field: f[0], guard: f[2], text: d.Text}
				if len(f) >= 4 && f[3] == "volatile" {
					g.volatile = true
				}
				x.guardRules = append(x.guardRules, g)
			}
		}
	}
}

func (x *Exec) lockLevel(desc string) (int, bool) {
	for _, r := range x.lockRules {
		if r.pattern == "elem" {
			if strings.HasPrefix(desc, "elem:") {
				return r.level, true
			}
			continue
		}
		parts := strings.SplitN(r.pattern, ".", 2)
		if len(parts) == 2 && strings.Contains(desc, parts[0]) && strings.HasSuffix(desc, "."+parts[1]) {
			return r.level, true
		}
	}
	return 0, false
}

// lockIdentity describes the mutex a receiver pointer denotes.
func (x *Exec) lockIdentity(p PtrV) (*Term, string) {
	if p.Addr.Op == "app" && p.Addr.Name == "elemaddr" {
		return p.Addr, "elem:" + p.Prefix
	}
	if strings.HasPrefix(p.Prefix, "elem:") {
		return p.Addr, p.Prefix
	}
	return App("lockid_"+sanitize(p.Prefix), SInt, p.Addr), p.Prefix
}

func (x *Exec) lockModel(fr *Frame, st *State, pc *preparedCall, name string, k func(*State, []Value)) bool {
	var op string
	switch name {
	case "sync.RWMutex.Lock", "sync.Mutex.Lock":
		op = "lock"
	case "sync.RWMutex.RLock":
		op = "rlock"
	case "sync.RWMutex.Unlock", "sync.Mutex.Unlock":
		op = "unlock"
	case "sync.RWMutex.RUnlock":
		op = "runlock"
	case "sync.RWMutex.TryLock", "sync.Mutex.TryLock":
		op = "trylock"
	case "sync.RWMutex.TryRLock":
		op = "tryrlock"
	default:
		return false
	}
	if x.cur != nil {
		x.cur.usesLocks = true
	}
	x.Trusted["sync.Mutex / sync.RWMutex: mutual exclusion, modelled by the ghost held-set (lock levels, balance)"] = true
	p, ok := pc.recv.(PtrV)
	if !ok {
		panic(x.unsupported("mutex receiver"))
	}
	id, desc := x.lockIdentity(p)
	level, known := x.lockLevel(desc)
	site := x.siteLabel(pc.e)
	lockOb := func(kind, label string, goal *Term) {
		x.oblige(fr, st, kind, label, goal, pc.e)
		x.Obls[len(x.Obls)-1].Tag = "C14"
	}
	switch op {
	case "lock", "rlock":
		// blocking acquisition: strictly above everything held
		okLevel := known
		var why []string
		for _, h := range st.held {
			if !known || h.Level >= level {
				okLevel = false
				why = append(why, fmt.Sprintf("%s(level %d)", h.Desc, h.Level))
			}
		}
		if len(st.held) == 0 && known {
			okLevel = true
		}
		if !known {
			lockOb("locklevel", site+" [no level declared for "+desc+"]", BoolLit(len(st.held) == 0))
		} else {
			lockOb("locklevel", site, BoolLit(okLevel))
			_ = why
			if fr.top != nil {
				if own := blocksAt(fr.top.Contract); own > level {
					lockOb("locklevel", fmt.Sprintf("declared blocks-at %d but blocks on level %d@%s", own, level, site), TFalse)
				}
			}
		}
		st.held = append(st.held, heldLock{ID: id, Level: level, Write: op == "lock", Desc: desc})
		x.havocVolatile(st, desc)
		// waiting for a lock takes time: "locknow" is the (unknown, not earlier) moment it was got
		ln := Var(x.fresh("locknow"), SInt)
		st.assumeRaw(Ge(ln, st.now))
		if old, ok := st.ghost["locknow"].(IntV); ok {
			st.assumeRaw(Ge(ln, old.T))
		}
		st.ghost["locknow"] = IntV{ln}
		k(st, nil)
	case "trylock", "tryrlock":
		b := Var(x.fresh("trylock"), SBool)
		st2 := st.clone()
		st.assumeRaw(b)
		st.held = append(st.held, heldLock{ID: id, Level: level, Write: op == "trylock", Desc: desc})
		x.havocVolatile(st, desc)
		st.trace = append(st.trace, "trylock:ok")
		k(st, []Value{BoolV{TTrue}})
		st2.assumeRaw(Not(b))
		st2.trace = append(st2.trace, "trylock:busy")
		k(st2, []Value{BoolV{TFalse}})
	case "unlock", "runlock":
		// the most recently acquired matching lock is released
		idx := -1
		for i := len(st.held) - 1; i >= 0; i-- {
			if termEqualSyntactic(st.held[i].ID, id) {
				idx = i
				break
			}
		}
		if idx < 0 {
			// not syntactically held: must be provably equal to some held lock
			var alts []*Term
			for _, h := range st.held {
				alts = append(alts, Eq(h.ID, id))
			}
			lockOb("unlock", site, Or(alts...))
			if len(st.held) > 0 {
				// release the innermost lock of the same description
				for i := len(st.held) - 1; i >= 0; i-- {
					if st.held[i].Desc == desc {
						idx = i
						break
					}
				}
			}
		} else {
			lockOb("unlock", site, TTrue)
		}
		if idx >= 0 {
			st.held = append(append([]heldLock(nil), st.held[:idx]...), st.held[idx+1:]...)
		}
		k(st, nil)
	}
	return true
}

// balanced: at a return the held set is the one at entry.
func (x *Exec) checkBalanced(fr *Frame, st *State, ctx *FuncCtx) {
	entry := ctx.Entry.held
	same := len(entry) == len(st.held)
	if same {
		for i := range entry {
			if !termEqualSyntactic(entry[i].ID, st.held[i].ID) {
				same = false
			}
		}
	}
	if len(entry) == 0 && len(st.held) == 0 && !ctx.usesLocks {
		return
	}
	var descs []string
	for _, h := range st.held {
		descs = append(descs, h.Desc)
	}
	x.oblige(fr, st, "balanced", "return", BoolLit(same), nil)
	ob := x.Obls[len(x.Obls)-1]
	ob.Tag = "C14"
	// "ghost balanced-also Cxx": a lock kept past the return also breaks property Cxx of this function
	for _, g := range ctx.Contract.Ghost {
		if strings.HasPrefix(g, "balanced-also ") {
			ob.Tag += "," + strings.Join(strings.Fields(strings.TrimPrefix(g, "balanced-also ")), ",")
		}
	}
	if !same {
		ob.Pos = fmt.Sprintf("held at return: %v", descs)
	}
}

// noBlock: a blocking operation must not happen while a lock is held.
func (x *Exec) noBlock(fr *Frame, st *State, n ast.Node, what string) {
	if x.cur == nil {
		return
	}
	x.oblige(fr, st, "noblock", what+"@"+x.siteLabel(n), BoolLit(len(st.held) == 0), n)
	x.Obls[len(x.Obls)-1].Tag = "C14"
}

// havocVolatile applies the lock-acquisition rule to the fields declared
// volatile under the acquired kind of lock: what was known about them before
// the acquisition is forgotten.
func (x *Exec) havocVolatile(st *State, desc string) {
	if !strings.HasPrefix(desc, "elem:") {
		return
	}
	for _, g := range x.guardRules {
		if !g.volatile || g.guard != "shard" {
			continue
		}
		parts := strings.SplitN(g.field, ".", 2)
		for _, key := range st.heapKeys() {
			if strings.Contains(key, parts[0]) && (len(parts) < 2 || strings.HasSuffix(key, "."+parts[1])) {
				old := st.heap[key]
				st.heap[key] = Var(x.fresh("Hv_"+sanitize(key)), old.Sort)
			}
		}
		x.lazyHavoc(st, "."+parts[len(parts)-1])
	}
	st.setGhostArr("jexp", Var(x.fresh("G_jexp"), ArrOf(SInt)))
}

// checkLoopBalance: an iteration leaves the held set as it found it.
func (x *Exec) checkLoopBalance(fr *Frame, st *State, atHead []heldLock, lc loopCtl, n ast.Node) {
	if fr.depth != 0 || x.cur == nil || !(x.cur.usesLocks || len(atHead) > 0 || len(st.held) > 0) {
		return
	}
	same := len(atHead) == len(st.held)
	if same {
		for i := range atHead {
			if !termEqualSyntactic(atHead[i].ID, st.held[i].ID) {
				same = false
			}
		}
	}
	var descs []string
	for _, h := range st.held {
		descs = append(descs, h.Desc)
	}
	x.oblige(fr, st, "balanced", fmt.Sprintf("loop%d", lc.ord), BoolLit(same), n)
	ob := x.Obls[len(x.Obls)-1]
	ob.Tag = "C14"
	if fr.top != nil && fr.top.Contract != nil {
		for _, g := range fr.top.Contract.Ghost {
			if strings.HasPrefix(g, "balanced-also ") {
				ob.Tag += "," + strings.Join(strings.Fields(strings.TrimPrefix(g, "balanced-also ")), ",")
			}
		}
	}
	if !same {
		ob.Pos = fmt.Sprintf("%s: held at the end of an iteration: %v", x.pos(n), descs)
	}
}

// blocksAt reads "ghost blocks-at N" from a contract: the lowest lock level the
// function (or what it calls) may block on.  0 = not declared.
func blocksAt(fc *FuncContract) int {
	for _, g := range fc.Ghost {
		if strings.HasPrefix(g, "blocks-at ") {
			n, _ := strconv.Atoi(strings.TrimSpace(strings.TrimPrefix(g, "blocks-at ")))
			return n
		}
	}
	return 0
}

// callBlocks: calling something that may block on level n needs every held lock below n;
// and the calling function's own declaration must not promise more than its callee.
func (x *Exec) callBlocks(fr *Frame, st *State, fc *FuncContract, name, site string, n ast.Node) {
	lvl := blocksAt(fc)
	if lvl == 0 {
		return
	}
	ok := true
	for _, h := range st.held {
		if h.Level >= lvl {
			ok = false
		}
	}
	x.oblige(fr, st, "locklevel", fmt.Sprintf("call %s (blocks at level %d)@%s", name, lvl, site), BoolLit(ok), n)
	x.Obls[len(x.Obls)-1].Tag = "C14"
	if fr.top != nil && fr.depth == 0 {
		if own := blocksAt(fr.top.Contract); own > lvl {
			x.oblige(fr, st, "locklevel", fmt.Sprintf("declared blocks-at %d but calls %s which blocks at %d@%s", own, name, lvl, site), TFalse, n)
			x.Obls[len(x.Obls)-1].Tag = "C14"
		}
	}
}
