package main

import (
	"bytes"
	"fmt"
	"go/ast"
	"go/printer"
	"go/token"
	"go/types"
	"os"
	"path/filepath"
	"strings"

	"golang.org/x/tools/go/packages"
)

type pkgT = packages.Package

type Loader struct {
	Root   string
	Fset   *token.FileSet
	Pkgs   map[string]*packages.Package // by path, including dependencies
	decls  map[*types.Func]*ast.FuncDecl
	declPk map[*types.Func]*packages.Package
	src    map[string][]byte
}

const cspStub = "package csp\n\nconst Header = \"\"\n"

func LoadRepo(root string, patterns []string) (*Loader, error) {
	l := &Loader{Root: root, Fset: token.NewFileSet(), Pkgs: map[string]*packages.Package{}, decls: map[*types.Func]*ast.FuncDecl{}, declPk: map[*types.Func]*packages.Package{}, src: map[string][]byte{}}
	overlay := map[string][]byte{}
	gen := filepath.Join(root, "webserver/dashboard/csp/hashes_gen.go")
	if _, err := os.Stat(gen); err != nil {
		overlay[gen] = []byte(cspStub)
	}
	env := os.Environ()
	env = append(env, "GOFLAGS=-mod=mod", "GOPROXY=off")
	cfg := &packages.Config{
		Mode:       packages.NeedName | packages.NeedFiles | packages.NeedSyntax | packages.NeedTypes | packages.NeedTypesInfo | packages.NeedDeps | packages.NeedImports | packages.NeedCompiledGoFiles,
		Dir:        root,
		Fset:       l.Fset,
		BuildFlags: []string{"-tags=verif"},
		Env:        env,
		Overlay:    overlay,
	}
	pkgs, err := packages.Load(cfg, patterns...)
	if err != nil {
		return nil, err
	}
	var errs []string
	packages.Visit(pkgs, nil, func(p *packages.Package) {
		l.Pkgs[p.PkgPath] = p
		if strings.HasPrefix(p.PkgPath, "reservoir") {
			for _, e := range p.Errors {
				errs = append(errs, e.Error())
			}
		}
	})
	if len(errs) > 0 {
		return nil, fmt.Errorf("type errors in /repo: %s", strings.Join(errs, "; "))
	}
	for _, p := range l.Pkgs {
		if p.TypesInfo == nil {
			continue
		}
		for _, f := range p.Syntax {
			for _, d := range f.Decls {
				if fd, ok := d.(*ast.FuncDecl); ok {
					if fn, ok := p.TypesInfo.Defs[fd.Name].(*types.Func); ok {
						l.decls[fn] = fd
						l.declPk[fn] = p
					}
				}
			}
		}
	}
	return l, nil
}

func (l *Loader) pkgOf(path string) *packages.Package { return l.Pkgs[path] }

func (l *Loader) funcDecl(fn *types.Func) (*ast.FuncDecl, *packages.Package) {
	fn = fn.Origin()
	return l.decls[fn], l.declPk[fn]
}

// inModule reports whether the package belongs to the repository under verification.
func inModule(path string) bool { return path == "reservoir" || strings.HasPrefix(path, "reservoir/") }

func (l *Loader) nodeText(n ast.Node) string {
	var buf bytes.Buffer
	printer.Fprint(&buf, l.Fset, n)
	return buf.String()
}

// findFunc locates a function or method by contract name ("Func" or "Type.Method") in a package.
func (l *Loader) findFunc(pkg *packages.Package, name string) (*ast.FuncDecl, *types.Func) {
	for _, f := range pkg.Syntax {
		for _, d := range f.Decls {
			fd, ok := d.(*ast.FuncDecl)
			if !ok {
				continue
			}
			fn, ok := pkg.TypesInfo.Defs[fd.Name].(*types.Func)
			if !ok {
				continue
			}
			full := funcFullName(fn)
			if full == pkg.PkgPath+"."+name {
				return fd, fn
			}
		}
	}
	return nil, nil
}

// contractFiles lists the contract files of the repository, <dir>/contracts_verif.go,
// for every loaded package of the module (roots and dependencies alike).
func (l *Loader) contractFiles() map[string]string {
	out := map[string]string{}
	filepath.WalkDir(l.Root, func(path string, d os.DirEntry, err error) error {
		if err != nil {
			return nil
		}
		if d.IsDir() {
			n := d.Name()
			if path != l.Root && (strings.HasPrefix(n, ".") || n == "node_modules" || n == "var" || n == "vendor") {
				return filepath.SkipDir
			}
			return nil
		}
		if d.Name() != "contracts_verif.go" {
			return nil
		}
		rel, err := filepath.Rel(l.Root, filepath.Dir(path))
		if err != nil {
			return nil
		}
		pkg := "reservoir"
		if rel != "." {
			pkg = "reservoir/" + filepath.ToSlash(rel)
		}
		if _, ok := l.Pkgs[pkg]; ok {
			out[path] = pkg
		}
		return nil
	})
	return out
}
