package main

// Ghost model of the origin side of the proxy: (*http.Client).Do, request
// contexts, Request.Clone, and singleflight.Group.Do.
//
// Ghost integers (spec identifiers):
//   upcalls    number of requests handed to (*http.Client).Do so far
//   upfails    how many of them came back as an error
//   upcancels  how many of those errors were a cancellation of the request's own context
//   uplast     the *http.Response the last successful Do returned
//   upreq      the *http.Request handed to the last Do
//   upreqhdr() a snapshot (map) of that request's header at the time of the call
//   sfleader   1 when the last singleflight Do ran the function in this call, 0 when
//              it handed out the result of another caller's run

import (
	"go/types"
	"sort"
	"strconv"
	"strings"
)

var ghostInts = []string{"jsize", "mbytes", "mentries", "upcalls", "upfails", "upcancels", "uplast", "upreq", "upreqhdr", "sfleader", "sfshared", "sferrs"}

// ghost arrays a caller can observe: a function with an assigns clause must list the ones it writes
var observableGhost = map[string]bool{"httpstatus": true, "httpwrites": true, "respbody": true, "httperrs": true, "callcount": true,
	"gocount": true, "golastarg": true, "mapsum": true, "fsinode": true, "isize": true, "icontent": true, "handleinode": true, "jexp": true}

func (x *Exec) initGhostInts(st *State) {
	for _, g := range ghostInts {
		st.ghost[g] = IntV{Var(g+"0", SInt)}
	}
}

func (st *State) ghostInt(name string) *Term {
	if v, ok := st.ghost[name].(IntV); ok {
		return v.T
	}
	return Var(name+"0", SInt)
}

func (st *State) bumpGhost(name string) {
	st.ghost[name] = IntV{Add(st.ghostInt(name), IntLit(1))}
}

// ghostFrame: a function with an assigns clause leaves every ghost integer it does not list unchanged.
func (x *Exec) ghostFrame(fr *Frame, st *State, ctx *FuncCtx) {
	listed := func(g string) bool {
		for _, a := range ctx.Contract.Assigns {
			if a == "ghost:"+g || a == "ghost:upstream" && strings.HasPrefix(g, "up") {
				return true
			}
		}
		return false
	}
	for _, g := range ghostInts {
		if listed(g) {
			continue
		}
		cur := st.ghostInt(g)
		init := Var(g+"0", SInt)
		if cur.Op == "var" && cur.Name == init.Name {
			continue
		}
		x.oblige(fr, st, "frame", "ghost/"+g, Eq(cur, init), nil)
	}
	// ghost arrays (responder record, call counters, ghost file system, ...): one that was
	// written must be listed
	var names []string
	for n := range st.ghost {
		names = append(names, n)
	}
	sort.Strings(names)
	for _, n := range names {
		o, ok := st.ghost[n].(OpaqueV)
		if !ok || o.T == nil || o.T.Sort == nil || o.T.Sort == SInt || o.T.Sort == SBool {
			continue
		}
		if o.T.Op == "var" && o.T.Name == n+"0" {
			continue
		}
		if !observableGhost[n] {
			continue // loop-local ghosts and ghosts written at freshly allocated addresses only
		}
		if listed(n) {
			continue
		}
		x.oblige(fr, st, "frame", "ghost/"+n, Eq(o.T, Var(n+"0", o.T.Sort)), nil)
	}
}

func ctxCancellable(c *Term) *Term { return App("ctx_cancellable", SBool, c) }

func (x *Exec) requestCtx(st *State, req PtrV) *Term {
	v := x.specFieldOf(st, req, "ctx")
	if o, ok := v.(OpaqueV); ok {
		return o.T
	}
	return x.asTermAny(v)
}

func (x *Exec) cloneMapRows(st *State, src MapV, hint string) MapV {
	dst := MapV{ID: x.allocAddr(st, hint), Type: src.Type}
	ks := mapKeyStr(src)
	for _, key := range st.heapKeys() {
		if strings.HasPrefix(key, ks) && key != ks+"#card" {
			arr := st.heap[key]
			st.heap[key] = Store(arr, dst.ID, Select(arr, src.ID))
		}
	}
	pres := st.heapArr(ks+"#present", ArrOf(SBool))
	st.heap[ks+"#present"] = Store(pres, dst.ID, Select(pres, src.ID))
	card := st.heapArr(ks+"#card", SInt)
	st.heap[ks+"#card"] = Store(card, dst.ID, Select(card, src.ID))
	zero := x.zeroValue(src.Type.Elem())
	var ls []struct {
		Path string
		T    *Term
	}
	x.leavesOf(zero, "", &ls)
	for _, l := range ls {
		if l.T.Sort == SInt && strings.HasSuffix(l.Path, ".off") {
			continue
		}
		arr := st.heapArr(ks+l.Path, ArrOf(l.T.Sort))
		st.heap[ks+l.Path] = Store(arr, dst.ID, Select(arr, src.ID))
	}
	return dst
}

// freshHeaderMap: a newly allocated http.Header of unknown content; net/http never hands
// out a header map with an empty value list.
func (x *Exec) freshHeaderMap(st *State, mt *types.Map, hint string) MapV {
	nm := MapV{ID: x.allocAddr(st, hint), Type: mt}
	x.initEmptyMap(st, nm)
	ks := mapKeyStr(nm)
	pres := st.heapArr(ks+"#present", ArrOf(SBool))
	st.heap[ks+"#present"] = Store(pres, nm.ID, Var(x.fresh("hdrpresent"), ArrOf(SBool)))
	card := st.heapArr(ks+"#card", SInt)
	nc := Var(x.fresh("hdrcard"), SInt)
	st.assumeRaw(Ge(nc, IntLit(0)))
	st.heap[ks+"#card"] = Store(card, nm.ID, nc)
	kq := x.qvar("hk")
	presT := Select(Select(st.heapArr(ks+"#present", ArrOf(SBool)), nm.ID), kq)
	lenArr := st.heapArr(ks+".len", ArrOf(SInt))
	st.assumeRaw(Forall([]*Term{kq}, Implies(presT, Gt(Select(Select(lenArr, nm.ID), kq), IntLit(0)))))
	return nm
}

func structFieldType(ptrT types.Type, name string) types.Type {
	st := ptrT.(*types.Pointer).Elem().Underlying().(*types.Struct)
	return st.Field(fieldIndex(ptrT, name)).Type()
}

func init() {
	// (*http.Request).Context(): the context stored in the request
	models["net/http.Request.Context"] = func(x *Exec, fr *Frame, st *State, pc *preparedCall, k func(*State, []Value)) {
		r := pc.recv.(PtrV)
		x.nilCheck(fr, st, r, pc.e)
		sig := pc.fn.Type().(*types.Signature)
		k(st, []Value{OpaqueV{T: x.requestCtx(st, r), Type: x.resolveType(sig.Results().At(0).Type())}})
	}
	// context.WithoutCancel(ctx): a context that is never cancelled
	models["context.WithoutCancel"] = func(x *Exec, fr *Frame, st *State, pc *preparedCall, k func(*State, []Value)) {
		sig := pc.fn.Type().(*types.Signature)
		c := Var(x.fresh("ctx"), SInt)
		st.assumeRaw(Gt(c, IntLit(0)))
		st.assumeRaw(Not(ctxCancellable(c)))
		k(st, []Value{OpaqueV{T: c, Type: x.resolveType(sig.Results().At(0).Type())}})
	}
	models["context.Background"] = func(x *Exec, fr *Frame, st *State, pc *preparedCall, k func(*State, []Value)) {
		sig := pc.fn.Type().(*types.Signature)
		c := App("ctx_background", SInt)
		st.assumeRaw(Gt(c, IntLit(0)))
		st.assumeRaw(Not(ctxCancellable(c)))
		k(st, []Value{OpaqueV{T: c, Type: x.resolveType(sig.Results().At(0).Type())}})
	}
	// (*http.Request).Clone(ctx): a deep copy (own header map, own URL) carrying ctx;
	// WithContext(ctx): a shallow copy carrying ctx.
	cloneReq := func(deep bool) modelFn {
		return func(x *Exec, fr *Frame, st *State, pc *preparedCall, k func(*State, []Value)) {
			r := pc.recv.(PtrV)
			x.nilCheck(fr, st, r, pc.e)
			sv := x.heapLoad(st, r).(StructV)
			nr := PtrV{Addr: x.allocAddr(st, "reqclone"), Prefix: r.Prefix, Elem: r.Elem}
			nf := map[string]Value{}
			for n, v := range sv.F {
				nf[n] = v
			}
			if deep {
				if m, ok := sv.F["Header"].(MapV); ok {
					// a nil header stays nil
					c := x.cloneMapRows(st, m, "hdrclone")
					c.ID = Ite(Eq(m.ID, IntLit(0)), IntLit(0), c.ID)
					nf["Header"] = c
				}
				if u, ok := sv.F["URL"].(PtrV); ok {
					nu := PtrV{Addr: x.allocAddr(st, "urlclone"), Prefix: u.Prefix, Elem: u.Elem}
					x.heapStore(st, nu, x.heapLoad(st, u))
					nu.Addr = Ite(Eq(u.Addr, IntLit(0)), IntLit(0), nu.Addr)
					nf["URL"] = nu
				}
			}
			if cv, ok := nf["ctx"].(OpaqueV); ok {
				cv.T = x.asTermAny(pc.args[0])
				cv.Dyn = nil
				nf["ctx"] = cv
			}
			x.heapStore(st, nr, StructV{Type: sv.Type, Names: sv.Names, F: nf})
			k(st, []Value{nr})
		}
	}
	models["net/http.Request.Clone"] = cloneReq(true)
	models["net/http.Request.WithContext"] = cloneReq(false)

	// tls.Server(conn, cfg): never nil
	models["crypto/tls.Server"] = func(x *Exec, fr *Frame, st *State, pc *preparedCall, k func(*State, []Value)) {
		sig := pc.fn.Type().(*types.Signature)
		p := x.zeroValue(x.resolveType(sig.Results().At(0).Type())).(PtrV)
		p.Addr = x.allocAddr(st, "tlsconn")
		x.ghostSet(st, "connreader", p.Addr, IntLit(0)) // a new connection: nothing reads from it yet
		k(st, []Value{p})
	}
	// Responder.Hijack(): hands over the connection; no effect on modelled state
	models["reservoir/proxy/responder.Responder.Hijack"] = func(x *Exec, fr *Frame, st *State, pc *preparedCall, k func(*State, []Value)) {
		res := x.freshResults(st, pc.fn.Type().(*types.Signature), "hijack")
		// after a successful Hijack nothing written through the responder reaches the client
		if len(res) == 3 {
			if e, ok := res[2].(OpaqueV); ok {
				r := x.asTermAny(pc.recv)
				cur := x.ghostSel(st, "hijacked", r)
				x.ghostSet(st, "hijacked", r, Ite(Eq(e.T, IntLit(0)), IntLit(1), cur))
				// a successful Hijack hands over a connection (checked for both implementations,
				// proxy/responder: Hijack contracts)
				if c, ok := res[0].(OpaqueV); ok && c.T != nil {
					st.assumeRaw(Implies(Eq(e.T, IntLit(0)), Ne(c.T, IntLit(0))))
				}
			}
		}
		k(st, res)
	}
	// http.Hijacker.Hijack (net/http): a connection and its buffered reader/writer, or an error
	models["net/http.Hijacker.Hijack"] = func(x *Exec, fr *Frame, st *State, pc *preparedCall, k func(*State, []Value)) {
		res := x.freshResults(st, pc.fn.Type().(*types.Signature), "nethijack")
		if len(res) == 3 {
			if e, ok := res[2].(OpaqueV); ok {
				if c, ok := res[0].(OpaqueV); ok && c.T != nil {
					st.assumeRaw(Implies(Eq(e.T, IntLit(0)), Ne(c.T, IntLit(0))))
				}
			}
		}
		k(st, res)
	}
	// bufio.NewReader(rd): a new buffered reader over rd (ghost bufsrc: what it reads from)
	models["bufio.NewReader"] = func(x *Exec, fr *Frame, st *State, pc *preparedCall, k func(*State, []Value)) {
		sig := pc.fn.Type().(*types.Signature)
		p := x.zeroValue(x.resolveType(sig.Results().At(0).Type())).(PtrV)
		p.Addr = x.allocAddr(st, "bufreader")
		x.ghostSet(st, "bufsrc", p.Addr, x.identityOf(st, pc.args[0]))
		x.ghostSet(st, "bodypending", p.Addr, IntLit(0))
		k(st, []Value{p})
	}
	// http.ReadRequest(b): an error, or a request with a URL and a well-formed header map
	models["net/http.ReadRequest"] = func(x *Exec, fr *Frame, st *State, pc *preparedCall, k func(*State, []Value)) {
		// a connection must be read through ONE buffered reader: a second reader over the same
		// connection loses whatever the first one had already buffered (pipelined requests)
		if b, ok := pc.args[0].(PtrV); ok {
			src := x.ghostSel(st, "bufsrc", b.Addr)
			cur := x.ghostSel(st, "connreader", src)
			x.oblige(fr, st, "pre", "http.ReadRequest/one-reader-per-connection@"+x.siteLabel(pc.e), Or(Eq(cur, IntLit(0)), Eq(cur, b.Addr)), pc.e)
			x.Obls[len(x.Obls)-1].Tag = "C10"
			x.ghostSet(st, "connreader", src, b.Addr)
			// ... and the body of the previous request read through it must have been consumed
			// or discarded: whatever is left of it would be parsed as this request
			pend := x.ghostSel(st, "bodypending", b.Addr)
			x.oblige(fr, st, "pre", "http.ReadRequest/previous-body-consumed@"+x.siteLabel(pc.e), Eq(pend, IntLit(0)), pc.e)
			x.Obls[len(x.Obls)-1].Tag = "C10"
		}
		sig := pc.fn.Type().(*types.Signature)
		rt := x.resolveType(sig.Results().At(0).Type())
		errv := x.freshErr(st, "readreqerr").(OpaqueV)
		st2 := st.clone()
		st2.assumeRaw(Ne(errv.T, IntLit(0)))
		k(st2, []Value{x.zeroValue(rt), errv})
		st.assumeRaw(Eq(errv.T, IntLit(0)))
		req := x.zeroValue(rt).(PtrV)
		req.Addr = x.allocAddr(st, "request")
		if m, ok := x.specFieldOf(st, req, "Header").(MapV); ok {
			nm := x.freshHeaderMap(st, m.Type, "reqhdrmap")
			heapFieldLV{p: req, field: "Header", ftype: x.resolveType(structFieldType(rt, "Header"))}.Store(x, st, nm)
		}
		if u, ok := x.specFieldOf(st, req, "URL").(PtrV); ok {
			u.Addr = x.allocAddr(st, "requrl")
			heapFieldLV{p: req, field: "URL", ftype: x.resolveType(structFieldType(rt, "URL"))}.Store(x, st, u)
		}
		// "ReadRequest ... the Body is always non-nil": it reads from b on demand
		bt := x.resolveType(structFieldType(rt, "Body"))
		body := x.allocAddr(st, "reqbody")
		heapFieldLV{p: req, field: "Body", ftype: bt}.Store(x, st, OpaqueV{T: body, Type: bt})
		if b, ok := pc.args[0].(PtrV); ok {
			x.ghostSet(st, "bodyof", body, b.Addr)
			x.ghostSet(st, "bodypending", b.Addr, body)
		}
		k(st, []Value{req, errv})
	}

	// (*http.Client).Do
	models["net/http.Client.Do"] = func(x *Exec, fr *Frame, st *State, pc *preparedCall, k func(*State, []Value)) {
		c := pc.recv.(PtrV)
		cr := x.specFieldOf(st, c, "CheckRedirect")
		var has *Term = TFalse
		if f, ok := cr.(FuncV); ok {
			if f.Sym != nil {
				has = Ne(f.Sym, IntLit(0))
			} else if f.Closure != nil {
				has = TTrue
			}
		}
		// with CheckRedirect == nil the client follows 3xx answers itself and the caller never
		// sees them; a relaying proxy therefore needs a client with a redirect policy
		x.oblige(fr, st, "pre", "http.Client.Do/redirect-policy@"+x.siteLabel(pc.e), has, pc.e)
		// Client.Timeout "includes ... reading the response body": a relaying client with an overall
		// timeout cuts every body that takes longer to arrive (deadlines belong on the request context)
		if to, ok := x.specFieldOf(st, c, "Timeout").(IntV); ok {
			x.oblige(fr, st, "pre", "http.Client.Do/no-body-timeout@"+x.siteLabel(pc.e), Eq(to.T, IntLit(0)), pc.e)
			x.Obls[len(x.Obls)-1].Tag = "C08,C01"
		}
		x.Obls[len(x.Obls)-1].Tag = "C08"
		x.noBlock(fr, st, pc.e, "http-do")
		req, _ := pc.args[0].(PtrV)
		x.nilCheck(fr, st, req, pc.e)
		st.bumpGhost("upcalls")
		st.ghost["upreq"] = IntV{req.Addr}
		if m, ok := x.specFieldOf(st, req, "Header").(MapV); ok {
			snap := x.cloneMapRows(st, m, "upreqhdr")
			st.ghost["upreqhdr"] = IntV{snap.ID}
		}
		sig := pc.fn.Type().(*types.Signature)
		rt := x.resolveType(sig.Results().At(0).Type())
		errv := x.freshErr(st, "doerr").(OpaqueV)
		// failure: the origin could not be reached, or the request's own context was cancelled
		st2 := st.clone()
		st2.assumeRaw(Ne(errv.T, IntLit(0)))
		st2.bumpGhost("upfails")
		cancelled := Var(x.fresh("cancelled"), SBool)
		st2.assumeRaw(Implies(cancelled, ctxCancellable(x.requestCtx(st2, req))))
		st2.ghost["upcancels"] = IntV{Add(st2.ghostInt("upcancels"), Ite(cancelled, IntLit(1), IntLit(0)))}
		st2.trace = append(st2.trace, "upstream:error")
		k(st2, []Value{x.zeroValue(rt), errv})
		// success
		st.assumeRaw(Eq(errv.T, IntLit(0)))
		st.trace = append(st.trace, "upstream:answer")
		resp := x.zeroValue(rt).(PtrV)
		resp.Addr = x.allocAddr(st, "response")
		st.ghost["uplast"] = IntV{resp.Addr}
		if m, ok := x.specFieldOf(st, resp, "Header").(MapV); ok {
			nm := x.freshHeaderMap(st, m.Type, "resphdrmap")
			heapFieldLV{p: resp, field: "Header", ftype: x.resolveType(structFieldType(rt, "Header"))}.Store(x, st, nm)
		}
		// "The Response.Body is non-nil when err is nil"; Response.Request is the request sent
		bt := x.resolveType(structFieldType(rt, "Body"))
		body := Var(x.fresh("respbody"), SInt)
		st.assumeRaw(Gt(body, IntLit(0)))
		heapFieldLV{p: resp, field: "Body", ftype: bt}.Store(x, st, OpaqueV{T: body, Type: bt})
		heapFieldLV{p: resp, field: "Request", ftype: x.resolveType(structFieldType(rt, "Request"))}.Store(x, st, req)
		// net/http's client accepts any three digits as a status ("HTTP/1.1 099 Weird" parses):
		// 0..999.  An answer whose code is below 100 is not an HTTP answer - it counts as a
		// failed origin exchange (upfails) although Do returns no error.
		sc := Var(x.fresh("statuscode"), SInt)
		st.assumeRaw(And(Ge(sc, IntLit(0)), Le(sc, IntLit(999))))
		heapFieldLV{p: resp, field: "StatusCode", ftype: types.Typ[types.Int]}.Store(x, st, IntV{sc})
		st.ghost["upfails"] = IntV{Add(st.ghostInt("upfails"), Ite(Lt(sc, IntLit(100)), IntLit(1), IntLit(0)))}
		k(st, []Value{resp, errv})
	}
}

// ---- singleflight.Group.Do(key, fn)
//
// Assumed (x/sync documentation): for calls with equal keys that overlap in time fn
// runs once; every one of those callers receives the values that run returned.
// Sequential core modelled here: either this call runs fn (sfleader == 1; shared is
// arbitrary), or it receives the result of another caller's run (sfleader == 0,
// shared == true): then fn is not executed and the values are arbitrary ones that
// satisfy the "ghost shared-result" clause of the function under verification -
// which is an obligation of every run of fn (rely/guarantee in one clause).
func init() {
	models["golang.org/x/sync/singleflight.Group.Do"] = func(x *Exec, fr *Frame, st *State, pc *preparedCall, k func(*State, []Value)) {
		x.Trusted["singleflight.Group.Do: concurrent calls with one key share one run of fn and its result (x/sync, assumed); only the sequential core is explored"] = true
		x.noBlock(fr, st, pc.e, "singleflight-do")
		fv, ok := pc.args[1].(FuncV)
		if !ok || fv.Closure == nil {
			panic(x.unsupported("singleflight.Do with a function that is not a literal"))
		}
		var clauses []Clause
		if fr.top != nil {
			for _, g := range fr.top.Contract.Ghost {
				if strings.HasPrefix(g, "shared-result ") {
					rest := strings.TrimPrefix(g, "shared-result ")
					tag := ""
					if strings.HasPrefix(rest, "[") {
						if j := strings.Index(rest, "]"); j > 0 {
							tag = rest[1:j]
							rest = strings.TrimSpace(rest[j+1:])
						}
					}
					e, err := ParseSpec(rest)
					if err != nil {
						panic(x.unsupported("shared-result: " + err.Error()))
					}
					clauses = append(clauses, Clause{Expr: e, Tag: tag, Src: rest})
				}
			}
		}
		pre := st.clone()
		follower := st.clone()
		boolT := types.Typ[types.Bool]
		var dynSample Value
		var dynType types.Type
		// leader: fn runs here
		npc := &preparedCall{e: pc.e, closure: fv.Closure}
		if fv.Closure.Lit == nil {
			npc.fn = fv.Closure.Fn
			npc.closure = nil
		}
		st.trace = append(st.trace, "singleflight:leader")
		x.invoke(fr, npc, st, func(st1 *State, vals []Value) {
			if o, ok := vals[0].(OpaqueV); ok && o.Dyn != nil && dynSample == nil {
				dynSample, dynType = o.Dyn, o.DynType
			}
			for i, c := range clauses {
				env := x.localEnv(fr, st1, pc.e)
				env.vars["val"] = vals[0]
				env.vars["err"] = vals[1]
				env.old = pre
				env.oldVars = nil
				x.oblige(fr, st1, "sfresult", itoa(i+1)+"@"+x.siteLabel(pc.e), x.specBool(env, c.Expr), pc.e)
				ob := x.Obls[len(x.Obls)-1]
				ob.Clause = c.Expr
				ob.Tag = c.Tag
			}
			shared := Var(x.fresh("shared"), SBool)
			st1.ghost["sfleader"] = IntV{IntLit(1)}
			st1.ghost["sfshared"] = IntV{Ite(shared, IntLit(1), IntLit(0))}
			k(st1, []Value{vals[0], vals[1], BoolV{shared}})
		})
		_ = boolT
		// follower: the result of another caller's run
		if len(clauses) == 0 {
			x.Abstractions["singleflight.Do without a shared-result clause: the follower case is not explored"] = true
			return
		}
		if dynSample == nil {
			panic(x.unsupported("singleflight.Do: the dynamic type of fn's value is not known"))
		}
		st2 := follower
		st2.trace = append(st2.trace, "singleflight:follower")
		// what the other caller's run did to shared memory and to the origin is unknown
		x.applyAssigns(fr, st2, &FuncContract{Assigns: sharedRunAssigns(fr)}, nil)
		// the clauses are read over the other run's origin traffic (arbitrary, monotone) ...
		mine := map[string]Value{}
		for _, g := range []string{"upcalls", "upfails", "upcancels"} {
			mine[g] = st2.ghost[g]
			nv := Var(x.fresh("G_"+g), SInt)
			st2.assumeRaw(Ge(nv, st2.ghostInt(g)))
			st2.ghost[g] = IntV{nv}
		}
		var dv Value
		switch d := dynSample.(type) {
		case StructV:
			dv = x.freshValue(st2, d.Type, "sfval")
			dynType = d.Type
		default:
			panic(x.unsupported("singleflight.Do: shared value of this kind"))
		}
		id := Var(x.fresh("iface"), SInt)
		st2.assumeRaw(Gt(id, IntLit(0)))
		val := OpaqueV{T: id, Type: types.NewInterfaceType(nil, nil), Dyn: dv, DynType: dynType}
		errv := Var(x.fresh("sferr"), SInt)
		st2.assumeRaw(Ge(errv, IntLit(0)))
		ev := OpaqueV{T: errv, Type: errType()}
		for _, c := range clauses {
			env := x.localEnv(fr, st2, pc.e)
			env.vars["val"] = val
			env.vars["err"] = ev
			env.old = pre
			env.oldVars = nil
			st2.assume(x.specBool(env, c.Expr))
		}
		// ... which is not this call's: its own counters are as before; sferrs counts the
		// shared runs that failed at the origin and whose error this call received
		otherFailed := Gt(st2.ghostInt("upfails"), pre.ghostInt("upfails"))
		for g, v := range mine {
			st2.ghost[g] = v
		}
		st2.ghost["sferrs"] = IntV{Add(st2.ghostInt("sferrs"), Ite(And(Ne(errv, IntLit(0)), otherFailed), IntLit(1), IntLit(0)))}
		st2.ghost["sfleader"] = IntV{IntLit(0)}
		st2.ghost["sfshared"] = IntV{IntLit(1)}
		k(st2, []Value{val, ev, BoolV{TTrue}})
	}
}

// sharedRunAssigns: what another caller's run of the shared function may have written to
// memory this call can see: "ghost shared-assigns <patterns>" (the other caller's own
// request, response and parsed headers are not reachable from this call).
func sharedRunAssigns(fr *Frame) []string {
	var out []string
	if fr.top != nil {
		for _, g := range fr.top.Contract.Ghost {
			if strings.HasPrefix(g, "shared-assigns ") {
				out = append(out, strings.Fields(strings.TrimPrefix(g, "shared-assigns "))...)
			}
		}
	}
	if len(out) == 0 {
		out = []string{"nothing"}
	}
	return out
}

func itoa(i int) string { return strconv.Itoa(i) }
