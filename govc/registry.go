package main

// Program-wide obligations generated from directives.

import (
	"fmt"
	"go/ast"
	"go/types"
	"strconv"
	"strings"
)

// globalObligations handles:
//   //@ endpoint registry <Func> except "<path>"
// For every element &T{} of the []Endpoint composite literal in <Func>, the method
// T.EndpointMethods is verified against "every returned method requires
// authentication" (unless T.Path() returns the exempt path) and against purity.
func (x *Exec) globalObligations(prop string) {
	// "ghost global-atomic <var> [Cxx]" (file level): a package-level variable shared by goroutines
	// without a lock must be of a sync/atomic type
	for _, d := range x.C.Directives {
		if d.Kind != "ghost" || !strings.HasPrefix(d.Text, "global-atomic ") {
			continue
		}
		f := strings.Fields(d.Text)
		if len(f) < 3 || strings.Trim(f[2], "[]") != prop {
			continue
		}
		pkg := x.L.pkgOf(d.Pkg)
		if pkg == nil {
			continue
		}
		ok := false
		typ := "?"
		if obj, isVar := pkg.Types.Scope().Lookup(f[1]).(*types.Var); isVar {
			typ = obj.Type().String()
			ok = strings.HasPrefix(typ, "sync/atomic.") || strings.HasPrefix(typ, "*sync/atomic.")
		}
		name := shortPkg(d.Pkg) + "." + f[1] + "#guarded:global-atomic"
		x.Obls = append(x.Obls, &Obligation{Name: name, Func: shortPkg(d.Pkg) + "." + f[1], Kind: "guarded", Label: "global-atomic", Goal: BoolLit(ok),
			Pos: fmt.Sprintf("%s:%d (type %s)", d.File, d.Line, typ), Props: []string{prop}, Tag: prop})
	}
	for _, d := range x.C.Directives {
		if d.Kind != "endpoint" || prop != "C20" {
			continue
		}
		f := strings.Fields(d.Text)
		if len(f) < 2 || f[0] != "registry" {
			continue
		}
		exempt := ""
		if len(f) >= 4 && f[2] == "except" {
			exempt, _ = strconv.Unquote(f[3])
		}
		pkg := x.L.pkgOf(d.Pkg)
		if pkg == nil {
			continue
		}
		decl, _ := x.L.findFunc(pkg, f[1])
		if decl == nil {
			x.Errors = append(x.Errors, "endpoint registry: function "+f[1]+" not found")
			continue
		}
		var elems []ast.Expr
		ast.Inspect(decl.Body, func(n ast.Node) bool {
			cl, ok := n.(*ast.CompositeLit)
			if !ok {
				return true
			}
			t := pkg.TypesInfo.TypeOf(cl)
			if sl, ok := t.Underlying().(*types.Slice); ok {
				if n, ok := sl.Elem().(*types.Named); ok && n.Obj().Name() == "Endpoint" {
					elems = append(elems, cl.Elts...)
					return false
				}
			}
			return true
		})
		if len(elems) == 0 {
			x.Errors = append(x.Errors, "endpoint registry: no []Endpoint literal in "+f[1])
			continue
		}
		for _, el := range elems {
			t := pkg.TypesInfo.TypeOf(el)
			if p, ok := t.(*types.Pointer); ok {
				t = p.Elem()
			}
			named, ok := t.(*types.Named)
			if !ok {
				x.Errors = append(x.Errors, "endpoint registry: element of unnamed type")
				continue
			}
			tpkg := named.Obj().Pkg().Path()
			tname := named.Obj().Name()
			path := x.literalPath(tpkg, tname)
			fc := &FuncContract{Name: tname + ".EndpointMethods", Pkg: tpkg, NoPanic: true, Pure: true, Loops: map[int]*LoopContract{}, Props: []string{"C20"}, File: d.File, Line: d.Line}
			if path != exempt || exempt == "" {
				e, err := ParseSpec("forall k int :: 0 <= k && k < len(result) ==> result[k].RequiresAuth")
				if err != nil {
					panic(err)
				}
				fc.Ensures = append(fc.Ensures, Clause{Expr: e, Src: fmt.Sprintf("every method of %s (path %q) requires authentication", tname, path)})
			}
			e2, _ := ParseSpec("len(result) >= 1")
			fc.Ensures = append(fc.Ensures, Clause{Expr: e2, Src: "at least one method"})
			if err := x.VerifyFunc(tpkg+"."+fc.Name, fc); err != nil {
				x.Errors = append(x.Errors, err.Error())
			}
		}
	}
}

// literalPath returns the string literal returned by T.Path(), or "?".
func (x *Exec) literalPath(pkgPath, tname string) string {
	pkg := x.L.pkgOf(pkgPath)
	if pkg == nil {
		return "?"
	}
	decl, _ := x.L.findFunc(pkg, tname+".Path")
	if decl == nil || decl.Body == nil || len(decl.Body.List) != 1 {
		return "?"
	}
	ret, ok := decl.Body.List[0].(*ast.ReturnStmt)
	if !ok || len(ret.Results) != 1 {
		return "?"
	}
	if tv, ok := pkg.TypesInfo.Types[ret.Results[0]]; ok && tv.Value != nil {
		s, err := strconv.Unquote(tv.Value.ExactString())
		if err == nil {
			return s
		}
	}
	return "?"
}
