package main

import (
	"fmt"
	"strings"
	"go/ast"
	"go/token"
	"go/types"
)

func (x *Exec) block(fr *Frame, stmts []ast.Stmt, st *State, k func(*State)) {
	var rec func(i int, st *State)
	rec = func(i int, st *State) {
		if st.dead {
			return
		}
		if i == len(stmts) {
			k(st)
			return
		}
		x.stmt(fr, stmts[i], st, func(st2 *State) { rec(i+1, st2) })
	}
	rec(0, st)
}

func (x *Exec) fork(st *State, c *Term, kt, kf func(*State)) {
	if c.Op == "true" {
		kt(st)
		return
	}
	if c.Op == "false" {
		kf(st)
		return
	}
	st2 := st.clone()
	st.assume(c)
	st.trace = append(st.trace, "T")
	if !st.dead {
		kt(st)
	}
	st2.assume(Not(c))
	st2.trace = append(st2.trace, "F")
	if !st2.dead {
		kf(st2)
	}
}

func (x *Exec) stmt(fr *Frame, s ast.Stmt, st *State, k func(*State)) {
	if st.dead {
		return
	}
	x.tsub = fr.tsubst
	x.paths++
	if x.paths > x.maxPaths {
		panic(x.unsupported("path budget exceeded"))
	}
	switch s := s.(type) {
	case *ast.EmptyStmt:
		k(st)
	case *ast.BlockStmt:
		x.block(fr, s.List, st, k)
	case *ast.ExprStmt:
		x.expr(fr, s.X, st, func(st *State, _ Value) { k(st) })
	case *ast.AssignStmt:
		x.assignStmt(fr, s, st, k)
	case *ast.IncDecStmt:
		x.lvalue(fr, s.X, st, func(st *State, lv LVal) {
			v := lv.Load(x, st).(IntV)
			t := x.typeOf(fr, s.X)
			var r *Term
			if s.Tok == token.INC {
				r = x.arith(fr, st, s, t, Add(v.T, IntLit(1)))
			} else {
				r = x.arith(fr, st, s, t, Sub(v.T, IntLit(1)))
			}
			lv.Store(x, st, IntV{r})
			k(st)
		})
	case *ast.DeclStmt:
		gd := s.Decl.(*ast.GenDecl)
		if gd.Tok != token.VAR {
			k(st)
			return
		}
		var rec func(i int, st *State)
		rec = func(i int, st *State) {
			if i == len(gd.Specs) {
				k(st)
				return
			}
			vs := gd.Specs[i].(*ast.ValueSpec)
			if len(vs.Values) == 0 {
				for _, n := range vs.Names {
					obj := fr.pkg.TypesInfo.Defs[n]
					if obj != nil {
						st.vars[obj] = x.zeroValue(x.resolveType(obj.Type()))
					}
				}
				rec(i+1, st)
				return
			}
			x.exprs(fr, vs.Values, st, func(st *State, vals []Value) {
				if len(vals) == 1 && len(vs.Names) > 1 {
					vals = []Value(vals[0].(TupleV))
				}
				for j, n := range vs.Names {
					obj := fr.pkg.TypesInfo.Defs[n]
					if obj != nil {
						st.vars[obj] = x.convertAssign(st, vals[j], obj.Type())
					}
				}
				rec(i+1, st)
			})
		}
		rec(0, st)
	case *ast.IfStmt:
		body := func(st *State) {
			x.expr(fr, s.Cond, st, func(st *State, c Value) {
				x.fork(st, x.truth(c), func(st *State) {
					x.stmt(fr, s.Body, st, k)
				}, func(st *State) {
					if s.Else != nil {
						x.stmt(fr, s.Else, st, k)
					} else {
						k(st)
					}
				})
			})
		}
		if s.Init != nil {
			x.stmt(fr, s.Init, st, body)
		} else {
			body(st)
		}
	case *ast.SwitchStmt:
		x.switchStmt(fr, s, st, k)
	case *ast.TypeSwitchStmt:
		x.typeSwitchStmt(fr, s, st, k)
	case *ast.ForStmt:
		x.forStmt(fr, s, st, k)
	case *ast.RangeStmt:
		x.rangeStmt(fr, s, st, k)
	case *ast.ReturnStmt:
		x.returnStmt(fr, s, st)
	case *ast.BranchStmt:
		tgt := fr.targets[s]
		switch s.Tok {
		case token.BREAK:
			if fr.contract != nil && fr.depth == 0 {
				if ord, ok := fr.loopOrd[tgt]; ok {
					if lc := fr.contract.Loops[ord]; lc != nil && lc.Exhaustive {
						x.oblige(fr, st, "exhaustive", fmt.Sprintf("loop%d/break@%s", ord, x.siteLabel(s)), TFalse, s)
						x.Obls[len(x.Obls)-1].Tag = lc.ExhaustiveTag
					}
				}
			}
			if f := fr.breakK[tgt]; f != nil {
				f(st)
				return
			}
		case token.CONTINUE:
			if f := fr.contK[tgt]; f != nil {
				f(st)
				return
			}
		}
		panic(x.unsupported("branch statement " + s.Tok.String() + " at " + x.pos(s)))
	case *ast.LabeledStmt:
		x.stmt(fr, s.Stmt, st, k)
	case *ast.DeferStmt:
		x.deferStmt(fr, s, st, k)
	case *ast.GoStmt:
		x.goStmt(fr, s, st, k)
	case *ast.SendStmt:
		x.expr(fr, s.Chan, st, func(st *State, cv Value) {
			x.expr(fr, s.Value, st, func(st *State, sv Value) {
				x.onChanOp(fr, st, s, "send")
				x.recordSend(st, cv, sv)
				k(st)
			})
		})
	case *ast.SelectStmt:
		// every communication clause is a possible continuation
		x.onChanOp(fr, st, s, "select")
		fr.breakK[s] = k
		for _, cl := range s.Body.List {
			cc := cl.(*ast.CommClause)
			st2 := st.clone()
			run := func(st *State) { x.block(fr, cc.Body, st, k) }
			if cc.Comm == nil {
				run(st2)
				continue
			}
			switch c := cc.Comm.(type) {
			case *ast.AssignStmt:
				// v := <-ch
				for _, l := range c.Lhs {
					if id, ok := l.(*ast.Ident); ok && id.Name != "_" {
						if obj := fr.pkg.TypesInfo.Defs[id]; obj != nil {
							st2.vars[obj] = x.freshValue(st2, x.resolveType(obj.Type()), id.Name)
							// "ghost recv-assume <var> <expr>": the channel invariant of what is received into <var>
							if fr.top != nil && fr.depth == 0 {
								for _, g := range fr.top.Contract.Ghost {
									pre := "recv-assume " + id.Name + " "
									if strings.HasPrefix(g, pre) {
										e, err := ParseSpec(strings.TrimPrefix(g, pre))
										if err != nil {
											panic(x.unsupported("recv-assume: " + err.Error()))
										}
										env := x.localEnv(fr, st2, cc)
										env.vars[id.Name] = st2.vars[obj]
										st2.assumeRaw(x.specBool(env, e))
										x.Trusted["channel invariant assumed at receive in "+fr.top.Name+": "+strings.TrimPrefix(g, pre)] = true
									}
								}
							}
						}
					}
				}
				run(st2)
			case *ast.SendStmt:
				// case ch <- v: taken only if the send happens
				x.expr(fr, c.Chan, st2, func(st3 *State, cv Value) {
					x.expr(fr, c.Value, st3, func(st3 *State, sv Value) {
						x.recordSend(st3, cv, sv)
						run(st3)
					})
				})
			default:
				run(st2)
			}
		}
	default:
		panic(x.unsupported(fmt.Sprintf("statement %T at %s", s, x.pos(s))))
	}
}

func (x *Exec) assignStmt(fr *Frame, s *ast.AssignStmt, st *State, k func(*State)) {
	info := fr.pkg.TypesInfo
	// op-assign
	if s.Tok != token.ASSIGN && s.Tok != token.DEFINE {
		x.lvalue(fr, s.Lhs[0], st, func(st *State, lv LVal) {
			x.expr(fr, s.Rhs[0], st, func(st *State, rv Value) {
				var op token.Token
				switch s.Tok {
				case token.ADD_ASSIGN:
					op = token.ADD
				case token.SUB_ASSIGN:
					op = token.SUB
				case token.MUL_ASSIGN:
					op = token.MUL
				case token.QUO_ASSIGN:
					op = token.QUO
				case token.REM_ASSIGN:
					op = token.REM
				case token.OR_ASSIGN:
					op = token.OR
				case token.AND_ASSIGN:
					op = token.AND
				case token.SHL_ASSIGN:
					op = token.SHL
				case token.SHR_ASSIGN:
					op = token.SHR
				case token.XOR_ASSIGN:
					op = token.XOR
				case token.AND_NOT_ASSIGN:
					op = token.AND_NOT
				default:
					panic(x.unsupported("assignment operator " + s.Tok.String()))
				}
				t := x.typeOf(fr, s.Lhs[0])
				lv.Store(x, st, x.binop(fr, st, s, op, lv.Load(x, st), rv, t, t))
				k(st)
			})
		})
		return
	}
	assignAll := func(st *State, vals []Value) {
		// resolve l-values left to right, then store
		var rec func(i int, st *State, lvs []LVal)
		rec = func(i int, st *State, lvs []LVal) {
			if i == len(s.Lhs) {
				for j, lv := range lvs {
					lt := x.lhsType(fr, s.Lhs[j])
					v := vals[j]
					if lt != nil {
						v = x.convertAssign(st, v, lt)
					}
					lv.Store(x, st, v)
				}
				k(st)
				return
			}
			if s.Tok == token.DEFINE {
				if id, ok := s.Lhs[i].(*ast.Ident); ok {
					if id.Name == "_" {
						rec(i+1, st, append(lvs, blankLV{}))
						return
					}
					if obj := info.Defs[id]; obj != nil {
						rec(i+1, st, append(lvs, LVal(varLV{obj})))
						return
					}
				}
			}
			x.lvalue(fr, s.Lhs[i], st, func(st *State, lv LVal) { rec(i+1, st, append(append([]LVal(nil), lvs...), lv)) })
		}
		rec(0, st, nil)
	}
	if len(s.Lhs) == 2 && len(s.Rhs) == 1 {
		// comma-ok forms
		switch r := ast.Unparen(s.Rhs[0]).(type) {
		case *ast.IndexExpr:
			if _, isMap := x.typeOf(fr, r.X).Underlying().(*types.Map); isMap {
				x.expr(fr, r.X, st, func(st *State, mv Value) {
					x.expr(fr, r.Index, st, func(st *State, kv Value) {
						x.guardCheckIndexed(st, mapKeyStr(mv.(MapV)), mv.(MapV).ID, false)
						v, ok := x.mapGet(st, mv.(MapV), x.keyTerm(st, kv))
						assignAll(st, []Value{v, BoolV{ok}})
					})
				})
				return
			}
		case *ast.TypeAssertExpr:
			x.expr(fr, r.X, st, func(st *State, v Value) {
				t := x.typeOf(fr, r)
				if o, ok := v.(OpaqueV); ok && o.Dyn != nil {
					// statically known dynamic value: compare types
					if dt := x.dynType(o.Dyn); dt != nil && types.Identical(dt, t) {
						assignAll(st, []Value{o.Dyn, BoolV{TTrue}})
						return
					} else if dt != nil {
						if _, isIface := t.Underlying().(*types.Interface); !isIface {
							assignAll(st, []Value{x.zeroValue(t), BoolV{TFalse}})
							return
						}
					}
				}
				okv := Var(x.fresh("assertok"), SBool)
				nv := x.freshValue(st, t, "asserted")
				assignAll(st, []Value{nv, BoolV{okv}})
			})
			return
		case *ast.UnaryExpr:
			if r.Op == token.ARROW {
				x.expr(fr, r.X, st, func(st *State, _ Value) {
					x.onChanOp(fr, st, r, "recv")
					assignAll(st, []Value{x.freshValue(st, x.typeOf(fr, r), "recv"), BoolV{Var(x.fresh("recvok"), SBool)}})
				})
				return
			}
		}
	}
	x.exprs(fr, s.Rhs, st, func(st *State, vals []Value) {
		if len(vals) == 1 && len(s.Lhs) > 1 {
			tv, ok := vals[0].(TupleV)
			if !ok {
				panic(x.unsupported("tuple expected at " + x.pos(s)))
			}
			vals = []Value(tv)
		}
		assignAll(st, vals)
	})
}

func (x *Exec) dynType(v Value) types.Type {
	switch vv := v.(type) {
	case StructV:
		return vv.Type
	case PtrV:
		return types.NewPointer(vv.Elem)
	}
	return nil
}

func (x *Exec) lhsType(fr *Frame, e ast.Expr) types.Type {
	if id, ok := e.(*ast.Ident); ok && id.Name == "_" {
		return nil
	}
	if id, ok := e.(*ast.Ident); ok {
		if obj := fr.pkg.TypesInfo.Defs[id]; obj != nil {
			return x.resolveType(obj.Type())
		}
		if obj := fr.pkg.TypesInfo.Uses[id]; obj != nil {
			return x.resolveType(obj.Type())
		}
	}
	t := fr.pkg.TypesInfo.TypeOf(e)
	if t == nil {
		return nil
	}
	return x.resolveType(t)
}

func (x *Exec) switchStmt(fr *Frame, s *ast.SwitchStmt, st *State, k func(*State)) {
	run := func(st *State) {
		withTag := func(st *State, tag Value) {
			fr.breakK[s] = k
			var rec func(i int, st *State)
			var deflt *ast.CaseClause
			clauses := s.Body.List
			rec = func(i int, st *State) {
				if i == len(clauses) {
					if deflt != nil {
						x.block(fr, deflt.Body, st, k)
					} else {
						k(st)
					}
					return
				}
				cc := clauses[i].(*ast.CaseClause)
				if cc.List == nil {
					deflt = cc
					rec(i+1, st)
					return
				}
				for _, b := range cc.Body {
					if br, ok := b.(*ast.BranchStmt); ok && br.Tok == token.FALLTHROUGH {
						panic(x.unsupported("fallthrough"))
					}
				}
				x.exprs(fr, cc.List, st, func(st *State, vals []Value) {
					var cs []*Term
					for j, v := range vals {
						if tag == nil {
							cs = append(cs, x.truth(v))
						} else {
							t := x.typeOf(fr, cc.List[j])
							cs = append(cs, x.truth(x.binop(fr, st, cc, token.EQL, tag, v, types.Typ[types.Bool], t)))
						}
					}
					x.fork(st, Or(cs...), func(st *State) {
						x.block(fr, cc.Body, st, k)
					}, func(st *State) {
						rec(i+1, st)
					})
				})
			}
			rec(0, st)
		}
		if s.Tag != nil {
			x.expr(fr, s.Tag, st, withTag)
		} else {
			withTag(st, nil)
		}
	}
	if s.Init != nil {
		x.stmt(fr, s.Init, st, run)
	} else {
		run(st)
	}
}

func (x *Exec) typeSwitchStmt(fr *Frame, s *ast.TypeSwitchStmt, st *State, k func(*State)) {
	// every clause is a possible continuation with a fresh value of its type
	fr.breakK[s] = k
	for _, cl := range s.Body.List {
		cc := cl.(*ast.CaseClause)
		st2 := st.clone()
		if obj := fr.pkg.TypesInfo.Implicits[cc]; obj != nil {
			st2.vars[obj] = x.freshValue(st2, x.resolveType(obj.Type()), obj.Name())
		}
		x.block(fr, cc.Body, st2, k)
	}
	x.Abstractions["type switch: every clause explored with an unconstrained value"] = true
}

// ---------------------------------------------------------------- return / defer / go

func (x *Exec) returnStmt(fr *Frame, s *ast.ReturnStmt, st *State) {
	finish := func(st *State, vals []Value) {
		// assign named results so that deferred closures see them
		for i, r := range fr.results {
			if i < len(vals) {
				st.vars[r] = x.convertAssign(st, vals[i], r.Type())
			}
		}
		x.runDefers(fr, st, func(st *State) {
			out := make([]Value, len(fr.results))
			for i, r := range fr.results {
				out[i] = st.vars[r]
			}
			fr.ret(st, out)
		})
	}
	if len(s.Results) == 0 {
		vals := make([]Value, len(fr.results))
		for i, r := range fr.results {
			vals[i] = st.vars[r]
		}
		finish(st, vals)
		return
	}
	x.exprs(fr, s.Results, st, func(st *State, vals []Value) {
		if len(vals) == 1 && len(fr.results) > 1 {
			vals = []Value(vals[0].(TupleV))
		}
		finish(st, vals)
	})
}

func (x *Exec) runDefers(fr *Frame, st *State, k func(*State)) {
	type dfn = func(*State, func(*State))
	ds := append([]dfn(nil), (*fr.defers)...)
	var rec func(i int, st *State)
	rec = func(i int, st *State) {
		if i < 0 {
			k(st)
			return
		}
		ds[i](st, func(st2 *State) { rec(i-1, st2) })
	}
	rec(len(ds)-1, st)
}

func (x *Exec) deferStmt(fr *Frame, s *ast.DeferStmt, st *State, k func(*State)) {
	// evaluate the function value and arguments now, run the call at return
	x.prepareCall(fr, s.Call, st, func(st *State, pc *preparedCall) {
		thunk := func(st *State, k2 func(*State)) {
			x.tsub = fr.tsubst
			x.invoke(fr, pc, st, func(st *State, _ []Value) { k2(st) })
		}
		*fr.defers = append(*fr.defers, thunk)
		n := len(*fr.defers)
		k(st)
		*fr.defers = (*fr.defers)[:n-1]
	})
}

func (x *Exec) goStmt(fr *Frame, s *ast.GoStmt, st *State, k func(*State)) {
	x.prepareCall(fr, s.Call, st, func(st *State, pc *preparedCall) {
		x.onGo(fr, st, s, pc)
		k(st)
	})
}

// ---------------------------------------------------------------- loops

type loopInfo struct {
	modified  map[types.Object]bool
	heapWrite bool     // some write to the heap
	heapAll   bool     // a write whose target arrays are not known statically
	prefixes  []string // heap key prefixes written through typed pointers / maps
	ghostAll  bool            // some call in the loop may write any observable ghost state
	ghosts    map[string]bool // the ghosts the loop body may write
}

func (x *Exec) analyseLoop(fr *Frame, nodes ...ast.Node) loopInfo {
	li := loopInfo{modified: map[types.Object]bool{}, ghosts: map[string]bool{}}
	info := fr.pkg.TypesInfo
	mark := func(e ast.Expr) {
		switch t := ast.Unparen(e).(type) {
		case *ast.Ident:
			if obj := info.Uses[t]; obj != nil {
				li.modified[obj] = true
			}
			if obj := info.Defs[t]; obj != nil {
				li.modified[obj] = true
			}
		default:
			// find root identifier; writes through pointers/maps touch the heap and
			// leave the root variable itself unchanged
			root := e
			viaPtr := false
			var rootObj types.Object
			for {
				switch r := ast.Unparen(root).(type) {
				case *ast.SelectorExpr:
					if tv := info.TypeOf(r.X); tv != nil {
						if _, ok := tv.Underlying().(*types.Pointer); ok {
							viaPtr = true
						}
					}
					root = r.X
					continue
				case *ast.IndexExpr:
					if tv := info.TypeOf(r.X); tv != nil {
						switch tv.Underlying().(type) {
						case *types.Map, *types.Pointer:
							viaPtr = true
						}
					}
					root = r.X
					continue
				case *ast.StarExpr:
					viaPtr = true
					root = r.X
					continue
				case *ast.Ident:
					rootObj = info.Uses[r]
				}
				break
			}
			if rootObj != nil && !viaPtr {
				li.modified[rootObj] = true
			}
			if viaPtr {
				if pre := x.writePrefix(fr, e); pre != "" {
					li.prefixes = append(li.prefixes, pre)
				} else {
					li.heapAll = true
				}
			}
			if viaPtr {
				li.heapWrite = true
			}
		}
	}
	for _, n := range nodes {
		if n == nil {
			continue
		}
		ast.Inspect(n, func(n ast.Node) bool {
			switch s := n.(type) {
			case *ast.GoStmt:
				// the started goroutine does not run in this thread of control;
				// only the evaluation of its arguments happens here
				for _, a := range s.Call.Args {
					ast.Inspect(a, func(m ast.Node) bool {
						if c, ok := m.(*ast.CallExpr); ok && x.callMayWriteHeap(fr, c) {
							li.heapWrite = true
							li.heapAll = true
						}
						return true
					})
				}
				return false
			case *ast.AssignStmt:
				for _, l := range s.Lhs {
					mark(l)
					if ix, ok := ast.Unparen(l).(*ast.IndexExpr); ok && len(x.sumRules) > 0 {
						if tv := info.TypeOf(ix.X); tv != nil {
							if _, isMap := x.resolveType(tv).Underlying().(*types.Map); isMap {
								li.ghosts["mapsum"] = true // a map write moves the ghost sum
							}
						}
					}
				}
			case *ast.SendStmt:
				li.ghosts["chansends"] = true
				li.ghosts["chanlast"] = true
			case *ast.IncDecStmt:
				mark(s.X)
			case *ast.RangeStmt:
				if s.Key != nil {
					mark(s.Key)
				}
				if s.Value != nil {
					mark(s.Value)
				}
			case *ast.UnaryExpr:
				if s.Op == token.AND {
					mark(s.X)
				}
			case *ast.CallExpr:
				if x.callMayWriteHeap(fr, s) {
					li.heapWrite = true
					li.heapAll = true
				}
				all, names := x.callWritesGhost(fr, s)
				if all {
					li.ghostAll = true
				}
				for _, n := range names {
					li.ghosts[n] = true
				}
				// pointer-receiver method calls on locals modify them
				if se, ok := s.Fun.(*ast.SelectorExpr); ok {
					if sel, ok := info.Selections[se]; ok && sel.Kind() == types.MethodVal {
						if sig, ok := sel.Obj().Type().(*types.Signature); ok && sig.Recv() != nil {
							if _, isPtr := sig.Recv().Type().(*types.Pointer); isPtr {
								// the implicit &x of a value receiver expression writes x; a pointer variable is only read
								if xt := info.TypeOf(se.X); xt != nil {
									if _, xIsPtr := xt.Underlying().(*types.Pointer); !xIsPtr {
										mark(se.X)
									}
								}
							}
						}
					}
				}
			case *ast.FuncLit:
				return true
			}
			return true
		})
	}
	return li
}

// loopGhosts: ghost arrays that are havocked at the head of a loop whose body may write ghost state.
var loopGhosts = []string{"httpstatus", "httpwrites", "respbody", "httperrs", "callcount", "gocount", "golastarg", "mapsum",
	"fsinode", "isize", "icontent", "handleinode", "jexp", "connreader", "bodypending", "tickerival", "buflen", "bufcontent"}

func (x *Exec) havocForLoop(fr *Frame, st *State, li loopInfo) {
	if li.ghostAll || len(li.ghosts) > 0 {
		// earlier iterations may have written these ghosts: what the body needs about them
		// is stated in the loop invariants
		want := func(g string) bool { return li.ghostAll || li.ghosts[g] || (li.ghosts["upstream"] && strings.HasPrefix(g, "up")) }
		for _, g := range ghostInts {
			if _, ok := st.ghost[g]; ok && want(g) {
				st.ghost[g] = IntV{Var(x.fresh("Gl_"+g), SInt)}
			}
		}
		for _, g := range loopGhosts {
			if !want(g) {
				continue
			}
			if o, ok := st.ghost[g].(OpaqueV); ok && o.T != nil {
				st.ghost[g] = OpaqueV{T: Var(x.fresh("Gl_"+g), o.T.Sort)}
			} else if _, ok := st.ghost[g]; !ok {
				// not materialised yet: its initial name must not be reused after the loop head
				st.ghost[g] = OpaqueV{T: Var(x.fresh("Gl_"+g), ArrOf(SInt))}
			}
		}
	}
	for obj := range li.modified {
		if _, ok := st.vars[obj]; ok {
			st.vars[obj] = x.freshValue(st, x.resolveType(obj.Type()), obj.Name())
		}
		if p, ok := st.boxed[obj]; ok {
			x.heapStore(st, p, x.freshValue(st, x.resolveType(obj.Type()), obj.Name()))
		}
	}
	if li.heapAll {
		was := st.havocked
		x.havocHeap(st)
		// the havoc at a loop head stands for earlier iterations, whose own writes
		// are examined on the paths through the body; it is not a write of its own
		st.havocked = was
		st.loopHavoc = true
	} else if li.heapWrite {
		for _, pre := range li.prefixes {
			for _, key := range st.heapKeys() {
				if strings.HasPrefix(key, pre) {
					old := st.heap[key]
					st.heap[key] = Var(x.fresh("Hl_"+sanitize(key)), old.Sort)
				}
			}
			x.lazyHavoc(st, pre)
		}
	}
}

// writePrefix names the heap arrays an assignment target writes: the struct
// type of the innermost pointer dereference plus the field path from there.
func (x *Exec) writePrefix(fr *Frame, e ast.Expr) string {
	info := fr.pkg.TypesInfo
	var fields []string
	cur := ast.Unparen(e)
	for {
		switch r := cur.(type) {
		case *ast.SelectorExpr:
			sel, ok := info.Selections[r]
			if !ok || sel.Kind() != types.FieldVal {
				return ""
			}
			// promoted fields: expand the embedded path
			bt := info.TypeOf(r.X)
			if bt == nil {
				return ""
			}
			names, ptrAt := x.fieldPathNames(bt, sel.Index())
			if ptrAt >= 0 {
				// dereference inside the path: the prefix starts at that pointer's element type
				st := names[ptrAt].owner
				pre := typeKey(st)
				for _, n := range names[ptrAt:] {
					pre += "." + n.name
				}
				for i := len(fields) - 1; i >= 0; i-- {
					pre += "." + fields[i]
				}
				return pre
			}
			for i := len(names) - 1; i >= 0; i-- {
				fields = append(fields, names[i].name)
			}
			cur = ast.Unparen(r.X)
		case *ast.IndexExpr:
			if tv := info.TypeOf(r.X); tv != nil {
				if m, ok := x.resolveType(tv).Underlying().(*types.Map); ok && len(fields) == 0 {
					return "map_" + typeKey(m)
				}
			}
			return ""
		default:
			return ""
		}
	}
}

type pathName struct {
	name  string
	owner types.Type // struct type that declares the field
}

// fieldPathNames resolves a selection index path starting at type bt; ptrAt is
// the last position in the path whose base is reached through a pointer (-1 if none).
func (x *Exec) fieldPathNames(bt types.Type, index []int) ([]pathName, int) {
	var out []pathName
	ptrAt := -1
	cur := x.resolveType(bt)
	for i, idx := range index {
		if p, ok := cur.Underlying().(*types.Pointer); ok {
			cur = x.resolveType(p.Elem())
			ptrAt = i
		}
		stt, ok := cur.Underlying().(*types.Struct)
		if !ok {
			return out, ptrAt
		}
		f := stt.Field(idx)
		out = append(out, pathName{name: f.Name(), owner: cur})
		cur = x.resolveType(f.Type())
	}
	return out, ptrAt
}

func (x *Exec) havocHeap(st *State) {
	x.heapEpoch++
	st.heap = map[string]*Term{}
	st.lazyHavoc = nil
	st.havocked = true
	st.epoch = x.heapEpoch
	x.onHeapHavoc(st)
}

type loopCtl struct {
	ord  int
	lc   *LoopContract
	name string
}

func (x *Exec) loopContract(fr *Frame, s ast.Stmt) loopCtl {
	ord := fr.loopOrd[s]
	var lc *LoopContract
	if fr.contract != nil {
		lc = fr.contract.Loops[ord]
	}
	return loopCtl{ord: ord, lc: lc}
}

// checkInvariants asserts the loop invariants (kind is inv-init or inv-keep).
func (x *Exec) checkInvariants(fr *Frame, st *State, lc loopCtl, kind string, n ast.Node) {
	if lc.lc == nil {
		return
	}
	for i, inv := range lc.lc.Invariants {
		env := x.localEnv(fr, st, n)
		t := x.specBool(env, inv.Expr)
		if fr.depth == 0 {
			x.oblige(fr, st, kind, fmt.Sprintf("%d/%d", lc.ord, i+1), t, n)
		}
	}
}

func (x *Exec) assumeInvariants(fr *Frame, st *State, lc loopCtl, n ast.Node) {
	if lc.lc == nil {
		return
	}
	for _, inv := range lc.lc.Invariants {
		env := x.localEnv(fr, st, n)
		st.assumeRaw(x.specBool(env, inv.Expr))
	}
}

func (x *Exec) variantTerm(fr *Frame, st *State, lc loopCtl, n ast.Node) *Term {
	if lc.lc == nil || lc.lc.Decreases == nil {
		return nil
	}
	env := x.localEnv(fr, st, n)
	v := x.specEval(env, lc.lc.Decreases.Expr)
	return v.(IntV).T
}

func (x *Exec) forStmt(fr *Frame, s *ast.ForStmt, st *State, k func(*State)) {
	start := func(st *State) {
		lc := x.loopContract(fr, s)
		li := x.analyseLoop(fr, s.Cond, s.Body, s.Post)
		x.checkInvariants(fr, st, lc, "inv-init", s)
		x.havocForLoop(fr, st, li)
		x.assumeInvariants(fr, st, lc, s)
		head := func(st *State) {
			v0 := x.variantTerm(fr, st, lc, s)
			heldAtHead := append([]heldLock(nil), st.held...)
			afterBody := func(st *State) {
				post := func(st *State) {
					x.checkLoopBalance(fr, st, heldAtHead, lc, s)
					x.checkInvariants(fr, st, lc, "inv-keep", s)
					if v0 != nil && fr.depth == 0 {
						v1 := x.variantTerm(fr, st, lc, s)
						x.oblige(fr, st, "variant", fmt.Sprint(lc.ord), And(Le(IntLit(0), v0), Lt(v1, v0)), s)
					}
					// path ends: the loop head is a cut point
				}
				if s.Post != nil {
					x.stmt(fr, s.Post, st, post)
				} else {
					post(st)
				}
			}
			fr.breakK[s] = k
			fr.contK[s] = afterBody
			x.stmt(fr, s.Body, st, afterBody)
		}
		if s.Cond == nil {
			head(st)
			return
		}
		x.expr(fr, s.Cond, st, func(st *State, c Value) {
			x.fork(st, x.truth(c), head, k)
		})
	}
	if s.Init != nil {
		x.stmt(fr, s.Init, st, start)
	} else {
		start(st)
	}
}

func (x *Exec) setRangeVar(fr *Frame, s *ast.RangeStmt, e ast.Expr, st *State, v Value) {
	if e == nil {
		return
	}
	id, ok := e.(*ast.Ident)
	if ok && id.Name == "_" {
		return
	}
	if ok && s.Tok == token.DEFINE {
		if obj := fr.pkg.TypesInfo.Defs[id]; obj != nil {
			st.vars[obj] = v
			return
		}
	}
	x.lvalue(fr, e, st, func(st *State, lv LVal) { lv.Store(x, st, v) })
}

func (x *Exec) rangeStmt(fr *Frame, s *ast.RangeStmt, st *State, k func(*State)) {
	x.expr(fr, s.X, st, func(st *State, rv Value) {
		if sv, ok := rv.(SliceV); ok && sv.Len.Op == "int" && sv.Len.Int.IsInt64() && sv.Len.Int.Int64() <= 16 && isZeroLit(sv.Off) {
			if lcc := x.loopContract(fr, s); lcc.lc == nil {
				x.unrollRange(fr, s, sv, st, k)
				return
			}
		}
		if fv, ok := rv.(FuncV); ok && fv.Sym != nil {
			if src, ok := x.iterSources[fv.Sym.Name]; ok && src.kind == "splitseq" {
				// range over strings.SplitSeq: iterate the abstract piece sequence
				rv = src.pieces
			}
		}
		lc := x.loopContract(fr, s)
		li := x.analyseLoop(fr, s.Body)
		gname := fmt.Sprintf("range%d", lc.ord)
		rt := x.typeOf(fr, s.X)
		// ghost iteration state
		switch r := rv.(type) {
		case StrV:
			st.ghost["rangepos"] = IntV{IntLit(0)}
			st.ghost[gname] = IntV{IntLit(0)}
			_ = r
		case SliceV:
			st.ghost["rangeidx"] = IntV{IntLit(0)}
			st.ghost[gname] = IntV{IntLit(0)}
		case IntV:
			st.ghost["rangeidx"] = IntV{IntLit(0)}
			st.ghost[gname] = IntV{IntLit(0)}
		case MapV:
			st.ghost["visited"] = nil
			vis := ConstArr(ArrOf(SBool), TFalse)
			st.ghostT("visited", vis)
		}
		x.checkInvariants(fr, st, lc, "inv-init", s)
		x.havocForLoop(fr, st, li)
		// havoc ghost iteration state
		var pos *Term
		switch rv.(type) {
		case StrV, SliceV, IntV:
			pos = Var(x.fresh("rangepos"), SInt)
			st.assumeRaw(Le(IntLit(0), pos))
			st.ghost["rangepos"] = IntV{pos}
			st.ghost["rangeidx"] = IntV{pos}
			st.ghost[gname] = IntV{pos}
		case MapV:
			st.ghostT("visited", Var(x.fresh("visited"), ArrOf(SBool)))
		}
		x.assumeInvariants(fr, st, lc, s)
		v0 := x.variantTerm(fr, st, lc, s)
		heldAtHead := append([]heldLock(nil), st.held...)
		afterBody := func(st *State) {
			x.checkLoopBalance(fr, st, heldAtHead, lc, s)
			x.checkInvariants(fr, st, lc, "inv-keep", s)
			if v0 != nil && fr.depth == 0 {
				v1 := x.variantTerm(fr, st, lc, s)
				x.oblige(fr, st, "variant", fmt.Sprint(lc.ord), And(Le(IntLit(0), v0), Lt(v1, v0)), s)
			}
		}
		fr.breakK[s] = k
		fr.contK[s] = afterBody
		body := func(st *State) { x.stmt(fr, s.Body, st, afterBody) }
		switch r := rv.(type) {
		case StrV:
			if _, isStr := rt.Underlying().(*types.Basic); !isStr {
				// []byte: index/byte pairs
				st.assumeRaw(Le(pos, r.Len))
				x.fork(st, Lt(pos, r.Len), func(st *State) {
					x.setRangeVar(fr, s, s.Key, st, IntV{pos})
					b := x.strAt(r, pos)
					st.assumeRaw(And(Le(IntLit(0), b), Le(b, IntLit(255))))
					x.setRangeVar(fr, s, s.Value, st, IntV{b})
					np := Add(pos, IntLit(1))
					st.ghost["rangepos"], st.ghost["rangeidx"], st.ghost[gname] = IntV{np}, IntV{np}, IntV{np}
					body(st)
				}, k)
				return
			}
			// string: UTF-8 abstraction
			st.assumeRaw(Le(pos, r.Len))
			x.fork(st, Lt(pos, r.Len), func(st *State) {
				b := x.strAt(r, pos)
				st.assumeRaw(And(Le(IntLit(0), b), Le(b, IntLit(255))))
				ch := Var(x.fresh("rune"), SInt)
				w := Var(x.fresh("width"), SInt)
				st.assumeRaw(Ite(Lt(b, IntLit(128)),
					And(Eq(ch, b), Eq(w, IntLit(1))),
					And(Ge(ch, IntLit(128)), Le(ch, IntLit(0x10FFFF)), Le(IntLit(1), w), Le(w, IntLit(4)))))
				st.assumeRaw(Le(Add(pos, w), r.Len))
				x.setRangeVar(fr, s, s.Key, st, IntV{pos})
				x.setRangeVar(fr, s, s.Value, st, IntV{ch})
				np := Add(pos, w)
				st.ghost["rangepos"], st.ghost[gname] = IntV{np}, IntV{np}
				body(st)
			}, k)
		case SliceV:
			st.assumeRaw(Le(pos, r.Len))
			if _, isSig := rt.Underlying().(*types.Signature); isSig {
				// iter.Seq[string]: the single loop variable is the element
				x.fork(st, Lt(pos, r.Len), func(st *State) {
					ev := x.sliceAt(r, pos)
					x.assumeLoaded(st, ev)
					x.setRangeVar(fr, s, s.Key, st, ev)
					np := Add(pos, IntLit(1))
					st.ghost["rangeidx"], st.ghost[gname] = IntV{np}, IntV{np}
					body(st)
				}, k)
				return
			}
			x.fork(st, Lt(pos, r.Len), func(st *State) {
				x.setRangeVar(fr, s, s.Key, st, IntV{pos})
				if s.Value != nil {
					ev := x.sliceAt(r, pos)
					x.assumeLoaded(st, ev)
					x.setRangeVar(fr, s, s.Value, st, ev)
				}
				np := Add(pos, IntLit(1))
				st.ghost["rangeidx"], st.ghost[gname] = IntV{np}, IntV{np}
				body(st)
			}, k)
		case IntV:
			st.assumeRaw(Le(pos, Ite(Lt(r.T, IntLit(0)), IntLit(0), r.T)))
			x.fork(st, Lt(pos, r.T), func(st *State) {
				x.setRangeVar(fr, s, s.Key, st, IntV{pos})
				np := Add(pos, IntLit(1))
				st.ghost["rangeidx"], st.ghost[gname] = IntV{np}, IntV{np}
				body(st)
			}, k)
		case MapV:
			if r.Const == nil {
				x.guardCheck(st, mapKeyStr(r), r.ID, false)
			}
			vis := st.ghostTerm("visited")
			// exit: every present key visited; iterate: some present, unvisited key
			exit := st.clone()
			if r.Const != nil {
				for _, kk := range r.Const.Keys {
					exit.assumeRaw(Select(vis, kk))
				}
			} else {
				x.quantN++
				q := Var(fmt.Sprintf("qk_%d", x.quantN), SInt)
				_, pres := x.mapGet(exit, r, q)
				exit.assumeRaw(Forall([]*Term{q}, Implies(pres, Select(vis, q))))
			}
			exit.trace = append(exit.trace, "range-exit")
			k(exit)
			key := Var(x.fresh("mapkey"), SInt)
			val, pres := x.mapGet(st, r, key)
			st.assumeRaw(pres)
			st.assumeRaw(Not(Select(vis, key)))
			st.ghostT("visited", Store(vis, key, TTrue))
			kt := rt.Underlying().(*types.Map).Key()
			x.setRangeVar(fr, s, s.Key, st, x.keyValueFromTerm(st, kt, key))
			x.setRangeVar(fr, s, s.Value, st, val)
			st.trace = append(st.trace, "range-iter")
			body(st)
		case FuncV, OpaqueV:
			// range over function iterator or channel: abstract sequence
			exit := st.clone()
			exit.trace = append(exit.trace, "range-exit")
			k(exit)
			x.rangeYield(fr, s, st, rv, func(st *State, kv, vv Value) {
				x.setRangeVar(fr, s, s.Key, st, kv)
				if s.Value != nil {
					x.setRangeVar(fr, s, s.Value, st, vv)
				}
				st.trace = append(st.trace, "range-iter")
				body(st)
			})
		default:
			panic(x.unsupported(fmt.Sprintf("range over %T at %s", rv, x.pos(s))))
		}
	})
}

func (x *Exec) keyValueFromTerm(st *State, kt types.Type, key *Term) Value {
	kt = x.resolveType(kt)
	switch z := x.zeroValue(kt).(type) {
	case IntV:
		return IntV{key}
	case OpaqueV:
		return OpaqueV{T: key, Type: kt}
	case PtrV:
		z.Addr = key
		return z
	default:
		// strings / single-field structs: a fresh value whose identity is the key
		v := x.freshValue(st, kt, "key")
		st.assumeRaw(Eq(x.keyTerm(st, v), key))
		return v
	}
}

func (st *State) ghostT(name string, t *Term) {
	switch {
	case t.Sort == SBool:
		st.ghost[name] = BoolV{t}
	case t.Sort == SInt:
		st.ghost[name] = IntV{t}
	default:
		st.ghost[name] = OpaqueV{T: t}
	}
}

func (st *State) ghostTerm(name string) *Term {
	switch v := st.ghost[name].(type) {
	case IntV:
		return v.T
	case BoolV:
		return v.T
	case OpaqueV:
		return v.T
	}
	return nil
}

// unrollRange executes a range loop over a slice of small constant length
// (typically a literal list) iteration by iteration: complete, no bound involved.
func (x *Exec) unrollRange(fr *Frame, s *ast.RangeStmt, sv SliceV, st *State, k func(*State)) {
	n := int(sv.Len.Int.Int64())
	var iter func(i int, st *State)
	iter = func(i int, st *State) {
		if st.dead {
			return
		}
		if i == n {
			k(st)
			return
		}
		x.setRangeVar(fr, s, s.Key, st, IntV{IntLit(int64(i))})
		if s.Value != nil {
			x.setRangeVar(fr, s, s.Value, st, x.sliceAt(sv, IntLit(int64(i))))
		}
		fr.breakK[s] = k
		next := func(st *State) { iter(i+1, st) }
		fr.contK[s] = next
		x.stmt(fr, s.Body, st, next)
	}
	iter(0, st)
}

// callWritesGhost: which observable ghosts may this call (or what it calls) write?
// all == true: any of them.
func (x *Exec) callWritesGhost(fr *Frame, c *ast.CallExpr) (all bool, names []string) {
	info := fr.pkg.TypesInfo
	if tv, ok := info.Types[c.Fun]; ok && tv.IsType() {
		return false, nil
	}
	fromAssigns := func(as []string) []string {
		var out []string
		for _, a := range as {
			if strings.HasPrefix(a, "ghost:") {
				out = append(out, strings.TrimPrefix(a, "ghost:"))
			}
		}
		return out
	}
	var fn *types.Func
	iface := false
	switch f := ast.Unparen(c.Fun).(type) {
	case *ast.Ident:
		if b, ok := info.Uses[f].(*types.Builtin); ok {
			if b.Name() == "delete" && len(x.sumRules) > 0 {
				return false, []string{"mapsum"}
			}
			return false, nil
		}
		fn, _ = info.Uses[f].(*types.Func)
	case *ast.SelectorExpr:
		if sel, ok := info.Selections[f]; ok {
			if sel.Kind() == types.FieldVal {
				// function-typed field: its fnfield contract, if any
				for _, fc := range x.C.FnFields {
					parts := strings.SplitN(fc.Name, ".", 2)
					if len(parts) == 2 && parts[1] == f.Sel.Name {
						if fc.Pure {
							return false, nil
						}
						if len(fc.Assigns) == 0 {
							return true, nil
						}
						return false, fromAssigns(fc.Assigns)
					}
				}
				return true, nil
			}
			fn, _ = sel.Obj().(*types.Func)
			if _, isI := sel.Recv().Underlying().(*types.Interface); isI {
				iface = true
			}
		} else {
			fn, _ = info.Uses[f.Sel].(*types.Func)
		}
	case *ast.IndexExpr:
		if id, ok := f.X.(*ast.Ident); ok {
			fn, _ = info.Uses[id].(*types.Func)
		}
		if se, ok := f.X.(*ast.SelectorExpr); ok {
			fn, _ = info.Uses[se.Sel].(*types.Func)
		}
	case *ast.IndexListExpr:
		if id, ok := f.X.(*ast.Ident); ok {
			fn, _ = info.Uses[id].(*types.Func)
		}
		if se, ok := f.X.(*ast.SelectorExpr); ok {
			fn, _ = info.Uses[se.Sel].(*types.Func)
		}
	}
	if se, ok := ast.Unparen(c.Fun).(*ast.SelectorExpr); ok {
		if g := metricsGhost(se.X); g != "" {
			return false, []string{g}
		}
	}
	if fn == nil {
		// a function value: counted; a callback parameter with a declared frame writes no ghost
		return false, []string{"callcount"}
	}
	name := funcFullName(fn)
	if strings.HasPrefix(name, "log/slog.") || strings.HasPrefix(name, "fmt.") || strings.HasPrefix(name, "reservoir/metrics.") {
		return false, nil
	}
	if fc := x.C.Funcs[name]; fc != nil && !fc.Inline {
		if fc.Pure {
			return false, nil
		}
		if len(fc.Assigns) == 0 {
			return true, nil
		}
		return false, fromAssigns(fc.Assigns)
	}
	if _, ok := models[name]; ok {
		for p, gs := range map[string][]string{
			"reservoir/proxy/responder.Responder.": {"httpstatus", "httpwrites", "respbody", "httperrs"},
			"net/http.ResponseWriter.":             {"httpstatus", "httpwrites"},
			"net/http.Error":                       {"httpstatus", "httpwrites"},
			"net/http.Client.Do":                   {"upstream"},
			"net/http.ReadRequest":                 {"connreader", "bodypending"},
			"reservoir/cache.EntryData.Close":      {"closedh"},
			"io.ReadSeekCloser.Close":              {"closedh"},
			"io.ReadCloser.Close":                  {"bodypending", "closedh"},
			"io.Closer.Close":                      {"bodypending", "closedh"},
			"crypto/tls.Server":                    {"connreader"},
			"os.":                                  {"fsinode", "isize", "icontent", "handleinode"},
			"io.Copy":                              {"isize", "icontent", "httpstatus", "httpwrites", "wbody"},
			"net/http.Response.Write":              {"httpstatus", "httpwrites", "wbody", "wlen", "whdr", "wte"},
			"golang.org/x/sync/singleflight.":      {"sfleader", "sfshared", "sferrs"},
			"time.NewTicker":                       {"tickerival"},
			"time.Ticker.":                         {"tickerival"},
			"bytes.Buffer.":                        {"buflen", "bufcontent"},
			"net/http.ServeMux.":                   {"callcount"},
		} {
			if strings.HasPrefix(name, p) {
				return false, gs
			}
		}
		return false, nil
	}
	if strings.HasPrefix(name, "sync.") {
		if strings.Contains(name, "Lock") {
			return false, []string{"jexp"} // acquiring a shard lock forgets jexp
		}
		return false, nil
	}
	if pureExternal(name) {
		return false, nil
	}
	if decl, pkg := x.L.funcDecl(fn); decl != nil && decl.Body != nil && pkg != nil && inModule(pkg.PkgPath) {
		if x.mayWriteDepth > 4 {
			return true, nil
		}
		x.mayWriteDepth++
		defer func() { x.mayWriteDepth-- }()
		sub := &Frame{pkg: pkg}
		li := x.analyseLoop(sub, decl.Body)
		var out []string
		for g := range li.ghosts {
			out = append(out, g)
		}
		return li.ghostAll, out
	}
	if iface {
		return false, []string{"callcount"}
	}
	return false, nil
}

// recordSend: ghost record of channel sends - chansends[ch] counts them, chanlast[ch] is the
// (identity of the) value sent last.  A send that did not happen (the default branch of a
// select) leaves both unchanged.
func (x *Exec) recordSend(st *State, ch, v Value) {
	id := x.identityOf(st, ch)
	x.ghostSet(st, "chansends", id, Add(x.ghostSel(st, "chansends", id), IntLit(1)))
	x.ghostSet(st, "chanlast", id, x.identityOf(st, v))
}
