package main

// Writer-level observation of a response, used to verify the two Responder
// implementations (proxy/responder) against the behaviour the interface model
// (ghost.go) promises to the proxy:
//
//	httpstatus[w], httpwrites[w]   status line / number of header+body writes on writer w
//	wbody[w]                       identity of the reader whose bytes were sent as the body
//	wlen[w]                        Content-Length framing used by http.Response.Write (-1: chunked)
//	whdr[w]                        identity of the header map sent by http.Response.Write
//	wte[w]                         number of transfer codings (1 = chunked) used by http.Response.Write
//
// http.Response.Write and io.NopCloser are assumed models of net/http and io.

import (
	"go/types"
)

func isResponseWriterType(t types.Type) bool {
	n, ok := types.Unalias(t).(*types.Named)
	return ok && n.Obj().Name() == "ResponseWriter" && n.Obj().Pkg() != nil && n.Obj().Pkg().Path() == "net/http"
}

// copyToResponseWriter: io.Copy(w, src) on an http.ResponseWriter may call w.Write
// (implicit 200 when no status was written before) and sends src as the body.
func (x *Exec) copyToResponseWriter(st *State, w, rid *Term) {
	wrote := Var(x.fresh("wrote"), SBool)
	hw := st.ghostArr("httpwrites", SInt)
	hs := st.ghostArr("httpstatus", SInt)
	st.setGhostArr("httpstatus", Store(hs, w, Ite(And(wrote, Eq(Select(hw, w), IntLit(0))), IntLit(200), Select(hs, w))))
	st.setGhostArr("httpwrites", Store(hw, w, Add(Select(hw, w), Ite(wrote, IntLit(1), IntLit(0)))))
	x.ghostSet(st, "wbody", w, rid)
}

func (x *Exec) statusCodeObligation(fr *Frame, st *State, pc *preparedCall, what string, code *Term) {
	// net/http: WriteHeader panics for a code outside 100..999 ("invalid WriteHeader code")
	x.oblige(fr, st, "pre", what+"/status-code@"+x.siteLabel(pc.e), And(Ge(code, IntLit(100)), Le(code, IntLit(999))), pc.e)
	x.Obls[len(x.Obls)-1].Tag = "C16"
}

func init() {
	models["io.NopCloser"] = func(x *Exec, fr *Frame, st *State, pc *preparedCall, k func(*State, []Value)) {
		sig := pc.fn.Type().(*types.Signature)
		r := x.freshResults(st, sig, "nopcloser")
		rid := x.identityOf(st, r[0])
		src := x.identityOf(st, pc.args[0])
		st.assumeRaw(Ne(rid, IntLit(0)))
		st.assumeRaw(Eq(x.ghostSel(st, "readall", rid), x.ghostSel(st, "readall", src)))
		st.assumeRaw(Eq(x.ghostSel(st, "readlen", rid), x.ghostSel(st, "readlen", src)))
		k(st, r)
	}
	// (*http.Response).Write(w): status line from StatusCode, the header map, the body framed by
	// ContentLength (-1 with TransferEncoding chunked: until EOF).
	models["net/http.Response.Write"] = func(x *Exec, fr *Frame, st *State, pc *preparedCall, k func(*State, []Value)) {
		resp, ok := pc.recv.(PtrV)
		if !ok {
			k(st, []Value{x.freshErr(st, "respwriteerr")})
			return
		}
		w := x.identityOf(st, pc.args[0])
		if sc, ok := x.specFieldOf(st, resp, "StatusCode").(IntV); ok {
			x.recordStatus(st, w, sc.T)
		}
		if b := x.specFieldOf(st, resp, "Body"); b != nil {
			x.ghostSet(st, "wbody", w, x.identityOf(st, b))
		}
		if cl, ok := x.specFieldOf(st, resp, "ContentLength").(IntV); ok {
			x.ghostSet(st, "wlen", w, cl.T)
		}
		if h, ok := x.specFieldOf(st, resp, "Header").(MapV); ok {
			x.ghostSet(st, "whdr", w, h.ID)
		}
		if te, ok := x.specFieldOf(st, resp, "TransferEncoding").(SliceV); ok {
			x.ghostSet(st, "wte", w, te.Len)
		}
		k(st, []Value{x.freshErr(st, "respwriteerr")})
	}
}

// json.NewDecoder(r).Decode(&v): the decoder remembers what it reads from (ghost jsonsrc); a
// successful Decode fills every string field of the target with a function of the text read
// and the field's name: jsonfield(readall(r), "<Field>") - what the client sent, nothing else.
func init() {
	models["encoding/json.NewDecoder"] = func(x *Exec, fr *Frame, st *State, pc *preparedCall, k func(*State, []Value)) {
		sig := pc.fn.Type().(*types.Signature)
		p := x.zeroValue(x.resolveType(sig.Results().At(0).Type())).(PtrV)
		p.Addr = x.allocAddr(st, "jsondecoder")
		x.ghostSet(st, "jsonsrc", p.Addr, x.identityOf(st, pc.args[0]))
		k(st, []Value{p})
	}
	models["encoding/json.Decoder.Decode"] = func(x *Exec, fr *Frame, st *State, pc *preparedCall, k func(*State, []Value)) {
		var dst PtrV
		switch a := pc.args[0].(type) {
		case PtrV:
			dst = a
		case OpaqueV:
			if p, ok := a.Dyn.(PtrV); ok {
				dst = p
			} else {
				panic(x.unsupported("json.Decoder.Decode into something other than a pointer"))
			}
		default:
			panic(x.unsupported("json.Decoder.Decode into something other than a pointer"))
		}
		fresh := x.freshValue(st, x.resolveType(dst.Elem), "decoded")
		// a field the text does not mention keeps the value the target had before (encoding/json)
		var old Value
		if dst.LV != nil {
			old = dst.LV.Load(x, st)
		} else {
			old = x.heapLoad(st, dst)
		}
		if d, ok := pc.recv.(PtrV); ok {
			text := x.ghostSel(st, "readall", x.ghostSel(st, "jsonsrc", d.Addr))
			if sv, ok := fresh.(StructV); ok {
				ov, _ := old.(StructV)
				for _, n := range sv.Names {
					if f, ok := sv.F[n].(StrV); ok {
						nm := x.strID(st, x.strLit(n))
						val := App("jsonfield", SInt, text, nm)
						if of, ok := ov.F[n].(StrV); ok {
							val = Ite(App("jsonhas", SBool, text, nm), val, x.strID(st, of))
						}
						st.assumeRaw(Eq(x.strID(st, f), val))
					}
				}
			}
		}
		if dst.LV != nil {
			dst.LV.Store(x, st, fresh)
		} else {
			x.heapStore(st, dst, fresh)
		}
		x.Trusted["encoding/json.Decoder.Decode: string fields of the target are functions of the text read and the field name (jsonfield)"] = true
		k(st, []Value{x.freshErr(st, "jsonerr")})
	}
}

// (*slog.LevelVar).Set: the level a logger follows is observable - lvlsets counts the Set calls
// on a level variable, lvlval is the level set last.
func init() {
	models["log/slog.LevelVar.Set"] = func(x *Exec, fr *Frame, st *State, pc *preparedCall, k func(*State, []Value)) {
		id := IntLit(1) // the package-level level variable of package logging is the only one in the module
		if p, ok := pc.recv.(PtrV); ok && p.Addr != nil && p.LV == nil {
			id = p.Addr
		}
		x.ghostSet(st, "lvlsets", id, Add(x.ghostSel(st, "lvlsets", id), IntLit(1)))
		x.ghostSet(st, "lvlval", id, x.identityOf(st, pc.args[0]))
		k(st, nil)
	}
}
