package main

// Hooks for ghost state: locks, guarded fields, ghost sums, channels, goroutines.
// (first version: no-ops; extended in locks.go / ghost.go)

import (
	"go/ast"
)

type lazyHavocRec struct {
	pat string
	tag string
	// newOnly: only objects allocated after this point were written ("assigns new:T"):
	// at the addresses in alloc the array is what it was before
	newOnly bool
	alloc   *Term
	// only: the one address that was written ("assigns T@param"); every other cell is kept
	only *Term
	// prefixOnly: pat is a key prefix (not a substring)
	prefixOnly bool
}

func (x *Exec) onFuncEntry(fr *Frame, st *State, ctx *FuncCtx)                 {}
func (x *Exec) onFuncExit(fr *Frame, st *State, ctx *FuncCtx, env *SpecEnv) {
	x.checkBalanced(fr, st, ctx)
}
func (x *Exec) onAlloc(st *State, p PtrV)                                       {}
func (x *Exec) onHeapHavoc(st *State)                                           {}
func (x *Exec) onPanic(fr *Frame, st *State, e ast.Node)                        {}
func (x *Exec) onGo(fr *Frame, st *State, s *ast.GoStmt, pc *preparedCall) {
	x.Abstractions["go statement: the started goroutine is not executed here"] = true
	// ghost: how often a function value was started as a goroutine, and with which first argument
	var f *Term
	switch {
	case pc.fv != nil && pc.fv.Sym != nil:
		f = pc.fv.Sym
	case pc.closure != nil:
		f = x.closureID(FuncV{Closure: pc.closure})
	}
	if f != nil {
		gc := st.ghostArr("gocount", SInt)
		st.setGhostArr("gocount", Store(gc, f, Add(Select(gc, f), IntLit(1))))
		if len(pc.args) > 0 {
			la := st.ghostArr("golastarg", SInt)
			st.setGhostArr("golastarg", Store(la, f, x.identityOf(st, pc.args[0])))
		}
	}
}
func (x *Exec) onChanOp(fr *Frame, st *State, n ast.Node, op string) {
	if op == "send" || op == "recv" {
		x.noBlock(fr, st, n, "chan-"+op)
	}
}


func (x *Exec) specHook(env *SpecEnv, name string, e *SExpr) (Value, bool) { return nil, false }

func (x *Exec) iterHook(fr *Frame, s *ast.RangeStmt, st *State, rv Value) (func(k func(*State, Value, Value)), bool) {
	return nil, false
}

