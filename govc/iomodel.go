package main

// Models of bytes.Buffer / bytes.Reader / io.Copy and a ghost file system
// (os.Create, os.Open, os.Remove, os.Stat, File.Seek, File.Stat), assumed.
//
// Ghost arrays: readall[r] = identity of all bytes reader r yields until EOF,
// readlen[r] = their number; bufcontent[b], buflen[b] for *bytes.Buffer;
// readercontent[p] for *bytes.Reader / *os.File handles;
// fsexists[path], fssize[path], fscontent[path] for the file system (keyed by path identity).

import (
	"go/types"
	"strings"
)

func (x *Exec) ghostSel(st *State, name string, idx *Term) *Term {
	return Select(st.ghostArr(name, SInt), idx)
}

func (x *Exec) ghostSet(st *State, name string, idx, v *Term) {
	st.setGhostArr(name, Store(st.ghostArr(name, SInt), idx, v))
}

func (st *State) ghostBoolArr(name string) *Term {
	if v, ok := st.ghost[name].(OpaqueV); ok && v.T != nil {
		return v.T
	}
	a := Var(name+"0", ArrOf(SBool))
	st.ghost[name] = OpaqueV{T: a}
	return a
}

func errType() types.Type { return types.Universe.Lookup("error").Type() }

func init() {
	models["bytes.NewBuffer"] = func(x *Exec, fr *Frame, st *State, pc *preparedCall, k func(*State, []Value)) {
		sig := pc.fn.Type().(*types.Signature)
		p := x.zeroValue(x.resolveType(sig.Results().At(0).Type())).(PtrV)
		p.Addr = x.allocAddr(st, "buffer")
		b := pc.args[0].(StrV)
		// "The new Buffer takes ownership of buf, and the caller should not use buf after this
		// call": memory that an object on the heap still refers to (a stored body) must not be
		// handed over - byte slices are values in this model, so the alias is refused here.
		owned := true
		if b.Arr != nil {
			b.Arr.walk(func(t *Term) {
				if t.Op == "var" && isHeapArrayVar(t.Name) {
					owned = false
				}
			})
		}
		x.oblige(fr, st, "pre", "bytes.NewBuffer/owned-buffer@"+x.siteLabel(pc.e), BoolLit(owned), pc.e)
		x.Obls[len(x.Obls)-1].Tag = "C01"
		x.ghostSet(st, "buflen", p.Addr, b.Len)
		x.ghostSet(st, "bufcontent", p.Addr, x.strID(st, b))
		k(st, []Value{p})
	}
	// (*bytes.Buffer).ReadFrom(r): reads until EOF or error.  On success from an empty
	// buffer the buffer holds exactly all bytes of r.
	models["bytes.Buffer.ReadFrom"] = func(x *Exec, fr *Frame, st *State, pc *preparedCall, k func(*State, []Value)) {
		x.noIndexLockDuringTransfer(fr, st, pc)
		b := pc.recv.(PtrV)
		rid := x.identityOf(st, pc.args[0])
		n := Var(x.fresh("readn"), SInt)
		st.assumeRaw(And(Ge(n, IntLit(0)), Le(n, IntLit(1<<40))))
		err := x.freshErr(st, "readerr").(OpaqueV)
		okc := Eq(err.T, IntLit(0))
		old := x.ghostSel(st, "buflen", b.Addr)
		st.assumeRaw(Implies(okc, Eq(n, x.ghostSel(st, "readlen", rid))))
		st.assumeRaw(Ge(x.ghostSel(st, "readlen", rid), IntLit(0)))
		x.ghostSet(st, "buflen", b.Addr, Add(old, n))
		nc := Var(x.fresh("bufcontent"), SInt)
		st.assumeRaw(Implies(And(okc, Eq(old, IntLit(0))), Eq(nc, x.ghostSel(st, "readall", rid))))
		x.ghostSet(st, "bufcontent", b.Addr, nc)
		k(st, []Value{IntV{n}, err})
	}
	models["bytes.Buffer.Bytes"] = func(x *Exec, fr *Frame, st *State, pc *preparedCall, k func(*State, []Value)) {
		b := pc.recv.(PtrV)
		r := x.freshValue(st, types.NewSlice(types.Typ[types.Byte]), "bufbytes").(StrV)
		st.assumeRaw(Eq(r.Len, x.ghostSel(st, "buflen", b.Addr)))
		st.assumeRaw(Eq(x.strID(st, r), x.ghostSel(st, "bufcontent", b.Addr)))
		k(st, []Value{r})
	}
	models["bytes.NewReader"] = func(x *Exec, fr *Frame, st *State, pc *preparedCall, k func(*State, []Value)) {
		sig := pc.fn.Type().(*types.Signature)
		p := x.zeroValue(x.resolveType(sig.Results().At(0).Type())).(PtrV)
		p.Addr = x.allocAddr(st, "reader")
		b := pc.args[0].(StrV)
		x.ghostSet(st, "readercontent", p.Addr, x.strID(st, b))
		x.ghostSet(st, "readerlen", p.Addr, b.Len)
		k(st, []Value{p})
	}
	// io.Copy(dst, src): copies until EOF or first error.  When dst is a ghost file the
	// file receives the bytes; a failed copy may have written a proper prefix.
	models["io.Copy"] = func(x *Exec, fr *Frame, st *State, pc *preparedCall, k func(*State, []Value)) {
		x.noIndexLockDuringTransfer(fr, st, pc)
		dst := x.identityOf(st, pc.args[0])
		rid := x.identityOf(st, pc.args[1])
		n := Var(x.fresh("copied"), SInt)
		st.assumeRaw(And(Ge(n, IntLit(0)), Le(n, IntLit(1<<40))))
		err := x.freshErr(st, "copyerr").(OpaqueV)
		okc := Eq(err.T, IntLit(0))
		st.assumeRaw(Ge(x.ghostSel(st, "readlen", rid), IntLit(0)))
		st.assumeRaw(Implies(okc, Eq(n, x.ghostSel(st, "readlen", rid))))
		if pc.e != nil && len(pc.e.Args) == 2 {
			if tv, ok := fr.pkg.TypesInfo.Types[pc.e.Args[0]]; ok && isResponseWriterType(tv.Type) {
				// not a file: only the response record changes
				x.copyToResponseWriter(st, dst, rid)
				k(st, []Value{IntV{n}, err})
				return
			}
		}
		// destination is an open file handle: its inode grows
		ino := x.ghostSel(st, "handleinode", dst)
		oldSize := x.ghostSel(st, "isize", ino)
		x.ghostSet(st, "isize", ino, Add(oldSize, n))
		nc := Var(x.fresh("filecontent"), SInt)
		st.assumeRaw(Implies(And(okc, Eq(oldSize, IntLit(0))), Eq(nc, x.ghostSel(st, "readall", rid))))
		x.ghostSet(st, "icontent", ino, nc)
		k(st, []Value{IntV{n}, err})
	}
	models["path/filepath.Join"] = func(x *Exec, fr *Frame, st *State, pc *preparedCall, k func(*State, []Value)) {
		r := x.freshValue(st, types.Typ[types.String], "path").(StrV)
		var ids []*Term
		for _, a := range pc.args {
			ids = append(ids, x.identityOf(st, a))
		}
		if len(ids) == 2 {
			st.assumeRaw(Eq(x.strID(st, r), App("pathjoin", SInt, ids[0], ids[1])))
			x.pathAxioms()
		}
		k(st, []Value{r})
	}
	// ---- ghost file system with inodes: fsinode[path] (0 = no such file),
	// isize[inode], icontent[inode], handleinode[handle].  Unlinking or replacing
	// a path does not touch the inode an open handle refers to (POSIX, assumed).
	newInode := func(x *Exec, st *State) *Term {
		ino := Var(x.fresh("inode"), SInt)
		st.assumeRaw(Gt(ino, IntLit(0)))
		// fresh: no path and no handle refers to it yet
		q := x.qvar("ip")
		st.assumeRaw(Forall([]*Term{q}, Ne(Select(st.ghostArr("fsinode", SInt), q), ino)))
		q2 := x.qvar("ih")
		st.assumeRaw(Forall([]*Term{q2}, Ne(Select(st.ghostArr("handleinode", SInt), q2), ino)))
		return ino
	}
	newHandle := func(x *Exec, st *State, ft types.Type, ino *Term) PtrV {
		p := x.zeroValue(ft).(PtrV)
		p.Addr = x.allocAddr(st, "file")
		x.ghostSet(st, "handleinode", p.Addr, ino)
		return p
	}
	models["os.Create"] = func(x *Exec, fr *Frame, st *State, pc *preparedCall, k func(*State, []Value)) {
		path := x.strID(st, pc.args[0].(StrV))
		sig := pc.fn.Type().(*types.Signature)
		ft := x.resolveType(sig.Results().At(0).Type())
		st2 := st.clone()
		e2 := x.freshErr(st2, "createerr").(OpaqueV)
		st2.assumeRaw(Ne(e2.T, IntLit(0)))
		st2.trace = append(st2.trace, "os.Create:fail")
		k(st2, []Value{x.zeroValue(ft), e2})
		// success: an existing file is truncated IN PLACE (same inode), otherwise a new one appears
		cur := x.ghostSel(st, "fsinode", path)
		fresh := newInode(x, st)
		ino := Ite(Ne(cur, IntLit(0)), cur, fresh)
		x.ghostSet(st, "fsinode", path, ino)
		x.ghostSet(st, "isize", ino, IntLit(0))
		x.ghostSet(st, "icontent", ino, x.strID(st, x.strLit("")))
		st.trace = append(st.trace, "os.Create:ok")
		k(st, []Value{newHandle(x, st, ft, ino), OpaqueV{T: IntLit(0), Type: errType()}})
	}
	models["os.CreateTemp"] = func(x *Exec, fr *Frame, st *State, pc *preparedCall, k func(*State, []Value)) {
		sig := pc.fn.Type().(*types.Signature)
		ft := x.resolveType(sig.Results().At(0).Type())
		st2 := st.clone()
		e2 := x.freshErr(st2, "createerr").(OpaqueV)
		st2.assumeRaw(Ne(e2.T, IntLit(0)))
		st2.trace = append(st2.trace, "os.CreateTemp:fail")
		k(st2, []Value{x.zeroValue(ft), e2})
		// success: a new name that did not exist, a new empty file
		path := Var(x.fresh("tmppath"), SInt)
		st.assumeRaw(Gt(path, IntLit(0)))
		// a temporary name ("<pattern>.tmp-<random>") is never the path of a cache key
		st.assumeRaw(App("istmppath", SBool, path))
		x.pathAxioms()
		st.assumeRaw(Eq(x.ghostSel(st, "fsinode", path), IntLit(0)))
		ino := newInode(x, st)
		x.ghostSet(st, "fsinode", path, ino)
		x.ghostSet(st, "isize", ino, IntLit(0))
		x.ghostSet(st, "icontent", ino, x.strID(st, x.strLit("")))
		h := newHandle(x, st, ft, ino)
		x.ghostSet(st, "handlename", h.Addr, path)
		st.trace = append(st.trace, "os.CreateTemp:ok")
		k(st, []Value{h, OpaqueV{T: IntLit(0), Type: errType()}})
	}
	models["os.File.Name"] = func(x *Exec, fr *Frame, st *State, pc *preparedCall, k func(*State, []Value)) {
		p := pc.recv.(PtrV)
		r := x.freshValue(st, types.Typ[types.String], "fname").(StrV)
		st.assumeRaw(Eq(x.strID(st, r), x.ghostSel(st, "handlename", p.Addr)))
		k(st, []Value{r})
	}
	models["os.Rename"] = func(x *Exec, fr *Frame, st *State, pc *preparedCall, k func(*State, []Value)) {
		from := x.strID(st, pc.args[0].(StrV))
		to := x.strID(st, pc.args[1].(StrV))
		st2 := st.clone()
		e2 := x.freshErr(st2, "renameerr").(OpaqueV)
		st2.assumeRaw(Ne(e2.T, IntLit(0)))
		st2.trace = append(st2.trace, "os.Rename:fail")
		k(st2, []Value{e2})
		ino := x.ghostSel(st, "fsinode", from)
		st.assumeRaw(Ne(ino, IntLit(0)))
		x.ghostSet(st, "fsinode", to, ino)
		x.ghostSet(st, "fsinode", from, IntLit(0))
		st.trace = append(st.trace, "os.Rename:ok")
		k(st, []Value{OpaqueV{T: IntLit(0), Type: errType()}})
	}
	models["os.Open"] = func(x *Exec, fr *Frame, st *State, pc *preparedCall, k func(*State, []Value)) {
		path := x.strID(st, pc.args[0].(StrV))
		sig := pc.fn.Type().(*types.Signature)
		ft := x.resolveType(sig.Results().At(0).Type())
		st2 := st.clone()
		e2 := x.freshErr(st2, "openerr").(OpaqueV)
		st2.assumeRaw(Ne(e2.T, IntLit(0)))
		st2.trace = append(st2.trace, "os.Open:fail")
		k(st2, []Value{x.zeroValue(ft), e2})
		ino := x.ghostSel(st, "fsinode", path)
		st.assumeRaw(Ne(ino, IntLit(0)))
		st.trace = append(st.trace, "os.Open:ok")
		k(st, []Value{newHandle(x, st, ft, ino), OpaqueV{T: IntLit(0), Type: errType()}})
	}
	models["os.Remove"] = func(x *Exec, fr *Frame, st *State, pc *preparedCall, k func(*State, []Value)) {
		path := x.strID(st, pc.args[0].(StrV))
		st2 := st.clone()
		e2 := x.freshErr(st2, "removeerr").(OpaqueV)
		st2.assumeRaw(Ne(e2.T, IntLit(0)))
		st2.trace = append(st2.trace, "os.Remove:fail")
		k(st2, []Value{e2})
		st.assumeRaw(Ne(x.ghostSel(st, "fsinode", path), IntLit(0)))
		x.ghostSet(st, "fsinode", path, IntLit(0))
		st.trace = append(st.trace, "os.Remove:ok")
		k(st, []Value{OpaqueV{T: IntLit(0), Type: errType()}})
	}
	// os.RemoveAll(path): path and everything below it are gone; nothing else is touched.
	// ASSUMED TO SUCCEED: EnsureCleared ignores its error, and a failing removal (which would
	// leave files that no record accounts for) is not modelled.
	models["os.RemoveAll"] = func(x *Exec, fr *Frame, st *State, pc *preparedCall, k func(*State, []Value)) {
		x.Trusted["os.RemoveAll is assumed to succeed (its error is ignored by assertedpath.EnsureCleared); a failing removal is not modelled"] = true
		path := x.strID(st, pc.args[0].(StrV))
		old := st.ghostArr("fsinode", SInt)
		nw := Var(x.fresh("G_fsinode"), old.Sort)
		kq := x.qvar("rk")
		st.assumeRaw(Forall([]*Term{kq}, Eq(Select(nw, App("pathjoin", SInt, path, kq)), IntLit(0))))
		st.assumeRaw(Eq(Select(nw, path), IntLit(0)))
		q := x.qvar("rq")
		st.assumeRaw(Forall([]*Term{q}, Or(Eq(Select(nw, q), IntLit(0)), Eq(Select(nw, q), Select(old, q)))))
		st.setGhostArr("fsinode", nw)
		x.pathAxioms()
		k(st, []Value{OpaqueV{T: IntLit(0), Type: errType()}})
	}
	// os.MkdirAll: directories are not part of the ghost file system
	models["os.MkdirAll"] = func(x *Exec, fr *Frame, st *State, pc *preparedCall, k func(*State, []Value)) {
		k(st, []Value{x.freshErr(st, "mkdirerr")})
	}
	models["os.Stat"] = func(x *Exec, fr *Frame, st *State, pc *preparedCall, k func(*State, []Value)) {
		path := x.strID(st, pc.args[0].(StrV))
		sig := pc.fn.Type().(*types.Signature)
		it := x.resolveType(sig.Results().At(0).Type())
		ino := x.ghostSel(st, "fsinode", path)
		st2 := st.clone()
		st2.assumeRaw(Eq(ino, IntLit(0)))
		e2 := Var(x.fresh("notexist"), SInt)
		st2.assumeRaw(And(Gt(e2, IntLit(100000)), Le(e2, IntLit(1<<40))))
		if op := x.L.pkgOf("os"); op != nil {
			if obj, ok := op.Types.Scope().Lookup("ErrNotExist").(*types.Var); ok {
				if o, ok := x.globalValue(fr, st2, obj).(OpaqueV); ok {
					st2.assumeRaw(App("wraps", SBool, e2, o.T))
				}
			}
		}
		st2.trace = append(st2.trace, "os.Stat:notexist")
		k(st2, []Value{x.zeroValue(it), OpaqueV{T: e2, Type: errType()}})
		st3 := st.clone()
		e3 := x.freshErr(st3, "staterr").(OpaqueV)
		st3.assumeRaw(Ne(e3.T, IntLit(0)))
		st3.trace = append(st3.trace, "os.Stat:error")
		k(st3, []Value{x.zeroValue(it), e3})
		st.assumeRaw(Ne(ino, IntLit(0)))
		sz := x.ghostSel(st, "isize", ino)
		info := OpaqueV{T: Var(x.fresh("fileinfo"), SInt), Type: it}
		st.assumeRaw(Gt(info.T, IntLit(0)))
		x.ghostSet(st, "infosize", info.T, sz)
		st.trace = append(st.trace, "os.Stat:ok")
		k(st, []Value{info, OpaqueV{T: IntLit(0), Type: errType()}})
	}
	models["io/fs.FileInfo.Size"] = func(x *Exec, fr *Frame, st *State, pc *preparedCall, k func(*State, []Value)) {
		sz := x.ghostSel(st, "infosize", x.asTermAny(pc.recv))
		st.assumeRaw(inRange(intKind{64, true}, sz))
		k(st, []Value{IntV{sz}})
	}
	models["os.File.Seek"] = func(x *Exec, fr *Frame, st *State, pc *preparedCall, k func(*State, []Value)) {
		n := Var(x.fresh("seekpos"), SInt)
		st.assumeRaw(inRange(intKind{64, true}, n))
		k(st, []Value{IntV{n}, x.freshErr(st, "seekerr")})
	}
	models["os.File.Close"] = func(x *Exec, fr *Frame, st *State, pc *preparedCall, k func(*State, []Value)) {
		k(st, []Value{x.freshErr(st, "closeerr")})
	}
}

// pathAxioms: filepath.Join(dir, name) is injective in name (names are hex
// keys without separators) and never yields a temporary-file name.
func (x *Exec) pathAxioms() {
	if x.pathAxiomsDone {
		return
	}
	x.pathAxiomsDone = true
	d, a, b := Var("qd_pj", SInt), Var("qa_pj", SInt), Var("qb_pj", SInt)
	x.GlobalFacts = append(x.GlobalFacts,
		Forall([]*Term{d, a, b}, Implies(Eq(App("pathjoin", SInt, d, a), App("pathjoin", SInt, d, b)), Eq(a, b))),
		Forall([]*Term{d, a}, And(Not(App("istmppath", SBool, App("pathjoin", SInt, d, a))), Gt(App("pathjoin", SInt, d, a), IntLit(0)))))
}

// noIndexLockDuringTransfer: reading a body (from the origin, at the origin's pace) may block for as
// long as the origin likes.  A key's shard lock may be held meanwhile - it stops only requests for
// that key - but not a cache-wide index mutex (".mu"): every operation on every key would wait.
func (x *Exec) noIndexLockDuringTransfer(fr *Frame, st *State, pc *preparedCall) {
	if x.cur == nil || !x.cur.usesLocks && len(st.held) == 0 {
		return
	}
	ok := true
	for _, h := range st.held {
		if strings.HasSuffix(h.Desc, ".mu") {
			ok = false
		}
	}
	x.oblige(fr, st, "locklevel", "body transfer with the index mutex held@"+x.siteLabel(pc.e), BoolLit(ok), pc.e)
	x.Obls[len(x.Obls)-1].Tag = "C14"
}
