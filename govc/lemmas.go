package main

// Lemmas and program-wide obligations.


// lemmaObligations turns the lemmas tagged with prop into obligations: the
// lemma's formula must be valid (its negation unsatisfiable).
func (x *Exec) lemmaObligations(prop string) {
	for _, lm := range x.C.Lemmas {
		if !hasProp(lm.Props, prop) {
			continue
		}
		func() {
			defer func() {
				if r := recover(); r != nil {
					if ue, ok := r.(unsupportedErr); ok {
						x.Errors = append(x.Errors, "lemma "+lm.Name+": "+ue.msg)
						return
					}
					panic(r)
				}
			}()
			st := &State{heap: map[string]*Term{}, ghost: map[string]Value{}}
			st.now = Var("now0", SInt)
			st.alloc = Var("alloc0", SInt)
			env := &SpecEnv{x: x, st: st, vars: map[string]Value{}, bound: map[string]Value{}, pkgPath: lm.Pkg}
			goal := x.specBool(env, lm.Expr.Expr)
			name := shortPkg(lm.Pkg) + ".lemma:" + lm.Name
			x.Obls = append(x.Obls, &Obligation{Func: name, Kind: "lemma", Label: lm.Name, Name: name + "#lemma:" + lm.Name,
				Assume: st.pc, Goal: goal, Pos: lm.Expr.Src, Props: lm.Props})
			x.FuncsDone = append(x.FuncsDone, name)
		}()
	}
}

