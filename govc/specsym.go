package main

// Evaluation of specification expressions over symbolic (or concrete) values.

import (
	"fmt"
	"go/ast"
	"go/types"
	"math/big"
	"strings"
)

type SpecEnv struct {
	x       *Exec
	st      *State
	old     *State
	vars    map[string]Value
	oldVars map[string]Value
	bound   map[string]Value
	pkgPath string
	fr      *Frame
	lookup  func(name string) (Value, bool)
	inOld   bool
	// real is the state that receives axiom instances produced while evaluating
	// (the current state also when st is the old-state snapshot)
	real *State
}

func (env *SpecEnv) realState() *State {
	if env.real != nil {
		return env.real
	}
	return env.st
}

func (env *SpecEnv) clone() *SpecEnv {
	n := *env
	n.bound = map[string]Value{}
	for k, v := range env.bound {
		n.bound[k] = v
	}
	return &n
}

type specErr struct{ msg string }

func (x *Exec) specFail(f string, a ...any) {
	panic(x.unsupported("spec: " + fmt.Sprintf(f, a...)))
}

func (x *Exec) specBool(env *SpecEnv, e *SExpr) *Term {
	x.inSpec++
	defer func() { x.inSpec-- }()
	v := x.specEval(env, e)
	b, ok := v.(BoolV)
	if !ok {
		x.specFail("boolean expected in %s", e)
	}
	return b.T
}

func specTypeSort(t string) *Sort {
	if t == "bool" {
		return SBool
	}
	return SInt
}

func (x *Exec) specIdent(env *SpecEnv, name string) Value {
	if v, ok := env.bound[name]; ok {
		return v
	}
	if env.inOld && env.oldVars != nil {
		if v, ok := env.oldVars[name]; ok {
			return v
		}
	}
	if v, ok := env.vars[name]; ok {
		return v
	}
	if env.lookup != nil {
		if v, ok := env.lookup(name); ok {
			return v
		}
	}
	if env.st != nil {
		if v, ok := env.st.ghost[name]; ok && v != nil {
			return v
		}
		if name == "now" {
			return IntV{env.st.now}
		}
	}
	if env.pkgPath != "" {
		if pkg := x.L.pkgOf(env.pkgPath); pkg != nil {
			if obj := pkg.Types.Scope().Lookup(name); obj != nil {
				switch o := obj.(type) {
				case *types.Const:
					return x.constValue(x.resolveType(o.Type()), o.Val())
				case *types.Var:
					return x.globalValue(nil, env.st, o)
				}
			}
		}
	}
	switch name {
	case "MaxInt64":
		return IntV{BigLit(intKind{64, true}.max())}
	case "MinInt64":
		return IntV{BigLit(intKind{64, true}.min())}
	}
	switch name {
	case "lastcmp", "lastcmp_a", "lastkdf_pw", "lastkdf_out":
		// observation ghosts of the login check: unknown until a comparison ran on this path
		if env.st != nil {
			v := IntV{Var(x.fresh(name+"_unobserved"), SInt)}
			env.st.ghost[name] = v
			return v
		}
	}
	x.specFail("unknown identifier %q", name)
	return nil
}

func (x *Exec) specEval(env *SpecEnv, e *SExpr) Value {
	switch e.Kind {
	case SIdent:
		return x.specIdent(env, e.Name)
	case SIntLit:
		return IntV{BigLit(e.Int)}
	case SStrLit:
		return x.strLit(e.Str)
	case SBoolLit:
		return BoolV{BoolLit(e.Bool)}
	case SNil:
		return OpaqueV{T: IntLit(0)}
	case SUnary:
		v := x.specEval(env, e.X)
		switch e.Op {
		case "!":
			return BoolV{Not(v.(BoolV).T)}
		case "-":
			return IntV{Neg(v.(IntV).T)}
		case "*":
			p, ok := v.(PtrV)
			if !ok {
				x.specFail("dereference of non-pointer in %s", e)
			}
			return x.heapLoad(env.st, p)
		}
		x.specFail("unary %s", e.Op)
	case SBinary:
		return x.specBinary(env, e)
	case SCond:
		c := x.specBool(env, e.X)
		if c.Op == "true" {
			return x.specEval(env, e.Y)
		}
		if c.Op == "false" {
			return x.specEval(env, e.Z)
		}
		a := x.specEval(env, e.Y)
		b := x.specEval(env, e.Z)
		return x.iteVal(c, a, b)
	case SCall:
		return x.specCallExpr(env, e)
	case SIndex:
		b := x.specEval(env, e.X)
		switch bv := b.(type) {
		case StrV:
			i := x.specEval(env, e.Y).(IntV).T
			return IntV{x.strAt(bv, i)}
		case SliceV:
			i := x.specEval(env, e.Y).(IntV).T
			return x.sliceAt(bv, i)
		case MapV:
			kv := x.specEval(env, e.Y)
			v, _ := x.mapGet(env.st, bv, x.keyTerm(env.st, kv))
			return v
		case OpaqueV:
			if bv.T.Sort.Elem != nil {
				i := x.asTermAny(x.specEval(env, e.Y))
				r := Select(bv.T, i)
				if r.Sort == SBool {
					return BoolV{r}
				}
				return IntV{r}
			}
		case PtrV:
			a := x.heapLoad(env.st, bv)
			i := x.specEval(env, e.Y).(IntV).T
			switch av := a.(type) {
			case StrV:
				return IntV{x.strAt(av, i)}
			case SliceV:
				return x.sliceAt(av, i)
			}
		}
		x.specFail("index of %T in %s", b, e)
	case SSlice:
		b := x.specEval(env, e.X)
		lo := IntLit(0)
		if e.Y != nil {
			lo = x.specEval(env, e.Y).(IntV).T
		}
		switch bv := b.(type) {
		case StrV:
			hi := bv.Len
			if e.Z != nil {
				hi = x.specEval(env, e.Z).(IntV).T
			}
			return StrV{Arr: bv.Arr, Off: Add(bv.Off, lo), Len: Sub(hi, lo)}
		case SliceV:
			hi := bv.Len
			if e.Z != nil {
				hi = x.specEval(env, e.Z).(IntV).T
			}
			ns := bv
			ns.Off = Add(bv.Off, lo)
			ns.Len = Sub(hi, lo)
			return ns
		}
		x.specFail("slice of %T", b)
	case SSel:
		return x.specSelect(env, e)
	case SQuant:
		ne := env.clone()
		var bound []*Term
		var guards []*Term
		for _, v := range e.Vars {
			x.quantN++
			bv := Var(fmt.Sprintf("q_%s_%d", sanitize(v.Name), x.quantN), specTypeSort(v.Type))
			bound = append(bound, bv)
			switch v.Type {
			case "bool":
				ne.bound[v.Name] = BoolV{bv}
			case "byte", "uint8":
				ne.bound[v.Name] = IntV{bv}
				guards = append(guards, And(Le(IntLit(0), bv), Le(bv, IntLit(255))))
			case "int64":
				ne.bound[v.Name] = IntV{bv}
				guards = append(guards, inRange(intKind{64, true}, bv))
			case "nat":
				ne.bound[v.Name] = IntV{bv}
				guards = append(guards, Le(IntLit(0), bv))
			case "key":
				ne.bound[v.Name] = OpaqueV{T: bv}
			default:
				ne.bound[v.Name] = IntV{bv}
			}
		}
		body := x.specBool(ne, e.X)
		if e.Op == "forall" {
			return BoolV{Forall(bound, Implies(And(guards...), body))}
		}
		return BoolV{Exists(bound, And(And(guards...), body))}
	}
	x.specFail("cannot evaluate %s", e)
	return nil
}

func (x *Exec) iteVal(c *Term, a, b Value) Value {
	switch av := a.(type) {
	case IntV:
		return IntV{Ite(c, av.T, x.asTerm(b))}
	case BoolV:
		return BoolV{Ite(c, av.T, b.(BoolV).T)}
	case OpaqueV:
		return OpaqueV{T: Ite(c, av.T, x.asTerm(b)), Type: av.Type}
	case PtrV:
		return PtrV{Addr: Ite(c, av.Addr, x.asTerm(b)), Prefix: av.Prefix, Elem: av.Elem}
	case StrV:
		bv := b.(StrV)
		return StrV{Arr: Ite(c, av.Arr, bv.Arr), Off: Ite(c, av.Off, bv.Off), Len: Ite(c, av.Len, bv.Len)}
	case StructV:
		bv := b.(StructV)
		n := StructV{Type: av.Type, Names: av.Names, F: map[string]Value{}}
		for _, f := range av.Names {
			n.F[f] = x.iteVal(c, av.F[f], bv.F[f])
		}
		return n
	}
	x.specFail("conditional over %T", a)
	return nil
}

func (x *Exec) specBinary(env *SpecEnv, e *SExpr) Value {
	switch e.Op {
	case "&&":
		a := x.specBool(env, e.X)
		if a.Op == "false" {
			return BoolV{TFalse}
		}
		return BoolV{And(a, x.specBool(env, e.Y))}
	case "||":
		a := x.specBool(env, e.X)
		if a.Op == "true" {
			return BoolV{TTrue}
		}
		return BoolV{Or(a, x.specBool(env, e.Y))}
	case "==>":
		a := x.specBool(env, e.X)
		if a.Op == "false" {
			return BoolV{TTrue}
		}
		return BoolV{Implies(a, x.specBool(env, e.Y))}
	case "<==>":
		return BoolV{Eq(x.specBool(env, e.X), x.specBool(env, e.Y))}
	}
	a := x.specEval(env, e.X)
	b := x.specEval(env, e.Y)
	switch e.Op {
	case "==", "!=":
		eq := x.specEq(env, a, b)
		if e.Op == "!=" {
			return BoolV{Not(eq)}
		}
		return BoolV{eq}
	}
	if sa, ok := a.(StrV); ok && e.Op == "+" {
		return x.strConcat(env.st, sa, b.(StrV))
	}
	ta, tb := x.asTerm(a), x.asTerm(b)
	switch e.Op {
	case "<":
		return BoolV{Lt(ta, tb)}
	case "<=":
		return BoolV{Le(ta, tb)}
	case ">":
		return BoolV{Gt(ta, tb)}
	case ">=":
		return BoolV{Ge(ta, tb)}
	case "+":
		return IntV{Add(ta, tb)}
	case "-":
		return IntV{Sub(ta, tb)}
	case "*":
		return IntV{Mul(ta, tb)}
	case "/":
		return IntV{TDiv(ta, tb)}
	case "%":
		return IntV{TRem(ta, tb)}
	}
	x.specFail("binary operator %s", e.Op)
	return nil
}

func (x *Exec) specEq(env *SpecEnv, a, b Value) *Term {
	switch av := a.(type) {
	case StrV:
		if bv, ok := b.(StrV); ok {
			eq := x.strEq(av, bv)
			// equal content <=> equal content identity (axiom instance, added to the current state)
			if rs := env.realState(); rs != nil && rs.vars != nil {
				x.linkLiteralEq(rs, av, bv, eq)
			}
			return eq
		}
	case StructV:
		if bv, ok := b.(StructV); ok {
			var cs []*Term
			for _, n := range av.Names {
				cs = append(cs, x.specEq(env, av.F[n], bv.F[n]))
			}
			return And(cs...)
		}
	case BoolV:
		return Eq(av.T, b.(BoolV).T)
	case SliceV:
		if o, ok := b.(OpaqueV); ok && o.T.Op == "int" {
			return And(Eq(av.Len, IntLit(0)), Eq(av.Base, IntLit(0)))
		}
		if bv, ok := b.(SliceV); ok {
			// the same slice value: same backing array, window and element arrays
			cs := []*Term{Eq(av.Len, bv.Len), Eq(av.Off, bv.Off), Eq(av.Base, bv.Base)}
			for _, p := range av.Order {
				if bl, ok := bv.Leaves[p]; ok {
					cs = append(cs, Eq(av.Leaves[p], bl))
				}
			}
			return And(cs...)
		}
	case FuncV:
		return Eq(x.asTermAny(av), x.asTermAny(b))
	case MapV:
		return Eq(av.ID, x.asTermAny(b))
	}
	return Eq(x.asTermAny(a), x.asTermAny(b))
}

func (x *Exec) asTermAny(v Value) *Term {
	switch vv := v.(type) {
	case MapV:
		return vv.ID
	case FuncV:
		if vv.Sym != nil {
			return vv.Sym
		}
		return IntLit(1)
	case BoolV:
		return vv.T
	}
	return x.asTerm(v)
}

func (x *Exec) specSelect(env *SpecEnv, e *SExpr) Value {
	// package-qualified constant / variable
	if e.X.Kind == SIdent {
		if _, isVar := env.bound[e.X.Name]; !isVar {
			if _, isVar2 := env.vars[e.X.Name]; !isVar2 {
				var have bool
				if env.lookup != nil {
					_, have = env.lookup(e.X.Name)
				}
				if !have {
					if pkg := x.L.pkgOf(env.pkgPath); pkg != nil {
						for _, imp := range pkg.Imports {
							if imp.Name == e.X.Name || strings.HasSuffix(imp.PkgPath, "/"+e.X.Name) {
								if obj := imp.Types.Scope().Lookup(e.Name); obj != nil {
									switch o := obj.(type) {
									case *types.Const:
										return x.constValue(x.resolveType(o.Type()), o.Val())
									case *types.Var:
										return x.globalValue(nil, env.st, o)
									}
								}
							}
						}
					}
				}
			}
		}
	}
	b := x.specEval(env, e.X)
	return x.specField(env, b, e.Name, e)
}

func (x *Exec) specField(env *SpecEnv, b Value, name string, e *SExpr) Value {
	switch bv := b.(type) {
	case StructV:
		if v, ok := bv.F[name]; ok {
			return v
		}
		// promoted field through embedded structs
		for _, n := range bv.Names {
			if sv, ok := bv.F[n].(StructV); ok {
				if _, ok := sv.F[name]; ok {
					return sv.F[name]
				}
			}
		}
		x.specFail("no field %s in %s", name, e)
	case PtrV:
		if bv.LV != nil {
			return x.specField(env, bv.LV.Load(x, env.st), name, e)
		}
		stt, ok := x.resolveType(bv.Elem).Underlying().(*types.Struct)
		if !ok {
			x.specFail("field of pointer to non-struct in %s", e)
		}
		for i := 0; i < stt.NumFields(); i++ {
			f := stt.Field(i)
			if f.Name() == name {
				v := heapFieldLV{p: bv, field: name, ftype: x.resolveType(f.Type())}.Load(x, env.st)
				return v
			}
		}
		for i := 0; i < stt.NumFields(); i++ {
			f := stt.Field(i)
			if f.Embedded() {
				inner := heapFieldLV{p: bv, field: f.Name(), ftype: x.resolveType(f.Type())}.Load(x, env.st)
				if sv, ok := inner.(StructV); ok {
					if v, ok := sv.F[name]; ok {
						return v
					}
				}
			}
		}
		x.specFail("no field %s in %s", name, e)
	case OpaqueV:
		if bv.Dyn != nil {
			return x.specField(env, bv.Dyn, name, e)
		}
	}
	x.specFail("field selection %s on %T", e, b)
	return nil
}

func (x *Exec) specCallExpr(env *SpecEnv, e *SExpr) Value {
	if e.X.Kind == SIdent {
		name := e.X.Name
		switch name {
		case "old":
			if env.old == nil {
				// no old state: precondition context, old(e) == e
				return x.specEval(env, e.Args[0])
			}
			ne := *env
			ne.real = env.realState()
			ne.st = env.old
			ne.inOld = true
			return x.specEval(&ne, e.Args[0])
		case "len":
			v := x.specEval(env, e.Args[0])
			switch vv := v.(type) {
			case StrV:
				return IntV{vv.Len}
			case SliceV:
				return IntV{vv.Len}
			case MapV:
				return IntV{x.mapLen(env.st, vv)}
			case PtrV:
				return IntV{x.lenOf(x.heapLoad(env.st, vv))}
			}
			x.specFail("len of %T", v)
		case "int", "int64", "int32", "uint32", "uint8", "byte", "rune", "uint64", "uint", "int8", "int16", "uint16":
			v := x.specEval(env, e.Args[0])
			return IntV{x.asTerm(v)}
		case "wrap64":
			return IntV{wrapTerm(intKind{64, true}, x.specEval(env, e.Args[0]).(IntV).T)}
		case "wrap32u":
			return IntV{wrapTerm(intKind{32, false}, x.specEval(env, e.Args[0]).(IntV).T)}
		case "in":
			m := x.specEval(env, e.Args[0]).(MapV)
			kv := x.specEval(env, e.Args[1])
			_, pres := x.mapGet(env.st, m, x.keyTerm(env.st, kv))
			return BoolV{pres}
		case "min", "max":
			a := x.asTerm(x.specEval(env, e.Args[0]))
			b := x.asTerm(x.specEval(env, e.Args[1]))
			if name == "min" {
				return IntV{Ite(Le(a, b), a, b)}
			}
			return IntV{Ite(Ge(a, b), a, b)}
		case "streq":
			return BoolV{x.strEq(x.specEval(env, e.Args[0]).(StrV), x.specEval(env, e.Args[1]).(StrV))}
		case "sid":
			return IntV{x.strID(env.st, x.specEval(env, e.Args[0]).(StrV))}
		case "canonkeyof":
			return IntV{x.canonKey(env.st, x.specEval(env, e.Args[0]).(StrV))}
		case "tolower", "trimspace", "canonkey":
			return IntV{App("strfn_"+name, SInt, x.asTerm(x.specEval(env, e.Args[0])))}
		case "hasprefix":
			return BoolV{App("strfn_hasprefix", SBool, x.asTerm(x.specEval(env, e.Args[0])), x.strID(env.st, x.specEval(env, e.Args[1]).(StrV)))}
		case "cutprefix":
			return IntV{App("strfn_cutprefix", SInt, x.asTerm(x.specEval(env, e.Args[0])), x.strID(env.st, x.specEval(env, e.Args[1]).(StrV)))}
		case "decval":
			return IntV{App("decval", SInt, x.asTerm(x.specEval(env, e.Args[0])))}
		case "parseok64":
			return BoolV{App("parseok_s64", SBool, x.asTerm(x.specEval(env, e.Args[0])))}
		case "splitlen":
			return IntV{App("strfn_splitlen", SInt, x.asTerm(x.specEval(env, e.Args[0])), x.strID(env.st, x.specEval(env, e.Args[1]).(StrV)))}
		case "splitat":
			return IntV{App("strfn_splitat", SInt, x.asTerm(x.specEval(env, e.Args[0])), x.strID(env.st, x.specEval(env, e.Args[1]).(StrV)), x.asTerm(x.specEval(env, e.Args[2])))}
		case "timeparse_ok":
			return BoolV{App("timeparse_ok", SBool, x.asTerm(x.specEval(env, e.Args[0])))}
		case "timeparse_val":
			return IntV{App("timeparse_val", SInt, x.asTerm(x.specEval(env, e.Args[0])))}
		case "jsonhas":
			return BoolV{App("jsonhas", SBool, x.identityOf(env.st, x.specEval(env, e.Args[0])), x.identityOf(env.st, x.specEval(env, e.Args[1])))}
		case "jsonfield":
			return IntV{App("jsonfield", SInt, x.identityOf(env.st, x.specEval(env, e.Args[0])), x.identityOf(env.st, x.specEval(env, e.Args[1])))}
		case "httptime_ok":
			return BoolV{App("httpparsetime_ok", SBool, x.asTerm(x.specEval(env, e.Args[0])))}
		case "httptime_val":
			return IntV{App("httpparsetime_val", SInt, x.asTerm(x.specEval(env, e.Args[0])))}
		case "calls":
			f := x.asTermAny(x.specEval(env, e.Args[0]))
			return IntV{Select(env.st.ghostArr("callcount", SInt), f)}
		case "httpstatus":
			return IntV{Select(env.st.ghostArr("httpstatus", SInt), x.asTermAny(x.specEval(env, e.Args[0])))}
		case "httperrs":
			return IntV{Select(env.st.ghostArr("httperrs", SInt), x.asTermAny(x.specEval(env, e.Args[0])))}
		case "ioerr":
			// ioerr(e): e is an error of modelled I/O (never one of the program's sentinels, wraps none)
			x.ioErrAxiom()
			return BoolV{Gt(x.asTerm(x.specEval(env, e.Args[0])), IntLit(1<<40))}
		case "httpwrites":
			return IntV{Select(env.st.ghostArr("httpwrites", SInt), x.asTermAny(x.specEval(env, e.Args[0])))}
		case "cookie_has":
			return BoolV{App("reqcookie_has", SBool, x.asTermAny(x.specEval(env, e.Args[0])), x.strID(env.st, x.specEval(env, e.Args[1]).(StrV)))}
		case "cookie_val":
			return IntV{App("reqcookie_val", SInt, x.asTermAny(x.specEval(env, e.Args[0])), x.strID(env.st, x.specEval(env, e.Args[1]).(StrV)))}
		case "jsonenc":
			return IntV{App("jsonenc", SInt, x.identityOf(env.st, x.specEval(env, e.Args[0])))}
		case "gocalls":
			return IntV{Select(env.st.ghostArr("gocount", SInt), x.asTermAny(x.specEval(env, e.Args[0])))}
		case "golastarg":
			return IntV{Select(env.st.ghostArr("golastarg", SInt), x.asTermAny(x.specEval(env, e.Args[0])))}
		case "aset":
			av, ok := x.specEval(env, e.Args[0]).(StructV)
			if !ok {
				x.specFail("aset expects an atomics.Value")
			}
			p, ok := av.F["v"].(PtrV)
			if !ok {
				x.specFail("aset: no pointer field v")
			}
			return BoolV{And(Ne(p.Addr, IntLit(0)), Select(env.st.heapArr("atomicValue#set", SBool), p.Addr))}
		case "rwheader":
			// header map of an http.ResponseWriter (a function of the writer, as in the net/http model)
			w := x.specEval(env, e.Args[0])
			id := App("rwheader", SInt, x.asTermAny(w))
			hp := x.L.pkgOf("net/http")
			mt := hp.Types.Scope().Lookup("Header").Type().Underlying().(*types.Map)
			return MapV{ID: id, Type: mt}
		case "resphdr":
			return x.respHeaderMap(env.st, x.specEval(env, e.Args[0]))
		case "respbody":
			return IntV{Select(env.st.ghostArr("respbody", SInt), x.asTermAny(x.specEval(env, e.Args[0])))}
		case "sectionreader":
			return IntV{App("sectionreader", SInt, x.identityOf(env.st, x.specEval(env, e.Args[0])), x.asTerm(x.specEval(env, e.Args[1])), x.asTerm(x.specEval(env, e.Args[2])))}
		case "ident":
			return IntV{x.identityOf(env.st, x.specEval(env, e.Args[0]))}
		case "fmtid":
			// identity of fmt.Sprintf(format, args...) as assumed by the fmt model
			f, ok := strLitOf(x.specEval(env, e.Args[0]).(StrV))
			if !ok {
				x.specFail("fmtid needs a literal format")
			}
			var ids []*Term
			for _, a := range e.Args[1:] {
				ids = append(ids, x.identityOf(env.st, x.specEval(env, a)))
			}
			return IntV{App(x.sprintfSymbol(f, len(ids)), SInt, ids...)}
		case "timefmt":
			return IntV{App("timefmt", SInt, mk("div", SInt, x.asTerm(x.specEval(env, e.Args[0])), IntLit(1_000_000_000)))}
		case "cfgval":
			// cfgval(prop): the effective value of a ConfigProp (override if any, else the committed base)
			pv, ok := x.specEval(env, e.Args[0]).(StructV)
			if !ok {
				x.specFail("cfgval expects a ConfigProp")
			}
			av, ok := pv.F["value"].(StructV)
			if !ok {
				x.specFail("cfgval: no atomics.Value field")
			}
			named, ok := types.Unalias(av.Type).(*types.Named)
			if !ok || named.TypeArgs() == nil {
				x.specFail("cfgval: not instantiated")
			}
			p, _ := av.F["v"].(PtrV)
			cell := x.atomicLoad(env.st, p.Addr, x.resolveType(named.TypeArgs().At(0))).(StructV)
			ow := cell.F["comittedValue"].(StructV)
			opt := ow.F["overwritten"].(StructV)
			return x.iteVal(opt.F["some"].(BoolV).T, opt.F["value"], ow.F["value"])
		case "readall", "readlen", "readercontent", "readerlen", "buflen", "bufcontent", "fsinode", "isize", "icontent", "handleinode", "tickerival", "bufsrc", "connreader", "bodypending", "bodyof", "hijacked", "wbody", "wlen", "whdr", "wte", "chansends", "chanlast", "lvlsets", "lvlval", "closedh":
			return IntV{Select(env.st.ghostArr(name, SInt), x.identityOf(env.st, x.specEval(env, e.Args[0])))}
		case "fsexists":
			return BoolV{Ne(Select(env.st.ghostArr("fsinode", SInt), x.identityOf(env.st, x.specEval(env, e.Args[0]))), IntLit(0))}
		case "fssize":
			return IntV{Select(env.st.ghostArr("isize", SInt), Select(env.st.ghostArr("fsinode", SInt), x.identityOf(env.st, x.specEval(env, e.Args[0]))))}
		case "fscontent":
			return IntV{Select(env.st.ghostArr("icontent", SInt), Select(env.st.ghostArr("fsinode", SInt), x.identityOf(env.st, x.specEval(env, e.Args[0]))))}
		case "handlecontent":
			return IntV{Select(env.st.ghostArr("icontent", SInt), Select(env.st.ghostArr("handleinode", SInt), x.identityOf(env.st, x.specEval(env, e.Args[0]))))}
		case "handlesize":
			return IntV{Select(env.st.ghostArr("isize", SInt), Select(env.st.ghostArr("handleinode", SInt), x.identityOf(env.st, x.specEval(env, e.Args[0]))))}
		case "pathjoin":
			return IntV{App("pathjoin", SInt, x.identityOf(env.st, x.specEval(env, e.Args[0])), x.identityOf(env.st, x.specEval(env, e.Args[1])))}
		case "asptr":
			// asptr(v, "T"): view an interface / pointer value as *T of the contract's package
			v := x.specEval(env, e.Args[0])
			tn, ok := strLitOf(x.specEval(env, e.Args[1]).(StrV))
			if !ok {
				x.specFail("asptr needs a literal type name")
			}
			pkg := x.L.pkgOf(env.pkgPath)
			if pkg == nil {
				x.specFail("asptr: package")
			}
			obj := pkg.Types.Scope().Lookup(tn)
			if obj == nil {
				x.specFail("asptr: unknown type %s", tn)
			}
			t := x.resolveType(obj.Type())
			return PtrV{Addr: x.asTermAny(v), Prefix: typeKey(t), Elem: t}
		case "jexp":
			// jexp(k): expiry of the entry the backend currently holds for key k; ghost, forgotten when a shard lock is acquired
			kk := x.keyTerm(env.st, x.specEval(env, e.Args[0]))
			return IntV{Select(env.st.ghostArr("jexp", SInt), kk)}
		case "unchanged":
			// unchanged("pattern"): every heap array whose key contains the pattern equals its value in the old state
			pat, ok := strLitOf(x.specEval(env, e.Args[0]).(StrV))
			if !ok || env.old == nil {
				x.specFail("unchanged needs a literal pattern and an old state")
			}
			if env.st.epoch != env.old.epoch {
				return BoolV{TFalse}
			}
			var cs []*Term
			keys := map[string]bool{}
			for k := range env.st.heap {
				keys[k] = true
			}
			for k := range env.old.heap {
				keys[k] = true
			}
			for k := range keys {
				if !strings.Contains(k, pat) {
					continue
				}
				cur, okc := env.st.heap[k]
				old, oko := env.old.heap[k]
				if okc && oko {
					cs = append(cs, Eq(cur, old))
				} else if okc && !oko && !(cur.Op == "var") {
					cs = append(cs, Eq(cur, Var(fmt.Sprintf("H%d_%s", env.old.epoch, sanitize(k)), cur.Sort)))
				}
			}
			return BoolV{And(cs...)}
		case "mapsum":
			m := x.specEval(env, e.Args[0]).(MapV)
			return IntV{Select(env.st.ghostArr("mapsum", SInt), m.ID)}
		case "aload":
			// aload(a): current content of an atomics.Value[X] (field v *atomic.Value)
			av, ok := x.specEval(env, e.Args[0]).(StructV)
			if !ok {
				x.specFail("aload expects an atomics.Value")
			}
			named, ok := types.Unalias(av.Type).(*types.Named)
			if !ok || named.TypeArgs() == nil || named.TypeArgs().Len() != 1 {
				x.specFail("aload: not an instantiated atomics.Value")
			}
			p, ok := av.F["v"].(PtrV)
			if !ok {
				x.specFail("aload: no pointer field v")
			}
			return x.atomicLoad(env.st, p.Addr, x.resolveType(named.TypeArgs().At(0)))
		case "keyid":
			return IntV{x.keyTerm(env.st, x.specEval(env, e.Args[0]))}
		case "allocated":
			return BoolV{allocAt(env.st.alloc, x.asTerm(x.specEval(env, e.Args[0])))}
		case "upreqhdr":
			// upreqhdr(): the header of the request handed to the last (*http.Client).Do, as it was then
			hp := x.L.pkgOf("net/http")
			mt := hp.Types.Scope().Lookup("Header").Type().Underlying().(*types.Map)
			return MapV{ID: env.st.ghostInt("upreqhdr"), Type: mt}
		case "local":
			// local(name): the value a local variable of the function holds in the state the clause
			// is evaluated in (a ghost witness for postconditions); on paths that never assigned
			// it, an arbitrary integer
			if e.Args[0].Kind != SIdent {
				x.specFail("local(<identifier>)")
			}
			nm := e.Args[0].Name
			var found Value
			cnt := 0
			for obj, v := range env.st.vars {
				if obj != nil && obj.Name() == nm && v != nil {
					if _, isParam := env.vars[nm]; isParam {
						continue
					}
					found = v
					cnt++
				}
			}
			if cnt == 1 {
				return found
			}
			if cnt > 1 {
				x.specFail("local(%s) is ambiguous: several variables of that name", nm)
			}
			return IntV{Var(x.fresh("nolocal_"+nm), SInt)}
		case "ctxcancellable":
			// ctxcancellable(c): context c can be cancelled (by a client hanging up, a deadline, ...)
			return BoolV{ctxCancellable(x.asTermAny(x.specEval(env, e.Args[0])))}
		case "iserr":
			// iserr(e, Sentinel): errors.Is(e, Sentinel)
			a := x.asTerm(x.specEval(env, e.Args[0]))
			b := x.asTerm(x.specEval(env, e.Args[1]))
			x.sentinelAxiom() // nil and the package-level sentinels wrap nothing
			return BoolV{errIs(a, b)}
		}
		if v, ok := x.specHook(env, name, e); ok {
			return v
		}
		if v, ok := x.specKeyBuiltin(env, name, e); ok {
			return v
		}
		if sf, ok := x.C.Specs[name]; ok {
			args := make([]Value, len(e.Args))
			for i, a := range e.Args {
				args[i] = x.specEval(env, a)
			}
			return x.specApply(env, sf, args)
		}
		x.specFail("unknown spec function %q", name)
	}
	x.specFail("unsupported call %s", e)
	return nil
}

// errIs is errors.Is(e, target).  Sentinels (small constant ids, created by
// errors.New) and nil wrap nothing.
func errIs(e, target *Term) *Term {
	if e.Op == "int" {
		return Eq(e, target)
	}
	return Or(Eq(e, target), App("wraps", SBool, e, target))
}

func flattenSpecArg(x *Exec, v Value) []*Term {
	switch vv := v.(type) {
	case IntV:
		return []*Term{vv.T}
	case BoolV:
		return []*Term{vv.T}
	case StrV:
		return []*Term{vv.Arr, vv.Off, vv.Len}
	case OpaqueV:
		return []*Term{vv.T}
	case PtrV:
		return []*Term{vv.Addr}
	case MapV:
		return []*Term{vv.ID}
	}
	var ls []struct {
		Path string
		T    *Term
	}
	x.leavesOf(v, "", &ls)
	out := make([]*Term, len(ls))
	for i, l := range ls {
		out[i] = l.T
	}
	return out
}

func allConcrete(ts []*Term) bool {
	for _, t := range ts {
		if !termConcrete(t) {
			return false
		}
	}
	return true
}

func termConcrete(t *Term) bool {
	switch t.Op {
	case "int", "true", "false":
		return true
	case "constarr":
		return termConcrete(t.Args[0])
	case "store":
		return termConcrete(t.Args[0]) && termConcrete(t.Args[1]) && termConcrete(t.Args[2])
	}
	return false
}

// specApply applies a spec function: concrete arguments unfold the definition,
// symbolic ones produce an uninterpreted application whose defining equation
// is instantiated when the query is built.
func (x *Exec) specApply(env *SpecEnv, sf *SpecFunc, args []Value) Value {
	if len(args) != len(sf.Params) {
		x.specFail("spec function %s: %d arguments expected", sf.Name, len(sf.Params))
	}
	var flat []*Term
	for i, a := range args {
		if sv, ok := a.(StrV); ok && !x.specUsesLen(sf, i) {
			// the function does not depend on len(s): leave it out so that
			// views of different length over the same bytes are congruent
			flat = append(flat, sv.Arr, sv.Off)
			continue
		}
		flat = append(flat, flattenSpecArg(x, a)...)
	}
	if sf.Body != nil && !x.specRecursive(sf) && x.specDepth < 200 {
		// non-recursive spec functions are macros
		x.specDepth++
		defer func() { x.specDepth-- }()
		return x.specBody(env, sf, args)
	}
	if sf.Body != nil && allConcrete(flat) && x.specDepth < 5000 {
		x.specDepth++
		defer func() { x.specDepth-- }()
		return x.specBody(env, sf, args)
	}
	x.UsedSpecs[sf.Name] = true
	t := App("spec_"+sf.Name, specTypeSort(sf.Ret), flat...)
	if sf.Ret == "bool" {
		return BoolV{t}
	}
	return IntV{t}
}

func (x *Exec) specBody(env *SpecEnv, sf *SpecFunc, args []Value) Value {
	ne := &SpecEnv{x: x, st: env.st, old: env.old, vars: map[string]Value{}, bound: map[string]Value{}, pkgPath: sf.Pkg, fr: env.fr}
	if ne.pkgPath == "" {
		ne.pkgPath = env.pkgPath
	}
	for i, p := range sf.Params {
		ne.vars[p.Name] = args[i]
	}
	return x.specEval(ne, sf.Body)
}

// specArgsFromTerms regroups flattened argument terms into values by the declared parameter types.
func (x *Exec) specArgsFromTerms(sf *SpecFunc, flat []*Term) []Value {
	var out []Value
	i := 0
	for pi, p := range sf.Params {
		switch p.Type {
		case "string", "bytes":
			if !x.specUsesLen(sf, pi) {
				out = append(out, StrV{Arr: flat[i], Off: flat[i+1], Len: App("nolen_"+sf.Name, SInt)})
				i += 2
				continue
			}
			out = append(out, StrV{Arr: flat[i], Off: flat[i+1], Len: flat[i+2]})
			i += 3
		case "bool":
			out = append(out, BoolV{flat[i]})
			i++
		case "key", "any", "error", "ptr":
			out = append(out, OpaqueV{T: flat[i]})
			i++
		default:
			out = append(out, IntV{flat[i]})
			i++
		}
	}
	return out
}

// instantiateSpecs adds the defining equations of the spec-function
// applications occurring in q, to the given depth.
func (x *Exec) instantiateSpecs(q *Query, fuel int) {
	done := map[string]bool{}
	env := &SpecEnv{x: x, st: &State{heap: map[string]*Term{}, ghost: map[string]Value{}}, vars: map[string]Value{}, bound: map[string]Value{}}
	frontier := append(append([]*Term{}, q.Assume...), q.Goal)
	for round := 0; round <= fuel; round++ {
		var next []*Term
		var visit func(t *Term, binders []*Term)
		visit = func(t *Term, binders []*Term) {
			if t == nil {
				return
			}
			if len(t.Bound) > 0 {
				binders = append(append([]*Term{}, binders...), t.Bound...)
			}
			for _, a := range t.Args {
				visit(a, binders)
			}
			if t.Op != "app" || !strings.HasPrefix(t.Name, "spec_") {
				return
			}
			key := t.String()
			if done[key] {
				return
			}
			done[key] = true
			sf := x.C.Specs[strings.TrimPrefix(t.Name, "spec_")]
			if sf == nil || sf.Body == nil {
				return
			}
			args := x.specArgsFromTerms(sf, t.Args)
			x.specDepth += 100000 // force symbolic application inside the body
			body := x.specBody(env, sf, args)
			x.specDepth -= 100000
			var eq *Term
			switch bv := body.(type) {
			case BoolV:
				eq = Eq(t, bv.T)
			case IntV:
				eq = Eq(t, bv.T)
			default:
				return
			}
			// bound variables mentioned by the application
			var used []*Term
			for _, b := range binders {
				mention := false
				t.walk(func(s *Term) {
					if s.Op == "var" && s.Name == b.Name {
						mention = true
					}
				})
				if mention {
					used = append(used, b)
				}
			}
			if len(used) > 0 {
				eq = Forall(used, eq)
			}
			q.Extra = append(q.Extra, eq)
			next = append(next, eq)
		}
		for _, t := range frontier {
			visit(t, nil)
		}
		if len(next) == 0 {
			break
		}
		frontier = next
	}
}

// ---------------------------------------------------------------- environments

// localEnv resolves identifiers to the current values of the locals in scope at node n.
func (x *Exec) localEnv(fr *Frame, st *State, n ast.Node) *SpecEnv {
	env := &SpecEnv{x: x, st: st, vars: map[string]Value{}, bound: map[string]Value{}, pkgPath: fr.pkg.PkgPath, fr: fr}
	if fr.top != nil && fr.depth == 0 {
		env.old = fr.top.Entry
		env.oldVars = fr.top.Params
	}
	pos := n.Pos()
	switch l := n.(type) {
	case *ast.ForStmt:
		pos = l.Body.Lbrace + 1 // loop variables of the init statement are in scope here
	case *ast.RangeStmt:
		pos = l.Body.Lbrace + 1
	}
	scope := fr.pkg.Types.Scope().Innermost(pos)
	env.lookup = func(name string) (Value, bool) {
		if scope == nil {
			return nil, false
		}
		_, obj := scope.LookupParent(name, pos)
		v, ok := obj.(*types.Var)
		if !ok {
			return nil, false
		}
		if v.Parent() == v.Pkg().Scope() {
			return nil, false
		}
		if _, bound := st.vars[v]; !bound {
			if _, boxed := st.boxed[v]; !boxed {
				return nil, false
			}
		}
		return varLV{v}.Load(x, st), true
	}
	return env
}

func bigFromTerm(t *Term) (*big.Int, bool) {
	if t.Op == "int" {
		return t.Int, true
	}
	return nil, false
}

// specUsesLen reports whether parameter i (a string) of sf has its length
// observed by the body: len(p), p == q, slicing without upper bound, or being
// passed to a spec function that observes it.
func (x *Exec) specUsesLen(sf *SpecFunc, i int) bool {
	key := sf.Name + "#" + fmt.Sprint(i)
	if v, ok := x.usesLenMemo[key]; ok {
		return v
	}
	if x.usesLenMemo == nil {
		x.usesLenMemo = map[string]bool{}
	}
	if sf.Body == nil {
		x.usesLenMemo[key] = true
		return true
	}
	x.usesLenMemo[key] = false // assumption for recursive occurrences
	name := sf.Params[i].Name
	uses := false
	var walk func(e *SExpr)
	isP := func(e *SExpr) bool { return e != nil && e.Kind == SIdent && e.Name == name }
	walk = func(e *SExpr) {
		if e == nil || uses {
			return
		}
		switch e.Kind {
		case SCall:
			if e.X.Kind == SIdent {
				if e.X.Name == "len" && len(e.Args) == 1 && isP(e.Args[0]) {
					uses = true
					return
				}
				if callee, ok := x.C.Specs[e.X.Name]; ok {
					for j, a := range e.Args {
						if isP(a) && j < len(callee.Params) && x.specUsesLen(callee, j) {
							uses = true
							return
						}
					}
				} else {
					for _, a := range e.Args {
						if isP(a) {
							uses = true
							return
						}
					}
				}
			}
			for _, a := range e.Args {
				if !isP(a) {
					walk(a)
				}
			}
			return
		case SBinary:
			if (e.Op == "==" || e.Op == "!=" || e.Op == "+") && (isP(e.X) || isP(e.Y)) {
				uses = true
				return
			}
		case SSlice:
			if isP(e.X) {
				if e.Z == nil {
					uses = true
					return
				}
				walk(e.Y)
				walk(e.Z)
				return
			}
		case SIndex:
			if isP(e.X) {
				walk(e.Y)
				return
			}
		case SIdent:
			if e.Name == name {
				uses = true
			}
			return
		}
		walk(e.X)
		walk(e.Y)
		walk(e.Z)
		for _, a := range e.Args {
			walk(a)
		}
	}
	walk(sf.Body)
	x.usesLenMemo[key] = uses
	return uses
}

// specRecursive reports whether sf can reach itself through spec-function calls.
func (x *Exec) specRecursive(sf *SpecFunc) bool {
	if v, ok := x.recMemo[sf.Name]; ok {
		return v
	}
	if x.recMemo == nil {
		x.recMemo = map[string]bool{}
	}
	seen := map[string]bool{}
	var reach func(e *SExpr) bool
	var visitFn func(name string) bool
	visitFn = func(name string) bool {
		if name == sf.Name {
			return true
		}
		if seen[name] {
			return false
		}
		seen[name] = true
		if c, ok := x.C.Specs[name]; ok && c.Body != nil {
			return reach(c.Body)
		}
		return false
	}
	reach = func(e *SExpr) bool {
		if e == nil {
			return false
		}
		if e.Kind == SCall && e.X.Kind == SIdent {
			if _, ok := x.C.Specs[e.X.Name]; ok && visitFn(e.X.Name) {
				return true
			}
		}
		if reach(e.X) || reach(e.Y) || reach(e.Z) {
			return true
		}
		for _, a := range e.Args {
			if reach(a) {
				return true
			}
		}
		return false
	}
	r := sf.Body != nil && reach(sf.Body)
	x.recMemo[sf.Name] = r
	return r
}

