package main

import (
	"os"
	"fmt"
	"go/ast"
	"go/token"
	"go/types"
	"math/big"
	"strings"
)

type ClosureRef struct {
	Lit      *ast.FuncLit
	Fn       *types.Func
	TypeArgs *types.TypeList
	Recv     Value
	RecvExpr ast.Expr
	HasRecv  bool
	RecvType types.Type
	Sel      *types.Selection
	Frame    *Frame
}

// preparedCall is a call with callee and arguments evaluated.
type preparedCall struct {
	e        *ast.CallExpr
	fn       *types.Func // static callee, if any
	closure  *ClosureRef
	fv       *FuncV // symbolic function value
	recv     Value
	recvType types.Type
	recvExpr ast.Expr
	sel      *types.Selection
	args     []Value
	typeArgs *types.TypeList
	spread   bool
	iface    bool
	fieldKey string // "pkg.Type.field" when the callee was loaded from a struct field
	argTypes []types.Type
}

func funcFullName(fn *types.Func) string {
	fn = fn.Origin()
	sig := fn.Type().(*types.Signature)
	pkg := ""
	if fn.Pkg() != nil {
		pkg = fn.Pkg().Path()
	}
	if sig.Recv() != nil {
		rt := sig.Recv().Type()
		if p, ok := rt.(*types.Pointer); ok {
			rt = p.Elem()
		}
		rt = types.Unalias(rt)
		if n, ok := rt.(*types.Named); ok {
			if n.Obj().Pkg() != nil {
				pkg = n.Obj().Pkg().Path()
			}
			return pkg + "." + n.Obj().Name() + "." + fn.Name()
		}
		return pkg + ".?." + fn.Name()
	}
	return pkg + "." + fn.Name()
}

func (x *Exec) callExpr(fr *Frame, e *ast.CallExpr, st *State, k func(*State, []Value)) {
	info := fr.pkg.TypesInfo
	// conversion
	if tv, ok := info.Types[e.Fun]; ok && tv.IsType() {
		x.expr(fr, e.Args[0], st, func(st *State, v Value) {
			k(st, []Value{x.convert(fr, st, e, v, x.typeOf(fr, e.Args[0]), x.resolveType(tv.Type))})
		})
		return
	}
	// builtin
	if id, ok := ast.Unparen(e.Fun).(*ast.Ident); ok {
		if b, ok := info.Uses[id].(*types.Builtin); ok {
			x.builtinCall(fr, e, b.Name(), st, k)
			return
		}
	}
	x.prepareCall(fr, e, st, func(st *State, pc *preparedCall) {
		x.invoke(fr, pc, st, k)
	})
}

func (x *Exec) prepareCall(fr *Frame, e *ast.CallExpr, st *State, k func(*State, *preparedCall)) {
	info := fr.pkg.TypesInfo
	pc := &preparedCall{e: e, spread: e.Ellipsis.IsValid()}
	withArgs := func(st *State) {
		x.exprs(fr, e.Args, st, func(st *State, args []Value) {
			if len(args) == 1 {
				if tv, ok := args[0].(TupleV); ok {
					args = []Value(tv)
				}
			}
			pc.args = args
			for _, a := range e.Args {
				if t := info.TypeOf(a); t != nil {
					pc.argTypes = append(pc.argTypes, x.resolveType(t))
				} else {
					pc.argTypes = append(pc.argTypes, nil)
				}
			}
			k(st, pc)
		})
	}
	fun := ast.Unparen(e.Fun)
	// strip explicit instantiation
	var instIdent *ast.Ident
	switch f := fun.(type) {
	case *ast.IndexExpr:
		if tv, ok := info.Types[f.X]; ok {
			if _, isSig := tv.Type.Underlying().(*types.Signature); isSig {
				fun = ast.Unparen(f.X)
			}
		}
	case *ast.IndexListExpr:
		fun = ast.Unparen(f.X)
	}
	switch f := fun.(type) {
	case *ast.Ident:
		if fn, ok := info.Uses[f].(*types.Func); ok {
			pc.fn = fn
			instIdent = f
			if inst, ok := info.Instances[instIdent]; ok {
				pc.typeArgs = inst.TypeArgs
			}
			withArgs(st)
			return
		}
	case *ast.SelectorExpr:
		if sel, ok := info.Selections[f]; ok {
			if sel.Kind() == types.MethodVal {
				fn := sel.Obj().(*types.Func)
				pc.fn = fn
				pc.sel = sel
				pc.recvExpr = f.X
				pc.recvType = x.resolveType(info.TypeOf(f.X))
				if _, isIface := sel.Recv().Underlying().(*types.Interface); isIface {
					pc.iface = true
				}
				x.methodRecv(fr, f.X, sel, st, func(st *State, recv Value) {
					pc.recv = recv
					withArgs(st)
				})
				return
			}
			// field of function type
			if sel.Kind() == types.FieldVal {
				rt := x.resolveType(sel.Recv())
				if p, ok := rt.(*types.Pointer); ok {
					rt = p.Elem()
				}
				pc.fieldKey = typeKey(rt) + "." + f.Sel.Name
			}
		} else if fn, ok := info.Uses[f.Sel].(*types.Func); ok {
			// package-qualified function
			pc.fn = fn
			if inst, ok := info.Instances[f.Sel]; ok {
				pc.typeArgs = inst.TypeArgs
			}
			withArgs(st)
			return
		}
	}
	// general function value
	x.expr(fr, fun, st, func(st *State, fv Value) {
		f, ok := fv.(FuncV)
		if !ok {
			panic(x.unsupported(fmt.Sprintf("call of %T at %s", fv, x.pos(e))))
		}
		if f.Closure != nil {
			pc.closure = f.Closure
			if f.Closure.Fn != nil && f.Closure.Lit == nil {
				pc.fn = f.Closure.Fn
				pc.typeArgs = f.Closure.TypeArgs
				if f.Closure.HasRecv {
					pc.recv = f.Closure.Recv
					pc.recvType = f.Closure.RecvType
					pc.sel = f.Closure.Sel
				}
				pc.closure = nil
			}
		} else {
			pc.fv = &f
		}
		withArgs(st)
	})
}

// methodRecv evaluates the receiver of a method call, inserting the implicit & or *.
func (x *Exec) methodRecv(fr *Frame, recvExpr ast.Expr, sel *types.Selection, st *State, k func(*State, Value)) {
	fn := sel.Obj().(*types.Func)
	sig := fn.Type().(*types.Signature)
	info := fr.pkg.TypesInfo
	et := x.resolveType(info.TypeOf(recvExpr))
	_, exprIsPtr := et.Underlying().(*types.Pointer)
	wantPtr := false
	if sig.Recv() != nil {
		_, wantPtr = sig.Recv().Type().(*types.Pointer)
	}
	path := sel.Index()
	path = path[:len(path)-1] // embedded path to the receiver
	if wantPtr && !exprIsPtr && len(path) == 0 {
		x.addrOf(fr, recvExpr, st, k)
		return
	}
	x.expr(fr, recvExpr, st, func(st *State, v Value) {
		if len(path) > 0 {
			// promoted method through embedded fields
			cur := v
			ct := et
			for i, idx := range path {
				if p, ok := cur.(PtrV); ok {
					stt := x.resolveType(p.Elem).Underlying().(*types.Struct)
					f := stt.Field(idx)
					ft := x.resolveType(f.Type())
					if i == len(path)-1 && wantPtr {
						if _, isP := ft.Underlying().(*types.Pointer); !isP {
							cur = PtrV{Addr: p.Addr, Prefix: p.Prefix + "." + f.Name(), Elem: ft}
							ct = types.NewPointer(ft)
							continue
						}
					}
					cur = heapFieldLV{p: p, field: f.Name(), ftype: ft}.Load(x, st)
					ct = ft
					continue
				}
				sv := cur.(StructV)
				cur = sv.F[sv.Names[idx]]
				ct = x.resolveType(ct.Underlying().(*types.Struct).Field(idx).Type())
			}
			v = cur
			_, exprIsPtr = ct.Underlying().(*types.Pointer)
			et = ct
		}
		if !wantPtr && exprIsPtr {
			if p, ok := v.(PtrV); ok {
				if _, isIface := sel.Recv().Underlying().(*types.Interface); !isIface {
					x.nilCheck(fr, st, p, recvExpr)
					k(st, x.heapLoad(st, p))
					return
				}
			}
		}
		k(st, v)
	})
}

// ---------------------------------------------------------------- invoke

var dbgCalls = os.Getenv("GOVC_DEBUG_CALLS")

func (x *Exec) invoke(fr *Frame, pc *preparedCall, st *State, k func(*State, []Value)) {
	if pc.closure != nil && pc.closure.Lit != nil {
		x.inlineClosure(fr, pc, st, k)
		return
	}
	if pc.fn == nil {
		x.callUnknownFuncValue(fr, pc, st, k)
		return
	}
	name := funcFullName(pc.fn)
	if dbgCalls != "" && strings.Contains(name, dbgCalls) {
		fmt.Fprintf(os.Stderr, "call %s\n", name)
	}
	if g := metricsGhost(pc.recvExpr); g != "" {
		if x.metricsModel(st, g, pc, k) {
			return
		}
	}
	if x.isNoop(name, pc) {
		k(st, x.freshResults(st, pc.fn.Type().(*types.Signature), "noop"))
		return
	}
	if m, ok := models[name]; ok {
		x.Trusted["model of "+name] = true
		x.callsiteRequires(fr, st, pc, name, pc.fn.Type().(*types.Signature))
		m(x, fr, st, pc, k)
		return
	}
	if x.lockModel(fr, st, pc, name, k) {
		return
	}
	fc := x.C.Funcs[name]
	if fc != nil && !fc.Inline && !(x.cur != nil && x.cur.Name == name && fr.depth == 0 && false) {
		x.callByContract(fr, pc, fc, name, st, k)
		return
	}
	if pc.iface {
		// dynamic dispatch without a contract: devirtualise when the dynamic value is known
		if o, ok := pc.recv.(OpaqueV); ok && o.Dyn != nil {
			if dt := x.dynType(o.Dyn); dt != nil {
				ms := types.NewMethodSet(dt)
				if s := ms.Lookup(pc.fn.Pkg(), pc.fn.Name()); s != nil {
					npc := *pc
					npc.fn = s.Obj().(*types.Func)
					npc.recv = o.Dyn
					npc.iface = false
					x.invoke(fr, &npc, st, k)
					return
				}
			}
		}
		x.havocCall(fr, pc, name, st, k)
		return
	}
	if decl, pkg := x.L.funcDecl(pc.fn); decl != nil && decl.Body != nil && fr.depth < 12 && !x.inFrameChain(fr, pc.fn) && pkg != nil && inModule(pkg.PkgPath) {
		x.inlineFunc(fr, pc, decl, pkg, fc, st, k)
		return
	}
	x.havocCall(fr, pc, name, st, k)
}

func (x *Exec) inFrameChain(fr *Frame, fn *types.Func) bool {
	for f := fr; f != nil; f = f.parent {
		if f.fn != nil && f.fn.Origin() == fn.Origin() {
			return true
		}
	}
	return false
}

func (x *Exec) freshResults(st *State, sig *types.Signature, hint string) []Value {
	var out []Value
	for i := 0; i < sig.Results().Len(); i++ {
		out = append(out, x.freshValue(st, x.resolveType(sig.Results().At(i).Type()), hint))
	}
	return out
}

func (x *Exec) havocCall(fr *Frame, pc *preparedCall, name string, st *State, k func(*State, []Value)) {
	x.Abstractions["call to "+name+" without contract: results unconstrained, heap havocked"] = true
	if pc.iface && pc.recv != nil {
		// calls through an interface are counted under the receiver's identity
		x.countCall(st, x.asTermAny(pc.recv))
	}
	if !pureExternal(name) {
		x.havocHeap(st)
	}
	k(st, x.freshResults(st, x.resolvedSig(pc), sanitize(pc.fn.Name())))
}

func (x *Exec) resolvedSig(pc *preparedCall) *types.Signature {
	return pc.fn.Type().(*types.Signature)
}

func (x *Exec) callUnknownFuncValue(fr *Frame, pc *preparedCall, st *State, k func(*State, []Value)) {
	// function-typed struct field with a contract ("fnfield")
	if pc.fieldKey != "" {
		for _, fc := range x.C.FnFields {
			parts := strings.SplitN(fc.Name, ".", 2)
			if len(parts) == 2 && strings.Contains(pc.fieldKey, parts[0]) && strings.HasSuffix(pc.fieldKey, "."+parts[1]) {
				x.callFnFieldContract(fr, pc, fc, st, k)
				return
			}
		}
	}
	if pc.fv != nil && pc.fv.Sym != nil {
		x.countCall(st, pc.fv.Sym)
	}
	// a function-typed parameter with a declared frame: "ghost callback <param> assigns <patterns...>"
	if id, ok := ast.Unparen(pc.e.Fun).(*ast.Ident); ok && fr.top != nil && fr.depth == 0 {
		for _, g := range fr.top.Contract.Ghost {
			f := strings.Fields(g)
			if len(f) >= 3 && f[0] == "callback" && f[1] == id.Name && f[2] == "assigns" {
				tmp := &FuncContract{Assigns: f[3:]}
				x.applyAssigns(fr, st, tmp, nil)
				var out []Value
				if pc.fv != nil && pc.fv.Sig != nil {
					out = x.freshResults(st, pc.fv.Sig, "cb")
				}
				x.Trusted["callback parameter "+id.Name+" of "+fr.top.Name+": frame as declared; every closure passed for it must be verified against that frame"] = true
				k(st, out)
				return
			}
		}
	}
	x.Abstractions["call of unknown function value at "+x.pos(pc.e)+": results unconstrained, heap havocked"] = true
	x.havocHeap(st)
	var out []Value
	if pc.fv != nil && pc.fv.Sig != nil {
		out = x.freshResults(st, pc.fv.Sig, "fnval")
	}
	k(st, out)
}

// pureExternal lists dependency packages whose functions do not touch modelled heap.
func pureExternal(name string) bool {
	for _, p := range []string{"strings.", "strconv.", "fmt.", "errors.", "time.", "unicode", "math", "bytes.", "path.", "path/filepath.", "encoding/hex.", "encoding/base64.", "net.Split", "net.ParseIP", "net/http.CanonicalHeaderKey", "net/http.ParseTime", "net/http.StatusText", "slices.", "cmp.", "log/slog.", "crypto/", "golang.org/x/crypto/", "reservoir/utils/typeutils.", "reservoir/metrics.", "net/url.", "maps.", "encoding/json.Marshal", "os.", "io.", "sort.", "reflect.", "bufio.", "net.Conn.", "github.com/shirou/gopsutil/", "net/http.Response.Write", "context."} {
		if strings.HasPrefix(name, p) {
			return true
		}
	}
	return false
}

func (x *Exec) callMayWriteHeap(fr *Frame, c *ast.CallExpr) bool {
	info := fr.pkg.TypesInfo
	if tv, ok := info.Types[c.Fun]; ok && tv.IsType() {
		return false
	}
	var fn *types.Func
	switch f := ast.Unparen(c.Fun).(type) {
	case *ast.Ident:
		if b, ok := info.Uses[f].(*types.Builtin); ok {
			return b.Name() == "delete" || b.Name() == "copy" || b.Name() == "clear"
		}
		fn, _ = info.Uses[f].(*types.Func)
	case *ast.SelectorExpr:
		if sel, ok := info.Selections[f]; ok {
			fn, _ = sel.Obj().(*types.Func)
		} else {
			fn, _ = info.Uses[f.Sel].(*types.Func)
		}
	case *ast.IndexExpr:
		if id, ok := f.X.(*ast.Ident); ok {
			fn, _ = info.Uses[id].(*types.Func)
		}
		if se, ok := f.X.(*ast.SelectorExpr); ok {
			fn, _ = info.Uses[se.Sel].(*types.Func)
		}
	case *ast.IndexListExpr:
		if id, ok := f.X.(*ast.Ident); ok {
			fn, _ = info.Uses[id].(*types.Func)
		}
		if se, ok := f.X.(*ast.SelectorExpr); ok {
			fn, _ = info.Uses[se.Sel].(*types.Func)
		}
	}
	if fn == nil {
		return true
	}
	name := funcFullName(fn)
	if pureExternal(name) {
		return false
	}
	if fc := x.C.Funcs[name]; fc != nil && fc.Pure {
		return false
	}
	if strings.HasPrefix(name, "sync.") {
		return true // acquiring a lock havocs what it protects
	}
	// in-module functions: inspect the body for heap writes (one level)
	if decl, pkg := x.L.funcDecl(fn); decl != nil && decl.Body != nil {
		if x.mayWriteDepth > 4 {
			return true
		}
		x.mayWriteDepth++
		defer func() { x.mayWriteDepth-- }()
		sub := &Frame{pkg: pkg}
		li := x.analyseLoop(sub, decl.Body)
		return li.heapWrite
	}
	return true
}

// metricsGhost: the two process-wide counters a user reads as "the cache's reported size and
// entry count" are tracked as ghost integers (mbytes, mentries); every other metric is a no-op.
func metricsGhost(recv ast.Expr) string {
	if recv == nil {
		return ""
	}
	se, ok := ast.Unparen(recv).(*ast.SelectorExpr)
	if !ok {
		return ""
	}
	g := map[string]string{"BytesCached": "mbytes", "CacheEntries": "mentries"}[se.Sel.Name]
	if g == "" {
		return ""
	}
	c, ok := ast.Unparen(se.X).(*ast.SelectorExpr)
	if !ok || c.Sel.Name != "Cache" {
		return ""
	}
	gl, ok := ast.Unparen(c.X).(*ast.SelectorExpr)
	if !ok || gl.Sel.Name != "Global" {
		return ""
	}
	if id, ok := gl.X.(*ast.Ident); !ok || id.Name != "metrics" {
		return ""
	}
	return g
}

func (x *Exec) metricsModel(st *State, g string, pc *preparedCall, k func(*State, []Value)) bool {
	cur := st.ghostInt(g)
	arg := func() *Term {
		if len(pc.args) == 1 {
			if v, ok := pc.args[0].(IntV); ok {
				return v.T
			}
		}
		return nil
	}
	x.Trusted["metrics.Global.Cache.BytesCached / CacheEntries modelled as ghost integers (atomics.Int64 Add/Sub/Set/Increment/Decrement/Get on mathematical integers)"] = true
	switch pc.fn.Name() {
	case "Add":
		if a := arg(); a != nil {
			st.ghost[g] = IntV{Add(cur, a)}
			k(st, x.freshResults(st, pc.fn.Type().(*types.Signature), "noop"))
			return true
		}
	case "Sub":
		if a := arg(); a != nil {
			st.ghost[g] = IntV{Sub(cur, a)}
			k(st, x.freshResults(st, pc.fn.Type().(*types.Signature), "noop"))
			return true
		}
	case "Set", "Store":
		if a := arg(); a != nil {
			st.ghost[g] = IntV{a}
			k(st, x.freshResults(st, pc.fn.Type().(*types.Signature), "noop"))
			return true
		}
	case "Increment":
		st.ghost[g] = IntV{Add(cur, IntLit(1))}
		k(st, x.freshResults(st, pc.fn.Type().(*types.Signature), "noop"))
		return true
	case "Decrement":
		st.ghost[g] = IntV{Sub(cur, IntLit(1))}
		k(st, x.freshResults(st, pc.fn.Type().(*types.Signature), "noop"))
		return true
	case "Get", "Load":
		k(st, []Value{IntV{cur}})
		return true
	}
	return false
}

func (x *Exec) isNoop(name string, pc *preparedCall) bool {
	if name == "log/slog.LevelVar.Set" {
		return false // modelled: the logger's level is observable (C19)
	}
	if strings.HasPrefix(name, "log/slog.") {
		return true
	}
	if strings.HasPrefix(name, "fmt.Print") || strings.HasPrefix(name, "fmt.Fprint") {
		return true
	}
	// metrics.Global.<...> counters
	if pc.recvExpr != nil {
		root := pc.recvExpr
		for {
			switch r := ast.Unparen(root).(type) {
			case *ast.SelectorExpr:
				if id, ok := r.X.(*ast.Ident); ok && id.Name == "metrics" && r.Sel.Name == "Global" {
					return true
				}
				root = r.X
				continue
			}
			break
		}
	}
	return false
}

// ---------------------------------------------------------------- inlining

func (x *Exec) newFrame(parent *Frame, pkgOf *Frame, fn *types.Func, sig *types.Signature, body *ast.BlockStmt) *Frame {
	nf := &Frame{
		fn:      fn,
		sig:     sig,
		breakK:  map[ast.Stmt]func(*State){},
		contK:   map[ast.Stmt]func(*State){},
		targets: map[*ast.BranchStmt]ast.Stmt{},
		loopOrd: map[ast.Stmt]int{},
		parent:  parent,
		defers:  new([]func(*State, func(*State))),
	}
	if parent != nil {
		nf.top = parent.top
		nf.depth = parent.depth + 1
	}
	resolveBranches(body, nf)
	return nf
}

// resolveBranches numbers loops and maps break/continue to their targets.
func resolveBranches(body *ast.BlockStmt, fr *Frame) {
	ord := 0
	labels := map[string]ast.Stmt{}
	var walk func(n ast.Node, brk, cont []ast.Stmt)
	walkList := func(l []ast.Stmt, brk, cont []ast.Stmt) {
		for _, s := range l {
			walk(s, brk, cont)
		}
	}
	walk = func(n ast.Node, brk, cont []ast.Stmt) {
		switch s := n.(type) {
		case nil:
		case *ast.BlockStmt:
			if s != nil {
				walkList(s.List, brk, cont)
			}
		case *ast.LabeledStmt:
			labels[s.Label.Name] = s.Stmt
			walk(s.Stmt, brk, cont)
		case *ast.IfStmt:
			walk(s.Body, brk, cont)
			if s.Else != nil {
				walk(s.Else, brk, cont)
			}
		case *ast.ForStmt:
			ord++
			fr.loopOrd[s] = ord
			walk(s.Body, append(brk, s), append(cont, s))
		case *ast.RangeStmt:
			ord++
			fr.loopOrd[s] = ord
			walk(s.Body, append(brk, s), append(cont, s))
		case *ast.SwitchStmt:
			for _, c := range s.Body.List {
				walkList(c.(*ast.CaseClause).Body, append(brk, s), cont)
			}
		case *ast.TypeSwitchStmt:
			for _, c := range s.Body.List {
				walkList(c.(*ast.CaseClause).Body, append(brk, s), cont)
			}
		case *ast.SelectStmt:
			for _, c := range s.Body.List {
				walkList(c.(*ast.CommClause).Body, append(brk, s), cont)
			}
		case *ast.BranchStmt:
			switch s.Tok {
			case token.BREAK:
				if s.Label != nil {
					fr.targets[s] = labels[s.Label.Name]
				} else if len(brk) > 0 {
					fr.targets[s] = brk[len(brk)-1]
				}
			case token.CONTINUE:
				if s.Label != nil {
					fr.targets[s] = labels[s.Label.Name]
				} else if len(cont) > 0 {
					fr.targets[s] = cont[len(cont)-1]
				}
			}
		}
	}
	walk(body, nil, nil)
}

func (x *Exec) typeSubst(fn *types.Func, pc *preparedCall, callerSub map[*types.TypeParam]types.Type) map[*types.TypeParam]types.Type {
	sub := map[*types.TypeParam]types.Type{}
	sig := fn.Origin().Type().(*types.Signature)
	// receiver type parameters
	if sig.Recv() != nil && pc.recvType != nil {
		rt := pc.recvType
		if p, ok := rt.Underlying().(*types.Pointer); ok {
			rt = p.Elem()
		}
		// methods of an instantiated generic interface: the interface's own type parameters
		if n, ok := types.Unalias(x.resolveType(rt)).(*types.Named); ok && n.TypeArgs() != nil {
			if _, isI := n.Underlying().(*types.Interface); isI {
				tps := n.Origin().TypeParams()
				for i := 0; tps != nil && i < tps.Len() && i < n.TypeArgs().Len(); i++ {
					sub[tps.At(i)] = x.resolveType(n.TypeArgs().At(i))
				}
			}
		}
		// walk embedded path: find the named type that declares the method
		if n := x.findNamed(rt, fn); n != nil && n.TypeArgs() != nil {
			rtp := sig.RecvTypeParams()
			for i := 0; rtp != nil && i < rtp.Len() && i < n.TypeArgs().Len(); i++ {
				sub[rtp.At(i)] = x.resolveType(n.TypeArgs().At(i))
			}
		}
	}
	if tps := sig.TypeParams(); tps != nil && pc.typeArgs != nil {
		for i := 0; i < tps.Len() && i < pc.typeArgs.Len(); i++ {
			sub[tps.At(i)] = x.resolveType(pc.typeArgs.At(i))
		}
	}
	return sub
}

// findNamed finds, in rt or its embedded fields, the named type whose method set declares fn.
func (x *Exec) findNamed(rt types.Type, fn *types.Func) *types.Named {
	rt = x.resolveType(rt)
	n, ok := rt.(*types.Named)
	if !ok {
		return nil
	}
	for i := 0; i < n.NumMethods(); i++ {
		if n.Method(i).Origin() == fn.Origin() {
			return n
		}
	}
	if s, ok := n.Underlying().(*types.Struct); ok {
		for i := 0; i < s.NumFields(); i++ {
			if s.Field(i).Embedded() {
				ft := s.Field(i).Type()
				if p, ok := ft.(*types.Pointer); ok {
					ft = p.Elem()
				}
				if r := x.findNamed(ft, fn); r != nil {
					return r
				}
			}
		}
	}
	return nil
}

func (x *Exec) inlineFunc(fr *Frame, pc *preparedCall, decl *ast.FuncDecl, pkg *pkgT, fc *FuncContract, st *State, k func(*State, []Value)) {
	fn := pc.fn.Origin()
	sig := fn.Type().(*types.Signature)
	nf := x.newFrame(fr, nil, fn, sig, decl.Body)
	nf.pkg = pkg
	nf.contract = fc
	nf.tsubst = x.typeSubst(fn, pc, fr.tsubst)
	x.tsub = nf.tsubst
	x.bindParams(nf, decl.Recv, decl.Type, sig, pc, st)
	nf.ret = func(st *State, vals []Value) {
		x.tsub = fr.tsubst
		k(st, vals)
		x.tsub = nf.tsubst
	}
	x.runBody(nf, decl.Body, st)
	x.tsub = fr.tsubst
}

func (x *Exec) runBody(nf *Frame, body *ast.BlockStmt, st *State) {
	x.block(nf, body.List, st, func(st *State) {
		// fell off the end: implicit return
		x.runDefers(nf, st, func(st *State) {
			out := make([]Value, len(nf.results))
			for i, r := range nf.results {
				out[i] = st.vars[r]
			}
			nf.ret(st, out)
		})
	})
}

func (x *Exec) bindParams(nf *Frame, recv *ast.FieldList, ft *ast.FuncType, sig *types.Signature, pc *preparedCall, st *State) {
	info := nf.pkg.TypesInfo
	if recv != nil && len(recv.List) > 0 && len(recv.List[0].Names) > 0 {
		if obj := info.Defs[recv.List[0].Names[0]]; obj != nil && pc.recv != nil {
			st.vars[obj] = pc.recv
			delete(st.boxed, obj)
		}
	}
	i := 0
	np := sig.Params().Len()
	for _, f := range ft.Params.List {
		names := f.Names
		if len(names) == 0 {
			i++
			continue
		}
		for _, n := range names {
			obj := info.Defs[n]
			if obj != nil {
				delete(st.boxed, obj)
				if sig.Variadic() && i == np-1 && !pc.spread {
					st.vars[obj] = x.packVariadic(st, x.resolveType(obj.Type()), pc.args[i:])
				} else if i < len(pc.args) {
					x.assignSrcType = x.argType(pc, i)
					st.vars[obj] = x.convertAssign(st, pc.args[i], obj.Type())
					x.assignSrcType = nil
				}
			}
			i++
		}
	}
	nf.results = nil
	if ft.Results != nil {
		ri := 0
		for _, f := range ft.Results.List {
			if len(f.Names) == 0 {
				v := types.NewVar(token.NoPos, nil, fmt.Sprintf("result%d", ri), sig.Results().At(ri).Type())
				nf.results = append(nf.results, v)
				st.vars[v] = x.zeroValue(x.resolveType(v.Type()))
				ri++
				continue
			}
			for _, n := range f.Names {
				obj := info.Defs[n].(*types.Var)
				nf.results = append(nf.results, obj)
				st.vars[obj] = x.zeroValue(x.resolveType(obj.Type()))
				delete(st.boxed, obj)
				ri++
			}
		}
	}
}

func (x *Exec) packVariadic(st *State, t types.Type, args []Value) Value {
	z := x.zeroValue(t)
	switch s := z.(type) {
	case SliceV:
		s.Off = IntLit(0)
		s.Len = IntLit(int64(len(args)))
		s.Base = x.allocAddr(st, "variadic")
		for i, a := range args {
			s = x.sliceSet(s, IntLit(int64(i)), x.convertAssign(st, a, s.Elem))
		}
		return s
	case StrV:
		arr := ConstArr(SArr, IntLit(0))
		for i, a := range args {
			arr = Store(arr, IntLit(int64(i)), a.(IntV).T)
		}
		return StrV{Arr: arr, Off: IntLit(0), Len: IntLit(int64(len(args)))}
	}
	panic(x.unsupported("variadic packing"))
}

func (x *Exec) inlineClosure(fr *Frame, pc *preparedCall, st *State, k func(*State, []Value)) {
	cl := pc.closure
	def := cl.Frame
	sig := def.pkg.TypesInfo.TypeOf(cl.Lit).(*types.Signature)
	if fr.depth > 14 {
		panic(x.unsupported("closure inlining too deep"))
	}
	nf := x.newFrame(fr, nil, nil, sig, cl.Lit.Body)
	nf.pkg = def.pkg
	nf.tsubst = def.tsubst
	nf.top = fr.top
	x.tsub = nf.tsubst
	x.bindParams(nf, nil, cl.Lit.Type, sig, pc, st)
	nf.ret = func(st *State, vals []Value) {
		x.tsub = fr.tsubst
		k(st, vals)
		x.tsub = nf.tsubst
	}
	x.runBody(nf, cl.Lit.Body, st)
	x.tsub = fr.tsubst
}

// ---------------------------------------------------------------- call by contract

func (x *Exec) callByContract(fr *Frame, pc *preparedCall, fc *FuncContract, name string, st *State, k func(*State, []Value)) {
	fn := pc.fn.Origin()
	sig := fn.Type().(*types.Signature)
	saved := x.tsub
	x.tsub = x.typeSubst(fn, pc, fr.tsubst)
	defer func() { x.tsub = saved }()
	env := &SpecEnv{x: x, st: st, vars: map[string]Value{}, pkgPath: fn.Pkg().Path(), fr: fr}
	if sig.Recv() != nil && pc.recv != nil {
		env.vars[sig.Recv().Name()] = pc.recv
		env.vars["self"] = pc.recv
	}
	np := sig.Params().Len()
	for i := 0; i < np; i++ {
		p := sig.Params().At(i)
		if sig.Variadic() && i == np-1 && !pc.spread {
			env.vars[p.Name()] = x.packVariadic(st, x.resolveType(p.Type()), pc.args[i:])
		} else if i < len(pc.args) {
			env.vars[p.Name()] = x.convertAssign(st, pc.args[i], p.Type())
		}
	}
	site := x.siteLabel(pc.e)
	if x.cur != nil && x.cur.Contract == fc {
		// a recursive call of the function under verification: its measure must have gone down
		if fc.Decreases == nil {
			x.oblige(fr, st, "variant", "recursion without a decreases clause@"+site, TFalse, pc.e)
		} else if x.cur.Entry != nil {
			ee := x.entrySpecEnv(x.cur)
			v0 := x.asTerm(x.specEval(ee, fc.Decreases.Expr))
			v1 := x.asTerm(x.specEval(env, fc.Decreases.Expr))
			x.oblige(fr, st, "variant", "recursion@"+site, And(Le(IntLit(0), v0), Lt(v1, v0), Le(IntLit(0), v1)), pc.e)
		}
		x.Obls[len(x.Obls)-1].Tag = "C14,C09" // no hang: also what C09 asks of a request
	}
	if x.cur != nil && x.cur.Contract != fc && x.cur.Contract != nil && fr.depth == 0 {
		// mutual recursion declared by "ghost mutual <callee>": the callee's measure is below the caller's
		for _, g := range x.cur.Contract.Ghost {
			if strings.HasPrefix(g, "mutual ") && strings.HasSuffix(name, "."+strings.TrimSpace(strings.TrimPrefix(g, "mutual "))) {
				if fc.Decreases == nil || x.cur.Contract.Decreases == nil {
					x.oblige(fr, st, "variant", "mutual recursion without decreases clauses@"+site, TFalse, pc.e)
				} else {
					ee := x.entrySpecEnv(x.cur)
					v0 := x.asTerm(x.specEval(ee, x.cur.Contract.Decreases.Expr))
					v1 := x.asTerm(x.specEval(env, fc.Decreases.Expr))
					x.oblige(fr, st, "variant", "mutual recursion@"+site, And(Le(IntLit(0), v1), Lt(v1, v0)), pc.e)
				}
				x.Obls[len(x.Obls)-1].Tag = "C14"
			}
		}
	}
	x.callsiteRequires(fr, st, pc, name, sig)
	x.holdsPre(fr, st, fc, shortName(name), site, pc)
	x.callBlocks(fr, st, fc, shortName(name), site, pc.e)
	var reqTerms []*Term
	for i, r := range fc.Requires {
		t := x.specBool(env, r.Expr)
		x.oblige(fr, st, "pre", fmt.Sprintf("%s/%d@%s", shortName(name), i+1, site), t, pc.e)
		st.assume(t)
		reqTerms = append(reqTerms, t)
	}
	if fc.Assumed {
		x.Trusted["assumed contract of "+name] = true
	}
	old := st.clone()
	if !fc.Pure {
		x.checkCalleeFrame(fr, st, fc, shortName(name), pc.e, env)
		x.applyAssigns(fr, st, fc, env)
	}
	x.calleeMayAllocate(st)
	results := x.freshResults(st, sig, sanitize(fn.Name()))
	x.bindResults(env, sig, results)
	env.st = st
	env.old = old
	var ensTerms []*Term
	for _, e := range fc.Ensures {
		t := x.specBool(env, e.Expr)
		ensTerms = append(ensTerms, t)
		st.assume(t)
	}
	// consistency probes: for every conditional clause of the callee, its antecedent must be
	// satisfiable together with the callee's preconditions and all its clauses - on their own,
	// without the caller's path condition (a clause set that kills, say, the success path of a
	// callee would silently prove everything after the call)
	if fr.top != nil && x.cur != nil {
		for i, e := range fc.Ensures {
			if e.Expr.Kind != SBinary || e.Expr.Op != "==>" {
				continue
			}
			nm := fmt.Sprintf("%s#reach:%s/%d", x.cur.Name, shortName(name), i+1)
			if x.reachCount == nil {
				x.reachCount = map[string]int{}
			}
			if x.reachCount[nm] >= 1 {
				continue
			}
			x.reachCount[nm]++
			a := x.specBool(env, e.Expr.X)
			as := append(append(append([]*Term(nil), reqTerms...), ensTerms...), a)
			x.Obls = append(x.Obls, &Obligation{Func: x.cur.Name, Kind: "reach", Label: fmt.Sprintf("%s/%d", shortName(name), i+1), Name: nm,
				Assume: as, Goal: TFalse, Cover: true, Soft: true, Props: x.cur.Props})
		}
	}
	x.tsub = saved
	x.assumeStable(fr, st, fc, pc, old)
	k(st, results)
}

func (x *Exec) bindResults(env *SpecEnv, sig *types.Signature, results []Value) {
	for i, r := range results {
		rv := sig.Results().At(i)
		if rv.Name() != "" && rv.Name() != "_" {
			env.vars[rv.Name()] = r
		}
		env.vars[fmt.Sprintf("result%d", i)] = r
		if i == 0 {
			env.vars["result"] = r
		}
	}
}

func shortName(full string) string {
	if i := strings.LastIndex(full, "/"); i >= 0 {
		return full[i+1:]
	}
	return full
}

// applyAssigns havocs what a callee may modify: the whole heap unless the
// contract lists "assigns" heap keys.
func (x *Exec) applyAssigns(fr *Frame, st *State, fc *FuncContract, env *SpecEnv) {
	if len(fc.Assigns) == 0 {
		x.havocHeap(st)
		return
	}
	for _, a := range fc.Assigns {
		if a == "nothing" {
			continue
		}
		if strings.HasPrefix(a, "ghost:") {
			name := strings.TrimPrefix(a, "ghost:")
			if name == "upstream" {
				for _, g := range ghostInts {
					if strings.HasPrefix(g, "up") {
						st.ghost[g] = IntV{Var(x.fresh("G_"+g), SInt)}
					}
				}
				continue
			}
			if iv, ok := st.ghost[name].(IntV); ok {
				_ = iv
				st.ghost[name] = IntV{Var(x.fresh("G_"+name), SInt)}
				continue
			}
			old := st.ghostArr(name, SInt)
			st.setGhostArr(name, Var(x.fresh("G_"+name), old.Sort))
			continue
		}
		if strings.HasPrefix(a, "new:") {
			// only objects the callee allocates are written: existing ones keep their content
			pat := strings.TrimPrefix(a, "new:")
			for _, key := range st.heapKeys() {
				if strings.Contains(key, pat) {
					old := st.heap[key]
					nw := Var(x.fresh("Hn_"+sanitize(key)), old.Sort)
					q := x.qvar("qn")
					st.assumeRaw(Forall([]*Term{q}, Implies(allocAt(st.alloc, q), Eq(Select(nw, q), Select(old, q)))))
					st.heap[key] = nw
				}
			}
			st.lazyHavoc = append(st.lazyHavoc, lazyHavocRec{pat: pat, tag: x.fresh("lh"), newOnly: true, alloc: st.alloc})
			continue
		}
		if strings.HasPrefix(a, "@") && env != nil {
			// "@param": exactly the object the pointer parameter denotes - the heap arrays of its
			// own prefix (for a pointer to a field of an enclosing struct: that field's arrays), at its address
			pv, ok := env.vars[a[1:]].(PtrV)
			if !ok {
				panic(x.unsupported("assigns " + a + ": not a pointer parameter"))
			}
			if pv.LV != nil {
				// a pointer to a local or to a field reached through an l-value: exactly that value
				pv.LV.Store(x, st, x.freshValue(st, x.resolveType(pv.Elem), "assigned"))
				continue
			}
			if pv.Prefix == "" {
				panic(x.unsupported("assigns " + a + ": pointer without heap prefix"))
			}
			for _, key := range st.heapKeys() {
				if key == pv.Prefix || strings.HasPrefix(key, pv.Prefix+".") {
					old := st.heap[key]
					nw := Var(x.fresh("Ho_"+sanitize(key)), old.Sort)
					q := x.qvar("qo")
					st.assumeRaw(Forall([]*Term{q}, Implies(Ne(q, pv.Addr), Eq(Select(nw, q), Select(old, q)))))
					st.heap[key] = nw
				}
			}
			st.lazyHavoc = append(st.lazyHavoc, lazyHavocRec{pat: pv.Prefix + ".", tag: x.fresh("lh"), only: pv.Addr, prefixOnly: true})
			continue
		}
		if i := strings.Index(a, "@"); i > 0 && env != nil {
			// only the object a parameter points to is written
			pat, pname := a[:i], a[i+1:]
			addr, ok := x.frameObj(env, pname)
			if !ok {
				panic(x.unsupported("assigns " + a + ": " + pname + " is not a pointer or map parameter"))
			}
			for _, key := range st.heapKeys() {
				if strings.Contains(key, pat) {
					old := st.heap[key]
					nw := Var(x.fresh("Ho_"+sanitize(key)), old.Sort)
					q := x.qvar("qo")
					st.assumeRaw(Forall([]*Term{q}, Implies(Ne(q, addr), Eq(Select(nw, q), Select(old, q)))))
					st.heap[key] = nw
				}
			}
			st.lazyHavoc = append(st.lazyHavoc, lazyHavocRec{pat: pat, tag: x.fresh("lh"), only: addr})
			continue
		}
		// a names a heap key prefix, e.g. "EntryMetadata.Expires"
		for _, key := range st.heapKeys() {
			if strings.Contains(key, a) {
				old := st.heap[key]
				st.heap[key] = Var(x.fresh("Hm_"+sanitize(key)), old.Sort)
			}
		}
		x.lazyHavoc(st, a)
	}
}

func (x *Exec) lazyHavoc(st *State, pat string) {
	st.lazyHavoc = append(st.lazyHavoc, lazyHavocRec{pat: pat, tag: x.fresh("lh")})
}

func (x *Exec) callFnFieldContract(fr *Frame, pc *preparedCall, fc *FuncContract, st *State, k func(*State, []Value)) {
	sig := pc.fv.Sig
	// "ghost callsite-requires <field> <expr>": an obligation of the calling function at each call of that field
	if fr.top != nil && fr.depth == 0 {
		fieldName := fc.Name[strings.LastIndex(fc.Name, ".")+1:]
		n := 0
		for _, g := range fr.top.Contract.Ghost {
			tag := ""
			if strings.HasPrefix(g, "callsite-requires [") {
				if j := strings.Index(g, "]"); j > 0 {
					tag = g[len("callsite-requires ["):j]
					g = "callsite-requires" + g[j+1:]
				}
			}
			pre := "callsite-requires " + fieldName + " "
			if strings.HasPrefix(g, pre) {
				n++
				e, err := ParseSpec(strings.TrimPrefix(g, pre))
				if err != nil {
					panic(x.unsupported("callsite-requires: " + err.Error()))
				}
				env := x.localEnv(fr, st, pc.e)
				for i := 0; i < sig.Params().Len() && i < len(pc.args) && i < len(fc.Params); i++ {
					env.vars["arg_"+fc.Params[i].Name] = pc.args[i]
				}
				x.oblige(fr, st, "callsite", fmt.Sprintf("%s/%d@%s", fieldName, n, x.siteLabel(pc.e)), x.specBool(env, e), pc.e)
				x.Obls[len(x.Obls)-1].Clause = e
				x.Obls[len(x.Obls)-1].Tag = tag
			}
		}
	}
	env := &SpecEnv{x: x, st: st, vars: map[string]Value{}, pkgPath: fr.pkg.PkgPath, fr: fr}
	for i := 0; i < sig.Params().Len() && i < len(pc.args); i++ {
		n := sig.Params().At(i).Name()
		if i < len(fc.Params) {
			n = fc.Params[i].Name
		}
		env.vars[n] = pc.args[i]
	}
	site := x.siteLabel(pc.e)
	x.holdsPre(fr, st, fc, fc.Name, site, pc)
	x.callBlocks(fr, st, fc, fc.Name, site, pc.e)
	for i, r := range fc.Requires {
		t := x.specBool(env, r.Expr)
		x.oblige(fr, st, "pre", fmt.Sprintf("%s/%d@%s", fc.Name, i+1, site), t, pc.e)
		st.assume(t)
	}
	old := st.clone()
	if !fc.Pure {
		x.checkCalleeFrame(fr, st, fc, fc.Name, pc.e, env)
		x.applyAssigns(fr, st, fc, env)
	}
	x.calleeMayAllocate(st)
	results := x.freshResults(st, sig, "fnfield")
	for _, g := range fc.Ghost {
		if g == "result shardlock" && len(results) == 1 {
			if p, ok := results[0].(PtrV); ok {
				p.Prefix = "elem:shard-of-key"
				results[0] = p
			}
		}
	}
	for i, r := range results {
		if i < len(fc.Results) {
			env.vars[fc.Results[i].Name] = r
		}
		env.vars[fmt.Sprintf("result%d", i)] = r
		if i == 0 {
			env.vars["result"] = r
		}
	}
	env.old = old
	for _, e := range fc.Ensures {
		st.assume(x.specBool(env, e.Expr))
	}
	k(st, results)
}

// ---------------------------------------------------------------- conversions and builtins

func (x *Exec) convert(fr *Frame, st *State, n ast.Node, v Value, from, to types.Type) Value {
	to = x.resolveType(to)
	switch tu := to.Underlying().(type) {
	case *types.Basic:
		switch {
		case tu.Info()&types.IsInteger != 0:
			switch vv := v.(type) {
			case IntV:
				kd, _ := basicIntKind(tu)
				if fb, ok := from.Underlying().(*types.Basic); ok {
					if fk, ok := basicIntKind(fb); ok {
						// widening conversions are exact
						if (fk.signed == kd.signed && fk.bits <= kd.bits) || (!fk.signed && kd.signed && fk.bits < kd.bits) {
							return vv
						}
					}
				}
				return IntV{wrapTerm(kd, vv.T)}
			case OpaqueV:
				// float -> int: truncation toward zero of the tracked rational
				if vv.Num != nil {
					x.Trusted["float64 arithmetic treated as exact rational arithmetic"] = true
					return IntV{TDiv(vv.Num, BigLit(vv.Den))}
				}
				r := App("f2i", SInt, vv.T)
				if kd, ok := basicIntKind(tu); ok {
					st.assumeRaw(inRange(kd, r))
				}
				x.Abstractions["float to int conversion uninterpreted"] = true
				return IntV{r}
			}
		case tu.Info()&types.IsFloat != 0:
			switch vv := v.(type) {
			case IntV:
				return OpaqueV{T: App("i2f", SInt, vv.T), Type: to, Num: vv.T, Den: big.NewInt(1)}
			case OpaqueV:
				return vv
			}
		case tu.Info()&types.IsString != 0:
			switch vv := v.(type) {
			case StrV:
				return vv
			case IntV:
				// string(rune)
				s := x.freshValue(st, to, "runestr").(StrV)
				st.assumeRaw(And(Le(IntLit(1), s.Len), Le(s.Len, IntLit(4))))
				st.assumeRaw(Implies(And(Le(IntLit(0), vv.T), Lt(vv.T, IntLit(128))), And(Eq(s.Len, IntLit(1)), Eq(x.strAt(s, IntLit(0)), vv.T))))
				return s
			}
		}
	case *types.Slice:
		if sv, ok := v.(StrV); ok {
			return sv
		}
	case *types.Interface:
		return x.convertAssign(st, v, to)
	}
	// identical underlying shapes (named <-> unnamed struct etc.)
	switch vv := v.(type) {
	case StructV:
		return StructV{Type: to, Names: vv.Names, F: vv.F}
	case PtrV:
		if p, ok := to.Underlying().(*types.Pointer); ok {
			return PtrV{Addr: vv.Addr, Prefix: vv.Prefix, Elem: x.resolveType(p.Elem()), LV: vv.LV}
		}
	}
	return v
}

func (x *Exec) builtinCall(fr *Frame, e *ast.CallExpr, name string, st *State, k func(*State, []Value)) {
	one := func(v Value) { k(st, []Value{v}) }
	_ = one
	switch name {
	case "len", "cap":
		x.expr(fr, e.Args[0], st, func(st *State, v Value) {
			switch vv := v.(type) {
			case StrV:
				k(st, []Value{IntV{vv.Len}})
			case SliceV:
				if name == "cap" {
					c := Var(x.fresh("cap"), SInt)
					st.assumeRaw(Le(vv.Len, c))
					k(st, []Value{IntV{c}})
					return
				}
				k(st, []Value{IntV{vv.Len}})
			case MapV:
				k(st, []Value{IntV{x.mapLen(st, vv)}})
			case PtrV:
				a := x.heapLoad(st, vv)
				k(st, []Value{IntV{x.lenOf(a)}})
			case OpaqueV:
				l := Var(x.fresh("chanlen"), SInt)
				st.assumeRaw(Le(IntLit(0), l))
				k(st, []Value{IntV{l}})
			default:
				panic(x.unsupported(fmt.Sprintf("len of %T", v)))
			}
		})
	case "min", "max":
		x.exprs(fr, e.Args, st, func(st *State, vs []Value) {
			r := vs[0].(IntV).T
			for _, v := range vs[1:] {
				t := v.(IntV).T
				if name == "min" {
					r = Ite(Le(r, t), r, t)
				} else {
					r = Ite(Ge(r, t), r, t)
				}
			}
			k(st, []Value{IntV{r}})
		})
	case "panic":
		x.exprs(fr, e.Args, st, func(st *State, vs []Value) {
			if fr.top != nil && fr.top.NoPanic {
				x.oblige(fr, st, "panic", x.siteLabel(e), TFalse, e)
			}
			x.onPanic(fr, st, e)
			// path ends
		})
	case "new":
		t := x.resolveType(fr.pkg.TypesInfo.TypeOf(e.Args[0]))
		p := PtrV{Addr: x.allocAddr(st, typeKey(t)), Prefix: typeKey(t), Elem: t}
		x.heapStore(st, p, x.zeroValue(t))
		k(st, []Value{p})
	case "make":
		t := x.resolveType(fr.pkg.TypesInfo.TypeOf(e.Args[0]))
		x.exprs(fr, e.Args[1:], st, func(st *State, vs []Value) {
			switch u := t.Underlying().(type) {
			case *types.Map:
				m := MapV{ID: x.allocAddr(st, "map"), Type: u}
				x.initEmptyMap(st, m)
				k(st, []Value{m})
			case *types.Slice:
				n := vs[0].(IntV).T
				x.safety(fr, st, "make", e, Le(IntLit(0), n))
				if len(vs) > 1 {
					c := vs[1].(IntV).T
					x.safety(fr, st, "make", e, Le(n, c))
				}
				z := x.zeroValue(t)
				switch s := z.(type) {
				case StrV:
					s.Off = IntLit(0)
					s.Len = n
					k(st, []Value{s})
				case SliceV:
					s.Off = IntLit(0)
					s.Len = n
					s.Base = x.allocAddr(st, "slice")
					k(st, []Value{s})
				}
			case *types.Chan:
				c := x.freshValue(st, t, "chan").(OpaqueV)
				st.assumeRaw(Gt(c.T, IntLit(0)))
				k(st, []Value{c})
			default:
				panic(x.unsupported("make of " + t.String()))
			}
		})
	case "delete":
		x.exprs(fr, e.Args, st, func(st *State, vs []Value) {
			x.mapDelete(st, vs[0].(MapV), x.keyTerm(st, vs[1]))
			k(st, nil)
		})
	case "append":
		x.appendCall(fr, e, st, k)
	case "close":
		x.exprs(fr, e.Args, st, func(st *State, vs []Value) {
			x.onChanOp(fr, st, e, "close")
			k(st, nil)
		})
	case "copy":
		x.exprs(fr, e.Args, st, func(st *State, vs []Value) {
			x.Abstractions["builtin copy: destination content not tracked"] = true
			n := Var(x.fresh("copied"), SInt)
			st.assumeRaw(Le(IntLit(0), n))
			k(st, []Value{IntV{n}})
		})
	case "print", "println":
		k(st, nil)
	case "recover":
		k(st, []Value{OpaqueV{T: IntLit(0), Type: types.Universe.Lookup("any").Type()}})
	default:
		panic(x.unsupported("builtin " + name))
	}
}

func (x *Exec) appendCall(fr *Frame, e *ast.CallExpr, st *State, k func(*State, []Value)) {
	x.exprs(fr, e.Args, st, func(st *State, vs []Value) {
		base := vs[0]
		if e.Ellipsis.IsValid() {
			// append(a, b...)
			switch a := base.(type) {
			case SliceV:
				b, ok := vs[1].(SliceV)
				if !ok {
					panic(x.unsupported("append spread of non-slice"))
				}
				res := SliceV{Elem: a.Elem, Leaves: map[string]*Term{}, Order: a.Order, Off: IntLit(0), Len: Add(a.Len, b.Len), Base: Var(x.fresh("appbase"), SInt)}
				st.assumeRaw(Ge(res.Base, IntLit(0)))
				for _, p := range a.Order {
					arr := Var(x.fresh("app"+sanitize(p)), a.Leaves[p].Sort)
					x.quantN++
					i := Var(fmt.Sprintf("qi_%d", x.quantN), SInt)
					st.assumeRaw(Forall([]*Term{i}, Implies(And(Le(IntLit(0), i), Lt(i, a.Len)), Eq(Select(arr, i), Select(a.Leaves[p], Add(a.Off, i))))))
					x.quantN++
					j := Var(fmt.Sprintf("qi_%d", x.quantN), SInt)
					st.assumeRaw(Forall([]*Term{j}, Implies(And(Le(a.Len, j), Lt(j, Add(a.Len, b.Len))), Eq(Select(arr, j), Select(b.Leaves[p], Add(b.Off, Sub(j, a.Len)))))))
					res.Leaves[p] = arr
				}
				k(st, []Value{res})
			case StrV:
				b := vs[1].(StrV)
				k(st, []Value{x.strConcat(st, a, b)})
			default:
				panic(x.unsupported("append spread base"))
			}
			return
		}
		switch a := base.(type) {
		case SliceV:
			cur := a
			for _, v := range vs[1:] {
				ns := x.sliceSet(cur, cur.Len, x.convertAssign(st, v, a.Elem))
				ns.Len = Add(cur.Len, IntLit(1))
				cur = ns
			}
			k(st, []Value{cur})
		case StrV:
			cur := a
			for _, v := range vs[1:] {
				cur = StrV{Arr: Store(cur.Arr, Add(cur.Off, cur.Len), v.(IntV).T), Off: cur.Off, Len: Add(cur.Len, IntLit(1))}
			}
			k(st, []Value{cur})
		default:
			panic(x.unsupported(fmt.Sprintf("append to %T", base)))
		}
	})
}

// argType is the static type of the i-th argument expression of a call, if known.
func (x *Exec) argType(pc *preparedCall, i int) types.Type {
	if pc.e == nil || pc.argTypes == nil || i >= len(pc.argTypes) {
		return nil
	}
	return pc.argTypes[i]
}

// holdsPre: a callee whose contract says "ghost holds shard" must be called
// with a shard (slice element) lock held in write mode.
func (x *Exec) holdsPre(fr *Frame, st *State, fc *FuncContract, name, site string, pc *preparedCall) {
	for _, g := range fc.Ghost {
		if g != "holds shard" {
			continue
		}
		ok := false
		for _, h := range st.held {
			if strings.HasPrefix(h.Desc, "elem:") && h.Write {
				ok = true
			}
		}
		x.oblige(fr, st, "pre", fmt.Sprintf("%s/holds-shard@%s", name, site), BoolLit(ok), pc.e)
		x.Obls[len(x.Obls)-1].Tag = "C14 C15 C12" // C12: its per-operation induction assumes the operations on one key are serialised
	}
}

// assumeStable implements the callback rule: a callee declared "ghost
// callbacks-only" changes the caller's data structure only through the
// callbacks it was constructed with; every such callback is verified to
// preserve the predicates the caller declares "ghost stable <pred>", so they
// hold again after the call.
func (x *Exec) assumeStable(fr *Frame, st *State, fc *FuncContract, pc *preparedCall, pre *State) {
	cbOnly := false
	for _, g := range fc.Ghost {
		if g == "callbacks-only" {
			cbOnly = true
		}
	}
	if !cbOnly || fr.top == nil {
		return
	}
	var cc *FuncContract
	for f := fr; f != nil; f = f.parent {
		if f.contract != nil {
			cc = f.contract
			if f.depth == 0 {
				break
			}
		}
	}
	if cc == nil {
		return
	}
	for _, g := range cc.Ghost {
		// "stable-if P": P is preserved by every callback (and by the callee's own ghost writes),
		// so it holds after the call if it held before
		if strings.HasPrefix(g, "stable-if ") && pre != nil {
			e, err := ParseSpec(strings.TrimPrefix(g, "stable-if "))
			if err != nil {
				panic(x.unsupported("stable-if: " + err.Error()))
			}
			before := x.specBool(x.localEnv(fr, pre, pc.e), e)
			after := x.specBool(x.localEnv(fr, st, pc.e), e)
			st.assume(Implies(before, after))
			x.Trusted["callback rule: predicates declared stable are re-assumed after calls to callbacks-only functions (their callbacks are verified to preserve them)"] = true
			continue
		}
		if !strings.HasPrefix(g, "stable ") {
			continue
		}
		e, err := ParseSpec(strings.TrimPrefix(g, "stable "))
		if err != nil {
			panic(x.unsupported("stable: " + err.Error()))
		}
		env := x.localEnv(fr, st, pc.e)
		st.assume(x.specBool(env, e))
		x.Trusted["callback rule: predicates declared stable are re-assumed after calls to callbacks-only functions (their callbacks are verified to preserve them)"] = true
	}
}

// callsiteRequires: "ghost callsite-requires [Cxx] <callee> <expr>" in the contract of the
// function under verification is an obligation at each of its calls of <callee> (the last
// component of the callee's name, e.g. fetchUpstream or Cache.Get).  The expression is
// evaluated over the caller's locals; arg_<param> names the callee's arguments.
func (x *Exec) callsiteRequires(fr *Frame, st *State, pc *preparedCall, name string, sig *types.Signature) {
	if fr.top == nil || fr.top.Contract == nil {
		return
	}
	short := shortName(name)
	if i := strings.Index(short, "."); i >= 0 {
		short = short[i+1:] // drop the package
	}
	last := short
	if i := strings.LastIndex(short, "."); i >= 0 {
		last = short[i+1:]
	}
	n := 0
	for _, g := range fr.top.Contract.Ghost {
		tag := ""
		if strings.HasPrefix(g, "callsite-requires [") {
			if j := strings.Index(g, "]"); j > 0 {
				tag = g[len("callsite-requires ["):j]
				g = "callsite-requires" + g[j+1:]
			}
		}
		var rest string
		switch {
		case strings.HasPrefix(g, "callsite-requires "+short+" "):
			rest = strings.TrimPrefix(g, "callsite-requires "+short+" ")
		case strings.HasPrefix(g, "callsite-requires "+last+" "):
			rest = strings.TrimPrefix(g, "callsite-requires "+last+" ")
		default:
			continue
		}
		n++
		e, err := ParseSpec(rest)
		if err != nil {
			panic(x.unsupported("callsite-requires: " + err.Error()))
		}
		env := x.localEnv(fr, st, pc.e)
		for i := 0; i < sig.Params().Len() && i < len(pc.args); i++ {
			env.vars["arg_"+sig.Params().At(i).Name()] = pc.args[i]
		}
		if pc.recv != nil {
			env.vars["arg_self"] = pc.recv
		}
		x.oblige(fr, st, "callsite", fmt.Sprintf("%s/%d@%s", last, n, x.siteLabel(pc.e)), x.specBool(env, e), pc.e)
		x.Obls[len(x.Obls)-1].Clause = e
		x.Obls[len(x.Obls)-1].Tag = tag
	}
}

// checkCalleeFrame: a callee's declared frame must lie within the frame of the function
// under verification (patterns are substrings of heap keys: a caller pattern covers a
// callee pattern when it is a substring of it).
func (x *Exec) checkCalleeFrame(fr *Frame, st *State, fc *FuncContract, name string, n ast.Node, env *SpecEnv) {
	if fr.top == nil || fr.top.Contract == nil {
		return
	}
	top := fr.top.Contract
	if !top.Pure && len(top.Assigns) == 0 {
		return
	}
	if len(fc.Assigns) == 0 {
		return // havocHeap: reported by the frame check at return
	}
	for _, a := range fc.Assigns {
		if a == "nothing" {
			continue
		}
		covered := false
		if strings.HasPrefix(a, "@") {
			if pv, ok := env.vars[a[1:]].(PtrV); ok && !top.Pure {
				for _, b := range top.Assigns {
					if strings.HasPrefix(b, "ghost:") || b == "nothing" || strings.HasPrefix(b, "new:") || strings.Contains(b, "@") {
						continue
					}
					pref := pv.Prefix
					if pref == "" && pv.LV != nil {
						pref = lvPrefix(pv.LV)
					}
					if pref != "" && strings.Contains(pref, b) {
						covered = true
					}
				}
			}
			if !covered {
				x.oblige(fr, st, "calleeframe", fmt.Sprintf("callee %s assigns %s@%s", name, a, x.siteLabel(n)), TFalse, n)
			}
			continue
		}
		if i := strings.Index(a, "@"); i > 0 && !top.Pure {
			// callee writes one object only: covered by a type-level pattern of the caller, by a
			// one-object pattern of the caller naming the same object, or - when the caller may
			// write new objects of that type - by the object being one the caller allocated
			pat, pname := a[:i], a[i+1:]
			var alts []*Term
			cv, okc := x.frameObj(env, pname)
			for _, b := range top.Assigns {
				if strings.HasPrefix(b, "ghost:") || b == "nothing" {
					continue
				}
				if strings.HasPrefix(b, "new:") {
					if okc && strings.Contains(pat, strings.TrimPrefix(b, "new:")) {
						alts = append(alts, Not(allocAt(Var("alloc0", SInt), cv)))
					}
					continue
				}
				if j := strings.Index(b, "@"); j > 0 {
					if tv, ok2 := x.frameObj(x.entrySpecEnv(fr.top), b[j+1:]); ok2 && okc && strings.Contains(pat, b[:j]) {
						alts = append(alts, Eq(cv, tv))
					}
					continue
				}
				if strings.Contains(pat, b) {
					covered = true
				}
			}
			if !covered {
				x.oblige(fr, st, "calleeframe", fmt.Sprintf("callee %s assigns %s@%s", name, a, x.siteLabel(n)), Or(alts...), n)
			}
			continue
		}
		if !top.Pure {
			for _, b := range top.Assigns {
				if strings.Contains(b, "@") {
					continue
				}
				if strings.HasPrefix(a, "new:") && !strings.HasPrefix(b, "ghost:") && b != "nothing" && strings.Contains(strings.TrimPrefix(a, "new:"), strings.TrimPrefix(b, "new:")) {
					covered = true
				}
				if strings.HasPrefix(b, "new:") {
					continue
				}
				if b == a || (!strings.HasPrefix(a, "ghost:") && !strings.HasPrefix(b, "ghost:") && b != "nothing" && strings.Contains(a, b)) {
					covered = true
				}
				if b == "ghost:upstream" && strings.HasPrefix(a, "ghost:up") {
					covered = true
				}
			}
		}
		if !covered {
			x.oblige(fr, st, "calleeframe", fmt.Sprintf("callee %s assigns %s@%s", name, a, x.siteLabel(n)), TFalse, n)
		}
	}
}

// objAddr: the address of the object a pointer or map value denotes.
func objAddr(v Value) (*Term, bool) {
	switch vv := v.(type) {
	case PtrV:
		return vv.Addr, true
	case MapV:
		if vv.Const == nil {
			return vv.ID, true
		}
	}
	return nil, false
}

// calleeMayAllocate: a callee may have allocated objects; the set of allocated
// addresses after the call is some superset of the one before.
func (x *Exec) calleeMayAllocate(st *State) {
	na := Var(x.fresh("alloc"), SInt)
	st.assumeRaw(Ge(na, st.alloc))
	st.alloc = na
}

// frameObj evaluates the object expression of a one-object frame pattern ("T@expr").
func (x *Exec) frameObj(env *SpecEnv, expr string) (*Term, bool) {
	if env == nil {
		return nil, false
	}
	if v, ok := env.vars[expr]; ok {
		return objAddr(v)
	}
	e, err := ParseSpec(expr)
	if err != nil {
		panic(x.unsupported("assigns @" + expr + ": " + err.Error()))
	}
	return objAddr(x.specEval(env, e))
}

// entrySpecEnv: the parameters of the function under verification over its entry state.
func (x *Exec) entrySpecEnv(ctx *FuncCtx) *SpecEnv {
	env := &SpecEnv{x: x, st: ctx.Entry.clone(), vars: map[string]Value{}, bound: map[string]Value{}, pkgPath: ctx.Pkg.PkgPath}
	for k, v := range ctx.Params {
		env.vars[k] = v
	}
	return env
}

// lvPrefix: the heap-key prefix an l-value inside a heap object writes to ("" when it is not a heap field).
func lvPrefix(lv LVal) string {
	switch f := lv.(type) {
	case fieldLV:
		if base := lvPrefix(f.base); base != "" {
			return base + "." + f.name
		}
		return ""
	case heapLV:
		if f.p.Prefix != "" {
			return f.p.Prefix
		}
		if f.p.LV != nil {
			return lvPrefix(f.p.LV)
		}
		return ""
	}
	if f, ok := lv.(heapFieldLV); ok {
		base := f.p.Prefix
		if base == "" && f.p.LV != nil {
			base = lvPrefix(f.p.LV)
		}
		if base == "" {
			return ""
		}
		return base + "." + f.field
	}
	return ""
}
