package main

// Ghost observation state: how often a symbolic function value was called, and
// what status was written to an http.ResponseWriter.

import (
	"fmt"
	"go/ast"
	"go/types"
	"strings"
)

func (st *State) ghostArr(name string, elem *Sort) *Term {
	if v, ok := st.ghost[name].(OpaqueV); ok && v.T != nil {
		return v.T
	}
	a := Var(name+"0", ArrOf(elem))
	st.ghost[name] = OpaqueV{T: a}
	return a
}

func (st *State) setGhostArr(name string, t *Term) { st.ghost[name] = OpaqueV{T: t} }

func (x *Exec) countCall(st *State, f *Term) {
	cc := st.ghostArr("callcount", SInt)
	st.setGhostArr("callcount", Store(cc, f, Add(Select(cc, f), IntLit(1))))
}

// notHijacked: a response written through a hijacked responder never reaches the client.
func (x *Exec) notHijacked(fr *Frame, st *State, pc *preparedCall) {
	r := x.asTermAny(pc.recv)
	x.oblige(fr, st, "pre", "Responder/not-hijacked@"+x.siteLabel(pc.e), Eq(x.ghostSel(st, "hijacked", r), IntLit(0)), pc.e)
	x.Obls[len(x.Obls)-1].Tag = "C16"
}

func (x *Exec) recordStatus(st *State, w *Term, code *Term) {
	hs := st.ghostArr("httpstatus", SInt)
	st.setGhostArr("httpstatus", Store(hs, w, code))
	hw := st.ghostArr("httpwrites", SInt)
	st.setGhostArr("httpwrites", Store(hw, w, Add(Select(hw, w), IntLit(1))))
}

func init() {
	models["net/http.Error"] = func(x *Exec, fr *Frame, st *State, pc *preparedCall, k func(*State, []Value)) {
		x.statusCodeObligation(fr, st, pc, "http.Error", pc.args[2].(IntV).T)
		// http.Error (Go 1.23+): deletes Content-Length, Content-Encoding, Etag and Last-Modified, sets
		// Content-Type and X-Content-Type-Options; every other header already set is kept
		if wv := pc.args[0]; wv != nil {
			hp := x.L.pkgOf("net/http")
			if hp != nil {
				mt := hp.Types.Scope().Lookup("Header").Type().Underlying().(*types.Map)
				id := App("rwheader", SInt, x.asTerm(wv))
				st.assumeRaw(Gt(id, IntLit(1<<50)))
				h := MapV{ID: id, Type: mt}
				for _, name := range []string{"Content-Length", "Content-Encoding", "Etag", "Last-Modified"} {
					x.mapDelete(st, h, x.canonKey(st, x.strLit(name)))
				}
				x.mapSet(st, h, x.canonKey(st, x.strLit("Content-Type")), newStrSlice(x, st, []StrV{x.strLit("text/plain; charset=utf-8")}))
				x.mapSet(st, h, x.canonKey(st, x.strLit("X-Content-Type-Options")), newStrSlice(x, st, []StrV{x.strLit("nosniff")}))
			}
		}
		x.recordStatus(st, x.asTerm(pc.args[0]), pc.args[2].(IntV).T)
		k(st, nil)
	}
	models["net/http.ResponseWriter.WriteHeader"] = func(x *Exec, fr *Frame, st *State, pc *preparedCall, k func(*State, []Value)) {
		x.statusCodeObligation(fr, st, pc, "ResponseWriter.WriteHeader", pc.args[0].(IntV).T)
		x.recordStatus(st, x.asTerm(pc.recv), pc.args[0].(IntV).T)
		k(st, nil)
	}
	models["net/http.ResponseWriter.Write"] = func(x *Exec, fr *Frame, st *State, pc *preparedCall, k func(*State, []Value)) {
		w := x.asTerm(pc.recv)
		hw := st.ghostArr("httpwrites", SInt)
		hs := st.ghostArr("httpstatus", SInt)
		// an implicit 200 when nothing was written before
		st.setGhostArr("httpstatus", Store(hs, w, Ite(Eq(Select(hw, w), IntLit(0)), IntLit(200), Select(hs, w))))
		st.setGhostArr("httpwrites", Store(hw, w, Add(Select(hw, w), IntLit(1))))
		n := Var(x.fresh("written"), SInt)
		st.assumeRaw(Ge(n, IntLit(0)))
		k(st, []Value{IntV{n}, x.freshErr(st, "werr")})
	}
	models["net/http.ResponseWriter.Header"] = func(x *Exec, fr *Frame, st *State, pc *preparedCall, k func(*State, []Value)) {
		// the header map of a writer is a function of the writer
		id := App("rwheader", SInt, x.asTerm(pc.recv))
		st.assumeRaw(Gt(id, IntLit(1<<50)))
		mt := pc.fn.Type().(*types.Signature).Results().At(0).Type().Underlying().(*types.Map)
		k(st, []Value{MapV{ID: id, Type: mt}})
	}
	models["net/http.Request.Cookie"] = func(x *Exec, fr *Frame, st *State, pc *preparedCall, k func(*State, []Value)) {
		r := pc.recv.(PtrV)
		nameID := x.strID(st, pc.args[0].(StrV))
		has := App("reqcookie_has", SBool, r.Addr, nameID)
		sig := pc.fn.Type().(*types.Signature)
		ct := x.resolveType(sig.Results().At(0).Type())
		cp := x.zeroValue(ct).(PtrV)
		// found
		st1 := st.clone()
		st1.assumeRaw(has)
		cp.Addr = x.allocAddr(st1, "cookie")
		val := x.freshValue(st1, types.Typ[types.String], "cookieval").(StrV)
		st1.assumeRaw(Eq(x.strID(st1, val), App("reqcookie_val", SInt, r.Addr, nameID)))
		heapFieldLV{p: cp, field: "Value", ftype: types.Typ[types.String]}.Store(x, st1, val)
		k(st1, []Value{cp, OpaqueV{T: IntLit(0), Type: types.Universe.Lookup("error").Type()}})
		// not found: http.ErrNoCookie
		st.assumeRaw(Not(has))
		var errv Value = OpaqueV{T: Var(x.fresh("cookieerr"), SInt)}
		if hp := x.L.pkgOf("net/http"); hp != nil {
			if obj, ok := hp.Types.Scope().Lookup("ErrNoCookie").(*types.Var); ok {
				errv = x.globalValue(fr, st, obj)
			}
		}
		k(st, []Value{x.zeroValue(ct), errv})
	}
	// (*ServeMux).HandleFunc(pattern, handler): the handler may later be called with
	// any request; it is run here on a fresh writer and request and must then satisfy
	// the "handler-ensures" clauses of the function under contract.
	models["net/http.ServeMux.HandleFunc"] = modelHandleFunc
}

func modelHandleFunc(x *Exec, fr *Frame, st *State, pc *preparedCall, k func(*State, []Value)) {
	h, ok := pc.args[1].(FuncV)
	top := fr.top
	var clauses []string
	if top != nil && fr.depth == 0 {
		for _, g := range top.Contract.Ghost {
			if strings.HasPrefix(g, "handler-ensures ") {
				clauses = append(clauses, strings.TrimPrefix(g, "handler-ensures "))
			}
		}
	}
	if ok && h.Closure != nil && len(clauses) > 0 {
		st2 := st.clone()
		sig := h.Sig
		w := x.freshValue(st2, x.resolveType(sig.Params().At(0).Type()), "w")
		r := x.freshValue(st2, x.resolveType(sig.Params().At(1).Type()), "r")
		if wp, ok := w.(OpaqueV); ok {
			st2.assumeRaw(Gt(wp.T, IntLit(0)))
		}
		if rp, ok := r.(PtrV); ok {
			st2.assumeRaw(Gt(rp.Addr, IntLit(0)))
			st2.assumeRaw(allocAt(st2.alloc, rp.Addr))
		}
		pre := st2.clone()
		npc := &preparedCall{e: pc.e, closure: h.Closure, args: []Value{w, r}}
		if h.Closure.Lit == nil {
			npc.fn = h.Closure.Fn
			npc.closure = nil
		}
		st2.trace = append(st2.trace, "handler-run")
		x.invoke(fr, npc, st2, func(st3 *State, _ []Value) {
			for i, c := range clauses {
				e, err := ParseSpec(c)
				if err != nil {
					panic(x.unsupported("handler-ensures: " + err.Error()))
				}
				env := x.localEnv(fr, st3, pc.e)
				env.vars["w"] = w
				env.vars["r"] = r
				env.old = pre
				env.oldVars = nil
				x.oblige(fr, st3, "handler", fmt.Sprintf("%d@%s", i+1, x.siteLabel(pc.e)), x.specBool(env, e), pc.e)
				x.Obls[len(x.Obls)-1].Clause = e
			}
		})
	}
	k(st, nil)
}

func init() {
	// argon2.IDKey: a deterministic function of its arguments (cryptography assumed)
	models["golang.org/x/crypto/argon2.IDKey"] = func(x *Exec, fr *Frame, st *State, pc *preparedCall, k func(*State, []Value)) {
		pw, salt := pc.args[0].(StrV), pc.args[1].(StrV)
		r := x.freshValue(st, types.NewSlice(types.Typ[types.Byte]), "argon2").(StrV)
		st.assumeRaw(Eq(r.Len, pc.args[5].(IntV).T))
		st.assumeRaw(Eq(x.strID(st, r), App("argon2id", SInt, x.strID(st, pw), x.strID(st, salt), pc.args[2].(IntV).T, pc.args[3].(IntV).T, pc.args[4].(IntV).T, pc.args[5].(IntV).T)))
		st.ghost["lastkdf_pw"] = IntV{x.strID(st, pw)}
		st.ghost["lastkdf_out"] = IntV{x.strID(st, r)}
		k(st, []Value{r})
	}
	// subtle.ConstantTimeCompare: 1 iff equal content
	models["crypto/subtle.ConstantTimeCompare"] = func(x *Exec, fr *Frame, st *State, pc *preparedCall, k func(*State, []Value)) {
		a, b := pc.args[0].(StrV), pc.args[1].(StrV)
		eq := Eq(x.strID(st, a), x.strID(st, b))
		r := Ite(eq, IntLit(1), IntLit(0))
		st.ghost["lastcmp"] = IntV{r}
		st.ghost["lastcmp_a"] = IntV{x.strID(st, a)}
		k(st, []Value{IntV{r}})
	}
	models["crypto/rand.Text"] = func(x *Exec, fr *Frame, st *State, pc *preparedCall, k func(*State, []Value)) {
		r := x.freshValue(st, types.Typ[types.String], "randtext").(StrV)
		st.assumeRaw(Eq(r.Len, IntLit(26)))
		k(st, []Value{r})
	}
}

// ---- responder.Responder: the interface handleHTTP talks to.  Its methods are
// modelled on ghost state per responder: a header map (http.Header semantics),
// the status written, the number of responses written, and the body handed over.
// Both implementations are verified against the same observable behaviour
// (contracts in proxy/responder).

func (x *Exec) respHeaderMap(st *State, recv Value) MapV {
	// a statically known *RawHTTPResponder: its header map is the real one (refinement glue between
	// the interface-level ghost view and the implementation)
	var dyn Value = recv
	if o, ok := recv.(OpaqueV); ok && o.Dyn != nil {
		dyn = o.Dyn
	}
	if p, ok := dyn.(PtrV); ok && p.LV == nil {
		if n, ok := types.Unalias(x.resolveType(p.Elem)).(*types.Named); ok && n.Obj().Name() == "RawHTTPResponder" {
			resp := x.specFieldOf(st, p, "response")
			if rp, ok := resp.(PtrV); ok {
				if m, ok := x.specFieldOf(st, rp, "Header").(MapV); ok {
					return m
				}
			}
		}
	}
	// a statically known *HTTPResponder: its header set is the wrapped writer's
	if p, ok := dyn.(PtrV); ok && p.LV == nil {
		if n, ok := types.Unalias(x.resolveType(p.Elem)).(*types.Named); ok && n.Obj().Name() == "HTTPResponder" {
			if w := x.specFieldOf(st, p, "writer"); w != nil {
				id := App("rwheader", SInt, x.asTermAny(w))
				st.assumeRaw(Gt(id, IntLit(1<<50)))
				hp := x.L.pkgOf("net/http")
				mt := hp.Types.Scope().Lookup("Header").Type().Underlying().(*types.Map)
				return MapV{ID: id, Type: mt}
			}
		}
	}
	id := App("resphdr", SInt, x.asTermAny(recv))
	st.assumeRaw(Gt(id, IntLit(1<<50)))
	hp := x.L.pkgOf("net/http")
	mt := hp.Types.Scope().Lookup("Header").Type().Underlying().(*types.Map)
	return MapV{ID: id, Type: mt}
}

func init() {
	const rp = "reservoir/proxy/responder.Responder."
	models[rp+"SetHeader"] = func(x *Exec, fr *Frame, st *State, pc *preparedCall, k func(*State, []Value)) {
		npc := *pc
		npc.recv = x.respHeaderMap(st, pc.recv)
		modelHeaderSet(x, fr, st, &npc, k)
	}
	models[rp+"AddHeader"] = func(x *Exec, fr *Frame, st *State, pc *preparedCall, k func(*State, []Value)) {
		npc := *pc
		npc.recv = x.respHeaderMap(st, pc.recv)
		modelHeaderAdd(x, fr, st, &npc, k)
	}
	models[rp+"GetHeaders"] = func(x *Exec, fr *Frame, st *State, pc *preparedCall, k func(*State, []Value)) {
		k(st, []Value{x.respHeaderMap(st, pc.recv)})
	}
	// SetHeaders(h): for every key of h the response carries all values of h[key], in order
	models[rp+"SetHeaders"] = func(x *Exec, fr *Frame, st *State, pc *preparedCall, k func(*State, []Value)) {
		dst := x.respHeaderMap(st, pc.recv)
		src := pc.args[0].(MapV)
		x.mapCopyAll(st, dst, src)
		k(st, nil)
	}
	models[rp+"Write"] = func(x *Exec, fr *Frame, st *State, pc *preparedCall, k func(*State, []Value)) {
		w := x.asTermAny(pc.recv)
		x.notHijacked(fr, st, pc)
		// http.ResponseWriter.WriteHeader panics for a status code outside 100..999
		code := pc.args[0].(IntV).T
		x.oblige(fr, st, "pre", "Responder.Write/status-code@"+x.siteLabel(pc.e), And(Ge(code, IntLit(100)), Le(code, IntLit(999))), pc.e)
		x.Obls[len(x.Obls)-1].Tag = "C16"
		x.recordStatus(st, w, pc.args[0].(IntV).T)
		rb := st.ghostArr("respbody", SInt)
		st.setGhostArr("respbody", Store(rb, w, x.identityOf(st, pc.args[1])))
		n := Var(x.fresh("written"), SInt)
		st.assumeRaw(Ge(n, IntLit(0)))
		k(st, []Value{IntV{n}, x.freshErr(st, "werr")})
	}
	models[rp+"WriteEmpty"] = func(x *Exec, fr *Frame, st *State, pc *preparedCall, k func(*State, []Value)) {
		x.notHijacked(fr, st, pc)
		x.recordStatus(st, x.asTermAny(pc.recv), pc.args[0].(IntV).T)
		k(st, []Value{x.freshErr(st, "werr")})
	}
	models[rp+"WriteError"] = func(x *Exec, fr *Frame, st *State, pc *preparedCall, k func(*State, []Value)) {
		x.notHijacked(fr, st, pc)
		x.recordStatus(st, x.asTermAny(pc.recv), pc.args[1].(IntV).T)
		// httperrs(r): how many error responses the proxy itself produced on r
		he := st.ghostArr("httperrs", SInt)
		st.setGhostArr("httperrs", Store(he, x.asTermAny(pc.recv), Add(Select(he, x.asTermAny(pc.recv)), IntLit(1))))
		k(st, []Value{x.freshErr(st, "werr")})
	}
	models["io.NewSectionReader"] = func(x *Exec, fr *Frame, st *State, pc *preparedCall, k func(*State, []Value)) {
		sig := pc.fn.Type().(*types.Signature)
		pt := x.resolveType(sig.Results().At(0).Type())
		p := x.zeroValue(pt).(PtrV)
		p.Addr = App("sectionreader", SInt, x.identityOf(st, pc.args[0]), pc.args[1].(IntV).T, pc.args[2].(IntV).T)
		st.assumeRaw(Gt(p.Addr, IntLit(0)))
		k(st, []Value{p})
	}
}

// mapCopyAll: afterwards dst[k] == src[k] for every key of src (other keys of dst unchanged).
func (x *Exec) mapCopyAll(st *State, dst, src MapV) {
	ks := mapKeyStr(dst)
	kq := x.qvar("mk")
	// new arrays for dst's row of every leaf
	update := func(key string, sort *Sort, f func(oldRow, srcRow, newRow *Term)) {
		arr := st.heapArr(key, sort)
		oldRow := Select(arr, dst.ID)
		srcRow := Select(arr, src.ID)
		newRow := Var(x.fresh("row_"+sanitize(key)), oldRow.Sort)
		f(oldRow, srcRow, newRow)
		st.heap[key] = Store(arr, dst.ID, newRow)
	}
	presArr := st.heapArr(ks+"#present", ArrOf(SBool))
	srcPres := Select(presArr, src.ID)
	update(ks+"#present", ArrOf(SBool), func(o, s, n *Term) {
		st.assumeRaw(Forall([]*Term{kq}, Eq(Select(n, kq), Or(Select(o, kq), Select(s, kq)))))
	})
	zero := x.zeroValue(dst.Type.Elem())
	var ls []struct {
		Path string
		T    *Term
	}
	x.leavesOf(zero, "", &ls)
	for _, l := range ls {
		if l.T.Sort == SInt && strings.HasSuffix(l.Path, ".off") {
			continue
		}
		kq2 := x.qvar("mk")
		update(ks+l.Path, ArrOf(l.T.Sort), func(o, s, n *Term) {
			st.assumeRaw(Forall([]*Term{kq2}, Eq(Select(n, kq2), Ite(Select(srcPres, kq2), Select(s, kq2), Select(o, kq2)))))
		})
	}
	card := st.heapArr(ks+"#card", SInt)
	nc := Var(x.fresh("card"), SInt)
	st.assumeRaw(Ge(nc, Select(card, dst.ID)))
	st.heap[ks+"#card"] = Store(card, dst.ID, nc)
}

// freshErr is an arbitrary error value (nil or some error that is none of the sentinels).
func (x *Exec) freshErr(st *State, hint string) Value {
	e := Var(x.fresh(hint), SInt)
	// errors coming out of modelled I/O live above 2^40 and wrap nothing (global axiom)
	st.assumeRaw(Or(Eq(e, IntLit(0)), Gt(e, IntLit(1<<40))))
	x.freshErrs = append(x.freshErrs, e)
	x.ioErrAxiom()
	return OpaqueV{T: e, Type: types.Universe.Lookup("error").Type()}
}

func init() {
	// Closing the body of a request read by http.ReadRequest discards what is left of it
	// (net/http: body.Close consumes the body unless the server asked for an early close).
	closeBody := func(x *Exec, fr *Frame, st *State, pc *preparedCall, k func(*State, []Value)) {
		id := x.asTermAny(pc.recv)
		src := x.ghostSel(st, "bodyof", id)
		cur := x.ghostSel(st, "bodypending", src)
		x.ghostSet(st, "bodypending", src, Ite(And(Ne(src, IntLit(0)), Eq(cur, id)), IntLit(0), cur))
		// (EntryData embeds io.ReadSeekCloser: closing a cache entry's handle arrives here as well)
		x.ghostSet(st, "closedh", id, IntLit(1))
		k(st, []Value{x.freshErr(st, "closeerr")})
	}
	models["io.Closer.Close"] = closeBody
	models["io.ReadCloser.Close"] = closeBody
	// Closing the handle of a cache entry: observable (closedh) - a closed handle yields no body
	models["reservoir/cache.EntryData.Close"] = func(x *Exec, fr *Frame, st *State, pc *preparedCall, k func(*State, []Value)) {
		x.ghostSet(st, "closedh", x.identityOf(st, pc.recv), IntLit(1))
		k(st, []Value{x.freshErr(st, "closeerr")})
	}
	models["io.ReadSeekCloser.Close"] = models["reservoir/cache.EntryData.Close"] // EntryData embeds io.ReadSeekCloser
}

func (x *Exec) ioErrAxiom() {
	if x.ioErrAxiomDone {
		return
	}
	x.ioErrAxiomDone = true
	e, t := Var("qe_io", SInt), Var("qt_io", SInt)
	x.GlobalFacts = append(x.GlobalFacts, Forall([]*Term{e, t}, Implies(Gt(e, IntLit(1<<40)), Not(App("wraps", SBool, e, t)))))
}

func init() {
	// slices.SortFunc(s, cmp): s becomes a permutation of itself sorted by cmp.
	// Assumed here: same length, every element still an element of the old slice
	// (so facts true of all old elements stay true), order as given by cmp - the
	// comparator closure is verified separately.
	models["slices.SortFunc"] = func(x *Exec, fr *Frame, st *State, pc *preparedCall, k func(*State, []Value)) {
		id, ok := ast.Unparen(pc.e.Args[0]).(*ast.Ident)
		sv, ok2 := pc.args[0].(SliceV)
		if !ok || !ok2 {
			panic(x.unsupported("slices.SortFunc on something other than a slice variable"))
		}
		ns := SliceV{Elem: sv.Elem, Leaves: map[string]*Term{}, Order: sv.Order, Off: IntLit(0), Len: sv.Len, Base: sv.Base}
		perm := Var(x.fresh("perm"), SArr)
		q := x.qvar("pm")
		st.assumeRaw(Forall([]*Term{q}, Implies(And(Le(IntLit(0), q), Lt(q, sv.Len)), And(Le(IntLit(0), Select(perm, q)), Lt(Select(perm, q), sv.Len)))))
		for _, p := range sv.Order {
			arr := Var(x.fresh("sorted"+sanitize(p)), sv.Leaves[p].Sort)
			q2 := x.qvar("pm")
			st.assumeRaw(Forall([]*Term{q2}, Implies(And(Le(IntLit(0), q2), Lt(q2, sv.Len)), Eq(Select(arr, q2), Select(sv.Leaves[p], Add(sv.Off, Select(perm, q2)))))))
			ns.Leaves[p] = arr
		}
		x.lvalue(fr, id, st, func(st *State, lv LVal) {
			lv.Store(x, st, ns)
			k(st, nil)
		})
	}
}

func init() {
	models["cmp.Compare"] = func(x *Exec, fr *Frame, st *State, pc *preparedCall, k func(*State, []Value)) {
		a, ok1 := pc.args[0].(IntV)
		b, ok2 := pc.args[1].(IntV)
		if !ok1 || !ok2 {
			r := Var(x.fresh("cmp"), SInt)
			st.assumeRaw(And(Le(IntLit(-1), r), Le(r, IntLit(1))))
			k(st, []Value{IntV{r}})
			return
		}
		k(st, []Value{IntV{Ite(Lt(a.T, b.T), IntLit(-1), Ite(Gt(a.T, b.T), IntLit(1), IntLit(0)))}})
	}
}

func init() {
	// maps.Clone(m): a new map object with the same keys and (shallowly copied) values
	models["maps.Clone"] = func(x *Exec, fr *Frame, st *State, pc *preparedCall, k func(*State, []Value)) {
		src, ok := pc.args[0].(MapV)
		if !ok || src.Const != nil {
			panic(x.unsupported("maps.Clone of a non-heap map"))
		}
		x.guardCheck(st, mapKeyStr(src), src.ID, false)
		dst := MapV{ID: x.allocAddr(st, "mapclone"), Type: src.Type}
		ks := mapKeyStr(src)
		for _, key := range st.heapKeys() {
			if strings.HasPrefix(key, ks) && key != ks+"#card" {
				arr := st.heap[key]
				st.heap[key] = Store(arr, dst.ID, Select(arr, src.ID))
			}
		}
		// rows not materialised yet: copy lazily known ones (present, card, every value leaf)
		pres := st.heapArr(ks+"#present", ArrOf(SBool))
		st.heap[ks+"#present"] = Store(pres, dst.ID, Select(pres, src.ID))
		card := st.heapArr(ks+"#card", SInt)
		st.heap[ks+"#card"] = Store(card, dst.ID, Select(card, src.ID))
		zero := x.zeroValue(src.Type.Elem())
		var ls []struct {
			Path string
			T    *Term
		}
		x.leavesOf(zero, "", &ls)
		for _, l := range ls {
			if l.T.Sort == SInt && strings.HasSuffix(l.Path, ".off") {
				continue
			}
			arr := st.heapArr(ks+l.Path, ArrOf(l.T.Sort))
			st.heap[ks+l.Path] = Store(arr, dst.ID, Select(arr, src.ID))
		}
		k(st, []Value{dst})
	}
	// time.NewTicker(d) / (*Ticker).Reset(d) panic for d <= 0; the ghost tickerival records the armed interval
	models["time.NewTicker"] = func(x *Exec, fr *Frame, st *State, pc *preparedCall, k func(*State, []Value)) {
		d := pc.args[0].(IntV).T
		x.safety(fr, st, "pre", pc.e, Gt(d, IntLit(0)))
		sig := pc.fn.Type().(*types.Signature)
		p := x.zeroValue(x.resolveType(sig.Results().At(0).Type())).(PtrV)
		p.Addr = x.allocAddr(st, "ticker")
		x.ghostSet(st, "tickerival", p.Addr, d)
		k(st, []Value{p})
	}
	models["time.Ticker.Reset"] = func(x *Exec, fr *Frame, st *State, pc *preparedCall, k func(*State, []Value)) {
		d := pc.args[0].(IntV).T
		x.safety(fr, st, "pre", pc.e, Gt(d, IntLit(0)))
		x.ghostSet(st, "tickerival", pc.recv.(PtrV).Addr, d)
		k(st, nil)
	}
	models["time.Ticker.Stop"] = func(x *Exec, fr *Frame, st *State, pc *preparedCall, k func(*State, []Value)) {
		k(st, nil)
	}
}

// specFieldOf loads field name of the struct p points to.
func (x *Exec) specFieldOf(st *State, p PtrV, name string) Value {
	stt, ok := x.resolveType(p.Elem).Underlying().(*types.Struct)
	if !ok {
		return nil
	}
	for i := 0; i < stt.NumFields(); i++ {
		if stt.Field(i).Name() == name {
			return heapFieldLV{p: p, field: name, ftype: x.resolveType(stt.Field(i).Type())}.Load(x, st)
		}
	}
	return nil
}

func fieldIndex(ptrT types.Type, name string) int {
	st := ptrT.(*types.Pointer).Elem().Underlying().(*types.Struct)
	for i := 0; i < st.NumFields(); i++ {
		if st.Field(i).Name() == name {
			return i
		}
	}
	return 0
}
