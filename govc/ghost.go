package main

// Ghost observation state: how often a symbolic function value was called, and
// what status was written to an http.ResponseWriter.

import (
	"fmt"
	"go/types"
	"strings"
)

func (st *State) ghostArr(name string, elem *Sort) *Term {
	if v, ok := st.ghost[name].(OpaqueV); ok && v.T != nil {
		return v.T
	}
	a := Var(name+"0", ArrOf(elem))
	st.ghost[name] = OpaqueV{T: a}
	return a
}

func (st *State) setGhostArr(name string, t *Term) { st.ghost[name] = OpaqueV{T: t} }

func (x *Exec) countCall(st *State, f *Term) {
	cc := st.ghostArr("callcount", SInt)
	st.setGhostArr("callcount", Store(cc, f, Add(Select(cc, f), IntLit(1))))
}

func (x *Exec) recordStatus(st *State, w *Term, code *Term) {
	hs := st.ghostArr("httpstatus", SInt)
	st.setGhostArr("httpstatus", Store(hs, w, code))
	hw := st.ghostArr("httpwrites", SInt)
	st.setGhostArr("httpwrites", Store(hw, w, Add(Select(hw, w), IntLit(1))))
}

func init() {
	models["net/http.Error"] = func(x *Exec, fr *Frame, st *State, pc *preparedCall, k func(*State, []Value)) {
		x.recordStatus(st, x.asTerm(pc.args[0]), pc.args[2].(IntV).T)
		k(st, nil)
	}
	models["net/http.ResponseWriter.WriteHeader"] = func(x *Exec, fr *Frame, st *State, pc *preparedCall, k func(*State, []Value)) {
		x.recordStatus(st, x.asTerm(pc.recv), pc.args[0].(IntV).T)
		k(st, nil)
	}
	models["net/http.ResponseWriter.Write"] = func(x *Exec, fr *Frame, st *State, pc *preparedCall, k func(*State, []Value)) {
		w := x.asTerm(pc.recv)
		hw := st.ghostArr("httpwrites", SInt)
		hs := st.ghostArr("httpstatus", SInt)
		// an implicit 200 when nothing was written before
		st.setGhostArr("httpstatus", Store(hs, w, Ite(Eq(Select(hw, w), IntLit(0)), IntLit(200), Select(hs, w))))
		st.setGhostArr("httpwrites", Store(hw, w, Add(Select(hw, w), IntLit(1))))
		n := Var(x.fresh("written"), SInt)
		st.assumeRaw(Ge(n, IntLit(0)))
		k(st, []Value{IntV{n}, OpaqueV{T: Var(x.fresh("werr"), SInt), Type: types.Universe.Lookup("error").Type()}})
	}
	models["net/http.ResponseWriter.Header"] = func(x *Exec, fr *Frame, st *State, pc *preparedCall, k func(*State, []Value)) {
		// the header map of a writer is a function of the writer
		id := App("rwheader", SInt, x.asTerm(pc.recv))
		st.assumeRaw(Gt(id, IntLit(0)))
		mt := pc.fn.Type().(*types.Signature).Results().At(0).Type().Underlying().(*types.Map)
		k(st, []Value{MapV{ID: id, Type: mt}})
	}
	models["net/http.Request.Cookie"] = func(x *Exec, fr *Frame, st *State, pc *preparedCall, k func(*State, []Value)) {
		r := pc.recv.(PtrV)
		nameID := x.strID(st, pc.args[0].(StrV))
		has := App("reqcookie_has", SBool, r.Addr, nameID)
		sig := pc.fn.Type().(*types.Signature)
		ct := x.resolveType(sig.Results().At(0).Type())
		cp := x.zeroValue(ct).(PtrV)
		// found
		st1 := st.clone()
		st1.assumeRaw(has)
		cp.Addr = x.allocAddr(st1, "cookie")
		val := x.freshValue(st1, types.Typ[types.String], "cookieval").(StrV)
		st1.assumeRaw(Eq(x.strID(st1, val), App("reqcookie_val", SInt, r.Addr, nameID)))
		heapFieldLV{p: cp, field: "Value", ftype: types.Typ[types.String]}.Store(x, st1, val)
		k(st1, []Value{cp, OpaqueV{T: IntLit(0), Type: types.Universe.Lookup("error").Type()}})
		// not found: http.ErrNoCookie
		st.assumeRaw(Not(has))
		var errv Value = OpaqueV{T: Var(x.fresh("cookieerr"), SInt)}
		if hp := x.L.pkgOf("net/http"); hp != nil {
			if obj, ok := hp.Types.Scope().Lookup("ErrNoCookie").(*types.Var); ok {
				errv = x.globalValue(fr, st, obj)
			}
		}
		k(st, []Value{x.zeroValue(ct), errv})
	}
	// (*ServeMux).HandleFunc(pattern, handler): the handler may later be called with
	// any request; it is run here on a fresh writer and request and must then satisfy
	// the "handler-ensures" clauses of the function under contract.
	models["net/http.ServeMux.HandleFunc"] = modelHandleFunc
}

func modelHandleFunc(x *Exec, fr *Frame, st *State, pc *preparedCall, k func(*State, []Value)) {
	h, ok := pc.args[1].(FuncV)
	top := fr.top
	var clauses []string
	if top != nil && fr.depth == 0 {
		for _, g := range top.Contract.Ghost {
			if strings.HasPrefix(g, "handler-ensures ") {
				clauses = append(clauses, strings.TrimPrefix(g, "handler-ensures "))
			}
		}
	}
	if ok && h.Closure != nil && len(clauses) > 0 {
		st2 := st.clone()
		sig := h.Sig
		w := x.freshValue(st2, x.resolveType(sig.Params().At(0).Type()), "w")
		r := x.freshValue(st2, x.resolveType(sig.Params().At(1).Type()), "r")
		if wp, ok := w.(OpaqueV); ok {
			st2.assumeRaw(Gt(wp.T, IntLit(0)))
		}
		if rp, ok := r.(PtrV); ok {
			st2.assumeRaw(Gt(rp.Addr, IntLit(0)))
			st2.assumeRaw(Select(st2.alloc, rp.Addr))
		}
		pre := st2.clone()
		npc := &preparedCall{e: pc.e, closure: h.Closure, args: []Value{w, r}}
		if h.Closure.Lit == nil {
			npc.fn = h.Closure.Fn
			npc.closure = nil
		}
		st2.trace = append(st2.trace, "handler-run")
		x.invoke(fr, npc, st2, func(st3 *State, _ []Value) {
			for i, c := range clauses {
				e, err := ParseSpec(c)
				if err != nil {
					panic(x.unsupported("handler-ensures: " + err.Error()))
				}
				env := x.localEnv(fr, st3, pc.e)
				env.vars["w"] = w
				env.vars["r"] = r
				env.old = pre
				env.oldVars = nil
				x.oblige(fr, st3, "handler", fmt.Sprintf("%d@%s", i+1, x.siteLabel(pc.e)), x.specBool(env, e), pc.e)
				x.Obls[len(x.Obls)-1].Clause = e
			}
		})
	}
	k(st, nil)
}

func init() {
	// argon2.IDKey: a deterministic function of its arguments (cryptography assumed)
	models["golang.org/x/crypto/argon2.IDKey"] = func(x *Exec, fr *Frame, st *State, pc *preparedCall, k func(*State, []Value)) {
		pw, salt := pc.args[0].(StrV), pc.args[1].(StrV)
		r := x.freshValue(st, types.NewSlice(types.Typ[types.Byte]), "argon2").(StrV)
		st.assumeRaw(Eq(r.Len, pc.args[5].(IntV).T))
		st.assumeRaw(Eq(x.strID(st, r), App("argon2id", SInt, x.strID(st, pw), x.strID(st, salt), pc.args[2].(IntV).T, pc.args[3].(IntV).T, pc.args[4].(IntV).T, pc.args[5].(IntV).T)))
		st.ghost["lastkdf_pw"] = IntV{x.strID(st, pw)}
		st.ghost["lastkdf_out"] = IntV{x.strID(st, r)}
		k(st, []Value{r})
	}
	// subtle.ConstantTimeCompare: 1 iff equal content
	models["crypto/subtle.ConstantTimeCompare"] = func(x *Exec, fr *Frame, st *State, pc *preparedCall, k func(*State, []Value)) {
		a, b := pc.args[0].(StrV), pc.args[1].(StrV)
		eq := Eq(x.strID(st, a), x.strID(st, b))
		r := Ite(eq, IntLit(1), IntLit(0))
		st.ghost["lastcmp"] = IntV{r}
		st.ghost["lastcmp_a"] = IntV{x.strID(st, a)}
		k(st, []Value{IntV{r}})
	}
	models["crypto/rand.Text"] = func(x *Exec, fr *Frame, st *State, pc *preparedCall, k func(*State, []Value)) {
		r := x.freshValue(st, types.Typ[types.String], "randtext").(StrV)
		st.assumeRaw(Eq(r.Len, IntLit(26)))
		k(st, []Value{r})
	}
}
