package main

import (
	"flag"
	"fmt"
	"os"
	"sort"
	"strings"
	"sync"
	"time"
)

func main() {
	if len(os.Args) < 2 {
		fmt.Fprintln(os.Stderr, "usage: govc <check|funcs> ...")
		os.Exit(2)
	}
	switch os.Args[1] {
	case "funcs":
		cmdFuncs(os.Args[2:])
	case "check":
		cmdCheck(os.Args[2:])
	default:
		fmt.Fprintln(os.Stderr, "unknown command")
		os.Exit(2)
	}
}

// cmdFuncs verifies the named functions (debug front end): govc funcs -pkg ./proxy/headers name...
func cmdFuncs(args []string) {
	fs := flag.NewFlagSet("funcs", flag.ExitOnError)
	repo := fs.String("repo", "/repo", "repository root")
	timeout := fs.Duration("timeout", 10*time.Second, "per-obligation solver timeout")
	verbose := fs.Bool("v", false, "verbose")
	dump := fs.String("dump", "", "dump SMT of obligations whose name contains this")
	pkgs := fs.String("pkgs", "./...", "comma-separated package patterns to load")
	fs.Parse(args)
	defer cleanupScratch()
	t0 := time.Now()
	l, err := LoadRepo(*repo, strings.Split(*pkgs, ","))
	fmt.Fprintf(os.Stderr, "loaded in %.1fs\n", time.Since(t0).Seconds())
	if err != nil {
		fmt.Fprintln(os.Stderr, err)
		os.Exit(2)
	}
	cs, err := loadContracts(l, "/verif")
	if err != nil {
		fmt.Fprintln(os.Stderr, err)
		os.Exit(2)
	}
	x := NewExec(l, cs)
	x.loadDirectives()
	var keys []string
	for k, fc := range cs.Funcs {
		if fc.Assumed {
			continue
		}
		if len(fs.Args()) == 0 {
			keys = append(keys, k)
			continue
		}
		for _, a := range fs.Args() {
			if strings.Contains(k, a) {
				keys = append(keys, k)
			}
		}
	}
	sort.Strings(keys)
	for _, k := range keys {
		if len(cs.Funcs[k].Props) == 0 && len(cs.Funcs[k].Ensures) == 0 && !cs.Funcs[k].NoPanic {
			continue // frame-only contracts of interface methods and boundary functions
		}
		if err := x.VerifyFunc(k, cs.Funcs[k]); err != nil {
			fmt.Println("ERROR", err)
		}
	}
	fmt.Fprintf(os.Stderr, "executed in %.1fs\n", time.Since(t0).Seconds())
	results := dischargeAll(x, x.Obls, *timeout, false)
	fmt.Fprintf(os.Stderr, "discharged in %.1fs\n", time.Since(t0).Seconds())
	if *verbose {
		for i, r := range results {
			if r.Seconds > 1 {
				fmt.Fprintf(os.Stderr, "slow: %s %v\n", x.Obls[i].Name, r.Tried)
			}
		}
	}
	byName := map[string][]int{}
	var names []string
	for i, ob := range x.Obls {
		if _, ok := byName[ob.Name]; !ok {
			names = append(names, ob.Name)
		}
		byName[ob.Name] = append(byName[ob.Name], i)
	}
	for _, n := range names {
		status := "ok"
		detail := ""
		for _, i := range byName[n] {
			ob, r := x.Obls[i], results[i]
			if *dump != "" && strings.Contains(n, *dump) {
				q := buildQuery(ob)
				x.instantiateSpecs(q, 2)
				fmt.Println(q.SMT(nil, false))
			}
			if ob.Canary || ob.Cover {
				continue
			}
			if r.Status != "unsat" {
				status = "FAIL(" + r.Status + ")"
				detail = fmt.Sprintf("%s trace=%v %v", ob.Pos, ob.Trace, r.Tried)
			}
		}
		if strings.Contains(n, "#canary") || strings.Contains(n, "#cover") || strings.Contains(n, "#reach:") {
			anySat := false
			var sts []string
			for _, i := range byName[n] {
				if results[i].Status == "sat" {
					anySat = true
				}
				sts = append(sts, fmt.Sprint(results[i].Tried))
			}
			if !anySat && strings.Contains(n, "#reach:") {
				allUnsat := true
				for _, i := range byName[n] {
					if results[i].Status != "unsat" {
						allUnsat = false
					}
				}
				if allUnsat {
					fmt.Printf("DEADCLAUSE %s\n", n)
				}
			} else if !anySat {
				fmt.Printf("VACUOUS? %s %v\n", n, sts)
			} else if *verbose {
				fmt.Printf("ok(reachable) %s\n", n)
			}
			continue
		}
		if status != "ok" || *verbose {
			fmt.Printf("%s %s (%d paths) %s\n", status, n, len(byName[n]), detail)
		}
	}
	fmt.Printf("%d obligations (%d instances)\n", len(names), len(x.Obls))
	for a := range x.Abstractions {
		fmt.Println("abstraction:", a)
	}
}

func dischargeAll(x *Exec, obls []*Obligation, timeout time.Duration, all bool) []SolveResult {
	results := make([]SolveResult, len(obls))
	globalFacts = x.GlobalFacts
	// build queries sequentially (the executor is not thread-safe), solve in parallel
	queries := make([]*Query, len(obls))
	for i, ob := range obls {
		if ob.Goal.Op == "true" {
			results[i] = SolveResult{Status: "unsat", Solver: "syntactic"}
			continue
		}
		// conjuncts of the goal that are literally among the assumptions need no solver
		if ob.Goal.Op == "and" && !ob.Canary && !ob.Cover {
			have := map[string]bool{}
			var addA func(t *Term)
			addA = func(t *Term) {
				if t.Op == "and" {
					for _, a := range t.Args {
						addA(a)
					}
					return
				}
				have[t.canonString()] = true
			}
			for _, a := range ob.Assume {
				addA(a)
			}
			var rest []*Term
			for _, g := range ob.Goal.Args {
				if !have[g.canonString()] {
					rest = append(rest, g)
				}
			}
			if len(rest) == 0 {
				results[i] = SolveResult{Status: "unsat", Solver: "syntactic"}
				continue
			}
			if os.Getenv("GOVC_DEBUG_SYN") != "" {
				for _, r := range rest {
					fmt.Fprintf(os.Stderr, "syn-rest %s: %.300s\n", ob.Name, r.canonString())
				}
			}
			if len(rest) < len(ob.Goal.Args) {
				cp := *ob
				cp.Goal = And(rest...)
				ob = &cp
			}
		}
		q := buildQuery(ob)
		fuel := x.specFuel
		if fuel == 0 {
			fuel = 2
		}
		x.instantiateSpecs(q, fuel)
		queries[i] = q
	}
	var wg sync.WaitGroup
	sem := make(chan struct{}, 14)
	for i := range obls {
		if queries[i] == nil {
			continue
		}
		wg.Add(1)
		go func(i int) {
			defer wg.Done()
			sem <- struct{}{}
			defer func() { <-sem }()
			to := timeout
			if (obls[i].Canary || obls[i].Cover) && to > 3*time.Second {
				to = 3 * time.Second
			}
			results[i] = solveQuery(queries[i], to, all && !obls[i].Canary && !obls[i].Cover)
		}(i)
	}
	wg.Wait()
	// An obligation left undecided is tried once more with five times the time and little
	// competition for the cores: a loaded machine must not turn a 3-second proof into an alarm.
	var again []int
	for i := range obls {
		if queries[i] != nil && results[i].Status == "unknown" && results[i].Solver != "disagreement" && !obls[i].Canary && !obls[i].Cover {
			again = append(again, i)
		}
	}
	if len(again) > 0 && len(again) <= 12 && timeout <= 20*time.Second {
		sem2 := make(chan struct{}, 4)
		for _, i := range again {
			wg.Add(1)
			go func(i int) {
				defer wg.Done()
				sem2 <- struct{}{}
				defer func() { <-sem2 }()
				r2 := solveQuery(queries[i], 5*timeout, false)
				if r2.Status == "unsat" || r2.Status == "sat" {
					r2.Tried = append(append([]string{}, results[i].Tried...), append([]string{"retry:"}, r2.Tried...)...)
					results[i] = r2
				}
			}(i)
		}
		wg.Wait()
	}
	return results
}


// buildQuery applies the state-hint instantiation of quantifiers.
var globalFacts []*Term

// relevantGlobals keeps the global facts that share an uninterpreted symbol with the obligation.
func relevantGlobals(ob *Obligation) []*Term {
	if len(globalFacts) == 0 {
		return nil
	}
	syms := map[string]bool{}
	add := func(t *Term) {
		t.walk(func(s *Term) {
			if s.Op == "app" {
				syms[s.Name] = true
			}
		})
	}
	for _, a := range ob.Assume {
		add(a)
	}
	if ob.Goal != nil {
		add(ob.Goal)
	}
	var out []*Term
	for _, g := range globalFacts {
		hit := false
		g.walk(func(s *Term) {
			if s.Op == "app" && !builtinApps[s.Name] && syms[s.Name] {
				hit = true
			}
		})
		if hit {
			out = append(out, g)
		}
	}
	return out
}

func buildQuery(ob *Obligation) *Query {
	gf := relevantGlobals(ob)
	if len(ob.Hints) == 0 || ob.Canary || ob.Cover {
		return &Query{Assume: append(append([]*Term{}, gf...), ob.Assume...), Goal: ob.Goal}
	}
	q := &Query{Goal: instQuant(ob.Goal, false, ob.Hints, 0)}
	q.Assume = append(q.Assume, gf...)
	for _, a := range ob.Assume {
		q.Assume = append(q.Assume, instQuant(a, true, ob.Hints, 0))
	}
	return q
}
