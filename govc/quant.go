package main

// Heuristic quantifier instantiation with ground terms taken from the
// symbolic state (values of integer locals and ghost variables, +-1).  Sound:
// instances of assumed universals are conjoined, instances of existentials to
// be proved are disjoined.

func termSize(t *Term) int {
	n := 1
	for _, a := range t.Args {
		n += termSize(a)
	}
	return n
}

func (x *Exec) stateHints(st *State) []*Term {
	seen := map[string]bool{}
	var out []*Term
	add := func(t *Term) {
		if t == nil || t.Sort != SInt || termSize(t) > 7 {
			return
		}
		for _, c := range []*Term{t, Add(t, IntLit(1)), Sub(t, IntLit(1))} {
			k := c.String()
			if !seen[k] {
				seen[k] = true
				out = append(out, c)
			}
		}
	}
	var addV func(v Value, depth int)
	addV = func(v Value, depth int) {
		switch vv := v.(type) {
		case IntV:
			add(vv.T)
		case StrV:
			add(vv.Len)
		case StructV:
			if depth < 2 {
				for _, n := range vv.Names {
					addV(vv.F[n], depth+1)
				}
			}
		}
	}
	for _, v := range st.vars {
		addV(v, 0)
	}
	for _, v := range st.ghost {
		if v != nil {
			addV(v, 0)
		}
	}
	if len(out) > 45 {
		out = out[:45]
	}
	return out
}

// instQuant strengthens t with instances.  hyp reports whether t occurs as an
// assumption (true) or as a goal to be proved (false).
func instQuant(t *Term, hyp bool, hints []*Term, depth int) *Term {
	if len(hints) == 0 || depth > 6 {
		return t
	}
	switch t.Op {
	case "and", "or":
		args := make([]*Term, len(t.Args))
		changed := false
		for i, a := range t.Args {
			args[i] = instQuant(a, hyp, hints, depth+1)
			if args[i] != a {
				changed = true
			}
		}
		if !changed {
			return t
		}
		if t.Op == "and" {
			return And(args...)
		}
		return Or(args...)
	case "not":
		a := instQuant(t.Args[0], !hyp, hints, depth+1)
		if a == t.Args[0] {
			return t
		}
		return Not(a)
	case "=>":
		a := instQuant(t.Args[0], !hyp, hints, depth+1)
		b := instQuant(t.Args[1], hyp, hints, depth+1)
		if a == t.Args[0] && b == t.Args[1] {
			return t
		}
		return Implies(a, b)
	case "forall", "exists":
		if len(t.Bound) != 1 || t.Bound[0].Sort != SInt {
			return t
		}
		if (t.Op == "forall") != hyp {
			return t
		}
		parts := []*Term{t}
		for _, h := range hints {
			parts = append(parts, t.Args[0].subst(map[string]*Term{t.Bound[0].Name: h}))
		}
		if hyp {
			return And(parts...)
		}
		return Or(parts...)
	}
	return t
}
