package main

// Symbolic executor over go/ast + go/types.  Continuation-passing style: every
// evaluation may fork the state, each path runs depth-first to its end.

import (
	"fmt"
	"go/ast"
	"go/constant"
	"go/token"
	"go/types"
	"math/big"
	"sort"
	"strings"

	"golang.org/x/tools/go/packages"
)

type Obligation struct {
	Name    string // <pkg>.<Func>#<kind>:<label>
	Func    string
	Kind    string
	Label   string
	Assume  []*Term
	Goal    *Term
	Pos     string
	Trace   []string
	Props   []string
	Tag     string
	Inputs  map[string]Value // parameter values at function entry (for replay)
	Canary  bool             // must be satisfiable (goal false expected to FAIL)
	Cover   bool
	Soft    bool // reachability probe that is reported, not part of the verdict
	Results map[string]Value
	Clause  *SExpr // violated clause (for replay evaluation)
	Hints   []*Term
}

type unsupportedErr struct{ msg string }

func (e unsupportedErr) Error() string { return e.msg }

type Frame struct {
	pkg      *packages.Package
	fn       *types.Func
	sig      *types.Signature
	ret      func(st *State, vals []Value)
	results  []*types.Var
	breakK   map[ast.Stmt]func(*State)
	contK    map[ast.Stmt]func(*State)
	targets  map[*ast.BranchStmt]ast.Stmt
	loopOrd  map[ast.Stmt]int
	contract *FuncContract
	tsubst   map[*types.TypeParam]types.Type
	top      *FuncCtx
	depth    int
	defers   *[]func(st *State, k func(*State))
	parent   *Frame
}

type FuncCtx struct {
	Name      string // pkgpath.Func
	Short     string
	Contract  *FuncContract
	NoPanic   bool
	NoOvf     bool
	Entry     *State
	ResultAlias []string // result names of the function-field contract this closure implements
	Params    map[string]Value // entry values by name
	ParamT    map[string]types.Type
	Results   map[string]Value
	Props     []string
	Pkg       *packages.Package
	counts    map[string]int
	retCount  int
	usesLocks bool
}

type Exec struct {
	L                   *Loader
	C                   *Contracts
	counter             int
	Obls                []*Obligation
	cur                 *FuncCtx
	Abstractions        map[string]bool
	Trusted             map[string]bool
	paths               int
	maxPaths            int
	tsubstStack         []map[*types.TypeParam]types.Type
	inlineStack         []string
	posFset             *token.FileSet
	globals             map[types.Object]Value
	errIDs              map[types.Object]int64
	strLits             map[string]int64
	specDepth           int
	UsedSpecs           map[string]bool
	FuncsDone           []string
	Errors              []string
	constMaps           map[types.Object]*ConstMap
	quantN              int
	tsub                map[*types.TypeParam]types.Type
	heapEpoch           int
	mayWriteDepth       int
	iterSources         map[string]iterSource
	specFuel            int
	usesLenMemo         map[string]bool
	recMemo             map[string]bool
	closureIDs          map[*ClosureRef]int64
	concreteSolverCalls int
	GlobalFacts         []*Term
	freshErrs           []*Term
	sumRules            []sumRule
	lastMapOld          Value
	curFrame            *Frame
	curNode             ast.Node
	inSpec              int
	ioErrAxiomDone      bool
	sentinelAxiomDone   bool
	injDone             map[string]bool
	pathCleanDone       bool
	concatDone          bool
	indexedAccess       bool
	canonAxiomDone      bool
	reachCount          map[string]int
	pathAxiomsDone      bool
	assignSrcType       types.Type
	lockRules           []lockRule
	guardRules          []guardRule
}

func (x *Exec) fresh(base string) string {
	x.counter++
	if base == "" {
		base = "t"
	}
	return fmt.Sprintf("%s_%d", base, x.counter)
}

func (x *Exec) unsupported(what string) unsupportedErr {
	return unsupportedErr{what}
}

func (x *Exec) pos(n ast.Node) string {
	if n == nil || !n.Pos().IsValid() {
		return ""
	}
	p := x.posFset.Position(n.Pos())
	f := p.Filename
	if i := strings.Index(f, "/repo/"); i >= 0 {
		f = f[i+6:]
	}
	return fmt.Sprintf("%s:%d", f, p.Line)
}

func (x *Exec) resolveType(t types.Type) types.Type {
	t = types.Unalias(t)
	if tp, ok := t.(*types.TypeParam); ok {
		if r, ok := x.tsub[tp]; ok && r != t {
			return r
		}
		return t
	}
	if len(x.tsub) == 0 {
		return t
	}
	// substitute inside composite types when they mention type parameters
	switch u := t.(type) {
	case *types.Named:
		if u.TypeArgs() != nil && u.TypeArgs().Len() > 0 {
			changed := false
			args := make([]types.Type, u.TypeArgs().Len())
			for i := range args {
				a := u.TypeArgs().At(i)
				r := x.resolveType(a)
				args[i] = r
				if r != types.Unalias(a) {
					changed = true
				}
			}
			if changed {
				inst, err := types.Instantiate(nil, u.Origin(), args, false)
				if err == nil {
					return inst
				}
			}
		}
	case *types.Pointer:
		e := x.resolveType(u.Elem())
		if e != types.Unalias(u.Elem()) {
			return types.NewPointer(e)
		}
	case *types.Slice:
		e := x.resolveType(u.Elem())
		if e != types.Unalias(u.Elem()) {
			return types.NewSlice(e)
		}
	case *types.Map:
		k, e := x.resolveType(u.Key()), x.resolveType(u.Elem())
		if k != types.Unalias(u.Key()) || e != types.Unalias(u.Elem()) {
			return types.NewMap(k, e)
		}
	}
	return t
}

func (x *Exec) typeOf(fr *Frame, e ast.Expr) types.Type {
	x.tsub = fr.tsubst
	t := fr.pkg.TypesInfo.TypeOf(e)
	if t == nil {
		panic(x.unsupported("no type for expression at " + x.pos(e)))
	}
	return x.resolveType(t)
}

// ---------------------------------------------------------------- obligations

func (x *Exec) oblige(fr *Frame, st *State, kind, label string, goal *Term, n ast.Node) {
	if st.dead {
		return
	}
	goal = Implies(st.guard(), goal)
	if goal.Op == "true" {
		// still count it: discharged syntactically
	}
	c := x.cur
	key := kind + ":" + label
	_ = key
	ob := &Obligation{
		Func:   c.Name,
		Kind:   kind,
		Label:  label,
		Name:   c.Name + "#" + kind + ":" + label,
		Assume: append([]*Term(nil), st.pc...),
		Goal:   goal,
		Pos:    x.pos(n),
		Trace:  append([]string(nil), st.trace...),
		Props:  c.Props,
		Inputs: c.Params,
		Hints:  x.stateHints(st),
	}
	x.Obls = append(x.Obls, ob)
}

// safety emits a run-time-panic obligation when the function is nopanic, and
// in any case assumes the condition afterwards (a panicking path does not reach
// the postcondition).
func (x *Exec) safety(fr *Frame, st *State, kind string, n ast.Node, cond *Term) {
	if fr.top != nil && fr.top.NoPanic {
		x.oblige(fr, st, kind, x.siteLabel(n), cond, n)
	}
	st.assume(cond)
}

// siteLabel names a site by its source text and ordinal within the function under verification.
func (x *Exec) siteLabel(n ast.Node) string {
	txt := x.L.nodeText(n)
	if len(txt) > 60 {
		txt = txt[:60]
	}
	txt = strings.Join(strings.Fields(txt), " ")
	c := x.cur
	if c.counts == nil {
		c.counts = map[string]int{}
	}
	key := fmt.Sprintf("%s@%d", txt, n.Pos())
	if v, ok := c.counts[key]; ok {
		return fmt.Sprintf("%s@%d", txt, v)
	}
	c.counts["#"+txt]++
	c.counts[key] = c.counts["#"+txt]
	return fmt.Sprintf("%s@%d", txt, c.counts[key])
}

// ---------------------------------------------------------------- constants and globals

func (x *Exec) constValue(t types.Type, v constant.Value) Value {
	switch v.Kind() {
	case constant.Bool:
		return BoolV{BoolLit(constant.BoolVal(v))}
	case constant.Int:
		bi, ok := new(big.Int).SetString(v.ExactString(), 10)
		if !ok {
			panic(x.unsupported("big constant"))
		}
		return IntV{BigLit(bi)}
	case constant.String:
		return x.strLit(constant.StringVal(v))
	case constant.Float:
		// only integral float constants are supported exactly
		if i, ok := constant.Int64Val(constant.ToInt(v)); ok && constant.ToInt(v).Kind() == constant.Int {
			if b, isB := t.Underlying().(*types.Basic); isB && b.Info()&types.IsInteger != 0 {
				return IntV{IntLit(i)}
			}
		}
		o := OpaqueV{T: App("floatconst_"+sanitize(v.ExactString()), SInt), Type: t}
		if n, ok1 := new(big.Int).SetString(constant.Num(v).ExactString(), 10); ok1 {
			if d, ok2 := new(big.Int).SetString(constant.Denom(v).ExactString(), 10); ok2 && d.Sign() > 0 {
				o.Num, o.Den = BigLit(n), d
			}
		}
		return o
	}
	panic(x.unsupported("constant kind"))
}

func (x *Exec) strLit(s string) StrV {
	// ((as const) 0) with stores
	arr := ConstArr(SArr, IntLit(0))
	for i := 0; i < len(s); i++ {
		arr = Store(arr, IntLit(int64(i)), IntLit(int64(s[i])))
	}
	return StrV{Arr: arr, Off: IntLit(0), Len: IntLit(int64(len(s)))}
}

// literal content of a StrV if it is a literal
func strLitOf(s StrV) (string, bool) {
	if s.Off.Op != "int" || s.Len.Op != "int" || s.Off.Int.Sign() != 0 {
		return "", false
	}
	n := int(s.Len.Int.Int64())
	buf := make([]byte, n)
	seen := make([]bool, n)
	a := s.Arr
	for a.Op == "store" {
		if a.Args[1].Op != "int" || a.Args[2].Op != "int" {
			return "", false
		}
		i := int(a.Args[1].Int.Int64())
		if i < n && !seen[i] {
			buf[i] = byte(a.Args[2].Int.Int64())
			seen[i] = true
		}
		a = a.Args[0]
	}
	if a.Op != "constarr" {
		return "", false
	}
	for i := range seen {
		if !seen[i] {
			return "", false
		}
	}
	return string(buf), true
}

func (x *Exec) strAt(s StrV, i *Term) *Term { return Select(s.Arr, Add(s.Off, i)) }

func (x *Exec) strEq(a, b StrV) *Term {
	if la, ok := strLitOf(a); ok {
		if lb, ok2 := strLitOf(b); ok2 {
			return BoolLit(la == lb)
		}
		a, b = b, a
	}
	if lb, ok := strLitOf(b); ok {
		cs := []*Term{Eq(a.Len, IntLit(int64(len(lb))))}
		for i := 0; i < len(lb); i++ {
			cs = append(cs, Eq(x.strAt(a, IntLit(int64(i))), IntLit(int64(lb[i]))))
		}
		return And(cs...)
	}
	if termEqualSyntactic(a.Arr, b.Arr) && termEqualSyntactic(a.Off, b.Off) && termEqualSyntactic(a.Len, b.Len) {
		return TTrue
	}
	x.quantN++
	i := Var(fmt.Sprintf("qi_%d", x.quantN), SInt)
	return And(Eq(a.Len, b.Len), Forall([]*Term{i}, Implies(And(Le(IntLit(0), i), Lt(i, a.Len)), Eq(x.strAt(a, i), x.strAt(b, i)))))
}

func (x *Exec) globalValue(fr *Frame, st *State, obj *types.Var) Value {
	if v, ok := x.globals[obj]; ok {
		return v
	}
	t := x.resolveType(obj.Type())
	name := "G_" + obj.Pkg().Name() + "_" + obj.Name()
	var v Value
	if types.Identical(t, types.Universe.Lookup("error").Type()) {
		// sentinel errors: distinct non-nil constants
		id, ok := x.errIDs[obj]
		if !ok {
			id = int64(1000 + len(x.errIDs))
			x.errIDs[obj] = id
		}
		v = OpaqueV{T: IntLit(id), Type: t}
	} else if cv := x.constInitOf(obj); cv != nil {
		v = cv
	} else if cm := x.constMapOf(obj); cm != nil {
		v = MapV{ID: IntLit(int64(-1 - len(x.constMaps))), Type: t.Underlying().(*types.Map), Const: cm}
	} else {
		tmp := &State{}
		v = x.fromLeaves(t, "", func(li leafInfo) *Term {
			g := App(name+sanitize(li.Path), li.Sort)
			_ = tmp
			return g
		})
		if p, ok := v.(PtrV); ok && x.globalHasInit(obj) {
			// package-level pointers with an initialiser are non-nil and allocated
			// (assumes the variable is not reassigned to nil; listed in the evidence)
			x.GlobalFacts = append(x.GlobalFacts, Gt(p.Addr, IntLit(0)), allocAt(Var("alloc0", SInt), p.Addr))
			x.Trusted["package-level pointer "+obj.Pkg().Name()+"."+obj.Name()+" is initialised at start-up and never nil"] = true
		}
		if m, ok := v.(MapV); ok && x.globalHasInit(obj) {
			x.GlobalFacts = append(x.GlobalFacts, Gt(m.ID, IntLit(0)))
		}
	}
	x.globals[obj] = v
	return v
}

// constMapOf recognises package-level maps initialised by a literal with constant keys.
func (x *Exec) constMapOf(obj *types.Var) *ConstMap {
	if cm, ok := x.constMaps[obj]; ok {
		return cm
	}
	if _, ok := obj.Type().Underlying().(*types.Map); !ok {
		return nil
	}
	pkg := x.L.pkgOf(obj.Pkg().Path())
	if pkg == nil {
		return nil
	}
	for _, f := range pkg.Syntax {
		for _, d := range f.Decls {
			gd, ok := d.(*ast.GenDecl)
			if !ok || gd.Tok != token.VAR {
				continue
			}
			for _, sp := range gd.Specs {
				vs := sp.(*ast.ValueSpec)
				for i, n := range vs.Names {
					if pkg.TypesInfo.Defs[n] != obj || i >= len(vs.Values) {
						continue
					}
					cl, ok := vs.Values[i].(*ast.CompositeLit)
					if !ok {
						return nil
					}
					cm := &ConstMap{Name: obj.Pkg().Name() + "." + obj.Name()}
					for _, el := range cl.Elts {
						kv := el.(*ast.KeyValueExpr)
						ktv := pkg.TypesInfo.Types[kv.Key]
						vtv := pkg.TypesInfo.Types[kv.Value]
						if ktv.Value == nil || vtv.Value == nil {
							return nil
						}
						kval, ok1 := x.constValue(ktv.Type, ktv.Value).(IntV)
						if !ok1 {
							return nil
						}
						cm.Keys = append(cm.Keys, kval.T)
						cm.Vals = append(cm.Vals, x.constValue(vtv.Type, vtv.Value))
					}
					x.constMaps[obj] = cm
					return cm
				}
			}
		}
	}
	return nil
}

// ---------------------------------------------------------------- l-values

type varLV struct{ obj types.Object }

func (l varLV) Load(x *Exec, st *State) Value {
	if p, ok := st.boxed[l.obj]; ok {
		return x.heapLoad(st, p)
	}
	v, ok := st.vars[l.obj]
	if !ok {
		panic(x.unsupported("read of unbound variable " + l.obj.Name()))
	}
	return v
}
func (l varLV) Store(x *Exec, st *State, v Value) {
	if p, ok := st.boxed[l.obj]; ok {
		x.heapStore(st, p, v)
		return
	}
	st.vars[l.obj] = v
}

// globalLV is a package-level variable: its value in a path is the symbolic
// global until the path assigns to it.
type globalLV struct {
	obj *types.Var
	fr  *Frame
}

func (l globalLV) Load(x *Exec, st *State) Value {
	if v, ok := st.vars[l.obj]; ok {
		return v
	}
	if v, ok := x.globalInitValue(st, l.obj); ok {
		st.vars[l.obj] = v
		return v
	}
	return x.globalValue(l.fr, st, l.obj)
}
func (l globalLV) Store(x *Exec, st *State, v Value) { st.vars[l.obj] = v }

type fieldLV struct {
	base LVal
	name string
}

func (l fieldLV) Load(x *Exec, st *State) Value {
	b := l.base.Load(x, st).(StructV)
	return b.F[l.name]
}
func (l fieldLV) Store(x *Exec, st *State, v Value) {
	b := l.base.Load(x, st).(StructV)
	nb := StructV{Type: b.Type, Names: b.Names, F: map[string]Value{}}
	for k, fv := range b.F {
		nb.F[k] = fv
	}
	nb.F[l.name] = v
	l.base.Store(x, st, nb)
}

// heapLV is *p (whole pointee) for p with heap prefix.
type heapLV struct{ p PtrV }

func (l heapLV) Load(x *Exec, st *State) Value     { return x.heapLoad(st, l.p) }
func (l heapLV) Store(x *Exec, st *State, v Value) { x.heapStore(st, l.p, v) }

// heapFieldLV is p.f for a pointer to struct.
type heapFieldLV struct {
	p     PtrV
	field string
	ftype types.Type
}

func (l heapFieldLV) Load(x *Exec, st *State) Value {
	return x.heapLoad(st, PtrV{Addr: l.p.Addr, Prefix: l.p.Prefix + "." + l.field, Elem: l.ftype})
}
func (l heapFieldLV) Store(x *Exec, st *State, v Value) {
	x.heapStore(st, PtrV{Addr: l.p.Addr, Prefix: l.p.Prefix + "." + l.field, Elem: l.ftype}, v)
}

type indexLV struct {
	base LVal
	idx  *Term
}

func (l indexLV) Load(x *Exec, st *State) Value {
	switch b := l.base.Load(x, st).(type) {
	case SliceV:
		return x.sliceAt(b, l.idx)
	case StrV:
		return IntV{x.strAt(b, l.idx)}
	}
	panic(x.unsupported("index l-value base"))
}
func (l indexLV) Store(x *Exec, st *State, v Value) {
	switch b := l.base.Load(x, st).(type) {
	case SliceV:
		l.base.Store(x, st, x.sliceSet(b, l.idx, v))
	case StrV:
		nb := StrV{Arr: Store(b.Arr, Add(b.Off, l.idx), v.(IntV).T), Off: b.Off, Len: b.Len}
		l.base.Store(x, st, nb)
	default:
		panic(x.unsupported("index l-value base"))
	}
}

type mapLV struct {
	m   MapV
	key *Term
}

func (l mapLV) Load(x *Exec, st *State) Value {
	v, _ := x.mapGet(st, l.m, l.key)
	return v
}
func (l mapLV) Store(x *Exec, st *State, v Value) {
	// m[k] = s for a slice s that still belongs to something on the heap (a row of another map,
	// a field of a stored object) makes two owners share one backing array: slices are values in
	// this model, so the alias is refused where it would be created (an append through one owner
	// writes memory the other reads - the shared header slices of a stored response, say)
	if sv, ok := v.(SliceV); ok && x.curFrame != nil && x.cur != nil && !st.dead && x.inSpec == 0 {
		shared := false
		check := func(t *Term) {
			if t == nil {
				return
			}
			t.walk(func(u *Term) {
				if u.Op == "var" && isHeapArrayVar(u.Name) {
					shared = true
				}
			})
		}
		check(sv.Base)
		for _, lt := range sv.Leaves {
			check(lt)
		}
		if shared {
			x.oblige(x.curFrame, st, "pre", "map-store/owned-slice@"+x.siteLabelOrFunc(), Eq(sv.Len, IntLit(0)), x.curNode)
			x.Obls[len(x.Obls)-1].Tag = "C15,C01,C08"
		}
	}
	x.mapSet(st, l.m, l.key, v)
}

type blankLV struct{}

func (blankLV) Load(x *Exec, st *State) Value     { panic("load of _") }
func (blankLV) Store(x *Exec, st *State, v Value) {}

func (x *Exec) sliceAt(s SliceV, i *Term) Value {
	m := map[string]*Term{}
	for _, p := range s.Order {
		m[p] = Select(s.Leaves[p], Add(s.Off, i))
	}
	return x.fromLeafMap(s.Elem, m)
}

func (x *Exec) sliceSet(s SliceV, i *Term, v Value) SliceV {
	lm := x.leafMap(v)
	ns := SliceV{Elem: s.Elem, Leaves: map[string]*Term{}, Order: s.Order, Off: s.Off, Len: s.Len, Base: s.Base}
	for _, p := range s.Order {
		ns.Leaves[p] = Store(s.Leaves[p], Add(s.Off, i), lm[p])
	}
	return ns
}

// ---------------------------------------------------------------- heap

func (st *State) heapArr(key string, elem *Sort) *Term {
	if a, ok := st.heap[key]; ok {
		return a
	}
	name := fmt.Sprintf("H%d_%s", st.epoch, sanitize(key))
	for _, lh := range st.lazyHavoc {
		if (!lh.prefixOnly && strings.Contains(key, lh.pat)) || (lh.prefixOnly && strings.HasPrefix(key, lh.pat)) {
			prev := name
			name = fmt.Sprintf("H%d_%s_%s", st.epoch, sanitize(key), lh.tag)
			if lh.newOnly {
				q := Var("qn_"+lh.tag+"_"+sanitize(key), SInt)
				st.assumeRaw(Forall([]*Term{q}, Implies(allocAt(lh.alloc, q), Eq(Select(Var(name, ArrOf(elem)), q), Select(Var(prev, ArrOf(elem)), q)))))
			}
			if lh.only != nil {
				q := Var("qn_"+lh.tag+"_"+sanitize(key), SInt)
				st.assumeRaw(Forall([]*Term{q}, Implies(Ne(q, lh.only), Eq(Select(Var(name, ArrOf(elem)), q), Select(Var(prev, ArrOf(elem)), q)))))
			}
		}
	}
	a := Var(name, ArrOf(elem))
	st.heap[key] = a
	return a
}

func (x *Exec) heapLoad(st *State, p PtrV) Value {
	if p.LV != nil {
		return p.LV.Load(x, st)
	}
	x.guardCheck(st, p.Prefix, p.Addr, false)
	v := x.fromLeaves(p.Elem, "", func(li leafInfo) *Term {
		if li.Kind == "off" {
			// views stored in the heap are normalised to offset 0 (see rebase)
			return IntLit(0)
		}
		t := Select(st.heapArr(p.Prefix+li.Path, li.Sort), p.Addr)
		x.assumeLeaf(st, li, t)
		return t
	})
	return v
}

// assumeLeaf records the well-formedness of one loaded leaf: machine-integer
// range, non-negative bounded lengths, non-negative identities.
func (x *Exec) assumeLeaf(st *State, li leafInfo, t *Term) {
	if t.IsConst() {
		return
	}
	switch li.Kind {
	case "int":
		if k, ok := basicIntKind(li.Basic); ok {
			st.assumeRaw(inRange(k, t))
		}
	case "len", "off":
		st.assumeRaw(And(Le(IntLit(0), t), Le(t, IntLit(1<<40))))
	case "ptr", "map", "base":
		// object identities live below 2^48; ghost identities (response header maps) above
		st.assumeRaw(And(Le(IntLit(0), t), Le(t, IntLit(1<<48))))
		if li.Kind != "base" && st.alloc != nil {
			// no dangling references: what a stored pointer or map value denotes is allocated
			st.assumeRaw(Or(Eq(t, IntLit(0)), allocAt(st.alloc, t)))
		}
	case "opaque", "func":
		st.assumeRaw(Le(IntLit(0), t))
	}
}

func isZeroLit(t *Term) bool { return t.Op == "int" && t.Int.Sign() == 0 }

// rebase normalises every string / slice view inside v to offset 0 by
// introducing fresh arrays that agree with the old ones on the viewed range.
// Values are stored in the heap and in maps in this form, so that quantified
// facts about stored sequences index their arrays by the bound variable alone.
func (x *Exec) rebase(st *State, v Value) Value {
	switch vv := v.(type) {
	case StrV:
		if isZeroLit(vv.Off) {
			return vv
		}
		arr := Var(x.fresh("rb"), SArr)
		k := x.qvar("rb")
		st.assumeRaw(Forall([]*Term{k}, Implies(And(Le(IntLit(0), k), Lt(k, vv.Len)), Eq(Select(arr, k), Select(vv.Arr, Add(vv.Off, k))))))
		return StrV{Arr: arr, Off: IntLit(0), Len: vv.Len}
	case SliceV:
		if isZeroLit(vv.Off) {
			return vv
		}
		ns := SliceV{Elem: vv.Elem, Leaves: map[string]*Term{}, Order: vv.Order, Off: IntLit(0), Len: vv.Len, Base: vv.Base}
		for _, p := range vv.Order {
			arr := Var(x.fresh("rb"+sanitize(p)), vv.Leaves[p].Sort)
			k := x.qvar("rb")
			st.assumeRaw(Forall([]*Term{k}, Implies(And(Le(IntLit(0), k), Lt(k, vv.Len)), Eq(Select(arr, k), Select(vv.Leaves[p], Add(vv.Off, k))))))
			ns.Leaves[p] = arr
		}
		return ns
	case StructV:
		changed := false
		n := StructV{Type: vv.Type, Names: vv.Names, F: map[string]Value{}}
		for _, f := range vv.Names {
			n.F[f] = x.rebase(st, vv.F[f])
			if fmt.Sprintf("%p", n.F[f]) != fmt.Sprintf("%p", vv.F[f]) {
				changed = true
			}
		}
		_ = changed
		return n
	}
	return v
}

// assumeLoaded records well-formedness facts about values read from the heap:
// machine-integer ranges, non-negative lengths.
func (x *Exec) assumeLoaded(st *State, v Value) {
	x.fromLeavesOfValue(v, func(li leafInfo, t *Term) {
		if t.IsConst() {
			return
		}
		switch li.Kind {
		case "int":
			if k, ok := basicIntKind(li.Basic); ok {
				st.assumeRaw(inRange(k, t))
			}
		case "len", "off":
			st.assumeRaw(And(Le(IntLit(0), t), Le(t, IntLit(1<<40))))
		case "ptr", "map", "opaque", "func", "base":
			st.assumeRaw(Le(IntLit(0), t))
		}
	})
}

// fromLeavesOfValue walks the leaves of v together with their leaf infos.
func (x *Exec) fromLeavesOfValue(v Value, f func(leafInfo, *Term)) {
	var t types.Type
	switch vv := v.(type) {
	case StructV:
		t = vv.Type
	default:
		// single leaf values: derive info from the value kind
		switch vv := v.(type) {
		case IntV:
			f(leafInfo{Kind: "mathint", Sort: SInt}, vv.T)
		case StrV:
			f(leafInfo{Kind: "len", Sort: SInt}, vv.Len)
			f(leafInfo{Kind: "off", Sort: SInt}, vv.Off)
		case PtrV:
			f(leafInfo{Kind: "ptr", Sort: SInt}, vv.Addr)
		case MapV:
			f(leafInfo{Kind: "map", Sort: SInt}, vv.ID)
		case OpaqueV:
			f(leafInfo{Kind: "opaque", Sort: SInt}, vv.T)
		case SliceV:
			f(leafInfo{Kind: "len", Sort: SInt}, vv.Len)
			f(leafInfo{Kind: "off", Sort: SInt}, vv.Off)
		}
		return
	}
	lm := x.leafMap(v)
	x.fromLeaves(t, "", func(li leafInfo) *Term {
		if tt, ok := lm[li.Path]; ok {
			f(li, tt)
			return tt
		}
		return zeroOfSort(li.Sort)
	})
}

func (x *Exec) heapStore(st *State, p PtrV, v Value) {
	if p.LV != nil {
		p.LV.Store(x, st, v)
		return
	}
	x.guardCheck(st, p.Prefix, p.Addr, true)
	v = x.rebase(st, v)
	var ls []struct {
		Path string
		T    *Term
	}
	x.leavesOf(v, "", &ls)
	for _, l := range ls {
		if l.T.Sort == SInt && strings.HasSuffix(l.Path, ".off") {
			continue // always 0 after rebase
		}
		key := p.Prefix + l.Path
		arr := st.heapArr(key, l.T.Sort)
		st.heap[key] = Store(arr, p.Addr, l.T)
	}
}

// alloc returns a fresh non-nil address.
func (x *Exec) allocAddr(st *State, hint string) *Term {
	a := Var(x.fresh("addr_"+sanitize(hint)), SInt)
	st.assumeRaw(And(Gt(a, IntLit(0)), Le(a, IntLit(1<<48))))
	// allocation time stamps: the new object is the one allocated at the next tick
	st.alloc = Add(st.alloc, IntLit(1))
	st.assumeRaw(Eq(App("alloctime", SInt, a), st.alloc))
	if strings.Contains(hint, "Closer") || strings.Contains(hint, "file") || strings.Contains(hint, "handle") {
		// a handle that did not exist yet has not been closed
		st.assumeRaw(Eq(Select(st.ghostArr("closedh", SInt), a), IntLit(0)))
	}
	if _, ok := st.ghost["hijacked"]; ok || strings.Contains(hint, "Responder") {
		// nothing can have hijacked a responder that did not exist yet
		st.assumeRaw(Eq(Select(st.ghostArr("hijacked", SInt), a), IntLit(0)))
	}
	return a
}

func (x *Exec) assumeAllocated(st *State, addr *Term) {
	if addr.IsConst() {
		return
	}
	st.assumeRaw(Or(Eq(addr, IntLit(0)), allocAt(st.alloc, addr)))
}

// ---------------------------------------------------------------- maps

func mapKeyStr(m MapV) string { return "map_" + typeKey(m.Type) }

func (x *Exec) keyTerm(st *State, v Value) *Term {
	switch k := v.(type) {
	case IntV:
		return k.T
	case OpaqueV:
		return k.T
	case PtrV:
		return k.Addr
	case StrV:
		return x.strID(st, k)
	case StructV:
		// single-field structs (CacheKey{Hex string}) reduce to their field
		if len(k.Names) == 1 {
			return x.keyTerm(st, k.F[k.Names[0]])
		}
	}
	panic(x.unsupported(fmt.Sprintf("map key of kind %T", v)))
}

// strID maps string content to an identity: literals get fixed ids, symbolic
// strings an uninterpreted function of their view.  Distinct content may be
// given distinct or equal ids by the solver unless related by the lemmas below.
func (x *Exec) strID(st *State, s StrV) *Term {
	if lit, ok := strLitOf(s); ok {
		id, ok := x.strLits[lit]
		if !ok {
			id = int64(5000 + len(x.strLits))
			x.strLits[lit] = id
		}
		return IntLit(id)
	}
	return App("strid", SInt, s.Arr, s.Off, s.Len)
}

func (x *Exec) mapGet(st *State, m MapV, key *Term) (Value, *Term) {
	if m.Const != nil {
		var present *Term = TFalse
		val := x.zeroValue(m.Type.Elem())
		for i := len(m.Const.Keys) - 1; i >= 0; i-- {
			c := Eq(key, m.Const.Keys[i])
			present = Or(c, present)
			val = x.iteValue(c, m.Type.Elem(), m.Const.Vals[i], val)
		}
		return val, present
	}
	ks := mapKeyStr(m)
	pres := Select(Select(st.heapArr(ks+"#present", ArrOf(SBool)), m.ID), key)
	zero := x.leafMap(x.zeroValue(m.Type.Elem()))
	v := x.fromLeaves(m.Type.Elem(), "", func(li leafInfo) *Term {
		if li.Kind == "off" {
			return IntLit(0)
		}
		stored := Select(Select(st.heapArr(ks+li.Path, ArrOf(li.Sort)), m.ID), key)
		t := Ite(pres, stored, zero[li.Path])
		x.assumeLeaf(st, li, t)
		return t
	})
	if p, ok := v.(PtrV); ok {
		x.assumeAllocated(st, p.Addr)
	}
	return v, pres
}

func (x *Exec) mapLen(st *State, m MapV) *Term {
	if m.Const != nil {
		return IntLit(int64(len(m.Const.Keys)))
	}
	ks := mapKeyStr(m)
	// len(m) reads the whole map: the map's guard applies (a read)
	x.guardCheck(st, ks+"#card", m.ID, false)
	l := Select(st.heapArr(ks+"#card", SInt), m.ID)
	st.assumeRaw(Le(IntLit(0), l))
	return l
}

func (x *Exec) mapSet(st *State, m MapV, key *Term, v Value) {
	if m.Const != nil {
		panic(x.unsupported("write to constant map " + m.Const.Name))
	}
	ks := mapKeyStr(m)
	presArr := st.heapArr(ks+"#present", ArrOf(SBool))
	was := Select(Select(presArr, m.ID), key)
	x.lastMapOld = nil
	if x.sumRuleFor(m) != nil {
		x.lastMapOld, _ = x.mapGet(st, m, key)
	}
	x.guardCheckIndexed(st, ks, m.ID, true)
	st.heap[ks+"#present"] = Store(presArr, m.ID, Store(Select(presArr, m.ID), key, TTrue))
	card := st.heapArr(ks+"#card", SInt)
	st.heap[ks+"#card"] = Store(card, m.ID, Add(Select(card, m.ID), Ite(was, IntLit(0), IntLit(1))))
	v = x.rebase(st, v)
	var ls []struct {
		Path string
		T    *Term
	}
	x.leavesOf(v, "", &ls)
	for _, l := range ls {
		if l.T.Sort == SInt && strings.HasSuffix(l.Path, ".off") {
			continue
		}
		k := ks + l.Path
		arr := st.heapArr(k, ArrOf(l.T.Sort))
		st.heap[k] = Store(arr, m.ID, Store(Select(arr, m.ID), key, l.T))
	}
	x.onMapWrite(st, m, key, was, v, true)
}

func (x *Exec) mapDelete(st *State, m MapV, key *Term) {
	ks := mapKeyStr(m)
	x.guardCheckIndexed(st, ks, m.ID, true)
	presArr := st.heapArr(ks+"#present", ArrOf(SBool))
	was := Select(Select(presArr, m.ID), key)
	old, _ := x.mapGet(st, m, key)
	st.heap[ks+"#present"] = Store(presArr, m.ID, Store(Select(presArr, m.ID), key, TFalse))
	card := st.heapArr(ks+"#card", SInt)
	st.heap[ks+"#card"] = Store(card, m.ID, Sub(Select(card, m.ID), Ite(was, IntLit(1), IntLit(0))))
	x.onMapWrite(st, m, key, was, old, false)
}

// ---------------------------------------------------------------- expressions

func (x *Exec) exprs(fr *Frame, es []ast.Expr, st *State, k func(*State, []Value)) {
	var rec func(i int, st *State, acc []Value)
	rec = func(i int, st *State, acc []Value) {
		if i == len(es) {
			k(st, acc)
			return
		}
		x.expr(fr, es[i], st, func(st2 *State, v Value) {
			rec(i+1, st2, append(append([]Value(nil), acc...), v))
		})
	}
	rec(0, st, nil)
}

func (x *Exec) isPureExpr(fr *Frame, e ast.Expr) bool {
	pure := true
	ast.Inspect(e, func(n ast.Node) bool {
		switch n := n.(type) {
		case *ast.CallExpr:
			tv, ok := fr.pkg.TypesInfo.Types[n.Fun]
			if ok && tv.IsType() {
				return true
			}
			if id, ok := n.Fun.(*ast.Ident); ok {
				if _, isB := fr.pkg.TypesInfo.Uses[id].(*types.Builtin); isB {
					switch id.Name {
					case "len", "cap", "min", "max":
						return true
					}
				}
			}
			pure = false
			return false
		case *ast.FuncLit:
			pure = false
			return false
		case *ast.UnaryExpr:
			if n.Op == token.ARROW {
				pure = false
			}
		}
		return true
	})
	return pure
}

func (x *Exec) truth(v Value) *Term {
	b, ok := v.(BoolV)
	if !ok {
		panic(x.unsupported(fmt.Sprintf("boolean expected, got %T", v)))
	}
	return b.T
}

func (x *Exec) expr(fr *Frame, e ast.Expr, st *State, k func(*State, Value)) {
	if st.dead {
		return
	}
	x.tsub = fr.tsubst
	x.curFrame, x.curNode = fr, e
	info := fr.pkg.TypesInfo
	if tv, ok := info.Types[e]; ok && tv.Value != nil {
		k(st, x.constValue(x.resolveType(tv.Type), tv.Value))
		return
	}
	switch e := e.(type) {
	case *ast.ParenExpr:
		x.expr(fr, e.X, st, k)
	case *ast.Ident:
		x.identExpr(fr, e, st, k)
	case *ast.BasicLit:
		panic(x.unsupported("literal without constant value"))
	case *ast.UnaryExpr:
		x.unaryExpr(fr, e, st, k)
	case *ast.BinaryExpr:
		x.binaryExpr(fr, e, st, k)
	case *ast.CallExpr:
		x.callExpr(fr, e, st, func(st *State, vs []Value) {
			if len(vs) == 1 {
				k(st, vs[0])
			} else {
				k(st, TupleV(vs))
			}
		})
	case *ast.SelectorExpr:
		x.selectorExpr(fr, e, st, k)
	case *ast.IndexExpr:
		x.indexExpr(fr, e, st, k)
	case *ast.SliceExpr:
		x.sliceExpr(fr, e, st, k)
	case *ast.StarExpr:
		x.expr(fr, e.X, st, func(st *State, v Value) {
			p := v.(PtrV)
			x.nilCheck(fr, st, p, e)
			k(st, x.heapLoad(st, p))
		})
	case *ast.CompositeLit:
		x.compositeLit(fr, e, st, k)
	case *ast.FuncLit:
		k(st, FuncV{Closure: &ClosureRef{Lit: e, Frame: fr}, Sig: x.typeOf(fr, e).(*types.Signature)})
	case *ast.TypeAssertExpr:
		x.expr(fr, e.X, st, func(st *State, v Value) {
			t := x.typeOf(fr, e)
			if o, ok := v.(OpaqueV); ok && o.Dyn != nil {
				if ar, isAtomic := o.Dyn.(AtomicRefV); isAtomic {
					k(st, x.atomicLoad(st, ar.Addr, t))
					return
				}
				k(st, o.Dyn)
				return
			}
			// unknown dynamic type: a failed assertion panics; assume success unless nopanic
			nv := x.freshValue(st, t, "assert")
			x.Abstractions["type assertion assumed to succeed: "+x.L.nodeText(e)] = true
			k(st, nv)
		})
	case *ast.IndexListExpr:
		x.identLike(fr, e, st, k)
	default:
		panic(x.unsupported(fmt.Sprintf("expression %T at %s", e, x.pos(e))))
	}
}

func (x *Exec) identLike(fr *Frame, e ast.Expr, st *State, k func(*State, Value)) {
	// generic function instantiation used as a value
	t := x.typeOf(fr, e)
	if sig, ok := t.(*types.Signature); ok {
		var id *ast.Ident
		switch ee := e.(type) {
		case *ast.IndexExpr:
			id, _ = ee.X.(*ast.Ident)
			if id == nil {
				if se, ok := ee.X.(*ast.SelectorExpr); ok {
					id = se.Sel
				}
			}
		case *ast.IndexListExpr:
			id, _ = ee.X.(*ast.Ident)
			if id == nil {
				if se, ok := ee.X.(*ast.SelectorExpr); ok {
					id = se.Sel
				}
			}
		}
		if id != nil {
			if fn, ok := fr.pkg.TypesInfo.Uses[id].(*types.Func); ok {
				inst := fr.pkg.TypesInfo.Instances[id]
				k(st, FuncV{Closure: &ClosureRef{Fn: fn, TypeArgs: inst.TypeArgs, Frame: fr}, Sig: sig})
				return
			}
		}
	}
	panic(x.unsupported("generic instantiation at " + x.pos(e)))
}

func (x *Exec) identExpr(fr *Frame, e *ast.Ident, st *State, k func(*State, Value)) {
	info := fr.pkg.TypesInfo
	obj := info.Uses[e]
	if obj == nil {
		obj = info.Defs[e]
	}
	switch o := obj.(type) {
	case *types.Nil:
		k(st, x.zeroValue(x.typeOf(fr, e)))
	case *types.Var:
		if o.Parent() != nil && o.Pkg() != nil && o.Parent() == o.Pkg().Scope() {
			k(st, globalLV{o, fr}.Load(x, st))
			return
		}
		k(st, varLV{o}.Load(x, st))
	case *types.Func:
		inst, _ := info.Instances[e]
		k(st, FuncV{Closure: &ClosureRef{Fn: o, TypeArgs: inst.TypeArgs, Frame: fr}, Sig: o.Type().(*types.Signature)})
	case *types.Const:
		k(st, x.constValue(x.resolveType(o.Type()), o.Val()))
	default:
		panic(x.unsupported(fmt.Sprintf("identifier %s (%T) at %s", e.Name, obj, x.pos(e))))
	}
}

func (x *Exec) nilCheck(fr *Frame, st *State, p PtrV, n ast.Node) {
	if p.LV != nil {
		return
	}
	x.safety(fr, st, "nil", n, Ne(p.Addr, IntLit(0)))
}

func (x *Exec) unaryExpr(fr *Frame, e *ast.UnaryExpr, st *State, k func(*State, Value)) {
	switch e.Op {
	case token.NOT:
		x.expr(fr, e.X, st, func(st *State, v Value) { k(st, BoolV{Not(x.truth(v))}) })
	case token.SUB:
		x.expr(fr, e.X, st, func(st *State, v Value) {
			k(st, IntV{x.wrapFor(x.typeOf(fr, e), Neg(v.(IntV).T))})
		})
	case token.ADD:
		x.expr(fr, e.X, st, k)
	case token.XOR:
		x.expr(fr, e.X, st, func(st *State, v Value) {
			// ^x == -x-1 for signed; for unsigned max-x
			t := x.typeOf(fr, e)
			k(st, IntV{x.wrapFor(t, Sub(Neg(v.(IntV).T), IntLit(1)))})
		})
	case token.AND:
		x.addrOf(fr, e.X, st, k)
	case token.ARROW:
		x.expr(fr, e.X, st, func(st *State, v Value) {
			x.onChanOp(fr, st, e, "recv")
			k(st, x.freshValue(st, x.typeOf(fr, e), "recv"))
		})
	default:
		panic(x.unsupported("unary operator " + e.Op.String()))
	}
}

func (x *Exec) addrOf(fr *Frame, e ast.Expr, st *State, k func(*State, Value)) {
	switch t := ast.Unparen(e).(type) {
	case *ast.CompositeLit:
		x.compositeLit(fr, t, st, func(st *State, v Value) {
			et := x.typeOf(fr, t)
			p := PtrV{Addr: x.allocAddr(st, typeKey(et)), Prefix: typeKey(et), Elem: et}
			x.heapStore(st, p, v)
			x.onAlloc(st, p)
			k(st, p)
		})
		return
	}
	x.lvalue(fr, e, st, func(st *State, lv LVal) {
		et := x.typeOf(fr, e)
		switch l := lv.(type) {
		case heapFieldLV:
			k(st, PtrV{Addr: l.p.Addr, Prefix: l.p.Prefix + "." + l.field, Elem: et})
		case heapLV:
			k(st, l.p)
		case indexLV:
			// &s[i]: element identity derived from the backing array
			if sv, ok := l.base.Load(x, st).(SliceV); ok {
				addr := App("elemaddr", SInt, sv.Base, Add(sv.Off, l.idx))
				st.assumeRaw(Gt(addr, IntLit(0)))
				k(st, PtrV{Addr: addr, Prefix: typeKey(et), Elem: et, LV: nil})
				return
			}
			k(st, PtrV{Addr: IntLit(1), Elem: et, LV: lv})
		default:
			k(st, PtrV{Addr: IntLit(1), Elem: et, LV: lv})
		}
	})
}

func (x *Exec) wrapFor(t types.Type, v *Term) *Term {
	if b, ok := t.Underlying().(*types.Basic); ok {
		if kd, ok := basicIntKind(b); ok {
			return wrapTerm(kd, v)
		}
	}
	return v
}

func (x *Exec) binaryExpr(fr *Frame, e *ast.BinaryExpr, st *State, k func(*State, Value)) {
	if e.Op == token.LAND || e.Op == token.LOR {
		x.expr(fr, e.X, st, func(st *State, va Value) {
			a := x.truth(va)
			if x.isPureExpr(fr, e.Y) {
				g := a
				if e.Op == token.LOR {
					g = Not(a)
				}
				st.guards = append(st.guards, g)
				x.expr(fr, e.Y, st, func(st2 *State, vb Value) {
					st2.guards = st2.guards[:len(st2.guards)-1]
					b := x.truth(vb)
					if e.Op == token.LAND {
						k(st2, BoolV{And(a, b)})
					} else {
						k(st2, BoolV{Or(a, b)})
					}
				})
				return
			}
			// fork
			sa := st.clone()
			sb := st
			if e.Op == token.LAND {
				sa.assume(Not(a))
				if !sa.dead {
					k(sa, BoolV{TFalse})
				}
				sb.assume(a)
			} else {
				sa.assume(a)
				if !sa.dead {
					k(sa, BoolV{TTrue})
				}
				sb.assume(Not(a))
			}
			if !sb.dead {
				x.expr(fr, e.Y, sb, k)
			}
		})
		return
	}
	x.expr(fr, e.X, st, func(st *State, va Value) {
		x.expr(fr, e.Y, st, func(st *State, vb Value) {
			k(st, x.binop(fr, st, e, e.Op, va, vb, x.typeOf(fr, e), x.typeOf(fr, e.X)))
		})
	})
}

func (x *Exec) binop(fr *Frame, st *State, n ast.Node, op token.Token, va, vb Value, rt, ot types.Type) Value {
	switch op {
	case token.EQL, token.NEQ:
		var eq *Term
		switch a := va.(type) {
		case StrV:
			eq = x.strEq(a, vb.(StrV))
			x.linkLiteralEq(st, a, vb.(StrV), eq)
		case OpaqueV:
			switch b := vb.(type) {
			case OpaqueV:
				eq = Eq(a.T, b.T)
			case PtrV:
				eq = Eq(a.T, b.Addr)
			default:
				eq = x.valueEq(va, vb)
			}
		case PtrV:
			if b, ok := vb.(OpaqueV); ok {
				eq = Eq(a.Addr, b.T)
			} else {
				eq = Eq(a.Addr, vb.(PtrV).Addr)
			}
		case FuncV:
			// only comparison with nil is legal
			if a.Sym != nil {
				eq = Eq(a.Sym, IntLit(0))
			} else {
				eq = TFalse
			}
		case SliceV:
			eq = And(Eq(a.Len, IntLit(0)), Eq(a.Base, IntLit(0)))
		case MapV:
			eq = Eq(a.ID, IntLit(0))
		default:
			if fb, ok := vb.(FuncV); ok {
				_ = fb
			}
			eq = x.valueEq(va, vb)
		}
		if op == token.NEQ {
			return BoolV{Not(eq)}
		}
		return BoolV{eq}
	}
	if sa, ok := va.(StrV); ok {
		sb := vb.(StrV)
		if op == token.ADD {
			return x.strConcat(st, sa, sb)
		}
		// ordering on strings: uninterpreted
		x.Abstractions["string ordering comparison uninterpreted"] = true
		return BoolV{App("strcmp_"+sanitize(op.String()), SBool, x.strID(st, sa), x.strID(st, sb))}
	}
	ia, okA := va.(IntV)
	ib, okB := vb.(IntV)
	if !okA || !okB {
		// floats and other opaque arithmetic
		if fa, ok := va.(OpaqueV); ok {
			if fb, ok := vb.(OpaqueV); ok && fa.Num != nil && fb.Num != nil {
				switch op {
				case token.MUL:
					x.Trusted["float64 arithmetic treated as exact rational arithmetic"] = true
					return OpaqueV{T: App("fmul", SInt, fa.T, fb.T), Type: rt, Num: Mul(fa.Num, fb.Num), Den: new(big.Int).Mul(fa.Den, fb.Den)}
				case token.LSS:
					return BoolV{Lt(Mul(fa.Num, BigLit(fb.Den)), Mul(fb.Num, BigLit(fa.Den)))}
				case token.LEQ:
					return BoolV{Le(Mul(fa.Num, BigLit(fb.Den)), Mul(fb.Num, BigLit(fa.Den)))}
				case token.GTR:
					return BoolV{Gt(Mul(fa.Num, BigLit(fb.Den)), Mul(fb.Num, BigLit(fa.Den)))}
				case token.GEQ:
					return BoolV{Ge(Mul(fa.Num, BigLit(fb.Den)), Mul(fb.Num, BigLit(fa.Den)))}
				}
			}
		}
		oa, ob := x.asTerm(va), x.asTerm(vb)
		switch op {
		case token.LSS, token.LEQ, token.GTR, token.GEQ:
			return BoolV{App("fcmp_"+sanitize(op.String()), SBool, oa, ob)}
		}
		x.Abstractions["floating-point arithmetic uninterpreted"] = true
		return OpaqueV{T: App("fop_"+sanitize(op.String()), SInt, oa, ob), Type: rt}
	}
	a, b := ia.T, ib.T
	switch op {
	case token.LSS:
		return BoolV{Lt(a, b)}
	case token.LEQ:
		return BoolV{Le(a, b)}
	case token.GTR:
		return BoolV{Gt(a, b)}
	case token.GEQ:
		return BoolV{Ge(a, b)}
	case token.ADD:
		return IntV{x.arith(fr, st, n, rt, Add(a, b))}
	case token.SUB:
		return IntV{x.arith(fr, st, n, rt, Sub(a, b))}
	case token.MUL:
		return IntV{x.arith(fr, st, n, rt, Mul(a, b))}
	case token.QUO:
		x.safety(fr, st, "div0", n, Ne(b, IntLit(0)))
		return IntV{x.wrapFor(rt, TDiv(a, b))}
	case token.REM:
		x.safety(fr, st, "div0", n, Ne(b, IntLit(0)))
		return IntV{TRem(a, b)}
	case token.SHL:
		if b.Op == "int" && b.Int.IsInt64() && b.Int.Int64() < 64 {
			return IntV{x.wrapFor(rt, Mul(a, BigLit(new(big.Int).Lsh(big.NewInt(1), uint(b.Int.Int64())))))}
		}
	case token.SHR:
		if b.Op == "int" && b.Int.IsInt64() && b.Int.Int64() < 64 {
			// arithmetic shift = floor division
			return IntV{mk("div", SInt, a, BigLit(new(big.Int).Lsh(big.NewInt(1), uint(b.Int.Int64()))))}
		}
	}
	// bitwise operators: uninterpreted, range-preserving
	x.Abstractions["bitwise operator "+op.String()+" uninterpreted (range only)"] = true
	r := App("bitop_"+sanitize(op.String()), SInt, a, b)
	if bt, ok := rt.Underlying().(*types.Basic); ok {
		if kd, ok := basicIntKind(bt); ok {
			st.assumeRaw(inRange(kd, r))
		}
	}
	return IntV{r}
}

func (x *Exec) asTerm(v Value) *Term {
	switch vv := v.(type) {
	case FuncV:
		if vv.Sym != nil {
			return vv.Sym
		}
		return x.closureID(vv)
	case MapV:
		return vv.ID
	case IntV:
		return vv.T
	case OpaqueV:
		return vv.T
	case PtrV:
		return vv.Addr
	}
	panic(x.unsupported(fmt.Sprintf("asTerm %T", v)))
}

// arith wraps to the machine type; with nooverflow it also emits an obligation.
func (x *Exec) arith(fr *Frame, st *State, n ast.Node, rt types.Type, v *Term) *Term {
	if b, ok := rt.Underlying().(*types.Basic); ok {
		if kd, ok := basicIntKind(b); ok {
			if fr.top != nil && fr.top.NoOvf && fr.depth == 0 {
				x.oblige(fr, st, "overflow", x.siteLabel(n), inRange(kd, v), n)
			}
			return wrapTerm(kd, v)
		}
	}
	return v
}

func (x *Exec) strConcat(st *State, a, b StrV) StrV {
	if la, ok := strLitOf(a); ok {
		if lb, ok := strLitOf(b); ok {
			return x.strLit(la + lb)
		}
	}
	arr := Var(x.fresh("cat"), SArr)
	n := Add(a.Len, b.Len)
	x.quantN++
	i := Var(fmt.Sprintf("qi_%d", x.quantN), SInt)
	st.assumeRaw(Forall([]*Term{i}, Implies(And(Le(IntLit(0), i), Lt(i, a.Len)), Eq(Select(arr, i), x.strAt(a, i)))))
	x.quantN++
	j := Var(fmt.Sprintf("qi_%d", x.quantN), SInt)
	st.assumeRaw(Forall([]*Term{j}, Implies(And(Le(a.Len, j), Lt(j, Add(a.Len, b.Len))), Eq(Select(arr, j), x.strAt(b, Sub(j, a.Len))))))
	r := StrV{Arr: arr, Off: IntLit(0), Len: n}
	if x.concatDone {
		// identity-level link (only once the vocabulary is in use)
		st.assumeRaw(Eq(x.strID(st, r), App("strfn_concat", SInt, x.strID(st, a), x.strID(st, b))))
	}
	return r
}

func (x *Exec) selectorExpr(fr *Frame, e *ast.SelectorExpr, st *State, k func(*State, Value)) {
	info := fr.pkg.TypesInfo
	if sel, ok := info.Selections[e]; ok {
		switch sel.Kind() {
		case types.FieldVal:
			x.expr(fr, e.X, st, func(st *State, base Value) {
				k(st, x.selectPath(fr, st, base, info.TypeOf(e.X), sel.Index(), e))
			})
		case types.MethodVal:
			x.expr(fr, e.X, st, func(st *State, recv Value) {
				fn := sel.Obj().(*types.Func)
				k(st, FuncV{Closure: &ClosureRef{Fn: fn, Recv: recv, RecvExpr: e.X, HasRecv: true, Frame: fr, RecvType: x.typeOf(fr, e.X), Sel: sel}, Sig: x.typeOf(fr, e).(*types.Signature)})
			})
		default:
			panic(x.unsupported("method expression"))
		}
		return
	}
	// package-qualified identifier
	x.identExpr(fr, e.Sel, st, k)
}

// selectPath follows a field path (with implicit dereferences).
func (x *Exec) selectPath(fr *Frame, st *State, base Value, bt types.Type, index []int, n ast.Node) Value {
	bt = x.resolveType(bt)
	cur := base
	for _, idx := range index {
		if p, ok := cur.(PtrV); ok {
			x.nilCheck(fr, st, p, n)
			stt := x.resolveType(p.Elem).Underlying().(*types.Struct)
			f := stt.Field(idx)
			if p.LV != nil {
				cur = fieldLV{p.LV, f.Name()}.Load(x, st)
				continue
			}
			cur = heapFieldLV{p: p, field: f.Name(), ftype: x.resolveType(f.Type())}.Load(x, st)
			if pp, ok := cur.(PtrV); ok {
				x.assumeAllocated(st, pp.Addr)
			}
			continue
		}
		sv, ok := cur.(StructV)
		if !ok {
			panic(x.unsupported(fmt.Sprintf("field selection on %T at %s", cur, x.pos(n))))
		}
		cur = sv.F[sv.Names[idx]]
	}
	return cur
}

func (x *Exec) indexExpr(fr *Frame, e *ast.IndexExpr, st *State, k func(*State, Value)) {
	if tv, ok := fr.pkg.TypesInfo.Types[e.X]; ok {
		if _, isSig := tv.Type.Underlying().(*types.Signature); isSig {
			x.identLike(fr, e, st, k)
			return
		}
	}
	x.expr(fr, e.X, st, func(st *State, base Value) {
		x.expr(fr, e.Index, st, func(st *State, iv Value) {
			switch b := base.(type) {
			case StrV:
				i := iv.(IntV).T
				x.safety(fr, st, "bounds", e, And(Le(IntLit(0), i), Lt(i, b.Len)))
				v := x.strAt(b, i)
				st.assume(And(Le(IntLit(0), v), Le(v, IntLit(255))))
				k(st, IntV{v})
			case SliceV:
				i := iv.(IntV).T
				x.safety(fr, st, "bounds", e, And(Le(IntLit(0), i), Lt(i, b.Len)))
				v := x.sliceAt(b, i)
				x.assumeLoaded(st, v)
				k(st, v)
			case MapV:
				x.guardCheckIndexed(st, mapKeyStr(b), b.ID, false)
				v, _ := x.mapGet(st, b, x.keyTerm(st, iv))
				k(st, v)
			case PtrV:
				// pointer to array
				arr := x.heapLoad(st, b)
				i := iv.(IntV).T
				switch a := arr.(type) {
				case StrV:
					x.safety(fr, st, "bounds", e, And(Le(IntLit(0), i), Lt(i, a.Len)))
					k(st, IntV{x.strAt(a, i)})
				case SliceV:
					x.safety(fr, st, "bounds", e, And(Le(IntLit(0), i), Lt(i, a.Len)))
					k(st, x.sliceAt(a, i))
				default:
					panic(x.unsupported("index of pointer"))
				}
			default:
				panic(x.unsupported(fmt.Sprintf("index of %T at %s", base, x.pos(e))))
			}
		})
	})
}

func (x *Exec) sliceExpr(fr *Frame, e *ast.SliceExpr, st *State, k func(*State, Value)) {
	if e.Slice3 {
		panic(x.unsupported("3-index slice"))
	}
	x.expr(fr, e.X, st, func(st *State, base Value) {
		evalOpt := func(ex ast.Expr, st *State, k2 func(*State, *Term)) {
			if ex == nil {
				k2(st, nil)
				return
			}
			x.expr(fr, ex, st, func(st *State, v Value) { k2(st, v.(IntV).T) })
		}
		evalOpt(e.Low, st, func(st *State, lo *Term) {
			evalOpt(e.High, st, func(st *State, hi *Term) {
				if p, ok := base.(PtrV); ok {
					base = x.heapLoad(st, p)
				}
				isString := false
				if b, ok := x.typeOf(fr, e.X).Underlying().(*types.Basic); ok && b.Info()&types.IsString != 0 {
					isString = true
				}
				switch b := base.(type) {
				case StrV:
					if lo == nil {
						lo = IntLit(0)
					}
					if hi == nil {
						hi = b.Len
					}
					// strings and arrays: bound is len; byte slices: cap (unknown) - use len (stricter)
					_ = isString
					x.safety(fr, st, "bounds", e, And(Le(IntLit(0), lo), Le(lo, hi), Le(hi, b.Len)))
					k(st, StrV{Arr: b.Arr, Off: Add(b.Off, lo), Len: Sub(hi, lo)})
				case SliceV:
					if lo == nil {
						lo = IntLit(0)
					}
					if hi == nil {
						hi = b.Len
					}
					x.safety(fr, st, "bounds", e, And(Le(IntLit(0), lo), Le(lo, hi), Le(hi, b.Len)))
					ns := b
					ns.Off = Add(b.Off, lo)
					ns.Len = Sub(hi, lo)
					k(st, ns)
				default:
					panic(x.unsupported(fmt.Sprintf("slice of %T", base)))
				}
			})
		})
	})
}

func (x *Exec) compositeLit(fr *Frame, e *ast.CompositeLit, st *State, k func(*State, Value)) {
	t := x.typeOf(fr, e)
	if isTimeTime(t) && len(e.Elts) == 0 {
		k(st, IntV{IntLit(0)})
		return
	}
	switch u := t.Underlying().(type) {
	case *types.Struct:
		sv := x.zeroValue(t).(StructV)
		var names []string
		var vals []ast.Expr
		for i, el := range e.Elts {
			if kv, ok := el.(*ast.KeyValueExpr); ok {
				names = append(names, kv.Key.(*ast.Ident).Name)
				vals = append(vals, kv.Value)
			} else {
				names = append(names, u.Field(i).Name())
				vals = append(vals, el)
			}
		}
		x.exprs(fr, vals, st, func(st *State, vs []Value) {
			nv := StructV{Type: sv.Type, Names: sv.Names, F: map[string]Value{}}
			for kk, v := range sv.F {
				nv.F[kk] = v
			}
			for i, n := range names {
				ft := fieldType(u, n)
				nv.F[n] = x.convertAssign(st, vs[i], x.resolveType(ft))
			}
			k(st, nv)
		})
	case *types.Slice, *types.Array:
		var elemT types.Type
		if s, ok := u.(*types.Slice); ok {
			elemT = s.Elem()
		} else {
			elemT = u.(*types.Array).Elem()
		}
		var vals []ast.Expr
		for _, el := range e.Elts {
			if _, ok := el.(*ast.KeyValueExpr); ok {
				panic(x.unsupported("keyed slice literal"))
			}
			vals = append(vals, el)
		}
		x.exprs(fr, vals, st, func(st *State, vs []Value) {
			zero := x.zeroValue(t)
			switch z := zero.(type) {
			case StrV:
				arr := ConstArr(SArr, IntLit(0))
				for i, v := range vs {
					arr = Store(arr, IntLit(int64(i)), v.(IntV).T)
				}
				k(st, StrV{Arr: arr, Off: IntLit(0), Len: IntLit(int64(len(vs)))})
			case SliceV:
				z.Off = IntLit(0)
				z.Len = IntLit(int64(len(vs)))
				z.Base = x.allocAddr(st, "slice")
				for i, v := range vs {
					z = x.sliceSet(z, IntLit(int64(i)), x.convertAssign(st, v, x.resolveType(elemT)))
				}
				k(st, z)
			}
		})
	case *types.Map:
		m := MapV{ID: x.allocAddr(st, "map"), Type: u}
		x.initEmptyMap(st, m)
		var keys, vals []ast.Expr
		for _, el := range e.Elts {
			kv := el.(*ast.KeyValueExpr)
			keys = append(keys, kv.Key)
			vals = append(vals, kv.Value)
		}
		x.exprs(fr, keys, st, func(st *State, ks []Value) {
			x.exprs(fr, vals, st, func(st *State, vs []Value) {
				for i := range ks {
					x.mapSet(st, m, x.keyTerm(st, ks[i]), vs[i])
				}
				k(st, m)
			})
		})
	default:
		panic(x.unsupported(fmt.Sprintf("composite literal of %s", t)))
	}
}

func (x *Exec) initEmptyMap(st *State, m MapV) {
	ks := mapKeyStr(m)
	presArr := st.heapArr(ks+"#present", ArrOf(SBool))
	st.heap[ks+"#present"] = Store(presArr, m.ID, ConstArr(ArrOf(SBool), TFalse))
	card := st.heapArr(ks+"#card", SInt)
	st.heap[ks+"#card"] = Store(card, m.ID, IntLit(0))
	x.onMapInit(st, m)
}

func fieldType(s *types.Struct, name string) types.Type {
	for i := 0; i < s.NumFields(); i++ {
		if s.Field(i).Name() == name {
			return s.Field(i).Type()
		}
	}
	panic("no field " + name)
}

// convertAssign adapts a value to the static type of its destination
// (concrete value stored in an interface, untyped nil, ...).
func (x *Exec) convertAssign(st *State, v Value, t types.Type) Value {
	t = x.resolveType(t)
	if _, isIface := t.Underlying().(*types.Interface); isIface {
		switch vv := v.(type) {
		case OpaqueV:
			return vv
		case PtrV:
			return OpaqueV{T: vv.Addr, Type: t, Dyn: vv}
		case IntV:
			return OpaqueV{T: App("box_int", SInt, vv.T), Type: t, Dyn: vv, DynType: x.assignSrcType}
		default:
			id := Var(x.fresh("iface"), SInt)
			st.assumeRaw(Gt(id, IntLit(0)))
			return OpaqueV{T: id, Type: t, Dyn: v, DynType: x.assignSrcType}
		}
	}
	if o, ok := v.(OpaqueV); ok {
		// untyped nil into pointer/map/slice/func
		if o.T.Op == "int" && o.T.Int.Sign() == 0 {
			if _, isOpq := x.zeroValue(t).(OpaqueV); !isOpq {
				return x.zeroValue(t)
			}
		}
	}
	return v
}

// ---------------------------------------------------------------- l-value resolution

func (x *Exec) lvalue(fr *Frame, e ast.Expr, st *State, k func(*State, LVal)) {
	info := fr.pkg.TypesInfo
	switch e := e.(type) {
	case *ast.ParenExpr:
		x.lvalue(fr, e.X, st, k)
	case *ast.Ident:
		if e.Name == "_" {
			k(st, blankLV{})
			return
		}
		obj := info.Uses[e]
		if obj == nil {
			obj = info.Defs[e]
		}
		v, ok := obj.(*types.Var)
		if !ok {
			panic(x.unsupported("assignment to non-variable"))
		}
		if v.Parent() != nil && v.Pkg() != nil && v.Parent() == v.Pkg().Scope() {
			k(st, globalLV{v, fr})
			return
		}
		k(st, varLV{v})
	case *ast.SelectorExpr:
		sel, ok := info.Selections[e]
		if !ok || sel.Kind() != types.FieldVal {
			panic(x.unsupported("assignment to qualified identifier at " + x.pos(e)))
		}
		bt := x.resolveType(info.TypeOf(e.X))
		// pointer base: evaluate as value; struct base: resolve as l-value
		if _, isPtr := bt.Underlying().(*types.Pointer); isPtr {
			x.expr(fr, e.X, st, func(st *State, base Value) {
				k(st, x.lvPath(fr, st, nil, base, sel.Index(), e))
			})
			return
		}
		x.lvalue(fr, e.X, st, func(st *State, blv LVal) {
			k(st, x.lvPath(fr, st, blv, nil, sel.Index(), e))
		})
	case *ast.IndexExpr:
		bt := x.resolveType(info.TypeOf(e.X))
		switch bt.Underlying().(type) {
		case *types.Map:
			x.expr(fr, e.X, st, func(st *State, mv Value) {
				x.expr(fr, e.Index, st, func(st *State, kv Value) {
					k(st, mapLV{mv.(MapV), x.keyTerm(st, kv)})
				})
			})
		case *types.Slice:
			// slices are references: writing through them must be visible via the base l-value
			x.lvalue(fr, e.X, st, func(st *State, blv LVal) {
				x.expr(fr, e.Index, st, func(st *State, iv Value) {
					i := iv.(IntV).T
					ln := x.lenOf(blv.Load(x, st))
					x.safety(fr, st, "bounds", e, And(Le(IntLit(0), i), Lt(i, ln)))
					k(st, indexLV{blv, i})
				})
			})
		case *types.Array:
			x.lvalue(fr, e.X, st, func(st *State, blv LVal) {
				x.expr(fr, e.Index, st, func(st *State, iv Value) {
					i := iv.(IntV).T
					ln := x.lenOf(blv.Load(x, st))
					x.safety(fr, st, "bounds", e, And(Le(IntLit(0), i), Lt(i, ln)))
					k(st, indexLV{blv, i})
				})
			})
		default:
			panic(x.unsupported("index assignment base"))
		}
	case *ast.StarExpr:
		x.expr(fr, e.X, st, func(st *State, v Value) {
			p := v.(PtrV)
			x.nilCheck(fr, st, p, e)
			if p.LV != nil {
				k(st, p.LV)
			} else {
				k(st, heapLV{p})
			}
		})
	default:
		panic(x.unsupported(fmt.Sprintf("l-value %T at %s", e, x.pos(e))))
	}
}

func (x *Exec) lenOf(v Value) *Term {
	switch b := v.(type) {
	case StrV:
		return b.Len
	case SliceV:
		return b.Len
	}
	panic(x.unsupported("len of non-sequence"))
}

// lvPath resolves base.f1.f2... to an l-value.  Exactly one of blv/base is set.
func (x *Exec) lvPath(fr *Frame, st *State, blv LVal, base Value, index []int, n ast.Node) LVal {
	var cur LVal = blv
	var curV Value = base
	for _, idx := range index {
		if cur != nil {
			curV = cur.Load(x, st)
		}
		switch b := curV.(type) {
		case PtrV:
			x.nilCheck(fr, st, b, n)
			stt := x.resolveType(b.Elem).Underlying().(*types.Struct)
			f := stt.Field(idx)
			if b.LV != nil {
				cur = fieldLV{b.LV, f.Name()}
			} else {
				cur = heapFieldLV{p: b, field: f.Name(), ftype: x.resolveType(f.Type())}
			}
			curV = nil
		case StructV:
			if cur == nil {
				panic(x.unsupported("field assignment on non-addressable struct"))
			}
			cur = fieldLV{cur, b.Names[idx]}
			curV = nil
		default:
			panic(x.unsupported(fmt.Sprintf("field l-value through %T", curV)))
		}
	}
	return cur
}

// sortedKeys helper
func sortedKeys[V any](m map[string]V) []string {
	ks := make([]string, 0, len(m))
	for k := range m {
		ks = append(ks, k)
	}
	sort.Strings(ks)
	return ks
}

// closureID gives statically known closures a stable non-nil identity.
func (x *Exec) closureID(f FuncV) *Term {
	if f.Closure == nil {
		return IntLit(0)
	}
	if x.closureIDs == nil {
		x.closureIDs = map[*ClosureRef]int64{}
	}
	id, ok := x.closureIDs[f.Closure]
	if !ok {
		id = int64(700000 + len(x.closureIDs))
		x.closureIDs[f.Closure] = id
	}
	return IntLit(id)
}

// linkLiteralEq records that content equality with a literal coincides with
// equality of string identities (strid is "the content as a value").
func (x *Exec) linkLiteralEq(st *State, a, b StrV, eq *Term) {
	if eq.IsConst() {
		return
	}
	_, la := strLitOf(a)
	_, lb := strLitOf(b)
	if la && lb {
		return
	}
	st.assumeRaw(Eq(eq, Eq(x.strID(st, a), x.strID(st, b))))
}

func (x *Exec) globalHasInit(obj *types.Var) bool {
	pkg := x.L.pkgOf(obj.Pkg().Path())
	if pkg == nil {
		return false
	}
	for _, f := range pkg.Syntax {
		for _, d := range f.Decls {
			gd, ok := d.(*ast.GenDecl)
			if !ok || gd.Tok != token.VAR {
				continue
			}
			for _, sp := range gd.Specs {
				vs := sp.(*ast.ValueSpec)
				for i, n := range vs.Names {
					if pkg.TypesInfo.Defs[n] == obj && i < len(vs.Values) {
						return true
					}
				}
			}
		}
	}
	return false
}

// constInitOf: a package-level variable of basic type whose initialiser is a
// constant expression and which is never assigned (nor has its address taken)
// anywhere in the loaded module packages is treated as that constant.
func (x *Exec) constInitOf(obj *types.Var) Value {
	if _, ok := obj.Type().Underlying().(*types.Basic); !ok {
		return nil
	}
	pkg := x.L.pkgOf(obj.Pkg().Path())
	if pkg == nil {
		return nil
	}
	var init ast.Expr
	for _, f := range pkg.Syntax {
		for _, d := range f.Decls {
			gd, ok := d.(*ast.GenDecl)
			if !ok || gd.Tok != token.VAR {
				continue
			}
			for _, sp := range gd.Specs {
				vs := sp.(*ast.ValueSpec)
				for i, n := range vs.Names {
					if pkg.TypesInfo.Defs[n] == obj && i < len(vs.Values) {
						init = vs.Values[i]
					}
				}
			}
		}
	}
	if init == nil {
		return nil
	}
	tv, ok := pkg.TypesInfo.Types[init]
	if !ok || tv.Value == nil {
		return nil
	}
	// never written?
	written := false
	for path, p := range x.L.Pkgs {
		if !inModule(path) || p.TypesInfo == nil {
			continue
		}
		for _, f := range p.Syntax {
			ast.Inspect(f, func(n ast.Node) bool {
				mark := func(e ast.Expr) {
					for {
						switch t := ast.Unparen(e).(type) {
						case *ast.Ident:
							if p.TypesInfo.Uses[t] == obj {
								written = true
							}
							return
						case *ast.SelectorExpr:
							if p.TypesInfo.Uses[t.Sel] == obj {
								written = true
							}
							return
						default:
							return
						}
					}
				}
				switch s := n.(type) {
				case *ast.AssignStmt:
					for _, l := range s.Lhs {
						mark(l)
					}
				case *ast.IncDecStmt:
					mark(s.X)
				case *ast.UnaryExpr:
					if s.Op == token.AND {
						mark(s.X)
					}
				}
				return true
			})
		}
	}
	if written {
		return nil
	}
	x.Trusted["package-level variable "+obj.Pkg().Name()+"."+obj.Name()+" is never assigned: treated as its constant initialiser"] = true
	return x.constValue(x.resolveType(obj.Type()), tv.Value)
}

// globalInitValue evaluates the initialiser of a never-assigned package-level
// variable when it is a composite literal or the address of one (e.g. an
// *http.Client with its policy fields).  Evaluated once per path, in that path's state.
func (x *Exec) globalInitValue(st *State, obj *types.Var) (Value, bool) {
	if obj.Pkg() == nil || !inModule(obj.Pkg().Path()) {
		return nil, false
	}
	pkg := x.L.pkgOf(obj.Pkg().Path())
	if pkg == nil {
		return nil, false
	}
	var init ast.Expr
	for _, f := range pkg.Syntax {
		for _, d := range f.Decls {
			gd, ok := d.(*ast.GenDecl)
			if !ok || gd.Tok != token.VAR {
				continue
			}
			for _, sp := range gd.Specs {
				vs := sp.(*ast.ValueSpec)
				for i, n := range vs.Names {
					if pkg.TypesInfo.Defs[n] == obj && i < len(vs.Values) {
						init = vs.Values[i]
					}
				}
			}
		}
	}
	if init == nil {
		return nil, false
	}
	e := ast.Unparen(init)
	if u, ok := e.(*ast.UnaryExpr); ok && u.Op == token.AND {
		e = ast.Unparen(u.X)
	}
	cl, ok := e.(*ast.CompositeLit)
	if !ok {
		return nil, false
	}
	if _, isStruct := pkg.TypesInfo.TypeOf(cl).Underlying().(*types.Struct); !isStruct {
		return nil, false
	}
	fr := x.newFrame(nil, nil, nil, nil, &ast.BlockStmt{})
	fr.pkg = pkg
	fr.tsubst = map[*types.TypeParam]types.Type{}
	fr.top = nil
	var out Value
	saved := x.tsub
	x.expr(fr, init, st, func(_ *State, v Value) { out = v })
	x.tsub = saved
	if out == nil {
		return nil, false
	}
	x.Trusted["package-level variable "+obj.Pkg().Name()+"."+obj.Name()+" holds its initialiser (never reassigned: assumed)"] = true
	return out, true
}

// allocAt: address a is allocated at allocation time t.  Every address has a fixed
// allocation time stamp alloctime(a) (0 = never); the state carries the current time.
// The set of allocated addresses only grows, without quantifiers: a callee that may
// allocate simply moves the time forward by an unknown amount.
func allocAt(t, a *Term) *Term {
	at := App("alloctime", SInt, a)
	return And(Lt(IntLit(0), at), Le(at, t))
}

// isHeapArrayVar: the SMT variables that stand for heap arrays are named H<epoch>_<key> or,
// inside a loop, Hl_<key>_<n>.
func isHeapArrayVar(name string) bool {
	return len(name) > 2 && name[0] == 'H' && ((name[1] >= '0' && name[1] <= '9') || name[1] == 'l') && strings.Contains(name, "_")
}
