package main

// Symbolic values and the symbolic state.

import (
	"fmt"
	"go/types"
	"math/big"
	"sort"
	"strings"
)

type Value interface{ isValue() }

type IntV struct{ T *Term }
type BoolV struct{ T *Term }

// StrV is a string or a []byte: a view (array, offset, length).
type StrV struct{ Arr, Off, Len *Term }

type StructV struct {
	Type  types.Type
	Names []string
	F     map[string]Value
}

// PtrV is a pointer.  Addr==0 is nil.  Prefix selects the heap arrays that hold
// the pointee's leaves (type key, or "Outer.field" for interior pointers).
// LV, when set, is a reference to a local l-value (address-of a local).
type PtrV struct {
	Addr   *Term
	Prefix string
	Elem   types.Type
	LV     LVal
}

// SliceV is a slice or array of non-byte elements: one SMT array per leaf of the
// element type, plus offset, length, and the identity of the backing array.
type SliceV struct {
	Elem   types.Type
	Leaves map[string]*Term
	Order  []string
	Off    *Term
	Len    *Term
	Base   *Term
}

type MapV struct {
	ID   *Term
	Type *types.Map
	// Const, when non-nil, is a package-level literal map that is never written.
	Const *ConstMap
}

type ConstMap struct {
	Name string
	Keys []*Term
	Vals []Value
}

type FuncV struct {
	Sym     *Term       // identity for symbolic function values (0 == nil)
	Closure *ClosureRef // statically known closure / method value
	Sig     *types.Signature
}

// OpaqueV is anything modelled only by identity: interfaces, channels, type parameters.
type OpaqueV struct {
	T    *Term
	Type types.Type
	// Dyn, when known, is the concrete value stored in an interface.
	Dyn Value
	// DynType: static type of Dyn when it is not recoverable from the value (named non-struct types).
	DynType types.Type
	// Num/Den: exact rational value of a float (Den > 0), when tracked.
	Num *Term
	Den *big.Int
}

type TupleV []Value

func (IntV) isValue()    {}
func (BoolV) isValue()   {}
func (StrV) isValue()    {}
func (StructV) isValue() {}
func (PtrV) isValue()    {}
func (SliceV) isValue()  {}
func (MapV) isValue()    {}
func (FuncV) isValue()   {}
func (OpaqueV) isValue() {}
func (TupleV) isValue()  {}

// LVal is an assignable location.
type LVal interface {
	Load(x *Exec, st *State) Value
	Store(x *Exec, st *State, v Value)
}

type leafInfo struct {
	Path  string
	Sort  *Sort
	Basic *types.Basic // integer kind, for range assumptions (nil otherwise)
	Kind  string       // "int" "bool" "arr" "ptr" "map" "opaque" "len" "off" "base" "func" "time"
}

// typeKey names a struct type for heap arrays.
func typeKey(t types.Type) string {
	t = types.Unalias(t)
	s := types.TypeString(t, func(p *types.Package) string { return p.Name() })
	r := strings.NewReplacer(" ", "", "*", "P", "[", "_", "]", "_", ",", "_", "/", "_", "{", "_", "}", "_", ";", "_", "(", "_", ")", "_")
	return r.Replace(s)
}

func isTimeTime(t types.Type) bool {
	n, ok := types.Unalias(t).(*types.Named)
	return ok && n.Obj().Pkg() != nil && n.Obj().Pkg().Path() == "time" && n.Obj().Name() == "Time"
}

func isNamed(t types.Type, pkg, name string) bool {
	n, ok := types.Unalias(t).(*types.Named)
	return ok && n.Obj().Pkg() != nil && n.Obj().Pkg().Path() == pkg && n.Obj().Name() == name
}

func isByteSlice(t types.Type) bool {
	s, ok := t.Underlying().(*types.Slice)
	if !ok {
		return false
	}
	b, ok := s.Elem().Underlying().(*types.Basic)
	return ok && (b.Kind() == types.Uint8)
}

func basicIntKind(b *types.Basic) (intKind, bool) {
	switch b.Kind() {
	case types.Int, types.Int64, types.UntypedInt, types.UntypedRune:
		return intKind{64, true}, true
	case types.Int32:
		return intKind{32, true}, true
	case types.Int16:
		return intKind{16, true}, true
	case types.Int8:
		return intKind{8, true}, true
	case types.Uint, types.Uint64, types.Uintptr:
		return intKind{64, false}, true
	case types.Uint32:
		return intKind{32, false}, true
	case types.Uint16:
		return intKind{16, false}, true
	case types.Uint8:
		return intKind{8, false}, true
	}
	return intKind{}, false
}

// fromLeaves builds a Value of type t whose leaves are supplied by get.
func (x *Exec) fromLeaves(t types.Type, path string, get func(leafInfo) *Term) Value {
	t = x.resolveType(t)
	if isTimeTime(t) {
		return IntV{get(leafInfo{Path: path, Sort: SInt, Kind: "time"})}
	}
	switch u := t.Underlying().(type) {
	case *types.Basic:
		switch {
		case u.Info()&types.IsBoolean != 0:
			return BoolV{get(leafInfo{Path: path, Sort: SBool, Kind: "bool"})}
		case u.Info()&types.IsString != 0:
			return StrV{
				Arr: get(leafInfo{Path: path + ".arr", Sort: SArr, Kind: "arr"}),
				Off: get(leafInfo{Path: path + ".off", Sort: SInt, Kind: "off"}),
				Len: get(leafInfo{Path: path + ".len", Sort: SInt, Kind: "len"}),
			}
		case u.Info()&types.IsInteger != 0:
			return IntV{get(leafInfo{Path: path, Sort: SInt, Basic: u, Kind: "int"})}
		case u.Info()&types.IsFloat != 0:
			// floats are uninterpreted reals approximated by Int identities
			return OpaqueV{T: get(leafInfo{Path: path, Sort: SInt, Kind: "opaque"}), Type: t}
		case u.Kind() == types.UnsafePointer:
			return OpaqueV{T: get(leafInfo{Path: path, Sort: SInt, Kind: "opaque"}), Type: t}
		case u.Kind() == types.UntypedNil:
			return OpaqueV{T: IntLit(0), Type: t}
		}
	case *types.Struct:
		sv := StructV{Type: t, F: map[string]Value{}}
		for i := 0; i < u.NumFields(); i++ {
			f := u.Field(i)
			sv.Names = append(sv.Names, f.Name())
			sv.F[f.Name()] = x.fromLeaves(f.Type(), path+"."+f.Name(), get)
		}
		return sv
	case *types.Pointer:
		return PtrV{Addr: get(leafInfo{Path: path, Sort: SInt, Kind: "ptr"}), Prefix: typeKey(x.resolveType(u.Elem())), Elem: x.resolveType(u.Elem())}
	case *types.Slice:
		if isByteSlice(t) {
			return StrV{
				Arr: get(leafInfo{Path: path + ".arr", Sort: SArr, Kind: "arr"}),
				Off: get(leafInfo{Path: path + ".off", Sort: SInt, Kind: "off"}),
				Len: get(leafInfo{Path: path + ".len", Sort: SInt, Kind: "len"}),
			}
		}
		return x.sliceFromLeaves(u.Elem(), path, get, nil)
	case *types.Array:
		b, ok := u.Elem().Underlying().(*types.Basic)
		if ok && b.Kind() == types.Uint8 {
			return StrV{
				Arr: get(leafInfo{Path: path + ".arr", Sort: SArr, Kind: "arr"}),
				Off: IntLit(0),
				Len: IntLit(u.Len()),
			}
		}
		return x.sliceFromLeaves(u.Elem(), path, get, IntLit(u.Len()))
	case *types.Map:
		return MapV{ID: get(leafInfo{Path: path, Sort: SInt, Kind: "map"}), Type: u}
	case *types.Signature:
		return FuncV{Sym: get(leafInfo{Path: path, Sort: SInt, Kind: "func"}), Sig: u}
	case *types.Interface, *types.Chan, *types.TypeParam, *types.Tuple:
		return OpaqueV{T: get(leafInfo{Path: path, Sort: SInt, Kind: "opaque"}), Type: t}
	}
	if _, ok := t.(*types.TypeParam); ok {
		return OpaqueV{T: get(leafInfo{Path: path, Sort: SInt, Kind: "opaque"}), Type: t}
	}
	panic(x.unsupported(fmt.Sprintf("type %s", t)))
}

func (x *Exec) sliceFromLeaves(elem types.Type, path string, get func(leafInfo) *Term, fixedLen *Term) Value {
	elem = x.resolveType(elem)
	sv := SliceV{Elem: elem, Leaves: map[string]*Term{}}
	// enumerate element leaves
	x.fromLeaves(elem, "", func(li leafInfo) *Term {
		arr := get(leafInfo{Path: path + ".e" + li.Path, Sort: ArrOf(li.Sort), Kind: "arr"})
		sv.Leaves[li.Path] = arr
		sv.Order = append(sv.Order, li.Path)
		return zeroOfSort(li.Sort)
	})
	if fixedLen != nil {
		sv.Off = IntLit(0)
		sv.Len = fixedLen
	} else {
		sv.Off = get(leafInfo{Path: path + ".off", Sort: SInt, Kind: "off"})
		sv.Len = get(leafInfo{Path: path + ".len", Sort: SInt, Kind: "len"})
	}
	sv.Base = get(leafInfo{Path: path + ".base", Sort: SInt, Kind: "base"})
	return sv
}

func zeroOfSort(s *Sort) *Term {
	switch {
	case s == SInt:
		return IntLit(0)
	case s == SBool:
		return TFalse
	case s.Elem != nil:
		return ConstArr(s, zeroOfSort(s.Elem))
	}
	panic("zeroOfSort " + s.Name)
}

// leavesOf flattens v in the same order fromLeaves would enumerate it.
func (x *Exec) leavesOf(v Value, path string, out *[]struct {
	Path string
	T    *Term
}) {
	add := func(p string, t *Term) {
		*out = append(*out, struct {
			Path string
			T    *Term
		}{p, t})
	}
	switch v := v.(type) {
	case IntV:
		add(path, v.T)
	case BoolV:
		add(path, v.T)
	case StrV:
		add(path+".arr", v.Arr)
		add(path+".off", v.Off)
		add(path+".len", v.Len)
	case StructV:
		for _, n := range v.Names {
			x.leavesOf(v.F[n], path+"."+n, out)
		}
	case PtrV:
		add(path, v.Addr)
	case SliceV:
		for _, p := range v.Order {
			add(path+".e"+p, v.Leaves[p])
		}
		add(path+".off", v.Off)
		add(path+".len", v.Len)
		add(path+".base", v.Base)
	case MapV:
		add(path, v.ID)
	case FuncV:
		if v.Sym != nil {
			add(path, v.Sym)
		} else {
			add(path, x.closureID(v))
		}
	case OpaqueV:
		add(path, v.T)
	default:
		panic(fmt.Sprintf("leavesOf %T", v))
	}
}

func (x *Exec) leafMap(v Value) map[string]*Term {
	var ls []struct {
		Path string
		T    *Term
	}
	x.leavesOf(v, "", &ls)
	m := map[string]*Term{}
	for _, l := range ls {
		m[l.Path] = l.T
	}
	return m
}

// rebuildFrom produces a value of type t from a leaf map (missing array leaves
// of fixed-length arrays fall back to get).
func (x *Exec) fromLeafMap(t types.Type, m map[string]*Term) Value {
	return x.fromLeaves(t, "", func(li leafInfo) *Term {
		if v, ok := m[li.Path]; ok {
			return v
		}
		return zeroOfSort(li.Sort)
	})
}

func (x *Exec) zeroValue(t types.Type) Value {
	return x.fromLeaves(t, "", func(li leafInfo) *Term { return zeroOfSort(li.Sort) })
}

// freshValue makes an unconstrained value of type t; range facts for integer
// leaves and non-negativity of lengths are assumed into st.
func (x *Exec) freshValue(st *State, t types.Type, name string) Value {
	name = sanitize(name)
	return x.fromLeaves(t, "", func(li leafInfo) *Term {
		if li.Kind == "off" {
			// a fresh view over a fresh array: offset 0 loses no generality
			return IntLit(0)
		}
		v := Var(x.fresh(name+sanitize(li.Path)), li.Sort)
		switch li.Kind {
		case "int":
			if k, ok := basicIntKind(li.Basic); ok {
				st.assumeRaw(inRange(k, v))
			}
		case "len", "off":
			st.assumeRaw(Le(IntLit(0), v))
			st.assumeRaw(Le(v, IntLit(1<<40)))
		case "ptr", "map", "base":
			st.assumeRaw(And(Le(IntLit(0), v), Le(v, IntLit(1<<48))))
		case "opaque", "func":
			st.assumeRaw(Le(IntLit(0), v))
		}
		return v
	})
}

func sanitize(s string) string {
	var sb strings.Builder
	for _, r := range s {
		switch {
		case r >= 'a' && r <= 'z', r >= 'A' && r <= 'Z', r >= '0' && r <= '9', r == '_':
			sb.WriteRune(r)
		default:
			sb.WriteByte('_')
		}
	}
	return sb.String()
}

// valueEq is structural equality of two values of the same type.
func (x *Exec) valueEq(a, b Value) *Term {
	switch a := a.(type) {
	case StrV:
		return x.strEq(a, b.(StrV))
	}
	var la, lb []struct {
		Path string
		T    *Term
	}
	x.leavesOf(a, "", &la)
	x.leavesOf(b, "", &lb)
	if len(la) != len(lb) {
		panic("valueEq: shape mismatch")
	}
	var cs []*Term
	for i := range la {
		cs = append(cs, Eq(la[i].T, lb[i].T))
	}
	return And(cs...)
}

// iteValue merges two values of the same shape.
func (x *Exec) iteValue(c *Term, t types.Type, a, b Value) Value {
	ma, mb := x.leafMap(a), x.leafMap(b)
	m := map[string]*Term{}
	for k, va := range ma {
		if vb, ok := mb[k]; ok {
			m[k] = Ite(c, va, vb)
		}
	}
	return x.fromLeafMap(t, m)
}

// ---------------------------------------------------------------- state

type heldLock struct {
	ID    *Term
	Level int
	Write bool
	Desc  string
}

type State struct {
	vars   map[types.Object]Value
	boxed  map[types.Object]PtrV // locals whose address was taken
	heap   map[string]*Term
	ghost  map[string]Value
	pc     []*Term
	guards []*Term
	now    *Term
	alloc  *Term // Array Int Bool: allocated addresses
	held   []heldLock
	trace  []string
	dead   bool
	epoch     int
	havocked  bool
	loopHavoc bool
	lazyHavoc []lazyHavocRec
}

func (st *State) clone() *State {
	n := &State{
		vars:  make(map[types.Object]Value, len(st.vars)),
		boxed: make(map[types.Object]PtrV, len(st.boxed)),
		heap:  make(map[string]*Term, len(st.heap)),
		ghost: make(map[string]Value, len(st.ghost)),
		now:   st.now,
		alloc: st.alloc,
		epoch: st.epoch, havocked: st.havocked, loopHavoc: st.loopHavoc,
		lazyHavoc: append([]lazyHavocRec(nil), st.lazyHavoc...),
	}
	for k, v := range st.vars {
		n.vars[k] = v
	}
	for k, v := range st.boxed {
		n.boxed[k] = v
	}
	for k, v := range st.heap {
		n.heap[k] = v
	}
	for k, v := range st.ghost {
		n.ghost[k] = v
	}
	n.pc = append([]*Term(nil), st.pc...)
	n.guards = append([]*Term(nil), st.guards...)
	n.held = append([]heldLock(nil), st.held...)
	n.trace = append([]string(nil), st.trace...)
	return n
}

func (st *State) guard() *Term { return And(st.guards...) }

// assume adds a fact that holds under the current expression guards.
func (st *State) assume(c *Term) {
	c = Implies(st.guard(), c)
	st.assumeRaw(c)
}

func (st *State) assumeRaw(c *Term) {
	if c.Op == "true" {
		return
	}
	if c.Op == "false" {
		st.dead = true
	}
	// cheap de-duplication against recent facts
	for i := len(st.pc) - 1; i >= 0 && i >= len(st.pc)-24; i-- {
		if st.pc[i] == c || (termSize(c) < 40 && termEqualSyntactic(st.pc[i], c)) {
			return
		}
	}
	st.pc = append(st.pc, c)
}

func (st *State) heapKeys() []string {
	ks := make([]string, 0, len(st.heap))
	for k := range st.heap {
		ks = append(ks, k)
	}
	sort.Strings(ks)
	return ks
}
