package main

// Built-in models of dependency functions (the executable counterpart of
// /verif/assumed/*.contracts).  Every model used by a run is listed in the
// evidence file's trusted base.

import (
	"fmt"
	"go/ast"
	"go/types"
	"math/big"
	"strings"
)

type modelFn func(x *Exec, fr *Frame, st *State, pc *preparedCall, k func(*State, []Value))

var models = map[string]modelFn{}

func init() {
	for k, v := range map[string]modelFn{
		"strings.SplitN":      modelSplitN,
		"strings.Split":       modelSplit,
		"strings.TrimSpace":   modelTrimSpace,
		"strings.TrimPrefix":  modelTrimPrefix,
		"strings.CutPrefix":   modelCutPrefix,
		"strings.HasPrefix":   modelHasPrefix,
		"strings.ToLower":     modelStrFn("tolower", true),
		"strings.ToUpper":     modelStrFn("toupper", true),
		"strings.SplitSeq":    modelSplitSeq,
		"strings.Join":        modelJoin,
		"strings.NewReader":   modelOpaqueResult,
		"strconv.ParseInt":    modelParseInt,
		"strconv.ParseUint":   modelParseUint,
		"strconv.Atoi":        modelAtoi,
		"strconv.Itoa":        modelFmtInt,
		"strconv.FormatInt":   modelFmtInt,
		"strconv.Quote":       modelFreshString("quote"),
		"fmt.Sprintf":         modelSprintf,
		"fmt.Errorf":          modelErrorf,
		"errors.New":          modelErrorsNew,
		"errors.Is":           modelErrorsIs,
		"time.Now":            modelTimeNow,
		"time.Since":          modelTimeSince,
		"time.Until":          modelTimeUntil,
		"time.Time.Before":    modelTimeCmp("<"),
		"time.Time.After":     modelTimeCmp(">"),
		"time.Time.Equal":     modelTimeCmp("="),
		"time.Time.Add":       modelTimeAdd,
		"time.Time.Sub":       modelTimeSub,
		"time.Time.IsZero":    modelTimeIsZero,
		"time.Time.Format":    modelTimeFormat,
		"time.Time.UTC":       modelIdentityRecv,
		"time.Time.Unix":      modelTimeUnix,
		"time.Parse":          modelTimeParse,
		"net/http.ParseTime":  modelHTTPParseTime,
		"time.Duration.Seconds":      modelDurationSeconds,
		"time.Duration.Milliseconds": modelDurationDiv(1_000_000),
		"time.Duration.Nanoseconds":  modelDurationDiv(1),
		"time.Duration.String":       modelDurationString,
		"time.Unix":                  modelTimeFromUnix,
		"net/http.Header.Get":    modelHeaderGet,
		"net/http.Header.Set":    modelHeaderSet,
		"net/http.Header.Add":    modelHeaderAdd,
		"net/http.Header.Del":    modelHeaderDel,
		"net/http.Header.Values": modelHeaderValues,
		"net/http.CanonicalHeaderKey": modelStrFn("canonkey", false),
		"encoding/base64.Encoding.Decode":         modelB64Decode,
		"encoding/base64.Encoding.DecodeString":   modelB64DecodeString,
		"encoding/base64.Encoding.EncodeToString": modelFreshString("b64enc"),
		"encoding/base64.Encoding.DecodedLen":     modelB64DecodedLen,
	} {
		models[k] = v
	}
}

func ret1(st *State, k func(*State, []Value), v Value) { k(st, []Value{v}) }

func modelOpaqueResult(x *Exec, fr *Frame, st *State, pc *preparedCall, k func(*State, []Value)) {
	k(st, x.freshResults(st, pc.fn.Type().(*types.Signature), pc.fn.Name()))
}

func modelIdentityRecv(x *Exec, fr *Frame, st *State, pc *preparedCall, k func(*State, []Value)) {
	ret1(st, k, pc.recv)
}

// time.Duration.String: the text form is a function of the value (durstr); ParseDuration reads it back (assumed).
func modelDurationString(x *Exec, fr *Frame, st *State, pc *preparedCall, k func(*State, []Value)) {
	r := x.freshValue(st, types.Typ[types.String], "durstr").(StrV)
	st.assumeRaw(Gt(r.Len, IntLit(0)))
	st.assumeRaw(Eq(x.strID(st, r), App("durstr", SInt, pc.recv.(IntV).T)))
	ret1(st, k, r)
}

func modelFreshString(tag string) modelFn {
	return func(x *Exec, fr *Frame, st *State, pc *preparedCall, k func(*State, []Value)) {
		ret1(st, k, x.freshValue(st, types.Typ[types.String], tag))
	}
}

// substring facts: r is a sub-view of s
func subview(x *Exec, st *State, s StrV, hint string) StrV {
	off := Var(x.fresh(hint+"_off"), SInt)
	ln := Var(x.fresh(hint+"_len"), SInt)
	st.assumeRaw(And(Le(s.Off, off), Le(IntLit(0), ln), Le(Add(off, ln), Add(s.Off, s.Len))))
	return StrV{Arr: s.Arr, Off: off, Len: ln}
}

func newStrSlice(x *Exec, st *State, elems []StrV) SliceV {
	z := x.zeroValue(types.NewSlice(types.Typ[types.String])).(SliceV)
	z.Off = IntLit(0)
	z.Len = IntLit(int64(len(elems)))
	z.Base = x.allocAddr(st, "strs")
	for i, e := range elems {
		z = x.sliceSet(z, IntLit(int64(i)), e)
	}
	return z
}

func (x *Exec) qvar(hint string) *Term {
	x.quantN++
	return Var(fmt.Sprintf("q%s_%d", hint, x.quantN), SInt)
}

// strings.SplitN(s, sep, 2) with a one-byte literal separator.
func modelSplitN(x *Exec, fr *Frame, st *State, pc *preparedCall, k func(*State, []Value)) {
	s := pc.args[0].(StrV)
	sep, ok := strLitOf(pc.args[1].(StrV))
	n, nok := pc.args[2].(IntV)
	if !ok || len(sep) != 1 || !nok || n.T.Op != "int" || n.T.Int.Int64() != 2 {
		panic(x.unsupported("strings.SplitN: only (s, <1-byte literal>, 2) is modelled"))
	}
	c := IntLit(int64(sep[0]))
	// case 1: no separator
	st1 := st.clone()
	j := x.qvar("j")
	st1.assumeRaw(Forall([]*Term{j}, Implies(And(Le(IntLit(0), j), Lt(j, s.Len)), Ne(x.strAt(s, j), c))))
	st1.trace = append(st1.trace, "SplitN:nosep")
	k(st1, []Value{newStrSlice(x, st1, []StrV{s})})
	// case 2: first separator at i
	i := Var(x.fresh("sepidx"), SInt)
	st.assumeRaw(And(Le(IntLit(0), i), Lt(i, s.Len), Eq(x.strAt(s, i), c)))
	j2 := x.qvar("j")
	st.assumeRaw(Forall([]*Term{j2}, Implies(And(Le(IntLit(0), j2), Lt(j2, i)), Ne(x.strAt(s, j2), c))))
	st.trace = append(st.trace, "SplitN:sep")
	a := StrV{Arr: s.Arr, Off: s.Off, Len: i}
	b := StrV{Arr: s.Arr, Off: Add(Add(s.Off, i), IntLit(1)), Len: Sub(Sub(s.Len, i), IntLit(1))}
	k(st, []Value{newStrSlice(x, st, []StrV{a, b})})
}

// strings.Split(s, sep): a slice of sub-views; the number of pieces is count(sep)+1 >= 1.
func modelSplit(x *Exec, fr *Frame, st *State, pc *preparedCall, k func(*State, []Value)) {
	s := pc.args[0].(StrV)
	z := x.freshValue(st, types.NewSlice(types.Typ[types.String]), "split").(SliceV)
	z.Off = IntLit(0)
	st.assumeRaw(Ge(z.Len, IntLit(1)))
	// every element is a sub-view of s
	j := x.qvar("j")
	offs, lens := z.Leaves[".off"], z.Leaves[".len"]
	st.assumeRaw(Forall([]*Term{j}, Implies(And(Le(IntLit(0), j), Lt(j, z.Len)),
		And(Le(s.Off, Select(offs, j)), Le(IntLit(0), Select(lens, j)), Le(Add(Select(offs, j), Select(lens, j)), Add(s.Off, s.Len)), Eq(Select(z.Leaves[".arr"], j), s.Arr)))))
	x.Abstractions["strings.Split: pieces are sub-views of the argument; separator positions not tracked"] = true
	ret1(st, k, z)
}

func isSpaceTerm(b *Term) *Term {
	return Or(Eq(b, IntLit(' ')), Eq(b, IntLit('\t')), Eq(b, IntLit('\n')), Eq(b, IntLit('\r')), Eq(b, IntLit(0x0b)), Eq(b, IntLit(0x0c)))
}

func modelTrimSpace(x *Exec, fr *Frame, st *State, pc *preparedCall, k func(*State, []Value)) {
	s := pc.args[0].(StrV)
	r := subview(x, st, s, "trim")
	// result does not start or end with ASCII space (non-ASCII space runes not modelled)
	st.assumeRaw(Implies(Gt(r.Len, IntLit(0)), And(Not(isSpaceTerm(x.strAt(r, IntLit(0)))), Not(isSpaceTerm(x.strAt(r, Sub(r.Len, IntLit(1))))))))
	// everything removed is space
	j := x.qvar("j")
	st.assumeRaw(Forall([]*Term{j}, Implies(And(Le(s.Off, j), Lt(j, r.Off)), isSpaceTerm(Select(s.Arr, j)))))
	j2 := x.qvar("j")
	st.assumeRaw(Forall([]*Term{j2}, Implies(And(Le(Add(r.Off, r.Len), j2), Lt(j2, Add(s.Off, s.Len))), isSpaceTerm(Select(s.Arr, j2)))))
	st.assumeRaw(Eq(x.strID(st, r), App("strfn_trimspace", SInt, x.strID(st, s))))
	ret1(st, k, r)
}

func hasPrefixTerm(x *Exec, s StrV, p string) *Term {
	cs := []*Term{Ge(s.Len, IntLit(int64(len(p))))}
	for i := 0; i < len(p); i++ {
		cs = append(cs, Eq(x.strAt(s, IntLit(int64(i))), IntLit(int64(p[i]))))
	}
	return And(cs...)
}

func modelHasPrefix(x *Exec, fr *Frame, st *State, pc *preparedCall, k func(*State, []Value)) {
	s := pc.args[0].(StrV)
	p, ok := strLitOf(pc.args[1].(StrV))
	if !ok {
		ret1(st, k, BoolV{Var(x.fresh("hasprefix"), SBool)})
		return
	}
	c := hasPrefixTerm(x, s, p)
	st.assumeRaw(Eq(c, App("strfn_hasprefix", SBool, x.strID(st, s), x.strID(st, x.strLit(p)))))
	ret1(st, k, BoolV{c})
}

func modelTrimPrefix(x *Exec, fr *Frame, st *State, pc *preparedCall, k func(*State, []Value)) {
	s := pc.args[0].(StrV)
	p, ok := strLitOf(pc.args[1].(StrV))
	if !ok {
		panic(x.unsupported("strings.TrimPrefix with non-literal prefix"))
	}
	c := hasPrefixTerm(x, s, p)
	n := IntLit(int64(len(p)))
	ret1(st, k, StrV{Arr: s.Arr, Off: Ite(c, Add(s.Off, n), s.Off), Len: Ite(c, Sub(s.Len, n), s.Len)})
}

func modelCutPrefix(x *Exec, fr *Frame, st *State, pc *preparedCall, k func(*State, []Value)) {
	s := pc.args[0].(StrV)
	p, ok := strLitOf(pc.args[1].(StrV))
	if !ok {
		panic(x.unsupported("strings.CutPrefix with non-literal prefix"))
	}
	c := hasPrefixTerm(x, s, p)
	n := IntLit(int64(len(p)))
	after := StrV{Arr: s.Arr, Off: Ite(c, Add(s.Off, n), s.Off), Len: Ite(c, Sub(s.Len, n), s.Len)}
	pid := x.strID(st, x.strLit(p))
	st.assumeRaw(Eq(c, App("strfn_hasprefix", SBool, x.strID(st, s), pid)))
	st.assumeRaw(Implies(c, Eq(x.strID(st, after), App("strfn_cutprefix", SInt, x.strID(st, s), pid))))
	k(st, []Value{after, BoolV{c}})
}

// uninterpreted string-to-string functions: result identified by strid only
func modelStrFn(tag string, sameLen bool) modelFn {
	return func(x *Exec, fr *Frame, st *State, pc *preparedCall, k func(*State, []Value)) {
		s := pc.args[0].(StrV)
		if lit, ok := strLitOf(s); ok {
			switch tag {
			case "tolower":
				ret1(st, k, x.strLit(asciiLower(lit)))
				return
			}
		}
		r := x.freshValue(st, types.Typ[types.String], tag).(StrV)
		if sameLen {
			// ASCII input keeps its length; general Unicode may not, so only an upper bound is assumed
			st.assumeRaw(Le(r.Len, Mul(IntLit(4), Add(s.Len, IntLit(1)))))
		}
		st.assumeRaw(Eq(x.strID(st, r), App("strfn_"+tag, SInt, x.strID(st, s))))
		if tag == "canonkey" {
			x.canonKeyAxiom()
		}
		ret1(st, k, r)
	}
}

func asciiLower(s string) string {
	b := []byte(s)
	for i, c := range b {
		if c >= 'A' && c <= 'Z' {
			b[i] = c + 32
		}
	}
	return string(b)
}

func modelSplitSeq(x *Exec, fr *Frame, st *State, pc *preparedCall, k func(*State, []Value)) {
	s := pc.args[0].(StrV)
	id := Var(x.fresh("splitseq"), SInt)
	st.assumeRaw(Gt(id, IntLit(0)))
	pieces := x.splitPieces(st, s, pc.args[1].(StrV))
	st.ghost["split"] = pieces
	x.iterSources[id.Name] = iterSource{kind: "splitseq", str: s, pieces: pieces}
	ret1(st, k, FuncV{Sym: id, Sig: pc.fn.Type().(*types.Signature).Results().At(0).Type().Underlying().(*types.Signature)})
}

type iterSource struct {
	kind   string
	str    StrV
	pieces SliceV
}

// splitPieces is the abstract result of splitting s by sep: at least one
// piece, every piece a sub-view of s, and the identity of piece k is the
// uninterpreted function splitat(id(s), id(sep), k); the count is splitlen(id(s), id(sep)).
func (x *Exec) splitPieces(st *State, s, sep StrV) SliceV {
	z := x.freshValue(st, types.NewSlice(types.Typ[types.String]), "pieces").(SliceV)
	z.Off = IntLit(0)
	sid, sepid := x.strID(st, s), x.strID(st, sep)
	st.assumeRaw(Ge(z.Len, IntLit(1)))
	st.assumeRaw(Eq(z.Len, App("strfn_splitlen", SInt, sid, sepid)))
	j := x.qvar("j")
	offs, lens, arrs := z.Leaves[".off"], z.Leaves[".len"], z.Leaves[".arr"]
	piece := StrV{Arr: Select(arrs, j), Off: Select(offs, j), Len: Select(lens, j)}
	st.assumeRaw(Forall([]*Term{j}, Implies(And(Le(IntLit(0), j), Lt(j, z.Len)),
		And(Le(s.Off, Select(offs, j)), Le(IntLit(0), Select(lens, j)), Le(Add(Select(offs, j), Select(lens, j)), Add(s.Off, s.Len)), Eq(Select(arrs, j), s.Arr),
			Eq(x.strID(st, piece), App("strfn_splitat", SInt, sid, sepid, j))))))
	return z
}

// decimal syntax predicate: optional sign, at least one digit, digits only
func decimalOK(x *Exec, s StrV, allowSign bool) *Term {
	j := x.qvar("j")
	first := x.strAt(s, IntLit(0))
	isDigit := func(b *Term) *Term { return And(Le(IntLit('0'), b), Le(b, IntLit('9'))) }
	if allowSign {
		signed := Or(Eq(first, IntLit('-')), Eq(first, IntLit('+')))
		start := Ite(signed, IntLit(1), IntLit(0))
		return And(Gt(s.Len, start), Forall([]*Term{j}, Implies(And(Le(start, j), Lt(j, s.Len)), isDigit(x.strAt(s, j)))))
	}
	return And(Gt(s.Len, IntLit(0)), Forall([]*Term{j}, Implies(And(Le(IntLit(0), j), Lt(j, s.Len)), isDigit(x.strAt(s, j)))))
}

// strconv.ParseInt(s, 10, bits): err == nil implies decimal syntax and the value fits;
// the value is the uninterpreted decimal value of the string.
func modelParseInt(x *Exec, fr *Frame, st *State, pc *preparedCall, k func(*State, []Value)) {
	s := pc.args[0].(StrV)
	bits := int64(64)
	if b, ok := pc.args[2].(IntV); ok && b.T.Op == "int" && b.T.Int.Int64() != 0 {
		bits = b.T.Int.Int64()
	}
	kd := intKind{int(bits), true}
	v := App("decval", SInt, x.strID(st, s))
	errT := Var(x.fresh("parseerr"), SInt)
	st.assumeRaw(Ge(errT, IntLit(0)))
	okc := And(decimalOK(x, s, true), inRange(kd, v))
	st.assumeRaw(Eq(Eq(errT, IntLit(0)), okc))
	st.assumeRaw(Eq(Eq(errT, IntLit(0)), App(fmt.Sprintf("parseok_s%d", bits), SBool, x.strID(st, s))))
	res := Var(x.fresh("parsed"), SInt)
	st.assumeRaw(inRange(kd, res))
	st.assumeRaw(Implies(Eq(errT, IntLit(0)), Eq(res, v)))
	k(st, []Value{IntV{res}, OpaqueV{T: errT, Type: types.Universe.Lookup("error").Type()}})
}

func modelParseUint(x *Exec, fr *Frame, st *State, pc *preparedCall, k func(*State, []Value)) {
	s := pc.args[0].(StrV)
	bits := int64(64)
	if b, ok := pc.args[2].(IntV); ok && b.T.Op == "int" && b.T.Int.Int64() != 0 {
		bits = b.T.Int.Int64()
	}
	kd := intKind{int(bits), false}
	v := App("decval", SInt, x.strID(st, s))
	errT := Var(x.fresh("parseerr"), SInt)
	st.assumeRaw(Ge(errT, IntLit(0)))
	okc := And(decimalOK(x, s, false), inRange(kd, v))
	st.assumeRaw(Eq(Eq(errT, IntLit(0)), okc))
	res := Var(x.fresh("parsed"), SInt)
	st.assumeRaw(inRange(intKind{64, false}, res))
	st.assumeRaw(Implies(Eq(errT, IntLit(0)), Eq(res, v)))
	st.assumeRaw(inRange(kd, res))
	k(st, []Value{IntV{res}, OpaqueV{T: errT, Type: types.Universe.Lookup("error").Type()}})
}

func modelAtoi(x *Exec, fr *Frame, st *State, pc *preparedCall, k func(*State, []Value)) {
	pc2 := *pc
	pc2.args = []Value{pc.args[0], IntV{IntLit(10)}, IntV{IntLit(64)}}
	modelParseInt(x, fr, st, &pc2, k)
}

func modelFmtInt(x *Exec, fr *Frame, st *State, pc *preparedCall, k func(*State, []Value)) {
	v := pc.args[0].(IntV)
	r := x.freshValue(st, types.Typ[types.String], "itoa").(StrV)
	st.assumeRaw(And(Ge(r.Len, IntLit(1)), Le(r.Len, IntLit(20))))
	st.assumeRaw(Eq(App("decval", SInt, x.strID(st, r)), v.T))
	st.assumeRaw(decimalOK(x, r, true))
	ret1(st, k, r)
}

// fmt.Sprintf(format, args...): an injective-by-construction tag of the format and
// its arguments; the text itself is a fresh string.
func modelSprintf(x *Exec, fr *Frame, st *State, pc *preparedCall, k func(*State, []Value)) {
	r := x.freshValue(st, types.Typ[types.String], "sprintf").(StrV)
	if f, ok := strLitOf(pc.args[0].(StrV)); ok {
		var ids []*Term
		for _, a := range pc.args[1:] {
			ids = append(ids, x.identityOf(st, a))
		}
		tag := App(x.sprintfSymbol(f, len(ids)), SInt, ids...)
		st.assumeRaw(Eq(x.strID(st, r), tag))
		x.sprintfFacts(st, f, pc.args[1:], r)
	}
	ret1(st, k, r)
}

// identityOf maps a value to one Int for use in uninterpreted tags.
func (x *Exec) identityOf(st *State, v Value) *Term {
	switch vv := v.(type) {
	case IntV:
		return vv.T
	case StrV:
		return x.strID(st, vv)
	case OpaqueV:
		if vv.Dyn != nil {
			return x.identityOf(st, vv.Dyn)
		}
		return vv.T
	case PtrV:
		return vv.Addr
	case BoolV:
		return Ite(vv.T, IntLit(1), IntLit(0))
	case StructV:
		if len(vv.Names) == 1 {
			return x.identityOf(st, vv.F[vv.Names[0]])
		}
		var ids []*Term
		for _, n := range vv.Names {
			ids = append(ids, x.identityOf(st, vv.F[n]))
		}
		return App(fmt.Sprintf("tupleid_%d", len(ids)), SInt, ids...)
	case FuncV:
		return x.asTerm(vv)
	case MapV:
		return vv.ID
	}
	return Var(x.fresh("ident"), SInt)
}

func modelErrorf(x *Exec, fr *Frame, st *State, pc *preparedCall, k func(*State, []Value)) {
	e := Var(x.fresh("err"), SInt)
	st.assumeRaw(And(Gt(e, IntLit(100000)), Le(e, IntLit(1<<40))))
	if f, ok := strLitOf(pc.args[0].(StrV)); ok {
		// each %w operand is wrapped - and nothing else is: errors.Is(e, t) holds exactly
		// when t is e, a %w operand, or something a %w operand wraps
		var alts []*Term
		qt := x.qvar("wt")
		wi := 0
		for i := 0; i+1 < len(f); i++ {
			if f[i] == '%' {
				if f[i+1] == 'w' {
					if wi < len(pc.args)-1 {
						if o, ok := pc.args[1+wi].(OpaqueV); ok {
							st.assumeRaw(App("wraps", SBool, e, o.T))
							x.wrapFacts(st, e, o.T)
							alts = append(alts, Eq(qt, o.T), App("wraps", SBool, o.T, qt))
						}
					}
				}
				if f[i+1] != '%' {
					wi++
				} else {
					i++
				}
			}
		}
		st.assumeRaw(Forall([]*Term{qt}, Eq(App("wraps", SBool, e, qt), Or(alts...))))
		x.sentinelAxiom()
	}
	ret1(st, k, OpaqueV{T: e, Type: types.Universe.Lookup("error").Type()})
}

// wrapFacts: wrapping is transitive over the sentinels seen so far.
func (x *Exec) wrapFacts(st *State, e, inner *Term) {
	for _, id := range x.errIDs {
		s := IntLit(id)
		st.assumeRaw(Implies(App("wraps", SBool, inner, s), App("wraps", SBool, e, s)))
	}
}

// sentinelAxiom: errors made by errors.New at package level (ids 1000..100000) wrap nothing.
func (x *Exec) sentinelAxiom() {
	if x.sentinelAxiomDone {
		return
	}
	x.sentinelAxiomDone = true
	e, t := Var("qe_sent", SInt), Var("qt_sent", SInt)
	x.GlobalFacts = append(x.GlobalFacts, Forall([]*Term{e, t}, Implies(And(Ge(e, IntLit(0)), Le(e, IntLit(100000))), Not(App("wraps", SBool, e, t)))))
}

func modelErrorsNew(x *Exec, fr *Frame, st *State, pc *preparedCall, k func(*State, []Value)) {
	e := Var(x.fresh("err"), SInt)
	st.assumeRaw(And(Gt(e, IntLit(100000)), Le(e, IntLit(1<<40))))
	ret1(st, k, OpaqueV{T: e, Type: types.Universe.Lookup("error").Type()})
}

func modelErrorsIs(x *Exec, fr *Frame, st *State, pc *preparedCall, k func(*State, []Value)) {
	a := x.asTerm(pc.args[0])
	b := x.asTerm(pc.args[1])
	// errors produced by modelled I/O wrap none of the program's sentinels
	for _, fe := range x.freshErrs {
		st.assumeRaw(Not(App("wraps", SBool, fe, b)))
	}
	x.sentinelAxiom()
	// nil never "is" a non-nil target
	ret1(st, k, BoolV{Ite(Eq(a, IntLit(0)), Eq(b, IntLit(0)), errIs(a, b))})
}

// ---- time

func modelTimeNow(x *Exec, fr *Frame, st *State, pc *preparedCall, k func(*State, []Value)) {
	n := Var(x.fresh("now"), SInt)
	st.assumeRaw(Ge(n, st.now))
	// a clock read after a blocking lock acquisition is not earlier than the moment the lock was got
	// ("locknow"); the ghost clock itself does not move at Lock(), so contracts over now / old(now) stand
	if ln, ok := st.ghost["locknow"].(IntV); ok {
		st.assumeRaw(Ge(n, ln.T))
	}
	st.now = n
	ret1(st, k, IntV{n})
}

func (x *Exec) tickNow(st *State) *Term {
	n := Var(x.fresh("now"), SInt)
	st.assumeRaw(Ge(n, st.now))
	st.now = n
	return n
}

func modelTimeSince(x *Exec, fr *Frame, st *State, pc *preparedCall, k func(*State, []Value)) {
	n := x.tickNow(st)
	ret1(st, k, IntV{satDuration(Sub(n, pc.args[0].(IntV).T))})
}

func modelTimeUntil(x *Exec, fr *Frame, st *State, pc *preparedCall, k func(*State, []Value)) {
	n := x.tickNow(st)
	ret1(st, k, IntV{satDuration(Sub(pc.args[0].(IntV).T, n))})
}

// time.Time.Sub saturates at the Duration range.
func satDuration(d *Term) *Term {
	k := intKind{64, true}
	return Ite(Gt(d, BigLit(k.max())), BigLit(k.max()), Ite(Lt(d, BigLit(k.min())), BigLit(k.min()), d))
}

func modelTimeCmp(op string) modelFn {
	return func(x *Exec, fr *Frame, st *State, pc *preparedCall, k func(*State, []Value)) {
		a, b := pc.recv.(IntV).T, pc.args[0].(IntV).T
		switch op {
		case "<":
			ret1(st, k, BoolV{Lt(a, b)})
		case ">":
			ret1(st, k, BoolV{Gt(a, b)})
		default:
			ret1(st, k, BoolV{Eq(a, b)})
		}
	}
}

func modelTimeAdd(x *Exec, fr *Frame, st *State, pc *preparedCall, k func(*State, []Value)) {
	ret1(st, k, IntV{Add(pc.recv.(IntV).T, pc.args[0].(IntV).T)})
}

func modelTimeSub(x *Exec, fr *Frame, st *State, pc *preparedCall, k func(*State, []Value)) {
	ret1(st, k, IntV{satDuration(Sub(pc.recv.(IntV).T, pc.args[0].(IntV).T))})
}

func modelTimeIsZero(x *Exec, fr *Frame, st *State, pc *preparedCall, k func(*State, []Value)) {
	ret1(st, k, BoolV{Eq(pc.recv.(IntV).T, IntLit(0))})
}

func modelTimeUnix(x *Exec, fr *Frame, st *State, pc *preparedCall, k func(*State, []Value)) {
	ret1(st, k, IntV{mk("div", SInt, pc.recv.(IntV).T, IntLit(1_000_000_000))})
}

func modelTimeFromUnix(x *Exec, fr *Frame, st *State, pc *preparedCall, k func(*State, []Value)) {
	ret1(st, k, IntV{Add(Mul(pc.args[0].(IntV).T, IntLit(1_000_000_000)), pc.args[1].(IntV).T)})
}

func modelTimeFormat(x *Exec, fr *Frame, st *State, pc *preparedCall, k func(*State, []Value)) {
	r := x.freshValue(st, types.Typ[types.String], "timefmt").(StrV)
	// Format is a function of the instant truncated to seconds; Parse is its left inverse
	sec := mk("div", SInt, pc.recv.(IntV).T, IntLit(1_000_000_000))
	st.assumeRaw(Eq(x.strID(st, r), App("timefmt", SInt, sec)))
	st.assumeRaw(Gt(r.Len, IntLit(0)))
	ret1(st, k, r)
}

func modelTimeParse(x *Exec, fr *Frame, st *State, pc *preparedCall, k func(*State, []Value)) {
	s := pc.args[1].(StrV)
	// timeparse_ok / timeparse_val in contracts stand for parsing an HTTP-date (layout
	// http.TimeFormat); any other layout is a different partial function of the text
	if layout, ok := pc.args[0].(StrV); ok {
		if lit, isLit := strLitOf(layout); !isLit || lit != "Mon, 02 Jan 2006 15:04:05 GMT" {
			tag := "timeparse_other"
			if isLit {
				tag = "timeparse_" + sanitize(lit)
			}
			modelParseTimeCommon(x, st, s, tag, k)
			return
		}
	}
	modelParseTimeCommon(x, st, s, "timeparse", k)
}

func modelHTTPParseTime(x *Exec, fr *Frame, st *State, pc *preparedCall, k func(*State, []Value)) {
	s := pc.args[0].(StrV)
	modelParseTimeCommon(x, st, s, "httpparsetime", k)
}

// time.Parse: an uninterpreted partial function of the text.
func modelParseTimeCommon(x *Exec, st *State, s StrV, tag string, k func(*State, []Value)) {
	id := x.strID(st, s)
	okT := App(tag+"_ok", SBool, id)
	val := App(tag+"_val", SInt, id)
	errT := Var(x.fresh("timeerr"), SInt)
	st.assumeRaw(Ge(errT, IntLit(0)))
	st.assumeRaw(Eq(Eq(errT, IntLit(0)), okT))
	// an empty string never parses
	st.assumeRaw(Implies(Eq(s.Len, IntLit(0)), Not(okT)))
	t := Var(x.fresh("parsedtime"), SInt)
	st.assumeRaw(Implies(okT, Eq(t, val)))
	st.assumeRaw(Implies(Not(okT), Eq(t, IntLit(0))))
	k(st, []Value{IntV{t}, OpaqueV{T: errT, Type: types.Universe.Lookup("error").Type()}})
}

// Duration.Seconds(): a float tracked as the exact rational d / 1e9.
func modelDurationSeconds(x *Exec, fr *Frame, st *State, pc *preparedCall, k func(*State, []Value)) {
	d := pc.recv.(IntV).T
	ret1(st, k, OpaqueV{T: App("dursec", SInt, d), Type: types.Typ[types.Float64], Num: d, Den: big.NewInt(1_000_000_000)})
}

func modelDurationDiv(n int64) modelFn {
	return func(x *Exec, fr *Frame, st *State, pc *preparedCall, k func(*State, []Value)) {
		ret1(st, k, IntV{TDiv(pc.recv.(IntV).T, IntLit(n))})
	}
}

// ---- http.Header as map[string][]string keyed by canonical names

func (x *Exec) canonKey(st *State, name StrV) *Term {
	if lit, ok := strLitOf(name); ok {
		return x.strID(st, x.strLit(canonicalMIME(lit)))
	}
	x.canonKeyAxiom()
	return App("strfn_canonkey", SInt, x.strID(st, name))
}

// canonKeyAxiom: http.CanonicalHeaderKey is idempotent (and header literals used as keys are canonical).
func (x *Exec) canonKeyAxiom() {
	if x.canonAxiomDone {
		return
	}
	x.canonAxiomDone = true
	v := Var("qck", SInt)
	c := App("strfn_canonkey", SInt, v)
	x.GlobalFacts = append(x.GlobalFacts, Forall([]*Term{v}, Eq(App("strfn_canonkey", SInt, c), c)))
}

func canonicalMIME(s string) string {
	b := []byte(s)
	upper := true
	for i, c := range b {
		if upper && c >= 'a' && c <= 'z' {
			c -= 32
		} else if !upper && c >= 'A' && c <= 'Z' {
			c += 32
		}
		b[i] = c
		upper = c == '-'
	}
	return string(b)
}

func modelHeaderGet(x *Exec, fr *Frame, st *State, pc *preparedCall, k func(*State, []Value)) {
	h, ok := pc.recv.(MapV)
	if !ok {
		panic(x.unsupported("http.Header receiver"))
	}
	key := x.canonKey(st, pc.args[0].(StrV))
	v, pres := x.mapGet(st, h, key)
	vs := v.(SliceV)
	has := And(pres, Gt(vs.Len, IntLit(0)))
	first := x.sliceAt(vs, IntLit(0)).(StrV)
	empty := x.strLit("")
	ret1(st, k, StrV{Arr: Ite(has, first.Arr, empty.Arr), Off: Ite(has, first.Off, empty.Off), Len: Ite(has, first.Len, empty.Len)})
}

func modelHeaderValues(x *Exec, fr *Frame, st *State, pc *preparedCall, k func(*State, []Value)) {
	h := pc.recv.(MapV)
	key := x.canonKey(st, pc.args[0].(StrV))
	v, _ := x.mapGet(st, h, key)
	ret1(st, k, v)
}

func modelHeaderSet(x *Exec, fr *Frame, st *State, pc *preparedCall, k func(*State, []Value)) {
	h := pc.recv.(MapV)
	key := x.canonKey(st, pc.args[0].(StrV))
	x.mapSet(st, h, key, newStrSlice(x, st, []StrV{pc.args[1].(StrV)}))
	k(st, nil)
}

func modelHeaderAdd(x *Exec, fr *Frame, st *State, pc *preparedCall, k func(*State, []Value)) {
	h := pc.recv.(MapV)
	key := x.canonKey(st, pc.args[0].(StrV))
	v, pres := x.mapGet(st, h, key)
	vs := v.(SliceV)
	// absent key: mapGet yields the zero slice (len 0)
	_ = pres
	ns := x.sliceSet(vs, vs.Len, pc.args[1].(StrV))
	ns.Len = Add(vs.Len, IntLit(1))
	x.mapSet(st, h, key, ns)
	k(st, nil)
}

func modelHeaderDel(x *Exec, fr *Frame, st *State, pc *preparedCall, k func(*State, []Value)) {
	h := pc.recv.(MapV)
	key := x.canonKey(st, pc.args[0].(StrV))
	x.mapDelete(st, h, key)
	k(st, nil)
}

// ---- base64

func b64RawDecodedLen(n *Term) *Term { return mk("div", SInt, Mul(n, IntLit(6)), IntLit(8)) }

// (*Encoding).Decode(dst, src) panics (index out of range) when dst is shorter than the decoded data.
func modelB64Decode(x *Exec, fr *Frame, st *State, pc *preparedCall, k func(*State, []Value)) {
	dst := pc.args[0].(StrV)
	src := pc.args[1].(StrV)
	n := Var(x.fresh("b64n"), SInt)
	errT := Var(x.fresh("b64err"), SInt)
	st.assumeRaw(And(Ge(errT, IntLit(0)), Ge(n, IntLit(0)), Le(n, b64RawDecodedLen(src.Len))))
	// well-formed input (err == nil) decodes to exactly DecodedLen bytes (raw, unpadded encoding)
	st.assumeRaw(Implies(Eq(errT, IntLit(0)), Eq(n, b64RawDecodedLen(src.Len))))
	// the implementation writes decoded bytes into dst as it goes: needs len(dst) >= n
	x.safety(fr, st, "pre", pc.e, Ge(dst.Len, n))
	k(st, []Value{IntV{n}, OpaqueV{T: errT, Type: types.Universe.Lookup("error").Type()}})
}

func modelB64DecodeString(x *Exec, fr *Frame, st *State, pc *preparedCall, k func(*State, []Value)) {
	src := pc.args[0].(StrV)
	r := x.freshValue(st, types.NewSlice(types.Typ[types.Byte]), "b64dec").(StrV)
	errT := Var(x.fresh("b64err"), SInt)
	st.assumeRaw(Ge(errT, IntLit(0)))
	st.assumeRaw(Le(r.Len, b64RawDecodedLen(src.Len)))
	st.assumeRaw(Implies(Eq(errT, IntLit(0)), Eq(r.Len, b64RawDecodedLen(src.Len))))
	k(st, []Value{r, OpaqueV{T: errT, Type: types.Universe.Lookup("error").Type()}})
}

func modelB64DecodedLen(x *Exec, fr *Frame, st *State, pc *preparedCall, k func(*State, []Value)) {
	ret1(st, k, IntV{b64RawDecodedLen(pc.args[0].(IntV).T)})
}

// rangeYield produces the abstract element of a function iterator / channel.
func (x *Exec) rangeYield(fr *Frame, s *ast.RangeStmt, st *State, rv Value, k func(*State, Value, Value)) {
	info := fr.pkg.TypesInfo
	var kt, vt types.Type
	if s.Key != nil {
		kt = x.lhsTypeOrExpr(fr, s.Key, info)
	}
	if s.Value != nil {
		vt = x.lhsTypeOrExpr(fr, s.Value, info)
	}
	if fv, ok := rv.(FuncV); ok && fv.Sym != nil {
		if src, ok := x.iterSources[fv.Sym.Name]; ok && src.kind == "splitseq" {
			piece := subview(x, st, src.str, "piece")
			k(st, piece, nil)
			return
		}
	}
	// iterator stored in a function field with a contract: the yielded pair satisfies its ensures
	if se, ok := ast.Unparen(s.X).(*ast.SelectorExpr); ok {
		if sel, ok := info.Selections[se]; ok && sel.Kind() == types.FieldVal {
			rt := x.resolveType(sel.Recv())
			if p, ok := rt.(*types.Pointer); ok {
				rt = p.Elem()
			}
			fkey := typeKey(rt) + "." + se.Sel.Name
			for _, fc := range x.C.FnFields {
				parts := strings.SplitN(fc.Name, ".", 2)
				if len(parts) == 2 && strings.Contains(fkey, parts[0]) && strings.HasSuffix(fkey, "."+parts[1]) {
					var kv, vv Value
					if kt != nil {
						kv = x.freshValue(st, kt, "yieldk")
					}
					if vt != nil {
						vv = x.freshValue(st, vt, "yieldv")
						if p, ok := vv.(PtrV); ok {
							x.assumeAllocated(st, p.Addr)
						}
					}
					env := &SpecEnv{x: x, st: st, vars: map[string]Value{}, bound: map[string]Value{}, pkgPath: fr.pkg.PkgPath, fr: fr}
					if len(fc.Results) > 0 && kv != nil {
						env.vars[fc.Results[0].Name] = kv
					}
					if len(fc.Results) > 1 && vv != nil {
						env.vars[fc.Results[1].Name] = vv
					}
					for _, e := range fc.Ensures {
						st.assumeRaw(x.specBool(env, e.Expr))
					}
					k(st, kv, vv)
					return
				}
			}
		}
	}
	if h, ok := x.iterHook(fr, s, st, rv); ok {
		h(k)
		return
	}
	var kv, vv Value
	if kt != nil {
		kv = x.freshValue(st, kt, "yieldk")
		if p, ok := kv.(PtrV); ok {
			x.assumeAllocated(st, p.Addr)
		}
	}
	if vt != nil {
		vv = x.freshValue(st, vt, "yieldv")
		if p, ok := vv.(PtrV); ok {
			x.assumeAllocated(st, p.Addr)
		}
	}
	k(st, kv, vv)
}

func (x *Exec) lhsTypeOrExpr(fr *Frame, e ast.Expr, info *types.Info) types.Type {
	if id, ok := e.(*ast.Ident); ok {
		if id.Name == "_" {
			return nil
		}
		if obj := info.Defs[id]; obj != nil {
			return x.resolveType(obj.Type())
		}
		if obj := info.Uses[id]; obj != nil {
			return x.resolveType(obj.Type())
		}
	}
	if t := info.TypeOf(e); t != nil {
		return x.resolveType(t)
	}
	return nil
}

// strings.Join(elems, sep).  Content is abstract; what is assumed:
//   no element  -> "" ; one element -> that element;
//   splitting the result by sep yields exactly the pieces of the elements
//   (every piece of every element occurs, and every piece of the result comes from some element).
func modelJoin(x *Exec, fr *Frame, st *State, pc *preparedCall, k func(*State, []Value)) {
	elems, ok := pc.args[0].(SliceV)
	if !ok {
		ret1(st, k, x.freshValue(st, types.Typ[types.String], "join"))
		return
	}
	sep := pc.args[1].(StrV)
	r := x.freshValue(st, types.Typ[types.String], "join").(StrV)
	rid, sepid := x.strID(st, r), x.strID(st, sep)
	at := func(i *Term) StrV {
		v := x.sliceAt(elems, i).(StrV)
		return v
	}
	st.assumeRaw(Implies(Eq(elems.Len, IntLit(0)), Eq(r.Len, IntLit(0))))
	e0 := at(IntLit(0))
	st.assumeRaw(Implies(Eq(elems.Len, IntLit(1)), And(Eq(rid, x.strID(st, e0)), Eq(r.Len, e0.Len))))
	i, kk := x.qvar("ji"), x.qvar("jk")
	ei := at(i)
	eid := x.strID(st, ei)
	pos := App("strfn_joinpos", SInt, rid, i, kk)
	st.assumeRaw(Forall([]*Term{i, kk}, Implies(
		And(Le(IntLit(0), i), Lt(i, elems.Len), Le(IntLit(0), kk), Lt(kk, App("strfn_splitlen", SInt, eid, sepid))),
		And(Le(IntLit(0), pos), Lt(pos, App("strfn_splitlen", SInt, rid, sepid)),
			Eq(App("strfn_splitat", SInt, rid, sepid, pos), App("strfn_splitat", SInt, eid, sepid, kk))))))
	j := x.qvar("jj")
	li := App("strfn_joinline", SInt, rid, j)
	lk := App("strfn_joinidx", SInt, rid, j)
	eli := at(li)
	st.assumeRaw(Forall([]*Term{j}, Implies(
		And(Le(IntLit(0), j), Lt(j, App("strfn_splitlen", SInt, rid, sepid)), Gt(elems.Len, IntLit(0))),
		And(Le(IntLit(0), li), Lt(li, elems.Len), Le(IntLit(0), lk), Lt(lk, App("strfn_splitlen", SInt, x.strID(st, eli), sepid)),
			Eq(App("strfn_splitat", SInt, rid, sepid, j), App("strfn_splitat", SInt, x.strID(st, eli), sepid, lk))))))
	ret1(st, k, r)
}
