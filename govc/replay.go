package main

// From a failed obligation to a replay against the real code.

import (
	"encoding/hex"
	"encoding/json"
	"fmt"
	"go/ast"
	"go/token"
	"go/types"
	"math/big"
	"math/rand"
	"os"
	"os/exec"
	"path/filepath"
	"regexp"
	"sort"
	"strconv"
	"strings"
	"time"
)

type ReplayResult struct {
	Path      string
	Confirmed bool
}

type replayDoc struct {
	Property   string         `json:"property"`
	Obligation string         `json:"obligation"`
	Kind       string         `json:"kind"`
	At         string         `json:"at"`
	Trace      []string       `json:"path_trace"`
	Solver     string         `json:"solver_status"`
	Tried      []string       `json:"solvers_tried"`
	SolverOut  string         `json:"solver_output,omitempty"`
	Clause     string         `json:"violated_clause,omitempty"`
	Model      map[string]any `json:"model_inputs,omitempty"`
	Witness    map[string]any `json:"witness_inputs,omitempty"`
	WitnessHow string         `json:"witness_found_by,omitempty"`
	Observed   any            `json:"observed_on_real_code,omitempty"`
	Test       string         `json:"replay_test,omitempty"`
	Command    string         `json:"replay_command,omitempty"`
	Confirmed  bool           `json:"confirmed_on_real_code"`
	Note       string         `json:"note,omitempty"`
}

// ---------------------------------------------------------------- concrete values

type cval struct {
	typ types.Type
	v   Value // concrete Value (constant terms)
}

func simpleType(x *Exec, t types.Type, depth int) bool {
	t = x.resolveType(t)
	if depth > 4 {
		return false
	}
	if isTimeTime(t) {
		return true
	}
	switch u := t.Underlying().(type) {
	case *types.Basic:
		return u.Info()&(types.IsInteger|types.IsBoolean|types.IsString) != 0
	case *types.Slice:
		return isByteSlice(t)
	case *types.Struct:
		for i := 0; i < u.NumFields(); i++ {
			if !simpleType(x, u.Field(i).Type(), depth+1) {
				return false
			}
		}
		return true
	}
	return false
}

func goStringLit(b []byte) string {
	var sb strings.Builder
	sb.WriteByte('"')
	for _, c := range b {
		switch {
		case c == '"' || c == '\\':
			sb.WriteByte('\\')
			sb.WriteByte(c)
		case c >= 0x20 && c < 0x7f:
			sb.WriteByte(c)
		default:
			fmt.Fprintf(&sb, "\\x%02x", c)
		}
	}
	sb.WriteByte('"')
	return sb.String()
}

func (x *Exec) concreteBytes(s StrV) ([]byte, bool) {
	if s.Len.Op != "int" || s.Off.Op != "int" {
		return nil, false
	}
	n := int(s.Len.Int.Int64())
	if n > 1<<16 {
		return nil, false
	}
	out := make([]byte, n)
	for i := 0; i < n; i++ {
		t := Select(s.Arr, Add(s.Off, IntLit(int64(i))))
		if t.Op != "int" {
			return nil, false
		}
		out[i] = byte(t.Int.Int64())
	}
	return out, true
}

// goLiteral renders a concrete value as a Go expression valid inside package pkg.
func (x *Exec) goLiteral(pkg *types.Package, t types.Type, v Value) (string, bool) {
	t = x.resolveType(t)
	q := func(p *types.Package) string {
		if p == pkg {
			return ""
		}
		return p.Name()
	}
	ts := types.TypeString(t, q)
	if isTimeTime(t) {
		iv := v.(IntV)
		if iv.T.Op != "int" {
			return "", false
		}
		return fmt.Sprintf("time.Unix(0, %s)", iv.T.Int.String()), true
	}
	switch vv := v.(type) {
	case IntV:
		if vv.T.Op != "int" {
			return "", false
		}
		return fmt.Sprintf("%s(%s)", ts, vv.T.Int.String()), true
	case BoolV:
		if vv.T.Op == "true" {
			return "true", true
		}
		if vv.T.Op == "false" {
			return "false", true
		}
		return "", false
	case StrV:
		b, ok := x.concreteBytes(vv)
		if !ok {
			return "", false
		}
		return fmt.Sprintf("%s(%s)", ts, goStringLit(b)), true
	case StructV:
		st := t.Underlying().(*types.Struct)
		var parts []string
		for i := 0; i < st.NumFields(); i++ {
			f := st.Field(i)
			s, ok := x.goLiteral(pkg, f.Type(), vv.F[f.Name()])
			if !ok {
				return "", false
			}
			parts = append(parts, f.Name()+": "+s)
		}
		return ts + "{" + strings.Join(parts, ", ") + "}", true
	}
	return "", false
}

// ---------------------------------------------------------------- model extraction

// modelInputs asks the solver for the values of the function's inputs in a
// model of the failed obligation, preferring short strings.
func (x *Exec) modelInputs(ob *Obligation, paramT map[string]types.Type, timeout time.Duration) (map[string]Value, bool) {
	q := buildQuery(ob)
	x.instantiateSpecs(q, x.specFuel)
	names := make([]string, 0, len(ob.Inputs))
	for n := range ob.Inputs {
		if n == "self" {
			continue
		}
		names = append(names, n)
	}
	sort.Strings(names)
	// scalar leaves
	type leaf struct {
		param, path string
		t           *Term
	}
	var scalars []leaf
	var strs []struct {
		param, path string
		s           StrV
	}
	for _, n := range names {
		t, ok := paramT[n]
		if !ok || !simpleType(x, t, 0) {
			return nil, false
		}
		var ls []struct {
			Path string
			T    *Term
		}
		x.leavesOf(ob.Inputs[n], "", &ls)
		for _, l := range ls {
			if l.T.Sort == SInt || l.T.Sort == SBool {
				scalars = append(scalars, leaf{n, l.Path, l.T})
			}
		}
	}
	if len(scalars) == 0 {
		return nil, false
	}
	var terms []*Term
	var small []*Term
	for _, s := range scalars {
		terms = append(terms, s.t)
		if strings.HasSuffix(s.path, ".len") {
			small = append(small, Le(s.t, IntLit(40)))
		}
		if strings.HasSuffix(s.path, ".off") {
			small = append(small, Eq(s.t, IntLit(0)))
		}
	}
	vals, _, ok := getValues(q, small, terms, timeout)
	pins := small
	if !ok {
		pins = nil
		vals, _, ok = getValues(q, nil, terms, timeout)
		if !ok {
			return nil, false
		}
	}
	conc := map[string]*Term{}
	var pin2 []*Term
	for i, s := range scalars {
		var ct *Term
		if s.t.Sort == SBool {
			ct = BoolLit(vals[i] != nil && vals[i].atom == "true")
		} else {
			iv, ok := sexpInt(vals[i])
			if !ok {
				return nil, false
			}
			ct = BigLit(iv)
		}
		conc[s.param+s.path] = ct
		pin2 = append(pin2, Eq(s.t, ct))
	}
	_ = pins
	// string contents
	var selTerms []*Term
	type selRef struct {
		key string
		idx int
	}
	var selRefs []selRef
	for _, n := range names {
		var collect func(v Value, path string)
		collect = func(v Value, path string) {
			switch vv := v.(type) {
			case StrV:
				ln := conc[n+path+".len"]
				off := conc[n+path+".off"]
				if ln == nil || off == nil || ln.Int.Int64() > 4096 {
					return
				}
				strs = append(strs, struct {
					param, path string
					s           StrV
				}{n, path, vv})
				for i := int64(0); i < ln.Int.Int64(); i++ {
					selTerms = append(selTerms, Select(vv.Arr, Add(off, IntLit(i))))
					selRefs = append(selRefs, selRef{n + path, int(i)})
				}
			case StructV:
				for _, f := range vv.Names {
					collect(vv.F[f], path+"."+f)
				}
			}
		}
		collect(ob.Inputs[n], "")
	}
	content := map[string][]byte{}
	if len(selTerms) > 0 {
		vals2, _, ok := getValues(q, pin2, selTerms, timeout)
		if !ok {
			return nil, false
		}
		for i, r := range selRefs {
			iv, ok := sexpInt(vals2[i])
			if !ok {
				return nil, false
			}
			b := content[r.key]
			for len(b) <= r.idx {
				b = append(b, 0)
			}
			b[r.idx] = byte(iv.Int64() & 0xff)
			content[r.key] = b
		}
	}
	out := map[string]Value{}
	huge := false
	for _, n := range names {
		var rebuild func(v Value, path string) Value
		rebuild = func(v Value, path string) Value {
			switch vv := v.(type) {
			case IntV:
				return IntV{conc[n+path]}
			case BoolV:
				return BoolV{conc[n+path]}
			case StrV:
				ln := conc[n+path+".len"]
				b := content[n+path]
				if ln != nil && ln.Int.IsInt64() && int64(len(b)) < ln.Int.Int64() {
					if ln.Int.Int64() > 1<<20 {
						// a model with a gigantic string: not replayable (and not worth the memory)
						huge = true
						return v
					}
					b = append(b, make([]byte, ln.Int.Int64()-int64(len(b)))...)
				}
				return x.strLit(string(b))
			case StructV:
				nv := StructV{Type: vv.Type, Names: vv.Names, F: map[string]Value{}}
				for _, f := range vv.Names {
					nv.F[f] = rebuild(vv.F[f], path+"."+f)
				}
				return nv
			}
			return v
		}
		out[n] = rebuild(ob.Inputs[n], "")
	}
	if huge {
		return nil, false
	}
	return out, true
}

func describeInputs(x *Exec, in map[string]Value) map[string]any {
	out := map[string]any{}
	for n, v := range in {
		out[n] = describeValue(x, v)
	}
	return out
}

func describeValue(x *Exec, v Value) any {
	switch vv := v.(type) {
	case IntV:
		if vv.T.Op == "int" {
			return vv.T.Int.String()
		}
	case BoolV:
		return vv.T.Op == "true"
	case StrV:
		if b, ok := x.concreteBytes(vv); ok {
			return goStringLit(b)
		}
	case StructV:
		m := map[string]any{}
		for _, f := range vv.Names {
			m[f] = describeValue(x, vv.F[f])
		}
		return m
	}
	return fmt.Sprintf("%T", v)
}

// ---------------------------------------------------------------- harness generation

type harnessTarget struct {
	pkg     *pkgT
	fn      *types.Func
	decl    *ast.FuncDecl
	fc      *FuncContract
	params  []*types.Var
	recv    *types.Var
	results []*types.Var
}

func (x *Exec) targetOf(ob *Obligation) *harnessTarget {
	for key, fc := range x.C.Funcs {
		if fc.Assumed || shortPkg(fc.Pkg)+"."+fc.Name != ob.Func {
			continue
		}
		_ = key
		pkg := x.L.pkgOf(fc.Pkg)
		if pkg == nil {
			return nil
		}
		decl, fn := x.L.findFunc(pkg, fc.Name)
		if decl == nil {
			return nil
		}
		sig := fn.Type().(*types.Signature)
		if sig.TypeParams() != nil || sig.RecvTypeParams() != nil {
			return nil
		}
		t := &harnessTarget{pkg: pkg, fn: fn, decl: decl, fc: fc, recv: sig.Recv()}
		for i := 0; i < sig.Params().Len(); i++ {
			t.params = append(t.params, sig.Params().At(i))
		}
		for i := 0; i < sig.Results().Len(); i++ {
			t.results = append(t.results, sig.Results().At(i))
		}
		return t
	}
	return nil
}

const harnessHelpers = `
func govcFlat(prefix string, v reflect.Value, out map[string]any, sentinels map[string]error) {
	if !v.IsValid() {
		out[prefix] = "nil"
		return
	}
	if v.Type() == reflect.TypeOf(time.Time{}) {
		// read through unexported access is not possible; use exported copy when allowed
		if v.CanInterface() {
			out[prefix] = strconv.FormatInt(v.Interface().(time.Time).UnixNano(), 10)
		} else {
			out[prefix] = "time?"
		}
		return
	}
	switch v.Kind() {
	case reflect.Int, reflect.Int8, reflect.Int16, reflect.Int32, reflect.Int64:
		out[prefix] = strconv.FormatInt(v.Int(), 10)
	case reflect.Uint, reflect.Uint8, reflect.Uint16, reflect.Uint32, reflect.Uint64, reflect.Uintptr:
		out[prefix] = strconv.FormatUint(v.Uint(), 10)
	case reflect.Bool:
		out[prefix] = v.Bool()
	case reflect.String:
		out[prefix] = "hex:" + hex.EncodeToString([]byte(v.String()))
	case reflect.Slice:
		if v.Type().Elem().Kind() == reflect.Uint8 {
			out[prefix] = "hex:" + hex.EncodeToString(v.Bytes())
		} else {
			out[prefix+".len"] = strconv.Itoa(v.Len())
		}
	case reflect.Struct:
		for i := 0; i < v.NumField(); i++ {
			govcFlat(prefix+"."+v.Type().Field(i).Name, v.Field(i), out, sentinels)
		}
	case reflect.Interface, reflect.Pointer:
		if v.IsNil() {
			out[prefix] = "nil"
			return
		}
		if v.CanInterface() {
			if e, ok := v.Interface().(error); ok {
				m := map[string]any{"text": e.Error()}
				var is []string
				names := make([]string, 0, len(sentinels))
				for n := range sentinels {
					names = append(names, n)
				}
				sort.Strings(names)
				for _, n := range names {
					if e == sentinels[n] {
						m["eq"] = n
					}
					if errors.Is(e, sentinels[n]) {
						is = append(is, n)
					}
				}
				m["is"] = is
				out[prefix] = m
				return
			}
		}
		out[prefix] = "non-nil"
	default:
		out[prefix] = "?"
	}
}

func govcEmit(i int, out map[string]any) {
	out["case"] = i
	b, _ := json.Marshal(out)
	fmt.Println("GOVC-REPLAY: " + string(b))
}
`

// sentinelNames lists the package-level error variables of a package.
func sentinelNames(pkg *pkgT) []string {
	var out []string
	sc := pkg.Types.Scope()
	errT := types.Universe.Lookup("error").Type()
	for _, n := range sc.Names() {
		if v, ok := sc.Lookup(n).(*types.Var); ok && types.Identical(v.Type(), errT) {
			out = append(out, n)
		}
	}
	return out
}

func (x *Exec) harnessSource(t *harnessTarget, cases []map[string]Value) (string, bool) {
	var sb strings.Builder
	pkg := t.pkg.Types
	fmt.Fprintf(&sb, "package %s\n\n", pkg.Name())
	sb.WriteString("import (\n\t\"encoding/hex\"\n\t\"encoding/json\"\n\t\"errors\"\n\t\"fmt\"\n\t\"reflect\"\n\t\"sort\"\n\t\"strconv\"\n\t\"testing\"\n\t\"time\"\n)\n\n")
	sb.WriteString("var _ = hex.EncodeToString\nvar _ = errors.Is\nvar _ = sort.Strings\nvar _ = strconv.Itoa\nvar _ = time.Now\nvar _ = reflect.ValueOf\n")
	sb.WriteString(harnessHelpers)
	sb.WriteString("\nfunc TestGovcReplay(t *testing.T) {\n")
	sb.WriteString("\tsentinels := map[string]error{")
	for _, n := range sentinelNames(t.pkg) {
		fmt.Fprintf(&sb, "%q: %s, ", n, n)
	}
	sb.WriteString("}\n")
	sb.WriteString("\tcases := []func() map[string]any{\n")
	for _, c := range cases {
		var args []string
		for _, p := range t.params {
			lit, ok := x.goLiteral(pkg, p.Type(), c[p.Name()])
			if !ok {
				return "", false
			}
			args = append(args, lit)
		}
		call := t.fn.Name() + "(" + strings.Join(args, ", ") + ")"
		if t.recv != nil {
			rt := t.recv.Type()
			isPtr := false
			if p, ok := rt.(*types.Pointer); ok {
				rt = p.Elem()
				isPtr = true
			}
			lit, ok := x.goLiteral(pkg, rt, c[t.recv.Name()])
			if !ok {
				return "", false
			}
			if isPtr {
				call = "(&" + lit + ")." + call
			} else {
				call = "(" + lit + ")." + call
			}
		}
		sb.WriteString("\t\tfunc() (out map[string]any) {\n\t\t\tout = map[string]any{}\n")
		sb.WriteString("\t\t\tdefer func() {\n\t\t\t\tif r := recover(); r != nil {\n\t\t\t\t\tout[\"panic\"] = fmt.Sprint(r)\n\t\t\t\t}\n\t\t\t}()\n")
		if len(t.results) == 0 {
			fmt.Fprintf(&sb, "\t\t\t%s\n", call)
		} else {
			var rs []string
			for i := range t.results {
				rs = append(rs, fmt.Sprintf("r%d", i))
			}
			fmt.Fprintf(&sb, "\t\t\t%s := %s\n", strings.Join(rs, ", "), call)
			for i := range t.results {
				fmt.Fprintf(&sb, "\t\t\tgovcFlat(\"r%d\", reflect.ValueOf(&r%d).Elem(), out, sentinels)\n", i, i)
			}
		}
		sb.WriteString("\t\t\treturn out\n\t\t},\n")
	}
	sb.WriteString("\t}\n\tfor i, c := range cases {\n\t\tgovcEmit(i, c())\n\t}\n}\n")
	return sb.String(), true
}

// runHarness executes the generated in-package test against the real code via an overlay.
func runHarness(repo string, t *harnessTarget, src string, keep string) ([]map[string]any, string, string, error) {
	dir := scratch()
	testFile := filepath.Join(dir, "zz_govc_replay_test.go")
	if keep != "" {
		testFile = keep
	}
	if err := os.WriteFile(testFile, []byte(src), 0o644); err != nil {
		return nil, "", "", err
	}
	pkgDir := filepath.Join(repo, strings.TrimPrefix(strings.TrimPrefix(t.pkg.PkgPath, "reservoir"), "/"))
	ov := map[string]any{"Replace": map[string]string{filepath.Join(pkgDir, "zz_govc_replay_test.go"): testFile}}
	gen := filepath.Join(repo, "webserver/dashboard/csp/hashes_gen.go")
	if _, err := os.Stat(gen); err != nil {
		stub := filepath.Join(dir, "csp_stub.go")
		os.WriteFile(stub, []byte(cspStub), 0o644)
		ov["Replace"].(map[string]string)[gen] = stub
	}
	ovFile := filepath.Join(dir, fmt.Sprintf("overlay_%d.json", time.Now().UnixNano()))
	b, _ := json.Marshal(ov)
	os.WriteFile(ovFile, b, 0o644)
	rel := "./" + strings.TrimPrefix(strings.TrimPrefix(t.pkg.PkgPath, "reservoir"), "/")
	args := []string{"test", "-overlay", ovFile, "-vet=off", "-v", "-count=1", "-timeout", "60s", "-run", "^TestGovcReplay$", rel}
	cmd := exec.Command("go", args...)
	cmd.Dir = repo
	cmd.Env = append(os.Environ(), "GOFLAGS=-mod=mod", "GOPROXY=off")
	out, err := cmd.CombinedOutput()
	cmdline := "cd " + repo + " && GOFLAGS=-mod=mod GOPROXY=off go " + strings.Join(args, " ")
	var results []map[string]any
	for _, line := range strings.Split(string(out), "\n") {
		if i := strings.Index(line, "GOVC-REPLAY: "); i >= 0 {
			var m map[string]any
			if json.Unmarshal([]byte(line[i+13:]), &m) == nil {
				results = append(results, m)
			}
		}
	}
	if len(results) == 0 && err != nil {
		return nil, cmdline, string(out), fmt.Errorf("replay run failed: %v", err)
	}
	return results, cmdline, string(out), nil
}

// valueFromFlat rebuilds a concrete Value of type t from the flattened harness output.
func (x *Exec) valueFromFlat(st *State, t types.Type, path string, flat map[string]any, sentinelIDs map[string]int64) (Value, bool) {
	t = x.resolveType(t)
	raw, has := flat[path]
	if isTimeTime(t) {
		s, _ := raw.(string)
		v, ok := new(big.Int).SetString(s, 10)
		if !ok {
			return nil, false
		}
		return IntV{BigLit(v)}, true
	}
	switch u := t.Underlying().(type) {
	case *types.Basic:
		switch {
		case u.Info()&types.IsBoolean != 0:
			b, ok := raw.(bool)
			if !ok {
				return nil, false
			}
			return BoolV{BoolLit(b)}, true
		case u.Info()&types.IsInteger != 0:
			s, _ := raw.(string)
			v, ok := new(big.Int).SetString(s, 10)
			if !ok {
				return nil, false
			}
			return IntV{BigLit(v)}, true
		case u.Info()&types.IsString != 0:
			s, _ := raw.(string)
			if !strings.HasPrefix(s, "hex:") {
				return nil, false
			}
			b, err := hex.DecodeString(s[4:])
			if err != nil {
				return nil, false
			}
			return x.strLit(string(b)), true
		}
	case *types.Slice:
		if isByteSlice(t) {
			s, _ := raw.(string)
			if s == "nil" {
				return x.strLit(""), true
			}
			if !strings.HasPrefix(s, "hex:") {
				return nil, false
			}
			b, err := hex.DecodeString(s[4:])
			if err != nil {
				return nil, false
			}
			return x.strLit(string(b)), true
		}
	case *types.Struct:
		sv := StructV{Type: t, F: map[string]Value{}}
		for i := 0; i < u.NumFields(); i++ {
			f := u.Field(i)
			fv, ok := x.valueFromFlat(st, f.Type(), path+"."+f.Name(), flat, sentinelIDs)
			if !ok {
				return nil, false
			}
			sv.Names = append(sv.Names, f.Name())
			sv.F[f.Name()] = fv
		}
		return sv, true
	case *types.Interface:
		if !has {
			return nil, false
		}
		if s, ok := raw.(string); ok && s == "nil" {
			return OpaqueV{T: IntLit(0), Type: t}, true
		}
		if m, ok := raw.(map[string]any); ok {
			id := int64(900000)
			if eq, ok := m["eq"].(string); ok {
				if sid, ok := sentinelIDs[eq]; ok {
					id = sid
				}
			}
			e := IntLit(id)
			isSet := map[string]bool{}
			if l, ok := m["is"].([]any); ok {
				for _, n := range l {
					if s, ok := n.(string); ok {
						isSet[s] = true
					}
				}
			}
			for n, sid := range sentinelIDs {
				w := App("wraps", SBool, e, IntLit(sid))
				if isSet[n] && sid != id {
					st.assumeRaw(w)
				} else {
					st.assumeRaw(Not(w))
				}
			}
			return OpaqueV{T: e, Type: t}, true
		}
		return OpaqueV{T: IntLit(900001), Type: t}, true
	case *types.Pointer:
		if s, ok := raw.(string); ok && s == "nil" {
			return x.zeroValue(t), true
		}
	}
	return nil, false
}

// evalClauseConcrete evaluates an ensures clause on concrete inputs and observed results.
// Returns "true", "false" or "unknown".
func (x *Exec) evalClauseConcrete(t *harnessTarget, clause *SExpr, in map[string]Value, flat map[string]any) string {
	defer func() { recover() }()
	st := &State{vars: map[types.Object]Value{}, boxed: map[types.Object]PtrV{}, heap: map[string]*Term{}, ghost: map[string]Value{}}
	st.now = IntLit(2_000_000_000)
	st.alloc = IntLit(0)
	env := &SpecEnv{x: x, st: st, old: st, vars: map[string]Value{}, bound: map[string]Value{}, pkgPath: t.pkg.PkgPath}
	for k, v := range in {
		env.vars[k] = v
	}
	sentinelIDs := map[string]int64{}
	for _, n := range sentinelNames(t.pkg) {
		if obj, ok := t.pkg.Types.Scope().Lookup(n).(*types.Var); ok {
			if o, ok := x.globalValue(nil, st, obj).(OpaqueV); ok && o.T.Op == "int" {
				sentinelIDs[n] = o.T.Int.Int64()
			}
		}
	}
	for i, r := range t.results {
		v, ok := x.valueFromFlat(st, r.Type(), fmt.Sprintf("r%d", i), flat, sentinelIDs)
		if !ok {
			return "unknown"
		}
		if r.Name() != "" && r.Name() != "_" {
			env.vars[r.Name()] = v
		}
		env.vars[fmt.Sprintf("result%d", i)] = v
		if i == 0 {
			env.vars["result"] = v
		}
	}
	term := x.specBool(env, clause)
	switch term.Op {
	case "true":
		return "true"
	case "false":
		return "false"
	}
	x.concreteSolverCalls++
	if x.concreteSolverCalls > 60 {
		return "unknown"
	}
	q := &Query{Assume: st.pc, Goal: term}
	x.instantiateSpecs(q, 3)
	r := solveQuery(q, 5*time.Second, false)
	switch r.Status {
	case "unsat":
		return "true"
	case "sat":
		// closed formula: sat of the negation means the clause is false
		return "false"
	}
	return "unknown"
}

// ---------------------------------------------------------------- witness search

// candidateInputs proposes inputs for a bounded search for a failing input.
// It is a search, not a proof: used only after an obligation has failed.
func (x *Exec) candidateInputs(t *harnessTarget, n int, seed int64) []map[string]Value {
	rng := rand.New(rand.NewSource(seed + 12345))
	// alphabet: character and string literals of the package's source
	chars := map[byte]bool{}
	var words []string
	for _, f := range t.pkg.Syntax {
		ast.Inspect(f, func(nd ast.Node) bool {
			if bl, ok := nd.(*ast.BasicLit); ok {
				switch bl.Kind {
				case token.CHAR:
					if r, _, _, err := strconv.UnquoteChar(bl.Value[1:len(bl.Value)-1], '\''); err == nil && r < 128 {
						chars[byte(r)] = true
					}
				case token.STRING:
					if s, err := strconv.Unquote(bl.Value); err == nil && len(s) > 0 && len(s) <= 12 && !strings.Contains(s, " ") {
						words = append(words, s)
					}
				}
			}
			return true
		})
	}
	var alpha []byte
	for c := range chars {
		alpha = append(alpha, c)
	}
	for _, c := range []byte("0123456789") {
		if !chars[c] {
			alpha = append(alpha, c)
		}
	}
	alpha = append(alpha, 'x', 0x80, 0xff)
	sort.Slice(alpha, func(i, j int) bool { return alpha[i] < alpha[j] })
	sort.Strings(words)
	bigNums := []string{"9223372036854775807", "9223372036854775808", "18446744073709551615", "18446744073709551616", "99999999999999999999", "4294967296", "2147483648", "0", "1", "00000000000000000000001"}
	var ints []*big.Int
	for _, s := range []string{"0", "1", "-1", "2", "3", "5", "10", "100", "1000", "1023", "1024", "1025", "4096", "1048576", "1048577", "1073741824", "1099511627776", "9223372036854775807", "-9223372036854775808", "9223372036854775806", "4294967296", "2147483647", "-2147483648", "255", "256", "65535"} {
		v, _ := new(big.Int).SetString(s, 10)
		ints = append(ints, v)
	}
	genStr := func() string {
		var sb strings.Builder
		parts := rng.Intn(6)
		for i := 0; i < parts; i++ {
			switch rng.Intn(6) {
			case 0:
				if len(words) > 0 {
					sb.WriteString(words[rng.Intn(len(words))])
				}
			case 1:
				sb.WriteString(bigNums[rng.Intn(len(bigNums))])
			case 2:
				sb.WriteString(strconv.Itoa(rng.Intn(2000)))
			default:
				sb.WriteByte(alpha[rng.Intn(len(alpha))])
			}
		}
		return sb.String()
	}
	var gen func(tp types.Type, depth int) Value
	gen = func(tp types.Type, depth int) Value {
		tp = x.resolveType(tp)
		if isTimeTime(tp) {
			return IntV{IntLit(1_700_000_000_000_000_000 + rng.Int63n(1_000_000_000_000))}
		}
		switch u := tp.Underlying().(type) {
		case *types.Basic:
			switch {
			case u.Info()&types.IsBoolean != 0:
				return BoolV{BoolLit(rng.Intn(2) == 0)}
			case u.Info()&types.IsInteger != 0:
				kd, _ := basicIntKind(u)
				var v *big.Int
				if rng.Intn(3) == 0 {
					v = big.NewInt(rng.Int63n(5000) - 100)
				} else {
					v = ints[rng.Intn(len(ints))]
				}
				return IntV{wrapConst(kd, v)}
			case u.Info()&types.IsString != 0:
				return x.strLit(genStr())
			}
		case *types.Slice:
			return x.strLit(genStr())
		case *types.Struct:
			sv := StructV{Type: tp, F: map[string]Value{}}
			for i := 0; i < u.NumFields(); i++ {
				f := u.Field(i)
				sv.Names = append(sv.Names, f.Name())
				sv.F[f.Name()] = gen(f.Type(), depth+1)
			}
			return sv
		}
		return nil
	}
	var out []map[string]Value
	for i := 0; i < n; i++ {
		c := map[string]Value{}
		ok := true
		if t.recv != nil {
			rt := t.recv.Type()
			if p, isP := rt.(*types.Pointer); isP {
				rt = p.Elem()
			}
			if !simpleType(x, rt, 0) {
				return nil
			}
			c[t.recv.Name()] = gen(rt, 0)
		}
		for _, p := range t.params {
			if !simpleType(x, p.Type(), 0) {
				return nil
			}
			v := gen(p.Type(), 0)
			if v == nil {
				ok = false
			}
			c[p.Name()] = v
		}
		if ok {
			out = append(out, c)
		}
	}
	return out
}

// requiresHold checks the contract's preconditions on a concrete input.
func (x *Exec) requiresHold(t *harnessTarget, in map[string]Value) bool {
	for _, r := range t.fc.Requires {
		if x.evalClauseConcrete(&harnessTarget{pkg: t.pkg}, r.Expr, in, map[string]any{}) != "true" {
			return false
		}
	}
	return true
}

// ---------------------------------------------------------------- top level

func isPanicKind(kind string) bool {
	switch kind {
	case "bounds", "nil", "div0", "panic", "make", "unwrap":
		return true
	}
	return false
}

// buildReplay never lets a failure of the replay machinery take the check down: the failed
// obligation is reported either way.
func (x *Exec) buildReplay(repo, vdir, dir, prop string, ob *Obligation, r SolveResult, g *oblGroup, timeout time.Duration) (res ReplayResult) {
	defer func() {
		if rec := recover(); rec != nil {
			os.MkdirAll(dir, 0o755)
			path := filepath.Join(dir, sanitize(ob.Name)) + ".replay.json"
			doc := &replayDoc{Property: prop, Obligation: ob.Name, Kind: ob.Kind, At: ob.Pos, Trace: ob.Trace, Solver: r.Status, Tried: r.Tried,
				Note: fmt.Sprintf("the replay could not be constructed (%v); the failed obligation and solver output stand as the report", rec)}
			b, _ := json.MarshalIndent(doc, "", " ")
			os.WriteFile(path, append(b, '\n'), 0o644)
			res = ReplayResult{Path: path}
		}
	}()
	return x.buildReplayInner(repo, vdir, dir, prop, ob, r, g, timeout)
}

func (x *Exec) buildReplayInner(repo, vdir, dir, prop string, ob *Obligation, r SolveResult, g *oblGroup, timeout time.Duration) ReplayResult {
	os.MkdirAll(dir, 0o755)
	base := filepath.Join(dir, sanitize(ob.Name))
	doc := &replayDoc{Property: prop, Obligation: ob.Name, Kind: ob.Kind, At: ob.Pos, Trace: ob.Trace, Solver: r.Status, Tried: r.Tried}
	if r.Detail != "" {
		d := r.Detail
		if len(d) > 2000 {
			d = d[:2000]
		}
		doc.SolverOut = d
	}
	if ob.Clause != nil {
		doc.Clause = ob.Clause.Src
	}
	finish := func() ReplayResult {
		b, _ := json.MarshalIndent(doc, "", " ")
		path := base + ".replay.json"
		os.WriteFile(path, append(b, '\n'), 0o644)
		return ReplayResult{Path: path, Confirmed: doc.Confirmed}
	}
	t := x.targetOf(ob)
	if t == nil {
		if x.runScenario(repo, vdir, ob, doc) {
			return finish()
		}
		if doc.Note == "" {
			doc.Note = "no generic harness for this function (generic, closure, or heap-dependent inputs) and no scenario test matched; the failed obligation and solver output stand as the report"
		}
		return finish()
	}
	paramT := map[string]types.Type{}
	for _, p := range t.params {
		paramT[p.Name()] = p.Type()
	}
	if t.recv != nil {
		rt := t.recv.Type()
		if p, ok := rt.(*types.Pointer); ok {
			rt = p.Elem()
		}
		paramT[t.recv.Name()] = rt
	}
	check := func(in map[string]Value, flat map[string]any) (bool, string) {
		if p, ok := flat["panic"]; ok {
			if t.fc.NoPanic {
				return true, fmt.Sprintf("panic: %v", p)
			}
			return false, ""
		}
		if isPanicKind(ob.Kind) {
			return false, ""
		}
		// evaluate every ensures clause of the contract on the observed result
		for _, e := range t.fc.Ensures {
			if ob.Clause != nil && ob.Kind == "post" && e.Expr != ob.Clause {
				continue
			}
			if x.evalClauseConcrete(t, e.Expr, in, flat) == "false" {
				return true, "violates: ensures " + e.Src
			}
		}
		return false, ""
	}
	// 1. the solver's model
	if r.Status == "sat" {
		if in, ok := x.modelInputs(ob, paramT, timeout); ok {
			// pointer-receiver values are passed by name of the receiver
			doc.Model = describeInputs(x, in)
			if src, ok := x.harnessSource(t, []map[string]Value{in}); ok {
				testPath := base + "_test.go.txt"
				res, cmdline, out, err := runHarness(repo, t, src, "")
				os.WriteFile(testPath, []byte(src), 0o644)
				doc.Test = testPath
				doc.Command = cmdline + "   # with the file above overlaid as zz_govc_replay_test.go"
				if err != nil {
					doc.Note = "replay harness did not run: " + err.Error() + "\n" + tail(out, 1500)
				} else if len(res) == 1 {
					doc.Observed = res[0]
					if bad, why := check(in, res[0]); bad {
						doc.Confirmed = true
						doc.Witness = doc.Model
						doc.WitnessHow = "solver model replayed on the real code: " + why
						return finish()
					}
				}
			}
		}
	}
	// 2. a registered scenario (multi-step or header-form histories)
	if x.runScenario(repo, vdir, ob, doc) {
		return finish()
	}
	// 3. bounded search for a failing input (search only, never proof)
	seed := int64(0)
	fmt.Sscanf(os.Getenv("VERIF_SEED"), "%d", &seed)
	cands := x.candidateInputs(t, 1500, seed)
	var valid []map[string]Value
	for _, c := range cands {
		if len(t.fc.Requires) == 0 || x.requiresHold(t, c) {
			valid = append(valid, c)
		}
	}
	if len(valid) > 0 {
		if src, ok := x.harnessSource(t, valid); ok {
			res, cmdline, out, err := runHarness(repo, t, src, "")
			if err != nil {
				if doc.Note == "" {
					doc.Note = "witness search harness did not run: " + err.Error() + "\n" + tail(out, 1500)
				}
			} else {
				for _, m := range res {
					ci, _ := m["case"].(float64)
					i := int(ci)
					if i < 0 || i >= len(valid) {
						continue
					}
					if bad, why := check(valid[i], m); bad {
						// re-run this single case as the stored replay
						single, _ := x.harnessSource(t, []map[string]Value{valid[i]})
						testPath := base + "_test.go.txt"
						os.WriteFile(testPath, []byte(single), 0o644)
						doc.Test = testPath
						doc.Command = cmdline + "   # with the file above overlaid as zz_govc_replay_test.go"
						doc.Observed = m
						doc.Witness = describeInputs(x, valid[i])
						doc.WitnessHow = fmt.Sprintf("bounded search over %d generated inputs on the real code: %s", len(valid), why)
						doc.Confirmed = true
						return finish()
					}
				}
				if doc.Note == "" {
					doc.Note = fmt.Sprintf("no failing input among %d generated inputs", len(valid))
				}
			}
		}
	}
	return finish()
}

type scenarioEntry struct {
	Obligation string `json:"obligation"`
	Pkg        string `json:"pkg"`
	File       string `json:"file"`
	Test       string `json:"test"`
	What       string `json:"what"`
	Race       bool   `json:"race"`
	Props      []string `json:"props"`
	NoHistory  bool   `json:"no_history"` // not run as a standing history in the thorough tier
}

// runScenario runs the hand-written scenario test registered for this
// obligation class (multi-step histories that a solver model over one call
// cannot express).  The scenario fails on the real code exactly when the
// behaviour the obligation protects is broken.
func (x *Exec) runScenario(repo, vdir string, ob *Obligation, doc *replayDoc) bool {
	var idx []scenarioEntry
	if err := loadJSON(filepath.Join(vdir, "scenarios", "index.json"), &idx); err != nil {
		return false
	}
	for _, sc := range idx {
		re, err := regexp.Compile(sc.Obligation)
		if err != nil || !re.MatchString(ob.Name) {
			continue
		}
		src := filepath.Join(vdir, "scenarios", sc.File)
		pkgDir := filepath.Join(repo, sc.Pkg)
		ov := map[string]any{"Replace": map[string]string{filepath.Join(pkgDir, "zz_govc_scenario_test.go"): src}}
		gen := filepath.Join(repo, "webserver/dashboard/csp/hashes_gen.go")
		if _, err := os.Stat(gen); err != nil {
			stub := filepath.Join(scratch(), "csp_stub.go")
			os.WriteFile(stub, []byte(cspStub), 0o644)
			ov["Replace"].(map[string]string)[gen] = stub
		}
		ovFile := filepath.Join(scratch(), fmt.Sprintf("overlay_sc_%d.json", time.Now().UnixNano()))
		b, _ := json.Marshal(ov)
		os.WriteFile(ovFile, b, 0o644)
		args := []string{"test", "-overlay", ovFile, "-vet=off", "-count=1", "-timeout", "120s", "-run", "^" + sc.Test + "$", "./" + sc.Pkg}
		if sc.Race {
			args = append(args[:1], append([]string{"-race"}, args[1:]...)...)
		}
		cmd := exec.Command("go", args...)
		cmd.Dir = repo
		cmd.Env = append(os.Environ(), "GOFLAGS=-mod=mod", "GOPROXY=off")
		out, err := cmd.CombinedOutput()
		doc.Test = src
		doc.Command = "cd " + repo + " && GOFLAGS=-mod=mod GOPROXY=off go " + strings.Join(args, " ") + "   # overlay places " + src + " into ./" + sc.Pkg
		failed := err != nil && (strings.Contains(string(out), "--- FAIL") || strings.Contains(string(out), "panic:") || strings.Contains(string(out), "DATA RACE"))
		if failed {
			doc.Confirmed = true
			doc.WitnessHow = "scenario test " + sc.Test + " (" + sc.What + ") fails on the real code"
			doc.Observed = tail(string(out), 1500)
			return true
		}
		if err != nil {
			doc.Note = "scenario test did not build or run: " + tail(string(out), 800)
		} else {
			doc.Note = "scenario test " + sc.Test + " passes on the real code: no failing history found"
		}
	}
	return false
}

func tail(s string, n int) string {
	if len(s) > n {
		return s[len(s)-n:]
	}
	return s
}

// goTestOverlay runs one test of a file placed into a package of the repository by overlay.
func goTestOverlay(repo, pkg, src, test string, race bool) (out string, failed, built bool) {
	pkgDir := filepath.Join(repo, pkg)
	ov := map[string]any{"Replace": map[string]string{filepath.Join(pkgDir, "zz_govc_bounded_test.go"): src}}
	gen := filepath.Join(repo, "webserver/dashboard/csp/hashes_gen.go")
	if _, err := os.Stat(gen); err != nil {
		stub := filepath.Join(scratch(), "csp_stub.go")
		os.WriteFile(stub, []byte(cspStub), 0o644)
		ov["Replace"].(map[string]string)[gen] = stub
	}
	ovFile := filepath.Join(scratch(), fmt.Sprintf("overlay_b_%d.json", time.Now().UnixNano()))
	b, _ := json.Marshal(ov)
	os.WriteFile(ovFile, b, 0o644)
	args := []string{"test", "-overlay", ovFile, "-vet=off", "-count=1", "-timeout", "120s", "-run", "^" + test + "$", "./" + pkg}
	if race {
		args = append(args[:1], append([]string{"-race"}, args[1:]...)...)
	}
	cmd := exec.Command("go", args...)
	cmd.Dir = repo
	cmd.Env = append(os.Environ(), "GOFLAGS=-mod=mod", "GOPROXY=off")
	o, err := cmd.CombinedOutput()
	out = string(o)
	if err == nil {
		return out, false, strings.Contains(out, "ok ")
	}
	if strings.Contains(out, "--- FAIL") || strings.Contains(out, "panic:") || strings.Contains(out, "DATA RACE") {
		return out, true, true
	}
	return out, false, false
}
