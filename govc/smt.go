package main

// SMT term layer: a small typed term AST with light simplification and an
// SMT-LIB 2 printer.  Integers are SMT Int; machine arithmetic is modelled by
// explicit wrap functions (see wrapTerm).

import (
	"fmt"
	"math/big"
	"sort"
	"strings"
)

type Sort struct {
	Name string // SMT-LIB text of the sort
	Elem *Sort  // for arrays: element sort (index is always Int)
}

var (
	SInt  = &Sort{Name: "Int"}
	SBool = &Sort{Name: "Bool"}
)

var arrSorts = map[string]*Sort{}

func ArrOf(elem *Sort) *Sort {
	n := "(Array Int " + elem.Name + ")"
	if s, ok := arrSorts[n]; ok {
		return s
	}
	s := &Sort{Name: n, Elem: elem}
	arrSorts[n] = s
	return s
}

var SArr = ArrOf(SInt)

type Term struct {
	Op    string // "var" "int" "true" "false" "app" "forall" "exists" or an SMT operator
	Name  string // var / app name
	Args  []*Term
	Sort  *Sort
	Int   *big.Int
	Bound []*Term // quantifier-bound variables
}

var (
	TTrue  = &Term{Op: "true", Sort: SBool}
	TFalse = &Term{Op: "false", Sort: SBool}
)

func Var(name string, s *Sort) *Term { return &Term{Op: "var", Name: name, Sort: s} }

func IntLit(v int64) *Term { return &Term{Op: "int", Int: big.NewInt(v), Sort: SInt} }

func BigLit(v *big.Int) *Term { return &Term{Op: "int", Int: new(big.Int).Set(v), Sort: SInt} }

func BoolLit(b bool) *Term {
	if b {
		return TTrue
	}
	return TFalse
}

func (t *Term) IsConst() bool { return t.Op == "int" || t.Op == "true" || t.Op == "false" }

func App(name string, sort *Sort, args ...*Term) *Term {
	return &Term{Op: "app", Name: name, Args: args, Sort: sort}
}

func mk(op string, s *Sort, args ...*Term) *Term { return &Term{Op: op, Args: args, Sort: s} }

func Not(a *Term) *Term {
	switch a.Op {
	case "true":
		return TFalse
	case "false":
		return TTrue
	case "not":
		return a.Args[0]
	}
	return mk("not", SBool, a)
}

func And(ts ...*Term) *Term {
	var out []*Term
	for _, t := range ts {
		if t == nil || t.Op == "true" {
			continue
		}
		if t.Op == "false" {
			return TFalse
		}
		if t.Op == "and" {
			out = append(out, t.Args...)
			continue
		}
		out = append(out, t)
	}
	if len(out) == 0 {
		return TTrue
	}
	if len(out) == 1 {
		return out[0]
	}
	return mk("and", SBool, out...)
}

func Or(ts ...*Term) *Term {
	var out []*Term
	for _, t := range ts {
		if t == nil || t.Op == "false" {
			continue
		}
		if t.Op == "true" {
			return TTrue
		}
		if t.Op == "or" {
			out = append(out, t.Args...)
			continue
		}
		out = append(out, t)
	}
	if len(out) == 0 {
		return TFalse
	}
	if len(out) == 1 {
		return out[0]
	}
	return mk("or", SBool, out...)
}

func Implies(a, b *Term) *Term {
	if a.Op == "true" {
		return b
	}
	if a.Op == "false" || b.Op == "true" {
		return TTrue
	}
	if b.Op == "false" {
		return Not(a)
	}
	return mk("=>", SBool, a, b)
}

func Iff(a, b *Term) *Term { return Eq(a, b) }

func termEqualSyntactic(a, b *Term) bool {
	if a == b {
		return true
	}
	if a.Op != b.Op || a.Name != b.Name || len(a.Args) != len(b.Args) || len(a.Bound) != len(b.Bound) {
		return false
	}
	if a.Op == "int" {
		return a.Int.Cmp(b.Int) == 0
	}
	for i := range a.Args {
		if !termEqualSyntactic(a.Args[i], b.Args[i]) {
			return false
		}
	}
	for i := range a.Bound {
		if !termEqualSyntactic(a.Bound[i], b.Bound[i]) {
			return false
		}
	}
	return true
}

func Eq(a, b *Term) *Term {
	if a.Op == "int" && b.Op == "int" {
		return BoolLit(a.Int.Cmp(b.Int) == 0)
	}
	if a.Sort == SBool {
		if a.Op == "true" {
			return b
		}
		if b.Op == "true" {
			return a
		}
		if a.Op == "false" {
			return Not(b)
		}
		if b.Op == "false" {
			return Not(a)
		}
	}
	if termEqualSyntactic(a, b) {
		return TTrue
	}
	return mk("=", SBool, a, b)
}

func Ne(a, b *Term) *Term { return Not(Eq(a, b)) }

func Ite(c, a, b *Term) *Term {
	if c.Op == "true" {
		return a
	}
	if c.Op == "false" {
		return b
	}
	if termEqualSyntactic(a, b) {
		return a
	}
	if a.Sort == SBool {
		if a.Op == "true" && b.Op == "false" {
			return c
		}
		if a.Op == "false" && b.Op == "true" {
			return Not(c)
		}
	}
	return mk("ite", a.Sort, c, a, b)
}

func cmpOp(op string, a, b *Term) *Term {
	if a.Op == "int" && b.Op == "int" {
		c := a.Int.Cmp(b.Int)
		switch op {
		case "<":
			return BoolLit(c < 0)
		case "<=":
			return BoolLit(c <= 0)
		case ">":
			return BoolLit(c > 0)
		case ">=":
			return BoolLit(c >= 0)
		}
	}
	return mk(op, SBool, a, b)
}

func Lt(a, b *Term) *Term { return cmpOp("<", a, b) }
func Le(a, b *Term) *Term { return cmpOp("<=", a, b) }
func Gt(a, b *Term) *Term { return cmpOp(">", a, b) }
func Ge(a, b *Term) *Term { return cmpOp(">=", a, b) }

func Add(a, b *Term) *Term {
	if a.Op == "int" && b.Op == "int" {
		return BigLit(new(big.Int).Add(a.Int, b.Int))
	}
	if a.Op == "int" && a.Int.Sign() == 0 {
		return b
	}
	if b.Op == "int" && b.Int.Sign() == 0 {
		return a
	}
	// (x + c1) + c2
	if b.Op == "int" && a.Op == "+" && len(a.Args) == 2 && a.Args[1].Op == "int" {
		return Add(a.Args[0], BigLit(new(big.Int).Add(a.Args[1].Int, b.Int)))
	}
	return mk("+", SInt, a, b)
}

func Sub(a, b *Term) *Term {
	if a.Op == "int" && b.Op == "int" {
		return BigLit(new(big.Int).Sub(a.Int, b.Int))
	}
	if b.Op == "int" && b.Int.Sign() == 0 {
		return a
	}
	if b.Op == "int" {
		return Add(a, BigLit(new(big.Int).Neg(b.Int)))
	}
	if termEqualSyntactic(a, b) {
		return IntLit(0)
	}
	return mk("-", SInt, a, b)
}

func Neg(a *Term) *Term { return Sub(IntLit(0), a) }

func Mul(a, b *Term) *Term {
	if a.Op == "int" && b.Op == "int" {
		return BigLit(new(big.Int).Mul(a.Int, b.Int))
	}
	if a.Op == "int" && a.Int.Cmp(big.NewInt(1)) == 0 {
		return b
	}
	if b.Op == "int" && b.Int.Cmp(big.NewInt(1)) == 0 {
		return a
	}
	if (a.Op == "int" && a.Int.Sign() == 0) || (b.Op == "int" && b.Int.Sign() == 0) {
		return IntLit(0)
	}
	return mk("*", SInt, a, b)
}

// Go's truncated division and remainder.
func TDiv(a, b *Term) *Term {
	if a.Op == "int" && b.Op == "int" && b.Int.Sign() != 0 {
		return BigLit(new(big.Int).Quo(a.Int, b.Int))
	}
	return App("tdiv", SInt, a, b)
}

func TRem(a, b *Term) *Term {
	if a.Op == "int" && b.Op == "int" && b.Int.Sign() != 0 {
		return BigLit(new(big.Int).Rem(a.Int, b.Int))
	}
	return App("trem", SInt, a, b)
}

func Select(arr, idx *Term) *Term {
	// read-over-write simplification for syntactically decidable indexes
	for arr.Op == "store" {
		if termEqualSyntactic(arr.Args[1], idx) {
			return arr.Args[2]
		}
		if arr.Args[1].Op == "int" && idx.Op == "int" {
			arr = arr.Args[0]
			continue
		}
		break
	}
	if arr.Op == "constarr" {
		return arr.Args[0]
	}
	return mk("select", arr.Sort.Elem, arr, idx)
}

func Store(arr, idx, v *Term) *Term { return mk("store", arr.Sort, arr, idx, v) }

// ConstArr is ((as const (Array Int E)) v)
func ConstArr(s *Sort, v *Term) *Term { return mk("constarr", s, v) }

func Forall(bound []*Term, body *Term) *Term {
	if body.Op == "true" {
		return TTrue
	}
	return &Term{Op: "forall", Bound: bound, Args: []*Term{body}, Sort: SBool}
}

func Exists(bound []*Term, body *Term) *Term {
	if body.Op == "false" {
		return TFalse
	}
	return &Term{Op: "exists", Bound: bound, Args: []*Term{body}, Sort: SBool}
}

// ---------------------------------------------------------------- printing

func (t *Term) String() string {
	var sb strings.Builder
	t.write(&sb)
	return sb.String()
}

func smtInt(v *big.Int) string {
	if v.Sign() < 0 {
		return "(- " + new(big.Int).Neg(v).String() + ")"
	}
	return v.String()
}

func (t *Term) write(sb *strings.Builder) {
	switch t.Op {
	case "var":
		sb.WriteString(t.Name)
	case "int":
		sb.WriteString(smtInt(t.Int))
	case "true", "false":
		sb.WriteString(t.Op)
	case "app":
		if len(t.Args) == 0 {
			sb.WriteString(t.Name)
			return
		}
		sb.WriteString("(" + t.Name)
		for _, a := range t.Args {
			sb.WriteByte(' ')
			a.write(sb)
		}
		sb.WriteByte(')')
	case "forall", "exists":
		sb.WriteString("(" + t.Op + " (")
		for _, b := range t.Bound {
			sb.WriteString("(" + b.Name + " " + b.Sort.Name + ")")
		}
		sb.WriteString(") ")
		t.Args[0].write(sb)
		sb.WriteByte(')')
	case "constarr":
		sb.WriteString("((as const " + t.Sort.Name + ") ")
		t.Args[0].write(sb)
		sb.WriteByte(')')
	default:
		sb.WriteString("(" + t.Op)
		for _, a := range t.Args {
			sb.WriteByte(' ')
			a.write(sb)
		}
		sb.WriteByte(')')
	}
}

// walk visits every sub-term (pre-order).
func (t *Term) walk(f func(*Term)) {
	f(t)
	for _, a := range t.Args {
		a.walk(f)
	}
}

// subst replaces variables by name.
func (t *Term) subst(m map[string]*Term) *Term {
	switch t.Op {
	case "var":
		if r, ok := m[t.Name]; ok {
			return r
		}
		return t
	case "int", "true", "false":
		return t
	}
	if len(t.Bound) > 0 {
		// bound names are generated fresh, no capture possible
		m2 := map[string]*Term{}
		for k, v := range m {
			m2[k] = v
		}
		for _, b := range t.Bound {
			delete(m2, b.Name)
		}
		m = m2
	}
	changed := false
	args := make([]*Term, len(t.Args))
	for i, a := range t.Args {
		args[i] = a.subst(m)
		if args[i] != a {
			changed = true
		}
	}
	if !changed {
		return t
	}
	return rebuild(t, args)
}

// rebuild re-applies the simplifying constructors.
func rebuild(t *Term, args []*Term) *Term {
	switch t.Op {
	case "and":
		return And(args...)
	case "or":
		return Or(args...)
	case "not":
		return Not(args[0])
	case "=>":
		return Implies(args[0], args[1])
	case "=":
		return Eq(args[0], args[1])
	case "ite":
		return Ite(args[0], args[1], args[2])
	case "<", "<=", ">", ">=":
		return cmpOp(t.Op, args[0], args[1])
	case "+":
		if len(args) == 2 {
			return Add(args[0], args[1])
		}
	case "-":
		if len(args) == 2 {
			return Sub(args[0], args[1])
		}
	case "*":
		if len(args) == 2 {
			return Mul(args[0], args[1])
		}
	case "select":
		return Select(args[0], args[1])
	case "app":
		if t.Name == "tdiv" {
			return TDiv(args[0], args[1])
		}
		if t.Name == "trem" {
			return TRem(args[0], args[1])
		}
		if fn, ok := wrapFns[t.Name]; ok && args[0].Op == "int" {
			return fn(args[0])
		}
	}
	return &Term{Op: t.Op, Name: t.Name, Args: args, Sort: t.Sort, Int: t.Int, Bound: t.Bound}
}

// ---------------------------------------------------------------- machine integers

type intKind struct {
	bits   int
	signed bool
}

func (k intKind) min() *big.Int {
	if !k.signed {
		return big.NewInt(0)
	}
	return new(big.Int).Neg(new(big.Int).Lsh(big.NewInt(1), uint(k.bits-1)))
}

func (k intKind) max() *big.Int {
	if k.signed {
		return new(big.Int).Sub(new(big.Int).Lsh(big.NewInt(1), uint(k.bits-1)), big.NewInt(1))
	}
	return new(big.Int).Sub(new(big.Int).Lsh(big.NewInt(1), uint(k.bits)), big.NewInt(1))
}

func (k intKind) name() string {
	if k.signed {
		return fmt.Sprintf("wrap_s%d", k.bits)
	}
	return fmt.Sprintf("wrap_u%d", k.bits)
}

var wrapFns = map[string]func(*Term) *Term{}

func init() {
	for _, b := range []int{8, 16, 32, 64} {
		for _, s := range []bool{true, false} {
			k := intKind{b, s}
			wrapFns[k.name()] = func(t *Term) *Term { return wrapConst(k, t.Int) }
		}
	}
}

func wrapConst(k intKind, v *big.Int) *Term {
	mod := new(big.Int).Lsh(big.NewInt(1), uint(k.bits))
	r := new(big.Int).Mod(v, mod) // Euclidean, in [0, mod)
	if k.signed && r.Cmp(k.max()) > 0 {
		r.Sub(r, mod)
	}
	return BigLit(r)
}

// wrapTerm maps a mathematical integer to the machine value of kind k.
func wrapTerm(k intKind, t *Term) *Term {
	if t.Op == "int" {
		return wrapConst(k, t.Int)
	}
	return App(k.name(), SInt, t)
}

func inRange(k intKind, t *Term) *Term {
	return And(Le(BigLit(k.min()), t), Le(t, BigLit(k.max())))
}

// ---------------------------------------------------------------- queries

type FuncDecl struct {
	Name   string
	Params []*Sort
	Ret    *Sort
}

// Query is one satisfiability problem: assumptions and a goal to refute.
type Query struct {
	Assume []*Term
	Goal   *Term // nil for a pure satisfiability (cover) query
	Funcs  map[string]*FuncDecl
	Extra  []*Term // instantiated axioms
}

func prelude() string {
	var sb strings.Builder
	for _, b := range []int{8, 16, 32, 64} {
		mod := new(big.Int).Lsh(big.NewInt(1), uint(b))
		half := new(big.Int).Lsh(big.NewInt(1), uint(b-1))
		// identity inside the type's range (the common case, decided without mod), two's complement outside
		fmt.Fprintf(&sb, "(define-fun wrap_u%d ((x Int)) Int (ite (and (<= 0 x) (< x %s)) x (mod x %s)))\n", b, mod, mod)
		fmt.Fprintf(&sb, "(define-fun wrap_s%d ((x Int)) Int (ite (and (<= (- %s) x) (< x %s)) x (- (mod (+ x %s) %s) %s)))\n", b, half, half, half, mod, half)
	}
	sb.WriteString("(define-fun tdiv ((a Int) (b Int)) Int (ite (>= a 0) (ite (> b 0) (div a b) (- (div a (- b)))) (ite (> b 0) (- (div (- a) b)) (div (- a) (- b)))))\n")
	sb.WriteString("(define-fun trem ((a Int) (b Int)) Int (- a (* b (tdiv a b))))\n")
	return sb.String()
}

var builtinApps = map[string]bool{"tdiv": true, "trem": true}

func init() {
	for n := range wrapFns {
		builtinApps[n] = true
	}
}

// SMT renders the query.  getValues, when non-nil, are terms to evaluate after sat.
func (q *Query) SMT(getValues []*Term, forCVC5 bool) string {
	vars := map[string]*Sort{}
	apps := map[string]*FuncDecl{}
	bound := map[string]int{}
	var collect func(t *Term)
	collect = func(t *Term) {
		switch t.Op {
		case "var":
			if bound[t.Name] == 0 {
				vars[t.Name] = t.Sort
			}
		case "app":
			if !builtinApps[t.Name] {
				if _, ok := apps[t.Name]; !ok {
					d := &FuncDecl{Name: t.Name, Ret: t.Sort}
					for _, a := range t.Args {
						d.Params = append(d.Params, a.Sort)
					}
					apps[t.Name] = d
				}
			}
		}
		for _, b := range t.Bound {
			bound[b.Name]++
		}
		for _, a := range t.Args {
			collect(a)
		}
		for _, b := range t.Bound {
			bound[b.Name]--
		}
	}
	all := append([]*Term{}, q.Assume...)
	all = append(all, q.Extra...)
	if q.Goal != nil {
		all = append(all, q.Goal)
	}
	for _, t := range all {
		collect(t)
	}
	for _, t := range getValues {
		collect(t)
	}
	var sb strings.Builder
	if forCVC5 {
		sb.WriteString("(set-option :produce-models true)\n(set-logic ALL)\n")
	} else {
		sb.WriteString("(set-option :produce-models true)\n")
	}
	sb.WriteString(prelude())
	names := make([]string, 0, len(vars))
	for n := range vars {
		names = append(names, n)
	}
	sort.Strings(names)
	for _, n := range names {
		fmt.Fprintf(&sb, "(declare-const %s %s)\n", n, vars[n].Name)
	}
	names = names[:0]
	for n := range apps {
		names = append(names, n)
	}
	sort.Strings(names)
	for _, n := range names {
		d := apps[n]
		ps := make([]string, len(d.Params))
		for i, p := range d.Params {
			ps[i] = p.Name
		}
		fmt.Fprintf(&sb, "(declare-fun %s (%s) %s)\n", n, strings.Join(ps, " "), d.Ret.Name)
	}
	for _, t := range q.Assume {
		if t.Op == "true" {
			continue
		}
		sb.WriteString("(assert ")
		t.write(&sb)
		sb.WriteString(")\n")
	}
	for _, t := range q.Extra {
		sb.WriteString("(assert ")
		t.write(&sb)
		sb.WriteString(")\n")
	}
	if q.Goal != nil {
		sb.WriteString("(assert (not ")
		q.Goal.write(&sb)
		sb.WriteString("))\n")
	}
	sb.WriteString("(check-sat)\n")
	if len(getValues) > 0 {
		sb.WriteString("(get-value (")
		for _, t := range getValues {
			t.write(&sb)
			sb.WriteByte(' ')
		}
		sb.WriteString("))\n")
	}
	return sb.String()
}

// canonString prints t with bound variables renamed in binding order, so that
// alpha-equivalent terms print alike.
func (t *Term) canonString() string {
	hasQ := false
	t.walk(func(s *Term) {
		if len(s.Bound) > 0 {
			hasQ = true
		}
	})
	if !hasQ {
		return t.String()
	}
	n := 0
	var ren func(t *Term, m map[string]*Term) *Term
	ren = func(t *Term, m map[string]*Term) *Term {
		if len(t.Bound) == 0 {
			if len(m) == 0 {
				return t
			}
			return t.subst(m)
		}
		m2 := map[string]*Term{}
		for k, v := range m {
			m2[k] = v
		}
		nb := make([]*Term, len(t.Bound))
		for i, b := range t.Bound {
			nb[i] = Var(fmt.Sprintf("b#%d", n), b.Sort)
			n++
			m2[b.Name] = nb[i]
		}
		return &Term{Op: t.Op, Bound: nb, Args: []*Term{renBody(t.Args[0], m2, ren)}, Sort: t.Sort}
	}
	return renBody(t, map[string]*Term{}, ren).String()
}

func renBody(t *Term, m map[string]*Term, ren func(*Term, map[string]*Term) *Term) *Term {
	if len(t.Bound) > 0 {
		return ren(t, m)
	}
	switch t.Op {
	case "var":
		if r, ok := m[t.Name]; ok {
			return r
		}
		return t
	case "int", "true", "false":
		return t
	}
	args := make([]*Term, len(t.Args))
	changed := false
	for i, a := range t.Args {
		args[i] = renBody(a, m, ren)
		if args[i] != a {
			changed = true
		}
	}
	if !changed {
		return t
	}
	return &Term{Op: t.Op, Name: t.Name, Args: args, Sort: t.Sort, Int: t.Int}
}
