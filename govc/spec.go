package main

// Specification language: Go-like expressions plus ==>, <==>, ?:, old(e),
// forall/exists, and the contract-file reader.

import (
	"fmt"
	"math/big"
	"os"
	"strconv"
	"strings"
	"unicode"
)

type SKind int

const (
	SIdent SKind = iota
	SIntLit
	SStrLit
	SBoolLit
	SNil
	SUnary  // Op, X
	SBinary // Op, X, Y
	SCond   // X ? Y : Z
	SCall   // Fun (SExpr), Args
	SIndex  // X[Y]
	SSlice  // X[Y:Z] (Y or Z may be nil)
	SSel    // X.Name
	SQuant  // Op = forall|exists ; Vars ; X body
)

type SVar struct {
	Name string
	Type string
}

type SExpr struct {
	Kind SKind
	Op   string
	Name string
	Int  *big.Int
	Str  string
	Bool bool
	X, Y, Z *SExpr
	Args []*SExpr
	Vars []SVar
	Src  string
}

func (e *SExpr) String() string {
	if e == nil {
		return ""
	}
	switch e.Kind {
	case SIdent:
		return e.Name
	case SIntLit:
		return e.Int.String()
	case SStrLit:
		return strconv.Quote(e.Str)
	case SBoolLit:
		return fmt.Sprint(e.Bool)
	case SNil:
		return "nil"
	case SUnary:
		return e.Op + e.X.String()
	case SBinary:
		return "(" + e.X.String() + " " + e.Op + " " + e.Y.String() + ")"
	case SCond:
		return "(" + e.X.String() + " ? " + e.Y.String() + " : " + e.Z.String() + ")"
	case SCall:
		as := make([]string, len(e.Args))
		for i, a := range e.Args {
			as[i] = a.String()
		}
		return e.X.String() + "(" + strings.Join(as, ", ") + ")"
	case SIndex:
		return e.X.String() + "[" + e.Y.String() + "]"
	case SSlice:
		return e.X.String() + "[" + e.Y.String() + ":" + e.Z.String() + "]"
	case SSel:
		return e.X.String() + "." + e.Name
	case SQuant:
		vs := make([]string, len(e.Vars))
		for i, v := range e.Vars {
			vs[i] = v.Name + " " + v.Type
		}
		return "(" + e.Op + " " + strings.Join(vs, ", ") + " :: " + e.X.String() + ")"
	}
	return "?"
}

// ---------------------------------------------------------------- tokenizer

type stok struct {
	kind string // "id" "int" "str" "op" "eof"
	text string
	ival *big.Int
}

func specTokenize(s string) ([]stok, error) {
	var toks []stok
	i := 0
	for i < len(s) {
		c := s[i]
		switch {
		case c == ' ' || c == '\t' || c == '\n' || c == '\r':
			i++
		case unicode.IsLetter(rune(c)) || c == '_':
			j := i
			for j < len(s) && (unicode.IsLetter(rune(s[j])) || unicode.IsDigit(rune(s[j])) || s[j] == '_') {
				j++
			}
			toks = append(toks, stok{kind: "id", text: s[i:j]})
			i = j
		case c >= '0' && c <= '9':
			j := i
			for j < len(s) && (s[j] >= '0' && s[j] <= '9' || s[j] == 'x' || s[j] == 'X' || s[j] == '_' || (s[j] >= 'a' && s[j] <= 'f') || (s[j] >= 'A' && s[j] <= 'F')) {
				j++
			}
			txt := strings.ReplaceAll(s[i:j], "_", "")
			v, ok := new(big.Int).SetString(txt, 0)
			if !ok {
				return nil, fmt.Errorf("bad integer %q", s[i:j])
			}
			toks = append(toks, stok{kind: "int", text: s[i:j], ival: v})
			i = j
		case c == '\'':
			j := i + 1
			for j < len(s) && s[j] != '\'' {
				if s[j] == '\\' {
					j++
				}
				j++
			}
			if j >= len(s) {
				return nil, fmt.Errorf("unterminated char literal")
			}
			r, _, _, err := strconv.UnquoteChar(s[i+1:j], '\'')
			if err != nil {
				return nil, err
			}
			toks = append(toks, stok{kind: "int", text: s[i : j+1], ival: big.NewInt(int64(r))})
			i = j + 1
		case c == '"':
			j := i + 1
			for j < len(s) && s[j] != '"' {
				if s[j] == '\\' {
					j++
				}
				j++
			}
			if j >= len(s) {
				return nil, fmt.Errorf("unterminated string literal")
			}
			str, err := strconv.Unquote(s[i : j+1])
			if err != nil {
				return nil, err
			}
			toks = append(toks, stok{kind: "str", text: str})
			i = j + 1
		default:
			ops := []string{"<==>", "==>", "::", "&&", "||", "==", "!=", "<=", ">=", "<<", ">>", "+", "-", "*", "/", "%", "<", ">", "!", "(", ")", "[", "]", ",", ".", ":", "?", "&", "|", "^"}
			matched := false
			for _, op := range ops {
				if strings.HasPrefix(s[i:], op) {
					toks = append(toks, stok{kind: "op", text: op})
					i += len(op)
					matched = true
					break
				}
			}
			if !matched {
				return nil, fmt.Errorf("unexpected character %q in spec expression", c)
			}
		}
	}
	toks = append(toks, stok{kind: "eof"})
	return toks, nil
}

// ---------------------------------------------------------------- parser

type sparser struct {
	toks []stok
	pos  int
	src  string
}

func ParseSpec(src string) (e *SExpr, err error) {
	toks, err := specTokenize(src)
	if err != nil {
		return nil, fmt.Errorf("%v in %q", err, src)
	}
	p := &sparser{toks: toks, src: src}
	defer func() {
		if r := recover(); r != nil {
			if pe, ok := r.(specParseErr); ok {
				e, err = nil, fmt.Errorf("%s in %q", string(pe), src)
				return
			}
			panic(r)
		}
	}()
	e = p.parseTop()
	if p.peek().kind != "eof" {
		p.fail("unexpected token %q", p.peek().text)
	}
	e.Src = src
	return e, nil
}

type specParseErr string

func (p *sparser) fail(f string, a ...any) { panic(specParseErr(fmt.Sprintf(f, a...))) }
func (p *sparser) peek() stok              { return p.toks[p.pos] }
func (p *sparser) next() stok              { t := p.toks[p.pos]; p.pos++; return t }
func (p *sparser) isOp(s string) bool      { t := p.peek(); return t.kind == "op" && t.text == s }
func (p *sparser) accept(s string) bool {
	if p.isOp(s) {
		p.pos++
		return true
	}
	return false
}
func (p *sparser) expect(s string) {
	if !p.accept(s) {
		p.fail("expected %q, found %q", s, p.peek().text)
	}
}

func (p *sparser) parseTop() *SExpr {
	t := p.peek()
	if t.kind == "id" && (t.text == "forall" || t.text == "exists") {
		p.next()
		q := &SExpr{Kind: SQuant, Op: t.text}
		for {
			n := p.next()
			if n.kind != "id" {
				p.fail("expected bound variable name")
			}
			ty := p.next()
			if ty.kind != "id" {
				p.fail("expected type of bound variable")
			}
			q.Vars = append(q.Vars, SVar{n.text, ty.text})
			if !p.accept(",") {
				break
			}
		}
		p.expect("::")
		q.X = p.parseTop()
		return q
	}
	return p.parseIff()
}

func (p *sparser) parseIff() *SExpr {
	x := p.parseImpl()
	for p.accept("<==>") {
		y := p.parseImpl()
		x = &SExpr{Kind: SBinary, Op: "<==>", X: x, Y: y}
	}
	return x
}

func (p *sparser) parseImpl() *SExpr {
	x := p.parseCond()
	if p.accept("==>") {
		var y *SExpr
		t := p.peek()
		if t.kind == "id" && (t.text == "forall" || t.text == "exists") {
			y = p.parseTop()
		} else {
			y = p.parseImpl()
		}
		return &SExpr{Kind: SBinary, Op: "==>", X: x, Y: y}
	}
	return x
}

func (p *sparser) parseCond() *SExpr {
	x := p.parseBin(1)
	if p.accept("?") {
		y := p.parseCond()
		p.expect(":")
		z := p.parseCond()
		return &SExpr{Kind: SCond, X: x, Y: y, Z: z}
	}
	return x
}

var sprec = map[string]int{
	"||": 1, "&&": 2,
	"==": 3, "!=": 3, "<": 3, "<=": 3, ">": 3, ">=": 3,
	"+": 4, "-": 4, "|": 4, "^": 4,
	"*": 5, "/": 5, "%": 5, "<<": 5, ">>": 5, "&": 5,
}

func (p *sparser) parseBin(minPrec int) *SExpr {
	x := p.parseUnary()
	for {
		t := p.peek()
		if t.kind != "op" {
			return x
		}
		pr, ok := sprec[t.text]
		if !ok || pr < minPrec {
			return x
		}
		p.next()
		y := p.parseBin(pr + 1)
		x = &SExpr{Kind: SBinary, Op: t.text, X: x, Y: y}
	}
}

func (p *sparser) parseUnary() *SExpr {
	if p.accept("!") {
		return &SExpr{Kind: SUnary, Op: "!", X: p.parseUnary()}
	}
	if p.accept("-") {
		return &SExpr{Kind: SUnary, Op: "-", X: p.parseUnary()}
	}
	if p.accept("&") {
		return &SExpr{Kind: SUnary, Op: "&", X: p.parseUnary()}
	}
	if p.accept("*") {
		return &SExpr{Kind: SUnary, Op: "*", X: p.parseUnary()}
	}
	return p.parsePostfix()
}

func (p *sparser) parsePostfix() *SExpr {
	x := p.parsePrimary()
	for {
		switch {
		case p.accept("."):
			n := p.next()
			if n.kind != "id" {
				p.fail("expected field name after '.'")
			}
			x = &SExpr{Kind: SSel, X: x, Name: n.text}
		case p.accept("("):
			c := &SExpr{Kind: SCall, X: x}
			if !p.accept(")") {
				for {
					c.Args = append(c.Args, p.parseTop())
					if p.accept(")") {
						break
					}
					p.expect(",")
				}
			}
			x = c
		case p.accept("["):
			var lo, hi *SExpr
			if !p.isOp(":") {
				lo = p.parseTop()
			}
			if p.accept(":") {
				if !p.isOp("]") {
					hi = p.parseTop()
				}
				p.expect("]")
				x = &SExpr{Kind: SSlice, X: x, Y: lo, Z: hi}
			} else {
				p.expect("]")
				x = &SExpr{Kind: SIndex, X: x, Y: lo}
			}
		default:
			return x
		}
	}
}

func (p *sparser) parsePrimary() *SExpr {
	t := p.next()
	switch t.kind {
	case "id":
		switch t.text {
		case "true":
			return &SExpr{Kind: SBoolLit, Bool: true}
		case "false":
			return &SExpr{Kind: SBoolLit, Bool: false}
		case "nil":
			return &SExpr{Kind: SNil}
		}
		return &SExpr{Kind: SIdent, Name: t.text}
	case "int":
		return &SExpr{Kind: SIntLit, Int: t.ival}
	case "str":
		return &SExpr{Kind: SStrLit, Str: t.text}
	case "op":
		if t.text == "(" {
			x := p.parseTop()
			p.expect(")")
			return x
		}
	}
	p.fail("unexpected token %q", t.text)
	return nil
}

// ---------------------------------------------------------------- contracts

type Clause struct {
	Expr *SExpr
	Src  string
	Tag  string // optional label: "[C07]" style tags, property ids this clause serves
}

type LoopContract struct {
	Invariants []Clause
	Decreases  *Clause
	// "loop N exhaustive [Cxx]": the loop is left only when its range / condition is exhausted;
	// every break out of it is an obligation (unreachable)
	Exhaustive    bool
	ExhaustiveTag string
}

type FuncContract struct {
	Name      string // "Func" or "Type.Method" (package-relative); for assumed: "pkg/path.Func"
	Pkg       string // package path the contract file belongs to ("" for assumed)
	Requires  []Clause
	Ensures   []Clause
	NoPanic   bool
	Pure      bool
	Assumed   bool // trusted, not verified
	Inline    bool // always inline at call sites even though it has a contract
	Loops     map[int]*LoopContract
	Params    []SVar // for assumed contracts of external functions: names
	Results   []SVar
	Assigns   []string
	Ghost     []string // free-form directives understood by the executor
	Implements string  // name of the fnfield contract a closure implements
	ImplDecl   string  // as declared (Implements is cleared once merged)
	Decreases  *Clause // termination measure (recursion)
	Props     []string // property ids this function is listed under
	File      string
	Line      int
}

type SpecFunc struct {
	Name   string
	Params []SVar
	Ret    string
	Body   *SExpr // nil = uninterpreted
	Src    string
	Pkg    string
}

type TypeInv struct {
	Type string
	Recv string
	Expr Clause
	Pkg  string
}

type Lemma struct {
	Name  string
	Expr  Clause
	Pkg   string
	Props []string
	Hints []string
}

type Directive struct {
	Kind string
	Text string
	Pkg  string
	File string
	Line int
}

type Contracts struct {
	Funcs      map[string]*FuncContract // key: pkgpath + "." + Name
	Specs      map[string]*SpecFunc
	TypeInvs   []*TypeInv
	Lemmas     []*Lemma
	Directives []*Directive
	FnFields   []*FuncContract
}

func NewContracts() *Contracts {
	return &Contracts{Funcs: map[string]*FuncContract{}, Specs: map[string]*SpecFunc{}}
}

// parseVarList parses "a int, b string" / "(n int64, ok bool)".
func parseVarList(s string) []SVar {
	s = strings.TrimSpace(s)
	s = strings.TrimPrefix(s, "(")
	s = strings.TrimSuffix(s, ")")
	var out []SVar
	if strings.TrimSpace(s) == "" {
		return nil
	}
	for _, part := range strings.Split(s, ",") {
		f := strings.Fields(part)
		switch len(f) {
		case 1:
			out = append(out, SVar{Name: "_", Type: f[0]})
		case 2:
			out = append(out, SVar{Name: f[0], Type: f[1]})
		}
	}
	// "a, b int" style: propagate types backwards
	for i := len(out) - 2; i >= 0; i-- {
		if out[i].Name == "_" && !isTypeName(out[i].Type) {
			out[i].Name = out[i].Type
			out[i].Type = out[i+1].Type
		}
	}
	return out
}

func isTypeName(s string) bool {
	switch s {
	case "int", "int64", "int32", "uint32", "uint8", "byte", "rune", "bool", "string", "error", "uint64", "uint", "int8", "int16", "uint16", "time", "bytes":
		return true
	}
	return strings.Contains(s, ".") || strings.HasPrefix(s, "[]") || strings.HasPrefix(s, "*")
}

// LoadContractFile reads one contract file.  pkg is the package path for
// files living in /repo ("" for assumed-contract files, where function names
// are fully qualified).
func (cs *Contracts) LoadContractFile(path, pkg string, assumedFile bool) error {
	data, err := os.ReadFile(path)
	if err != nil {
		return err
	}
	lines := strings.Split(string(data), "\n")
	var cur *FuncContract
	var pendingProps []string
	for ln := 0; ln < len(lines); ln++ {
		raw := strings.TrimSpace(lines[ln])
		var text string
		if strings.HasPrefix(raw, "//@") {
			text = strings.TrimSpace(raw[3:])
		} else if assumedFile && !strings.HasPrefix(raw, "#") && !strings.HasPrefix(raw, "//") {
			text = raw
		} else {
			continue
		}
		// continuation lines end with a backslash
		for strings.HasSuffix(text, "\\") && ln+1 < len(lines) {
			ln++
			nx := strings.TrimSpace(lines[ln])
			nx = strings.TrimSpace(strings.TrimPrefix(nx, "//@"))
			text = strings.TrimSuffix(text, "\\") + " " + nx
		}
		if text == "" {
			continue
		}
		// strip trailing comment introduced by " // "
		if i := strings.Index(text, " // "); i >= 0 {
			text = strings.TrimSpace(text[:i])
		}
		word, rest := splitWord(text)
		fail := func(e error) error { return fmt.Errorf("%s:%d: %v", path, ln+1, e) }
		clause := func(s string) (Clause, error) {
			s = strings.TrimSpace(s)
			tag := ""
			if strings.HasPrefix(s, "[") {
				if j := strings.Index(s, "]"); j > 0 {
					tag = s[1:j]
					s = strings.TrimSpace(s[j+1:])
				}
			}
			e, err := ParseSpec(s)
			if err != nil {
				return Clause{}, err
			}
			return Clause{Expr: e, Src: s, Tag: tag}, nil
		}
		switch word {
		case "props":
			pendingProps = strings.Fields(strings.ReplaceAll(rest, ",", " "))
		case "spec":
			// spec func name(params) ret = body   |  spec func name(params) ret
			w2, r2 := splitWord(rest)
			if w2 != "func" {
				return fail(fmt.Errorf("expected 'spec func'"))
			}
			lp := strings.Index(r2, "(")
			rp := matchParen(r2, lp)
			if lp < 0 || rp < 0 {
				return fail(fmt.Errorf("malformed spec func"))
			}
			sf := &SpecFunc{Name: strings.TrimSpace(r2[:lp]), Params: parseVarList(r2[lp : rp+1]), Pkg: pkg, Src: text}
			tail := strings.TrimSpace(r2[rp+1:])
			if eq := strings.Index(tail, "="); eq >= 0 && !strings.HasPrefix(tail[eq:], "==") {
				sf.Ret = strings.TrimSpace(tail[:eq])
				b, err := ParseSpec(tail[eq+1:])
				if err != nil {
					return fail(err)
				}
				sf.Body = b
			} else {
				sf.Ret = tail
			}
			cs.Specs[sf.Name] = sf
			cur = nil
		case "func", "assume", "fnfield":
			assumed := assumedFile
			isFnField := word == "fnfield"
			if word == "assume" {
				assumed = true
				w2, r2 := splitWord(rest)
				if w2 != "func" {
					return fail(fmt.Errorf("expected 'assume func'"))
				}
				rest = r2
			}
			fc := &FuncContract{Pkg: pkg, Assumed: assumed, Loops: map[int]*LoopContract{}, File: path, Line: ln + 1, Props: pendingProps}
			pendingProps = nil
			if lp := strings.Index(rest, "("); lp >= 0 {
				rp := matchParen(rest, lp)
				fc.Name = strings.TrimSpace(rest[:lp])
				fc.Params = parseVarList(rest[lp : rp+1])
				fc.Results = parseVarList(rest[rp+1:])
			} else {
				fc.Name = strings.TrimSpace(rest)
			}
			key := fc.Name
			if pkg != "" && !assumedFile {
				key = pkg + "." + fc.Name
			}
			if isFnField {
				key = "fnfield:" + fc.Name
				fc.Assumed = true // verified through the closures that implement it
				cs.FnFields = append(cs.FnFields, fc)
			}
			cs.Funcs[key] = fc
			cur = fc
		case "decreases":
			// termination measure of a recursive function: non-negative at entry, strictly smaller at every recursive call
			if cur == nil {
				return fail(fmt.Errorf("decreases outside func"))
			}
			c, err := clause(rest)
			if err != nil {
				return fail(err)
			}
			cur.Decreases = &c
		case "requires", "ensures":
			if cur == nil {
				return fail(fmt.Errorf("%s outside func", word))
			}
			c, err := clause(rest)
			if err != nil {
				return fail(err)
			}
			if word == "requires" {
				cur.Requires = append(cur.Requires, c)
			} else {
				cur.Ensures = append(cur.Ensures, c)
			}
		case "nopanic":
			cur.NoPanic = true
		case "pure":
			cur.Pure = true
		case "inline":
			cur.Inline = true
		case "trusted":
			cur.Assumed = true
		case "assigns":
			cur.Assigns = append(cur.Assigns, strings.Fields(strings.ReplaceAll(rest, ",", " "))...)
		case "ghost":
			if cur != nil {
				cur.Ghost = append(cur.Ghost, rest)
			} else {
				cs.Directives = append(cs.Directives, &Directive{Kind: "ghost", Text: rest, Pkg: pkg, File: path, Line: ln + 1})
			}
		case "loop":
			w2, r2 := splitWord(rest)
			n, err := strconv.Atoi(w2)
			if err != nil {
				return fail(fmt.Errorf("loop ordinal expected"))
			}
			w3, r3 := splitWord(r2)
			lc := cur.Loops[n]
			if lc == nil {
				lc = &LoopContract{}
				cur.Loops[n] = lc
			}
			if w3 == "exhaustive" {
				lc.Exhaustive = true
				lc.ExhaustiveTag = strings.Trim(strings.TrimSpace(r3), "[]")
				break
			}
			c, err := clause(r3)
			if err != nil {
				return fail(err)
			}
			switch w3 {
			case "invariant":
				lc.Invariants = append(lc.Invariants, c)
			case "decreases":
				lc.Decreases = &c
			default:
				return fail(fmt.Errorf("unknown loop clause %q", w3))
			}
		case "type":
			// type T invariant <expr over recv name "self">
			w2, r2 := splitWord(rest)
			w3, r3 := splitWord(r2)
			if w3 != "invariant" {
				return fail(fmt.Errorf("expected 'type T invariant'"))
			}
			c, err := clause(r3)
			if err != nil {
				return fail(err)
			}
			cs.TypeInvs = append(cs.TypeInvs, &TypeInv{Type: w2, Recv: "self", Expr: c, Pkg: pkg})
			cur = nil
		case "lemma":
			i := strings.Index(rest, ":")
			if i < 0 {
				return fail(fmt.Errorf("lemma name: expr"))
			}
			c, err := clause(rest[i+1:])
			if err != nil {
				return fail(err)
			}
			cs.Lemmas = append(cs.Lemmas, &Lemma{Name: strings.TrimSpace(rest[:i]), Expr: c, Pkg: pkg, Props: pendingProps})
			pendingProps = nil
			cur = nil
		case "implements":
			cur.Implements = strings.TrimSpace(rest)
			cur.ImplDecl = cur.Implements
		case "lock", "field", "iface", "chan", "guard", "level", "sum", "endpoint":
			cs.Directives = append(cs.Directives, &Directive{Kind: word, Text: rest, Pkg: pkg, File: path, Line: ln + 1})
		default:
			return fail(fmt.Errorf("unknown contract keyword %q", word))
		}
	}
	return nil
}

func splitWord(s string) (string, string) {
	s = strings.TrimSpace(s)
	i := strings.IndexAny(s, " \t")
	if i < 0 {
		return s, ""
	}
	return s[:i], strings.TrimSpace(s[i+1:])
}

func matchParen(s string, lp int) int {
	if lp < 0 {
		return -1
	}
	depth := 0
	for i := lp; i < len(s); i++ {
		switch s[i] {
		case '(':
			depth++
		case ')':
			depth--
			if depth == 0 {
				return i
			}
		}
	}
	return -1
}
