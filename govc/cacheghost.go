package main

// Ghost state for the cache properties:
//  - ghost sums over maps (C12): "//@ sum <MapFieldPattern> <path to the int64 inside the element>"
//    keeps, per map object, the sum of that field over the present keys, updated
//    at every map write / delete the verifier executes.
//  - guarded_by (C15): "//@ field <HeapKeyPattern> guarded_by shard|mu|owner"
//  - io.Reader content identities (C01).

import (
	"fmt"
	"go/types"
	"strings"
)

type sumRule struct {
	mapPattern string   // substring of the map's type key
	path       []string // field path from the map element to the summed integer
	text       string
}

func (x *Exec) loadSumRules() {
	for _, d := range x.C.Directives {
		if d.Kind != "sum" {
			continue
		}
		f := strings.Fields(d.Text)
		if len(f) < 2 {
			continue
		}
		x.sumRules = append(x.sumRules, sumRule{mapPattern: f[0], path: strings.Split(f[1], "."), text: d.Text})
	}
}

func (x *Exec) sumRuleFor(m MapV) *sumRule {
	ks := mapKeyStr(m)
	for i := range x.sumRules {
		if strings.Contains(ks, x.sumRules[i].mapPattern) {
			return &x.sumRules[i]
		}
	}
	return nil
}

// summed follows the rule's field path from a map element to the integer.
func (x *Exec) summed(st *State, r *sumRule, v Value) *Term {
	cur := v
	for _, f := range r.path {
		if f == "" || f == "self" {
			continue
		}
		switch c := cur.(type) {
		case PtrV:
			stt := x.resolveType(c.Elem).Underlying().(*types.Struct)
			var ft types.Type
			for i := 0; i < stt.NumFields(); i++ {
				if stt.Field(i).Name() == f {
					ft = x.resolveType(stt.Field(i).Type())
				}
			}
			if ft == nil {
				panic(x.unsupported("sum rule: no field " + f))
			}
			cur = heapFieldLV{p: c, field: f, ftype: ft}.Load(x, st)
		case StructV:
			cur = c.F[f]
		default:
			panic(x.unsupported("sum rule path"))
		}
	}
	return cur.(IntV).T
}

func (x *Exec) onMapInit(st *State, m MapV) {
	if r := x.sumRuleFor(m); r != nil {
		sa := st.ghostArr("mapsum", SInt)
		st.setGhostArr("mapsum", Store(sa, m.ID, IntLit(0)))
	}
}

// onMapWrite maintains the ghost sum.  old is the previous element (meaningful when was holds).
func (x *Exec) onMapWrite(st *State, m MapV, key, was *Term, v Value, set bool) {
	r := x.sumRuleFor(m)
	if r == nil {
		return
	}
	sa := st.ghostArr("mapsum", SInt)
	cur := Select(sa, m.ID)
	if set {
		// the caller saved the previous element in st.ghost["mapold"] before overwriting
		oldV := x.lastMapOld
		oldSize := IntLit(0)
		if oldV != nil {
			os := x.summed(st, r, oldV)
			oldSize = Ite(was, os, IntLit(0))
			// ghost lemma: a sum of non-negative terms is at least each of its terms
			// (non-negativity of every stored term is an obligation at each store, below)
			st.assumeRaw(Implies(was, And(Ge(os, IntLit(0)), Ge(cur, os))))
		}
		st.assumeRaw(Ge(cur, IntLit(0)))
		nw := x.summed(st, r, v)
		if x.cur != nil && x.curFrame != nil && x.inSpec == 0 {
			x.oblige(x.curFrame, st, "sum", "nonneg@"+x.siteLabelOrFunc(), Ge(nw, IntLit(0)), x.curNode)
			x.Obls[len(x.Obls)-1].Tag = "C12"
		}
		st.setGhostArr("mapsum", Store(sa, m.ID, Add(Sub(cur, oldSize), nw)))
		return
	}
	os := x.summed(st, r, v)
	st.assumeRaw(Ge(cur, IntLit(0)))
	st.assumeRaw(Implies(was, And(Ge(os, IntLit(0)), Ge(cur, os))))
	st.setGhostArr("mapsum", Store(sa, m.ID, Sub(cur, Ite(was, os, IntLit(0)))))
}

// ---------------------------------------------------------------- guarded_by

func (x *Exec) guardFor(key string) *guardRule {
	for i := range x.guardRules {
		g := &x.guardRules[i]
		if strings.HasPrefix(g.field, "map_") {
			if strings.Contains(key, g.field) {
				return g
			}
			continue
		}
		parts := strings.SplitN(g.field, ".", 2)
		if len(parts) == 2 {
			if strings.Contains(key, parts[0]) && (strings.HasSuffix(key, "."+parts[1]) || strings.Contains(key, "."+parts[1]+".")) {
				return g
			}
		} else if strings.Contains(key, g.field) {
			return g
		}
	}
	return nil
}

// guardCheck is called at every heap access the verifier executes.
// guardCheckIndexed: an access to one element of a map (m[k], m[k] = v, delete(m, k)).
func (x *Exec) guardCheckIndexed(st *State, key string, addr *Term, write bool) {
	x.indexedAccess = true
	defer func() { x.indexedAccess = false }()
	x.guardCheck(st, key, addr, write)
}

func (x *Exec) guardCheck(st *State, key string, addr *Term, write bool) {
	if len(x.guardRules) == 0 || x.cur == nil || x.curFrame == nil || st.dead || x.inSpec > 0 {
		return
	}
	g := x.guardFor(key)
	if g == nil {
		return
	}
	ok := false
	if strings.HasPrefix(g.guard, "confined:") {
		// only the listed functions (one goroutine's code, or code that runs before it starts) may touch the field
		allowed := strings.Split(strings.TrimPrefix(g.guard, "confined:"), ",")
		for _, a := range allowed {
			if strings.HasSuffix(x.cur.Name, "."+a) || x.cur.Short == a {
				return
			}
		}
	}
	if g.guard == "immutable" {
		// written only before publication: reads need no lock, writes need a fresh object
		if !write {
			return
		}
	}
	shardHeld := false
	for _, h := range st.held {
		if strings.HasPrefix(h.Desc, "elem:") {
			shardHeld = true
		}
		switch {
		case g.guard == "shard" && strings.HasPrefix(h.Desc, "elem:"):
			if !write || h.Write {
				ok = true
			}
		case strings.HasPrefix(g.guard, "mu"):
			if strings.HasSuffix(h.Desc, ".mu") && (!write || h.Write) {
				ok = true
			}
		}
	}
	if g.guard == "mu+shard" && x.indexedAccess && !shardHeld {
		// the record of one key is looked up or changed only while that key's shard lock is held:
		// lookup and use are then one atomic step with respect to stores of the same key
		ok = false
	}
	mode := "read"
	if write {
		mode = "write"
	}
	// objects allocated by this very call are still private to it
	goal := BoolLit(ok)
	if !ok {
		goal = Not(allocAt(Var("alloc0", SInt), addr))
	}
	label := fmt.Sprintf("%s %s@%s", mode, shortKey(key), x.siteLabelOrFunc())
	x.oblige(x.curFrame, st, "guarded", label, goal, x.curNode)
	x.Obls[len(x.Obls)-1].Tag = "C15"
	for _, f := range strings.Fields(g.text) {
		if strings.HasPrefix(f, "also:") {
			// the discipline of this field also carries another property
			x.Obls[len(x.Obls)-1].Tag = "C15," + strings.TrimPrefix(f, "also:")
		}
	}
	if g.guard == "mu+shard" && x.indexedAccess {
		// also the atomicity of lookup-and-use per key that C01 rests on
		x.Obls[len(x.Obls)-1].Tag = "C15,C01,C09" // C09: a record looked up without the lock pairs old headers with a new body
	}
}

func shortKey(key string) string {
	if i := strings.Index(key, "_."); i >= 0 {
		return key[:strings.Index(key, "_")] + key[i+1:]
	}
	return key
}

func (x *Exec) siteLabelOrFunc() string {
	if x.curNode != nil {
		return x.siteLabel(x.curNode)
	}
	return "?"
}
