package main

// Models for the cache-key construction (C02): path.Clean, strings.HasSuffix,
// blake2b.Sum256, hex.EncodeToString, and the injectivity of fmt.Sprintf for
// formats whose string verbs are all %q.
//
// Assumed (dependencies): path.Clean is a function of its argument whose result
// ends in a slash only if it is "/"; a Go-quoted string (%q) is self-delimiting,
// so a format made of %q verbs separated by literal text without a double quote
// is injective in its arguments; hex encoding is injective; BLAKE2b-256 is
// treated as injective (collision resistance - not a mathematical fact).

import (
	"fmt"
	"go/types"
	"strings"
)

// injective declares the n-ary function symbol f injective by inverse functions.
func (x *Exec) injective(f string, n int, why string) {
	if x.injDone == nil {
		x.injDone = map[string]bool{}
	}
	if x.injDone[f] {
		return
	}
	x.injDone[f] = true
	var vs []*Term
	for i := 0; i < n; i++ {
		vs = append(vs, Var(fmt.Sprintf("qinj_%s_%d", sanitize(f), i), SInt))
	}
	app := App(f, SInt, vs...)
	for i := 0; i < n; i++ {
		x.GlobalFacts = append(x.GlobalFacts, Forall(vs, Eq(App(fmt.Sprintf("inv%d_%s", i, f), SInt, app), vs[i])))
	}
	x.Trusted[why] = true
}

// quotedFormat: every verb is %q and any two verbs are separated by literal text without '"'.
func quotedFormat(f string) bool {
	segs, ok := parseFormat(f)
	if !ok {
		return false
	}
	prevVerb := false
	n := 0
	for _, s := range segs {
		if s.verb == 0 {
			if strings.Contains(s.lit, "\"") {
				return false
			}
			prevVerb = false
			continue
		}
		if s.verb != 'q' || prevVerb {
			return false
		}
		prevVerb = true
		n++
	}
	return n > 0
}

func (x *Exec) sprintfSymbol(f string, n int) string {
	name := "sprintf_" + sanitize(f) + fmt.Sprintf("_%d", n)
	if quotedFormat(f) {
		x.injective(name, n, "fmt.Sprintf with a format of %q verbs separated by quote-free text is injective in its arguments (Go-quoted strings are self-delimiting)")
	}
	return name
}

func (x *Exec) slashID(st *State) *Term { return x.strID(st, x.strLit("/")) }

func (x *Exec) pathCleanAxiom(st *State) {
	if x.pathCleanDone {
		return
	}
	x.pathCleanDone = true
	p := Var("qp_clean", SInt)
	slash := x.slashID(st)
	c := App("strfn_pathclean", SInt, p)
	x.GlobalFacts = append(x.GlobalFacts,
		Forall([]*Term{p}, Implies(App("strfn_hassuffix", SBool, c, slash), Eq(c, slash))),
		// Clean is idempotent
		Forall([]*Term{p}, Eq(App("strfn_pathclean", SInt, c), c)))
	x.Trusted["path.Clean: a function of its argument; the result ends in a slash only if it is \"/\"; idempotent (package path documentation)"] = true
}

func init() {
	models["path.Clean"] = func(x *Exec, fr *Frame, st *State, pc *preparedCall, k func(*State, []Value)) {
		p := pc.args[0].(StrV)
		r := x.freshValue(st, types.Typ[types.String], "clean").(StrV)
		st.assumeRaw(Gt(r.Len, IntLit(0)))
		st.assumeRaw(Eq(x.strID(st, r), App("strfn_pathclean", SInt, x.strID(st, p))))
		x.pathCleanAxiom(st)
		// content link for the one-character result "/"
		slash := x.strLit("/")
		st.assumeRaw(Eq(x.strEq(r, slash), Eq(x.strID(st, r), x.strID(st, slash))))
		k(st, []Value{r})
	}
	// (*url.URL).EscapedPath: the path in its wire form (RawPath when it is a valid encoding of Path)
	models["net/url.URL.EscapedPath"] = func(x *Exec, fr *Frame, st *State, pc *preparedCall, k func(*State, []Value)) {
		r := x.freshValue(st, types.Typ[types.String], "escpath").(StrV)
		if u, ok := pc.recv.(PtrV); ok {
			p, ok1 := x.specFieldOf(st, u, "Path").(StrV)
			rp, ok2 := x.specFieldOf(st, u, "RawPath").(StrV)
			if ok1 && ok2 {
				st.assumeRaw(Eq(x.strID(st, r), App("escpath", SInt, x.strID(st, p), x.strID(st, rp))))
				x.Trusted["url.URL.EscapedPath is the path as written on the wire: a function of Path and RawPath (net/url, assumed)"] = true
			}
		}
		k(st, []Value{r})
	}
	models["strings.HasSuffix"] = func(x *Exec, fr *Frame, st *State, pc *preparedCall, k func(*State, []Value)) {
		s := pc.args[0].(StrV)
		suf, ok := strLitOf(pc.args[1].(StrV))
		if !ok {
			k(st, []Value{BoolV{Var(x.fresh("hassuffix"), SBool)}})
			return
		}
		n := int64(len(suf))
		conds := []*Term{Ge(s.Len, IntLit(n))}
		for i := int64(0); i < n; i++ {
			conds = append(conds, Eq(x.strAt(s, Add(Sub(s.Len, IntLit(n)), IntLit(i))), IntLit(int64(suf[i]))))
		}
		c := And(conds...)
		st.assumeRaw(Eq(c, App("strfn_hassuffix", SBool, x.strID(st, s), x.strID(st, x.strLit(suf)))))
		k(st, []Value{BoolV{c}})
	}
	models["golang.org/x/crypto/blake2b.Sum256"] = func(x *Exec, fr *Frame, st *State, pc *preparedCall, k func(*State, []Value)) {
		in := pc.args[0].(StrV)
		sig := pc.fn.Type().(*types.Signature)
		rv := x.freshValue(st, x.resolveType(sig.Results().At(0).Type()), "sum256")
		if r, ok := rv.(StrV); ok {
			st.assumeRaw(Eq(r.Len, IntLit(32)))
			st.assumeRaw(Eq(x.strID(st, r), App("blake2b256", SInt, x.strID(st, in))))
			x.injective("blake2b256", 1, "BLAKE2b-256 treated as injective on the inputs that occur (collision resistance, assumed)")
		}
		k(st, []Value{rv})
	}
	models["encoding/hex.EncodeToString"] = func(x *Exec, fr *Frame, st *State, pc *preparedCall, k func(*State, []Value)) {
		in := pc.args[0].(StrV)
		r := x.freshValue(st, types.Typ[types.String], "hex").(StrV)
		st.assumeRaw(Eq(r.Len, Mul(IntLit(2), in.Len)))
		st.assumeRaw(Eq(x.strID(st, r), App("hexenc", SInt, x.strID(st, in))))
		x.injective("hexenc", 1, "hex.EncodeToString is injective")
		k(st, []Value{r})
	}
}

// specKeyBuiltin: id-level vocabulary of the key construction for contracts.
func (x *Exec) specKeyBuiltin(env *SpecEnv, name string, e *SExpr) (Value, bool) {
	arg := func(i int) *Term { return x.identityOf(env.st, x.specEval(env, e.Args[i])) }
	switch name {
	case "pathclean":
		x.pathCleanAxiom(env.st)
		return IntV{App("strfn_pathclean", SInt, arg(0))}, true
	case "hassuffix":
		return BoolV{App("strfn_hassuffix", SBool, arg(0), arg(1))}, true
	case "concatid":
		x.concatAxioms()
		return IntV{App("strfn_concat", SInt, arg(0), arg(1))}, true
	case "durstr":
		return IntV{App("durstr", SInt, x.asTerm(x.specEval(env, e.Args[0])))}, true
	case "splithost":
		return IntV{App("strfn_splithost", SInt, arg(0))}, true
	case "pemnotafter":
		return IntV{App("pem_notafter", SInt, arg(0))}, true
	case "escpath":
		x.Trusted["url.URL.EscapedPath is the path as written on the wire: a function of Path and RawPath (net/url, assumed)"] = true
		return IntV{App("escpath", SInt, arg(0), arg(1))}, true
	case "hashid":
		x.injective("blake2b256", 1, "BLAKE2b-256 treated as injective on the inputs that occur (collision resistance, assumed)")
		return IntV{App("blake2b256", SInt, arg(0))}, true
	case "hexid":
		x.injective("hexenc", 1, "hex.EncodeToString is injective")
		return IntV{App("hexenc", SInt, arg(0))}, true
	}
	return nil, false
}

// concatAxioms: a ++ b ends with b; equal results with equal second parts have equal first parts.
func (x *Exec) concatAxioms() {
	if x.concatDone {
		return
	}
	x.concatDone = true
	a, b := Var("qc_a", SInt), Var("qc_b", SInt)
	c := App("strfn_concat", SInt, a, b)
	x.GlobalFacts = append(x.GlobalFacts,
		Forall([]*Term{a, b}, App("strfn_hassuffix", SBool, c, b)),
		Forall([]*Term{a, b}, Eq(App("strfn_concat_left", SInt, c, b), a)))
	x.Trusted["string concatenation at identity level: a+b ends with b and determines a given b"] = true
}

// ---- certificates (C11)

func init() {
	// net.SplitHostPort(hostport): an error, or the host part as a function of the argument
	models["net.SplitHostPort"] = func(x *Exec, fr *Frame, st *State, pc *preparedCall, k func(*State, []Value)) {
		in := pc.args[0].(StrV)
		errv := Var(x.fresh("splithosterr"), SInt)
		st.assumeRaw(Or(Eq(errv, IntLit(0)), Gt(errv, IntLit(1<<40))))
		x.freshErrs = append(x.freshErrs, errv)
		x.ioErrAxiom()
		host := x.freshValue(st, types.Typ[types.String], "host").(StrV)
		port := x.freshValue(st, types.Typ[types.String], "port").(StrV)
		st.assumeRaw(Implies(Eq(errv, IntLit(0)), Eq(x.strID(st, host), App("strfn_splithost", SInt, x.strID(st, in)))))
		st.assumeRaw(Implies(Ne(errv, IntLit(0)), And(Eq(host.Len, IntLit(0)), Eq(port.Len, IntLit(0)))))
		k(st, []Value{host, port, OpaqueV{T: errv, Type: errType()}})
	}
	// tls.X509KeyPair(certPEM, keyPEM): an error, or a certificate whose Leaf is populated
	// (Go >= 1.23) - the parsed form of certPEM
	models["crypto/tls.X509KeyPair"] = func(x *Exec, fr *Frame, st *State, pc *preparedCall, k func(*State, []Value)) {
		sig := pc.fn.Type().(*types.Signature)
		ct := x.resolveType(sig.Results().At(0).Type())
		errv := x.freshErr(st, "keypairerr").(OpaqueV)
		st2 := st.clone()
		st2.assumeRaw(Ne(errv.T, IntLit(0)))
		k(st2, []Value{x.zeroValue(ct), errv})
		st.assumeRaw(Eq(errv.T, IntLit(0)))
		cv := x.freshValue(st, ct, "keypair")
		if sv, ok := cv.(StructV); ok {
			if lp, ok := sv.F["Leaf"].(PtrV); ok {
				lp.Addr = x.allocAddr(st, "leaf")
				// NotAfter of the parsed certificate: what the PEM block says
				na := App("pem_notafter", SInt, x.identityOf(st, pc.args[0]))
				heapFieldLV{p: lp, field: "NotAfter", ftype: x.resolveType(structFieldType(types.NewPointer(lp.Elem), "NotAfter"))}.Store(x, st, IntV{na})
				sv.F["Leaf"] = lp
			}
		}
		k(st, []Value{cv, errv})
	}
}
