package main

// Content facts for fmt.Sprintf with simple formats: the result is the
// concatenation of its segments (literal text, %d, %c, %s).  Part of the
// trusted model of fmt.

import "strings"

type fmtSeg struct {
	lit  string
	verb byte // 0 for literal
	arg  int
}

func parseFormat(f string) ([]fmtSeg, bool) {
	var segs []fmtSeg
	var lit strings.Builder
	argi := 0
	for i := 0; i < len(f); i++ {
		if f[i] != '%' {
			lit.WriteByte(f[i])
			continue
		}
		if i+1 >= len(f) {
			return nil, false
		}
		i++
		switch f[i] {
		case '%':
			lit.WriteByte('%')
		case 'd', 'c', 's', 'v', 'w', 'q':
			if lit.Len() > 0 {
				segs = append(segs, fmtSeg{lit: lit.String()})
				lit.Reset()
			}
			segs = append(segs, fmtSeg{verb: f[i], arg: argi})
			argi++
		default:
			return nil, false
		}
	}
	if lit.Len() > 0 {
		segs = append(segs, fmtSeg{lit: lit.String()})
	}
	return segs, true
}

func (x *Exec) sprintfFacts(st *State, format string, args []Value, r StrV) {
	// content facts are generated only for functions whose contract asks for
	// them ("ghost sprintf-content"); everywhere else the result is known by its identity tag only
	want := false
	if x.cur != nil && x.cur.Contract != nil {
		for _, g := range x.cur.Contract.Ghost {
			if g == "sprintf-content" {
				want = true
			}
		}
	}
	if !want {
		return
	}
	segs, ok := parseFormat(format)
	if !ok {
		return
	}
	// check every argument is of a supported kind first
	for _, s := range segs {
		if s.verb == 0 {
			continue
		}
		if s.arg >= len(args) {
			return
		}
		a := args[s.arg]
		if o, isO := a.(OpaqueV); isO && o.Dyn != nil {
			a = o.Dyn
		}
		switch a.(type) {
		case IntV:
			if s.verb != 'd' && s.verb != 'c' && s.verb != 'v' {
				return
			}
		case StrV:
			if s.verb != 's' && s.verb != 'v' {
				return
			}
		default:
			return
		}
	}
	x.Trusted["fmt.Sprintf content model (literal, %d, %c, %s segments concatenated)"] = true
	pos := IntLit(0)
	isDigit := func(b *Term) *Term { return And(Le(IntLit('0'), b), Le(b, IntLit('9'))) }
	for _, s := range segs {
		if s.verb == 0 {
			for i := 0; i < len(s.lit); i++ {
				st.assumeRaw(Eq(x.strAt(r, Add(pos, IntLit(int64(i)))), IntLit(int64(s.lit[i]))))
			}
			pos = Add(pos, IntLit(int64(len(s.lit))))
			continue
		}
		a := args[s.arg]
		if o, isO := a.(OpaqueV); isO && o.Dyn != nil {
			a = o.Dyn
		}
		switch av := a.(type) {
		case IntV:
			if s.verb == 'c' {
				// one byte for ASCII, 1..4 bytes otherwise
				w := Var(x.fresh("cw"), SInt)
				st.assumeRaw(Ite(And(Le(IntLit(0), av.T), Lt(av.T, IntLit(128))),
					And(Eq(w, IntLit(1)), Eq(x.strAt(r, pos), av.T)),
					And(Le(IntLit(1), w), Le(w, IntLit(4)), Ge(x.strAt(r, pos), IntLit(128)))))
				pos = Add(pos, w)
				continue
			}
			// %d: optional minus, then 1..19 digits whose value is |arg|
			n := Var(x.fresh("dw"), SInt)
			neg := Lt(av.T, IntLit(0))
			start := Ite(neg, Add(pos, IntLit(1)), pos)
			st.assumeRaw(And(Le(IntLit(1), n), Le(n, IntLit(20))))
			st.assumeRaw(Implies(neg, Eq(x.strAt(r, pos), IntLit('-'))))
			j := x.qvar("d")
			st.assumeRaw(Forall([]*Term{j}, Implies(And(Le(start, j), Lt(j, Add(start, n))), isDigit(x.strAt(r, j)))))
			view := StrV{Arr: r.Arr, Off: Add(r.Off, start), Len: n}
			if sf, ok := x.C.Specs["specDecVal"]; ok {
				env := &SpecEnv{x: x, st: st, vars: map[string]Value{}, bound: map[string]Value{}}
				dv := x.specApply(env, sf, []Value{view, IntV{n}}).(IntV).T
				abs := Ite(neg, Neg(av.T), av.T)
				st.assumeRaw(Eq(dv, abs))
				// every digit prefix of a decimal numeral denotes a value not above the whole numeral
				kq := x.qvar("k")
				pv := x.specApply(env, sf, []Value{view, IntV{kq}}).(IntV).T
				st.assumeRaw(Forall([]*Term{kq}, Implies(And(Le(IntLit(0), kq), Le(kq, n)), And(Le(IntLit(0), pv), Le(pv, abs)))))
			}
			pos = Add(start, n)
		case StrV:
			j := x.qvar("s")
			st.assumeRaw(Forall([]*Term{j}, Implies(And(Le(IntLit(0), j), Lt(j, av.Len)), Eq(x.strAt(r, Add(pos, j)), x.strAt(av, j)))))
			pos = Add(pos, av.Len)
		}
	}
	st.assumeRaw(Eq(r.Len, pos))
}
