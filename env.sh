# source me: offline Go environment for building govc and running replays
export GOFLAGS=-mod=mod GOPROXY=off
export GO126=/root/go/pkg/mod/golang.org/toolchain@v0.0.1-go1.26.0.linux-amd64/bin/go
